(* C03, data equivalence: the documents recorded by an open-loop checkpointed plan do not depend on how the
   RunEngine was scheduled, paused and resumed.

   Class of plans: any plan coalgebra state that yields a fixed message list [L] whatever it is sent
   ([follows]), where [L] is accepted by the reference semantics of Engine/PointSpec.v ([spec_docs L = Some SD]):
   open_run / close_run / checkpoint / stage / unstage and, between them, null / sleep / wait / set / trigger /
   create / read / save / drop in any order that an uninterrupted execution accepts; any number of points, any
   number of bundles and streams per point, any number of runs one after the other (the built-in count and scan
   plans, as the RunEngine sees them, are of this form: Proofs/RE_PointsEx2.v).
   Devices: never fail ([dev_typed]) and answer a `read` message with the value determined by that message
   ([reads_ok rdm], on the trace): checkpoint-local determinism as the engine sees it.
   Schedules: every [sched_ok] schedule -- the task is stepped when enabled, status objects complete
   successfully at any time, pause requests (hard or deferred) and suspension requests (no pre/post plans)
   arrive at ANY time and any number of times (accepted or refused, also during a replay, inside a command that
   waits on a future, while paused, in the final sleep, and while an earlier suspension keeps rewinding switched
   off: Proofs/RE_PointsEx3.v); suspensions are released at any time; resume() is called when the engine is paused.

   [c03_run_matches_reference]: when the call has finished, the events recorded are exactly the events of the
   reference run (as a set: an event re-emitted after an interruption carries the same run, stream, seq_num AND
   data), the documents that open and close runs (RunStart, RunStop with exit status, reason, num_events) are those of the
   reference run in the same order, and nothing failed.
   [c03_data_equivalence]: hence any two such executions -- in particular an interrupted and the uninterrupted
   one -- recorded the same (run, stream, seq_num) -> data map and the same RunStops.
   [c03_every_prefix_safe]: at every moment of such an execution only events of the reference run have been
   emitted, and nothing has failed. *)
From Coq Require Import List ZArith Bool.
From BV Require Import Engine.RE Engine.PointSpec Proofs.RE_PointsA Proofs.RE_PointsB Proofs.RE_PointsC Proofs.RE_PointsD.
Import ListNotations.

Lemma ty_dev_typed ledger : dev_typed nat (ty_dev ledger).
Proof.
  intros d x. unfold ty_dev. destruct (match nth_error ledger d with Some r => r | None => DUnit end) as [z|sid ok|e|];
    repeat split; try (do 3 eexists; reflexivity); try (do 2 eexists; reflexivity); intros e0; cbn; discriminate.
Qed.

Lemma stops_of_rundocs o : stops o = doc_stops (rundocs o).
Proof.
  induction o as [|x o IH]; [reflexivity|]. destruct x; try exact IH. destruct d; cbn; try exact IH; unfold stops, rundocs in IH; rewrite IH; reflexivity.
Qed.
Lemma doc_stops_of_rundocs l : doc_stops (doc_rundocs l) = doc_stops l.
Proof. induction l as [|d l IH]; [reflexivity|]. destruct d; cbn; try exact IH; unfold doc_stops, doc_rundocs in IH; rewrite IH; reflexivity. Qed.

Section Statements.
Variable P : Type.
Variable presume : P -> input -> outcome P.
Variable plan_of : nat -> P.
Variable rk : nat.
Variable rdm : msg -> Z.
Variable rv : val.
Variable pid : nat.
Variable L : list msg.
Variable SD : list doc.
Hypothesis Hspec : spec_docs rk rdm L = Some SD.
Hypothesis Hfol : follows P presume rv L (plan_of pid).

Lemma spec_docs_arun : exists afin, arun rk rdm a_init L = Some (afin, SD) /\ a_run afin = None.
Proof.
  unfold spec_docs in Hspec. destruct (arun rk rdm a_init L) as [[a d]|]; [|discriminate].
  destruct (a_run a) eqn:E; [discriminate|]. injection Hspec as <-. exists a. auto.
Qed.

Section World.
Variable D : Type.
Variable dev : D -> nat -> devmeth -> D * devres.
Hypothesis Hdev : dev_typed D dev.
Variable d : D.
Variables paus stag : list nat.
Variable evs : list event.

Let s0 := fst (step P presume plan_of D dev (init P D d paus stag false) (EvMain (ACall pid))).
Let r := run P presume plan_of D dev (init P D d paus stag false) (EvMain (ACall pid) :: evs).

Theorem c03_run_matches_reference :
  sched_ok P presume plan_of D dev s0 evs = true -> reads_ok rdm None (snd r) = true -> finished P D (fst r) = true ->
  (forall x, In x (final_events (snd r)) <-> In x (doc_events SD)) /\ rundocs (snd r) = doc_rundocs SD /\
  stops (snd r) = doc_stops SD /\ no_raise (snd r) = true.
Proof.
  intros Hs Hr Hf. destruct spec_docs_arun as (afin & HL & Hfin).
  destruct (call_complete P presume plan_of D dev rk rdm rv pid L afin SD HL Hfin Hdev Hfol d paus stag evs Hs Hr Hf)
    as (D1 & D2 & D3 & D4).
  split; [intros x; split; [apply D1 | apply D2]|]. split; [exact D3|]. split; [|exact D4].
  rewrite stops_of_rundocs. unfold call_run in D3. subst r. rewrite D3. apply doc_stops_of_rundocs.
Qed.

Theorem c03_every_prefix_safe :
  sched_ok P presume plan_of D dev s0 evs = true -> reads_ok rdm None (snd r) = true ->
  (forall x, In x (final_events (snd r)) -> In x (doc_events SD)) /\ no_raise (snd r) = true.
Proof.
  intros Hs Hr. destruct spec_docs_arun as (afin & HL & Hfin).
  exact (call_safe P presume plan_of D dev rk rdm rv pid L afin SD HL Hfin Hdev Hfol d paus stag evs Hs Hr).
Qed.
End World.
End Statements.

(* two executions of the same plan, possibly in different device worlds, under any two well-formed schedules *)
Theorem c03_data_equivalence
  (P : Type) (presume : P -> input -> outcome P) (plan_of : nat -> P) (rk : nat) (rdm : msg -> Z) (rv : val) (pid : nat)
  (L : list msg) (SD : list doc)
  (D1 : Type) (dev1 : D1 -> nat -> devmeth -> D1 * devres) (d1 : D1) (paus1 stag1 : list nat) (evs1 : list event)
  (D2 : Type) (dev2 : D2 -> nat -> devmeth -> D2 * devres) (d2 : D2) (paus2 stag2 : list nat) (evs2 : list event) :
  spec_docs rk rdm L = Some SD -> follows P presume rv L (plan_of pid) ->
  dev_typed D1 dev1 -> dev_typed D2 dev2 ->
  let r1 := run P presume plan_of D1 dev1 (init P D1 d1 paus1 stag1 false) (EvMain (ACall pid) :: evs1) in
  let r2 := run P presume plan_of D2 dev2 (init P D2 d2 paus2 stag2 false) (EvMain (ACall pid) :: evs2) in
  sched_ok P presume plan_of D1 dev1 (fst (step P presume plan_of D1 dev1 (init P D1 d1 paus1 stag1 false) (EvMain (ACall pid)))) evs1 = true ->
  sched_ok P presume plan_of D2 dev2 (fst (step P presume plan_of D2 dev2 (init P D2 d2 paus2 stag2 false) (EvMain (ACall pid)))) evs2 = true ->
  reads_ok rdm None (snd r1) = true -> reads_ok rdm None (snd r2) = true ->
  finished P D1 (fst r1) = true -> finished P D2 (fst r2) = true ->
  (forall x, In x (final_events (snd r1)) <-> In x (final_events (snd r2))) /\
  rundocs (snd r1) = rundocs (snd r2) /\ stops (snd r1) = stops (snd r2) /\ no_raise (snd r1) = true /\ no_raise (snd r2) = true.
Proof.
  intros Hspec Hfol Hd1 Hd2 r1 r2 Hs1 Hs2 Hr1 Hr2 Hf1 Hf2.
  destruct (c03_run_matches_reference P presume plan_of rk rdm rv pid L SD Hspec Hfol D1 dev1 Hd1 d1 paus1 stag1 evs1 Hs1 Hr1 Hf1)
    as (A1 & A2 & A2' & A3).
  destruct (c03_run_matches_reference P presume plan_of rk rdm rv pid L SD Hspec Hfol D2 dev2 Hd2 d2 paus2 stag2 evs2 Hs2 Hr2 Hf2)
    as (B1 & B2 & B2' & B3).
  split; [intros x; subst r1 r2; split; intros H; [apply B1, A1, H | apply A1, B1, H]|].
  split; [subst r1 r2; rewrite A2, B2; reflexivity|]. split; [subst r1 r2; rewrite A2', B2'; reflexivity | split; assumption].
Qed.
