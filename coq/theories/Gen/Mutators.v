(* Gen/Mutators.v -- bluesky.preprocessors.plan_mutator / msg_mutator as explicit stack machines
   over plan coalgebras.  MODEL ONLY (no proofs).

   The machines mirror the source's local state field by field (preprocessors.py 77-227):
     msgs_seen, plan_stack, result_stack, tail_cache, tail_result_cache, exception, ret, ret_value.
   Object identity: every generator that ever sits on plan_stack carries a nat id -- the host plan
   is 0, generators returned by msg_proc get fresh ids (head = next_id, tail = next_id+1) -- and
   messages are their nat ids.  (CPython may reuse the id() of a collected generator; that is not
   modelled: ids are never reused here and the tie keeps every generator alive.)

   INTERFACE  (Section variables: P, resume : P -> input -> outcome P, a processor state type PS)
     pent P                      what sits on plan_stack: EPlan p | single_gen(msg) before/after its yield
     ent_resume                  the coalgebra on pent P
     pm_proc PS P := PS -> msg -> PS * option P * option P       msg_proc (may keep state, e.g. counters)
     pm_state                    PMStart (created, not started) | PMRun (suspended at `yield msg`)
     pm_init p s0                plan_mutator(p, msg_proc) just created
     pm_lresume proc fixed fuel  (fixed : bool = with/without the C21-a repair, see below)
                                 logged coalgebra: pm_state -> input -> outcome pm_state * list call
                                 (calls: Call id input = plan_stack generator `id` was resumed with it)
     pm_resume proc fixed fuel   fst of it
     id_proc                     the processor returning (None, None)
     mm_state / mm_init / mm_lresume mproc fuel / mm_resume      msg_mutator, mproc : msg -> option msg
   [fuel] bounds the number of `continue` iterations of the while loop between two yields (and the
   number of consecutive deleted messages in msg_mutator); running out answers OutOfFuel.
   Machine states that the code cannot reach (empty plan_stack at the loop head, empty result_stack at
   the pop) are IndexErrors in Python; they answer OutOfFuel here and the theorems exclude them. *)
From BV Require Import Base.Prelude Gen.Coalg.

Inductive pent (P : Type) :=
  | EPlan (p : P)
  | ESingle0 (m : msg)        (* single_gen(msg), not started *)
  | ESingle1.                 (* single_gen(msg), suspended at its only yield *)
Arguments EPlan {P} p.
Arguments ESingle0 {P} m.
Arguments ESingle1 {P}.

Fixpoint assoc_get {A} (k : nat) (l : list (nat * A)) : option A :=
  match l with
  | [] => None
  | (k', v) :: r => if Nat.eqb k k' then Some v else assoc_get k r
  end.

Fixpoint assoc_del {A} (k : nat) (l : list (nat * A)) : list (nat * A) :=
  match l with
  | [] => []
  | (k', v) :: r => if Nat.eqb k k' then r else (k', v) :: assoc_del k r
  end.

Definition assoc_set {A} (k : nat) (v : A) (l : list (nat * A)) : list (nat * A) :=
  (k, v) :: assoc_del k l.

Definition mem_nat (k : nat) (l : list nat) : bool := existsb (Nat.eqb k) l.

Section Mutators.
  Context {P : Type}.
  Variable resume : P -> input -> outcome P.

  Definition ent_resume (x : pent P) (i : input) : outcome (pent P) :=
    match x with
    | EPlan p => map_outcome EPlan (resume p i)
    | ESingle0 m =>
        match i with
        | Send VNone => Yielded m ESingle1
        | Send _ => Raised ETypeError
        | Throw e => Raised e
        | Close => Raised EGeneratorExit
        end
    | ESingle1 =>
        match i with
        | Send v => Returned v
        | Throw e => Raised e
        | Close => Raised EGeneratorExit
        end
    end.

  Context {PS : Type}.
  Definition pm_proc := PS -> msg -> PS * option P * option P.
  Variable proc : pm_proc.
  (* [fixed = true]: the code with fixes/C21-a.diff applied (the throw path's StopIteration branch clears
     `exception` and resets `ret`); [fixed = false]: the code before that repair *)
  Variable fixed : bool.

  Record pm_run := mkPM {
    msgs_seen : list msg;
    plan_stack : list (nat * pent P);                        (* head = top = plan_stack[-1] *)
    result_stack : list val;                                 (* head = top *)
    tail_cache : list (nat * option (nat * pent P));         (* id(new_gen) -> tail_gen *)
    tail_result_cache : list (nat * val);                    (* id(tail_gen) -> saved result *)
    exception : option exn;
    ret : val;
    ret_value : val;
    next_id : nat;
    pstate : PS
  }.

  Inductive pm_state :=
    | PMStart (p : P) (s0 : PS)
    | PMRun (st : pm_run) (m : msg).      (* suspended at `inner_ret = yield msg` *)

  Definition pm_init (p : P) (s0 : PS) : pm_state := PMStart p s0.

  Inductive iter_res :=
    | ICont (st : pm_run) (calls : list call)
    | IOut (o : outcome pm_state) (calls : list call).

  (* lines 97-125 / 142-170: the StopIteration branch shared by both paths.
     [st] already has the exhausted generator popped; [rv] is the local `ret` at that point and
     [exc'] the value of `exception` after the branch. *)
  Definition stop_iteration (st : pm_run) (exc' : option exn) (gid : nat) (v : val) (rv : val) (calls : list call) : iter_res :=
    let ret_value' := if Nat.eqb gid 0 then v else ret_value st in
    let '(ret', trc) :=
      match assoc_get gid (tail_result_cache st) with
      | Some r => (r, assoc_del gid (tail_result_cache st))
      | None => (rv, tail_result_cache st)
      end in
    let rs := ret' :: result_stack st in
    let '(ps, rs', tc, trc') :=
      match assoc_get gid (tail_cache st) with
      | Some g =>
          let tc := assoc_del gid (tail_cache st) in
          match g with
          | Some (tid, tp) =>
              (* push the tail, move the saved result into tail_result_cache, prime with None *)
              ((tid, tp) :: plan_stack st, VNone :: result_stack st, tc, assoc_set tid ret' trc)
          | None => (plan_stack st, rs, tc, trc)
          end
      | None => (plan_stack st, rs, tail_cache st, trc)
      end in
    let st' := mkPM (msgs_seen st) ps rs' tc trc' exc' ret' ret_value' (next_id st) (pstate st) in
    match ps with
    | [] => IOut (Returned ret_value') calls
    | _ => ICont st' calls
    end.

  (* lines 192-227: a message arrived from the top of the stack *)
  Definition process_msg (st : pm_run) (m : msg) (calls : list call) : iter_res :=
    if mem_nat m (msgs_seen st) then IOut (Yielded m (PMRun st m)) calls
    else
      let seen := m :: msgs_seen st in
      let '(s', new_gen, tail_gen) := proc (pstate st) m in
      let n := next_id st in
      let new_gen' :=
        match new_gen, tail_gen with
        | None, Some _ => Some (ESingle0 m)
        | None, None => None
        | Some g, _ => Some (EPlan g)
        end in
      match new_gen' with
      | Some g =>
          ICont (mkPM seen ((n, g) :: plan_stack st) (VNone :: result_stack st)
                      (assoc_set n (option_map (fun t => (S n, EPlan t)) tail_gen) (tail_cache st))
                      (tail_result_cache st) (exception st) (ret st) (ret_value st) (S (S n)) s') calls
      | None =>
          let st' := mkPM seen (plan_stack st) (result_stack st) (tail_cache st) (tail_result_cache st)
                          (exception st) (ret st) (ret_value st) n s' in
          IOut (Yielded m (PMRun st' m)) calls
      end.

  Definition set_top (st : pm_run) (gid : nat) (p' : pent P) (rest : list (nat * pent P))
             (exc : option exn) (rs : list val) (rv : val) : pm_run :=
    mkPM (msgs_seen st) ((gid, p') :: rest) rs (tail_cache st) (tail_result_cache st) exc rv
         (ret_value st) (next_id st) (pstate st).

  Definition pop_top (st : pm_run) (rest : list (nat * pent P)) (rs : list val) (rv : val) : pm_run :=
    mkPM (msgs_seen st) rest rs (tail_cache st) (tail_result_cache st) (exception st) rv
         (ret_value st) (next_id st) (pstate st).

  (* one iteration of `while True:` (lines 91-209) *)
  Definition pm_iter (st : pm_run) : iter_res :=
    match plan_stack st with
    | [] => IOut OutOfFuel []
    | (gid, p) :: rest =>
        match exception st with
        | Some ex =>
            let calls := [Call gid (Throw ex)] in
            match ent_resume p (Throw ex) with
            | Returned v =>
                if fixed then stop_iteration (pop_top st rest (result_stack st) VNone) None gid v VNone calls
                else stop_iteration (pop_top st rest (result_stack st) (ret st)) (Some ex) gid v (ret st) calls
            | Raised e =>
                if is_Exception e then
                  match rest with
                  | [] => IOut (Raised e) calls
                  | _ => ICont (mkPM (msgs_seen st) rest (result_stack st) (tail_cache st) (tail_result_cache st)
                                     (Some e) (ret st) (ret_value st) (next_id st) (pstate st)) calls
                  end
                else IOut (Raised e) calls
            | Yielded m p' => process_msg (set_top st gid p' rest None (result_stack st) (ret st)) m calls
            | OutOfFuel => IOut OutOfFuel calls
            end
        | None =>
            match result_stack st with
            | [] => IOut OutOfFuel []
            | rv :: rs =>
                let calls := [Call gid (Send rv)] in
                match ent_resume p (Send rv) with
                | Returned v => stop_iteration (pop_top st rest rs rv) None gid v rv calls
                | Raised e =>
                    if is_Exception e then
                      let '(ps, tc) :=
                        match assoc_get gid (tail_cache st) with
                        | Some g =>
                            (match g with Some t => t :: rest | None => rest end, assoc_del gid (tail_cache st))
                        | None => (rest, tail_cache st)
                        end in
                      match ps with
                      | [] => IOut (Raised e) calls
                      | _ => ICont (mkPM (msgs_seen st) ps rs tc (tail_result_cache st) (Some e) rv
                                         (ret_value st) (next_id st) (pstate st)) calls
                      end
                    else IOut (Raised e) calls
                | Yielded m p' => process_msg (set_top st gid p' rest None rs rv) m calls
                | OutOfFuel => IOut OutOfFuel calls
                end
            end
        end
    end.

  Fixpoint pm_loop (fuel : nat) (st : pm_run) (log : list call) : outcome pm_state * list call :=
    match fuel with
    | O => (OutOfFuel, log)
    | S f =>
        match pm_iter st with
        | ICont st' calls => pm_loop f st' (log ++ calls)
        | IOut o calls => (o, log ++ calls)
        end
    end.

  (* lines 214-219: `for p in plan_stack: p.close()` -- deque order, i.e. bottom (host) first *)
  Fixpoint close_all (l : list (nat * pent P)) (log : list call) : option exn * bool * list call :=
    (* (exception that escaped a close(), ran out of fuel, calls) *)
    match l with
    | [] => (None, false, log)
    | (gid, p) :: r =>
        match close_result (ent_resume p Close) with
        | CloseOk => close_all r (log ++ [Call gid Close])
        | CloseRaised e => (Some e, false, log ++ [Call gid Close])
        | CloseFuel => (None, true, log ++ [Call gid Close])
        end
    end.

  Definition pm_generator_exit (st : pm_run) (e : exn) : outcome pm_state * list call :=
    match close_all (rev (plan_stack st)) [] with
    | (_, true, calls) => (OutOfFuel, calls)
    | (Some e', false, calls) => (Raised e', calls)
    | (None, false, calls) => (Raised e, calls)           (* bare `raise` *)
    end.

  Definition pm_lresume (fuel : nat) (s : pm_state) (i : input) : outcome pm_state * list call :=
    match s with
    | PMStart p s0 =>
        match i with
        | Send VNone => pm_loop fuel (mkPM [] [(0, EPlan p)] [VNone] [] [] None VNone VNone 1 s0) []
        | Send _ => (Raised ETypeError, [])
        | Throw e => (Raised e, [])
        | Close => (Raised EGeneratorExit, [])
        end
    | PMRun st m =>
        match i with
        | Send v =>
            pm_loop fuel (mkPM (msgs_seen st) (plan_stack st) (v :: result_stack st) (tail_cache st)
                               (tail_result_cache st) (exception st) (ret st) (ret_value st) (next_id st)
                               (pstate st)) []
        | Throw e =>
            if is_GeneratorExit e then pm_generator_exit st e
            else if is_Exception e then
              match plan_stack st with
              | [] => (Raised e, [])
              | _ => pm_loop fuel (mkPM (msgs_seen st) (plan_stack st) (result_stack st) (tail_cache st)
                                        (tail_result_cache st) (Some e) (ret st) (ret_value st) (next_id st)
                                        (pstate st)) []
              end
            else (Raised e, [])                           (* not caught by either except clause *)
        | Close => pm_generator_exit st EGeneratorExit
        end
    end.

  Definition pm_resume (fuel : nat) (s : pm_state) (i : input) : outcome pm_state :=
    fst (pm_lresume fuel s i).
End Mutators.

Definition id_proc {P} : @pm_proc P unit := fun s _ => (s, None, None).

(* ------------------------------------------------------------------ msg_mutator (lines 230-283) *)
Section MsgMutator.
  Context {P : Type}.
  Variable resume : P -> input -> outcome P.
  Variable mproc : msg -> option msg.

  Inductive mm_state :=
    | MMStart (p : P)
    | MMRun (p : P).            (* suspended at `_s = yield msg` *)

  Definition mm_init (p : P) : mm_state := MMStart p.

  (* a message arrived from the plan: apply msg_proc; a deleted message feeds None back *)
  Fixpoint mm_msg (fuel : nat) (p : P) (m : msg) (log : list call) : outcome mm_state * list call :=
    match mproc m with
    | Some m' => (Yielded m' (MMRun p), log)
    | None =>
        match fuel with
        | O => (OutOfFuel, log)
        | S f =>
            let log' := log ++ [Call 0 (Send VNone)] in
            match resume p (Send VNone) with
            | Yielded m2 p2 => mm_msg f p2 m2 log'
            | Returned v => (Returned v, log')
            | Raised e => (Raised e, log')
            | OutOfFuel => (OutOfFuel, log')
            end
        end
    end.

  Definition mm_after (fuel : nat) (o : outcome P) (log : list call) : outcome mm_state * list call :=
    match o with
    | Yielded m p' => mm_msg fuel p' m log
    | Returned v => (Returned v, log)
    | Raised e => (Raised e, log)
    | OutOfFuel => (OutOfFuel, log)
    end.

  Definition mm_generator_exit (p : P) (e : exn) : outcome mm_state * list call :=
    match close_result (resume p Close) with
    | CloseOk => (Raised e, [Call 0 Close])
    | CloseRaised e' => (Raised e', [Call 0 Close])
    | CloseFuel => (OutOfFuel, [Call 0 Close])
    end.

  Definition mm_lresume (fuel : nat) (s : mm_state) (i : input) : outcome mm_state * list call :=
    match s with
    | MMStart p =>
        match i with
        | Send VNone => mm_after fuel (resume p (Send VNone)) [Call 0 (Send VNone)]
        | Send _ => (Raised ETypeError, [])
        | Throw e => (Raised e, [])
        | Close => (Raised EGeneratorExit, [])
        end
    | MMRun p =>
        match i with
        | Send v => mm_after fuel (resume p (Send v)) [Call 0 (Send v)]
        | Throw e =>
            if is_GeneratorExit e then mm_generator_exit p e
            else mm_after fuel (resume p (Throw e)) [Call 0 (Throw e)]
        | Close => mm_generator_exit p EGeneratorExit
        end
    end.

  Definition mm_resume (fuel : nat) (s : mm_state) (i : input) : outcome mm_state :=
    fst (mm_lresume fuel s i).
End MsgMutator.

Definition id_mproc : msg -> option msg := fun m => Some m.
