(* Numeric code is written once over a record of operations.  The Q instance (here) carries the
   theorems; the binary64 instance (Base/FloatOps.v) is what the correspondence runs bit-exactly
   against numpy / Python floats.  No proofs in this file. *)
From Coq Require Import QArith List.

Record Ops (F : Type) : Type := mkOps {
  o_zero : F;
  o_add : F -> F -> F;
  o_sub : F -> F -> F;
  o_mul : F -> F -> F;
  o_div : F -> F -> F;
  o_of_nat : nat -> F;
  o_eqb : F -> F -> bool;      (* Python == on numbers *)
  o_ltb : F -> F -> bool       (* Python <  on numbers *)
}.
Arguments o_zero {F}. Arguments o_add {F}. Arguments o_sub {F}. Arguments o_mul {F}.
Arguments o_div {F}. Arguments o_of_nat {F}. Arguments o_eqb {F}. Arguments o_ltb {F}.

Definition QOps : Ops Q := {|
  o_zero := 0%Q;
  o_add := Qplus; o_sub := Qminus; o_mul := Qmult; o_div := Qdiv;
  o_of_nat := fun n => inject_Z (Z.of_nat n);
  o_eqb := Qeq_bool;
  o_ltb := fun x y => negb (Qle_bool y x)
|}.
