(* A state invariant of the RunEngine model (Engine/RE.v), for all plans, devices and schedules:
   pc/state typing, blocking discipline, the paused checkpoint, stack alignment, ghost
   bookkeeping of interruptions.  See the summary at the end of the file; witnesses and the
   axiom audit are in Proofs/RE_InvEx.v. *)
From Coq Require Import List String ZArith Bool Arith Lia.
From BV Require Import Engine.RE.
Import ListNotations.
Local Open Scope nat_scope.

(* ------------------------------------------------------------------ lifecycle table facts
   Every fact about the generated transition table used by this file is one of the lemmas of
   this block; all of them are closed computations on the 9 states. *)
Definition live_state (x : rstate) : bool :=
  match x with Running | Pausing | Suspending | Aborting | Stopping | Halting => true | _ => false end.
Definition term_state (x : rstate) : bool :=
  match x with Aborting | Stopping | Halting => true | _ => false end.

Lemma rstate_eqb_eq a b : rstate_eqb a b = true <-> a = b.
Proof. destruct a, b; vm_compute; split; intros H; try reflexivity; discriminate H. Qed.
Lemma rstate_eqb_neq a b : rstate_eqb a b = false <-> a <> b.
Proof. destruct a, b; vm_compute; split; intros H; try reflexivity; try discriminate H; try congruence;
  exfalso; apply H; reflexivity. Qed.
Lemma rstate_eqb_refl a : rstate_eqb a a = true.
Proof. apply rstate_eqb_eq; reflexivity. Qed.

Lemma allowed_to_idle a : live_state a = true \/ a = Paused -> allowed a Idle = true.
Proof. destruct a; vm_compute; intros [H|H]; try reflexivity; discriminate H. Qed.
Lemma allowed_from_idle b : allowed Idle b = true -> b = Running \/ b = Panicked.
Proof. destruct b; vm_compute; intros H; try discriminate H; auto. Qed.
Lemma allowed_idle_running : allowed Idle Running = true.
Proof. reflexivity. Qed.
Lemma allowed_paused_running : allowed Paused Running = true.
Proof. reflexivity. Qed.
Lemma allowed_pausing_only_from_running a : allowed a Pausing = true -> a = Running.
Proof. destruct a; vm_compute; intros H; try discriminate H; auto. Qed.
Lemma allowed_suspending_only_from_running a : allowed a Suspending = true -> a = Running.
Proof. destruct a; vm_compute; intros H; try discriminate H; auto. Qed.
Lemma allowed_paused_only_from_pausing a : allowed a Paused = true -> a = Pausing.
Proof. destruct a; vm_compute; intros H; try discriminate H; auto. Qed.
Lemma allowed_from_terminal a b : term_state a = true -> allowed a b = true -> b = Idle \/ b = Panicked.
Proof. destruct a; intros Ht; try discriminate Ht; destruct b; vm_compute; intros H; try discriminate H; auto. Qed.
Lemma allowed_never_from_panicked b : allowed Panicked b = false.
Proof. destruct b; reflexivity. Qed.

(* ------------------------------------------------------------------ small tactics *)
Ltac bm_hyp H :=
  match type of H with
  | context [match ?x with _ => _ end] => destruct x eqn:?
  end.

Ltac inv_pairs :=
  repeat match goal with
         | H : (_, _) = (_, _) |- _ => inversion H; subst; clear H
         | H : Some _ = Some _ |- _ => inversion H; subst; clear H
         end.

Definition ctl_exn (e : exn) : bool :=
  match e with ERequestStop | EFailedPause | ERequestAbort | ECancelled | EPlanHalt => true | _ => false end.

Definition normal_done (r : tres) : bool :=
  match r with TReturn _ | TRaise ECancelled => true | _ => false end.

Section Inv.
Variable P : Type.
Variable presume : P -> input -> outcome P.
Variable plan_of : nat -> P.
Variable D : Type.
Variable dev : D -> nat -> devmeth -> D * devres.

Local Notation st := (RE.st P D).
Local Notation state := (RE.state P D).
Local Notation pc := (RE.pc P D).
Local Notation must_cancel := (RE.must_cancel P D).
Local Notation permit := (RE.permit P D).
Local Notation blocking := (RE.blocking P D).
Local Notation plans := (RE.plans P D).
Local Notation resps := (RE.resps P D).
Local Notation cache := (RE.cache P D).
Local Notation stashed := (RE.stashed P D).
Local Notation interrupted := (RE.interrupted P D).
Local Notation bundlers := (RE.bundlers P D).
Local Notation icause := (RE.icause P D).
Local Notation late_pause := (RE.late_pause P D).
Local Notation intr_err := (RE.intr_err P D).
Local Notation resumable := (RE.resumable P D).
Local Notation set_state := (RE.set_state P D).
Local Notation dcall := (RE.dcall P D dev).
Local Notation stop_movables := (RE.stop_movables P D dev).
Local Notation call_pausables := (RE.call_pausables P D dev).
Local Notation record_interruptions := (RE.record_interruptions P D).
Local Notation request_pause := (RE.request_pause P D).
Local Notation request_pause_in_task := (RE.request_pause_in_task P D).
Local Notation exec_cmd := (RE.exec_cmd P D dev).
Local Notation exec_start_suspender := (RE.exec_start_suspender P plan_of D dev).
Local Notation finalize := (RE.finalize P presume D dev).
Local Notation drive := (RE.drive P presume plan_of D dev).
Local Notation task_step := (RE.task_step P presume plan_of D dev).
Local Notation step := (RE.step P presume plan_of D dev).
Local Notation run := (RE.run P presume plan_of D dev).
Local Notation init := (RE.init P D).

(* unfold setters / projections only *)
Ltac simp_st :=
  cbn [RE.state RE.pc RE.must_cancel RE.permit RE.blocking RE.task_set RE.plans RE.resps RE.cache RE.rewindable
       RE.exc_slot RE.stashed RE.interrupted RE.deferred RE.exit_status RE.reason RE.bundlers RE.staged RE.moved
       RE.pausables RE.stageables RE.seen RE.groups RE.statuses RE.failed_seen RE.futs RE.uid_supply RE.run_uids
       RE.record_intr RE.pardon RE.mreq RE.was_paused RE.main_err RE.exit_reason_set RE.icause RE.late_pause
       RE.intr_err RE.dst
       RE.upd RE.upd2 RE.set_ghost RE.set_main RE.set_mreq RE.set_ers RE.interrupt
       RE.set_state_raw RE.set_pc RE.set_must_cancel RE.set_permit RE.set_blocking RE.set_plans RE.set_resps
       RE.set_cache RE.set_rewindable RE.set_exc_slot RE.set_stashed RE.set_interrupted RE.set_deferred RE.set_exit
       RE.set_bundlers RE.set_staged RE.set_moved RE.set_seen RE.set_groups RE.set_statuses RE.set_futs RE.set_uids
       RE.set_pardon RE.set_dst RE.set_task_set RE.map_bundlers RE.put_bundler RE.push_frame RE.pop_plan
       RE.replace_top RE.resumable RE.add_status RE.clear_call] in *.

(* ------------------------------------------------------------------ frames: what helpers leave alone *)
(* the control fields *)
Definition same (s s' : st) : Prop :=
  state s' = state s /\ pc s' = pc s /\ must_cancel s' = must_cancel s /\ permit s' = permit s /\
  blocking s' = blocking s /\ plans s' = plans s /\ resps s' = resps s /\ stashed s' = stashed s /\
  interrupted s' = interrupted s /\ icause s' = icause s /\ late_pause s' = late_pause s /\
  intr_err s' = intr_err s.
(* ... and the checkpoint *)
Definition samec (s s' : st) : Prop := same s s' /\ cache s' = cache s.
(* ... and the open runs *)
Definition samecb (s s' : st) : Prop := samec s s' /\ bundlers s' = bundlers s.

Lemma same_refl s : same s s.
Proof. unfold same; repeat split; reflexivity. Qed.
Lemma same_trans s1 s2 s3 : same s1 s2 -> same s2 s3 -> same s1 s3.
Proof. unfold same; intros H1 H2; decompose [and] H1; decompose [and] H2; repeat split; congruence. Qed.
Lemma samec_refl s : samec s s.
Proof. split; [apply same_refl | reflexivity]. Qed.
Lemma samec_trans s1 s2 s3 : samec s1 s2 -> samec s2 s3 -> samec s1 s3.
Proof. intros [A1 B1] [A2 B2]; split; [eapply same_trans; eassumption | congruence]. Qed.
Lemma samecb_refl s : samecb s s.
Proof. split; [apply samec_refl | reflexivity]. Qed.
Lemma samecb_trans s1 s2 s3 : samecb s1 s2 -> samecb s2 s3 -> samecb s1 s3.
Proof. intros [A1 B1] [A2 B2]; split; [eapply samec_trans; eassumption | congruence]. Qed.

Ltac same_tac := unfold samecb, samec, same; simp_st; repeat split; reflexivity.

Lemma dcall_same s d m s' r o : dcall s d m = (s', r, o) -> samecb s s'.
Proof. unfold RE.dcall. destruct (dev _ _ _). intros H; inversion H; subst. same_tac. Qed.

Lemma stop_movables_same s s' o : stop_movables s = (s', o) -> samecb s s'.
Proof.
  unfold RE.stop_movables.
  assert (G : forall l (s0 : st) o0 s1 o1,
             fold_left (fun acc d => let '(s0, os) := acc in
                                     let '(s1, _, o) := dcall s0 d MStop in (s1, os ++ o)) l (s0, o0) = (s1, o1) ->
             samecb s0 s1).
  { induction l as [|d l IH]; intros s0 o0 s1 o1 H; cbn in H.
    - inversion H; subst; apply samecb_refl.
    - destruct (dcall s0 d MStop) as [[sa ra] oa] eqn:E. apply IH in H. apply dcall_same in E.
      eapply samecb_trans; eassumption. }
  intros H. eapply G; exact H.
Qed.

(* when a pausable hook raises, it is a device result *)
Definition hook_raises (m : devmeth) (x : exn) : Prop := exists ds d, snd (dev ds d m) = DRaise x.

Lemma call_pausables_same s m s' e o :
  call_pausables s m = (s', e, o) -> samecb s s' /\ (forall x, e = Some x -> hook_raises m x).
Proof.
  unfold RE.call_pausables.
  assert (G : forall l (s0 : st) e0 o0 s1 e1 o1,
             fold_left (fun acc d =>
               let '(s0, e, os) := acc in
               match e with
               | Some _ => acc
               | None => if mem_nat d (RE.seen P D s0)
                         then let '(s1, r, o) := dcall s0 d m in
                              (s1, match r with DRaise x => Some x | _ => None end, os ++ o)
                         else acc
               end) l (s0, e0, o0) = (s1, e1, o1) ->
             samecb s0 s1 /\ (forall x, e1 = Some x -> e0 = Some x \/ hook_raises m x)).
  { induction l as [|d l IH]; intros s0 e0 o0 s1 e1 o1 H; cbn in H.
    - inversion H; subst; split; [apply samecb_refl | auto].
    - destruct e0.
      + apply IH in H. exact H.
      + destruct (mem_nat d (RE.seen P D s0)).
        * destruct (dcall s0 d m) as [[sa ra] oa] eqn:E.
          apply IH in H. destruct H as [H1 H2]. split.
          -- apply dcall_same in E. eapply samecb_trans; eassumption.
          -- intros x Hx. right. destruct (H2 x Hx) as [H3|H3]; [|exact H3].
             unfold RE.dcall in E. destruct (dev (RE.dst P D s0) d m) as [d' r'] eqn:Ed.
             exists (RE.dst P D s0), d. rewrite Ed. cbn.
             inversion E; subst ra. destruct r'; try discriminate H3. inversion H3; subst; reflexivity.
        * apply IH in H. exact H. }
  intros H. apply G in H. destruct H as [H1 H2]. split; [exact H1|].
  intros x Hx. destruct (H2 x Hx) as [H3|H3]; [discriminate H3 | exact H3].
Qed.

Lemma record_interruptions_same s s' o ok : record_interruptions s = (s', o, ok) -> samec s s'.
Proof.
  unfold RE.record_interruptions. destruct (record_intr_list (bundlers s)) as [[bs os] ok0].
  intros H; inversion H; subst. same_tac.
Qed.

Lemma reset_checkpoint_same s : same s (RE.reset_checkpoint P D s) /\ resumable (RE.reset_checkpoint P D s) = resumable s.
Proof. unfold RE.reset_checkpoint, RE.resumable. destruct (cache s) eqn:E; simp_st; [|rewrite E]; split; try reflexivity; same_tac. Qed.

Lemma rewind_same s s' l : RE.rewind P D s = (s', l) -> same s s' /\ resumable s' = resumable s.
Proof.
  unfold RE.rewind, RE.resumable. destruct (cache s) as [l0|] eqn:E;
    [destruct (Nat.eqb (List.length l0) 0)|]; intros H; inversion H; subst.
  - simp_st; split; try reflexivity; same_tac.
  - simp_st; split; try reflexivity; same_tac.
  - rewrite E. split; [apply same_refl | reflexivity].
Qed.

Lemma finish_read_same s run d z o0 s' c o : RE.finish_read P D s run d z o0 = (s', c, o) -> samec s s'.
Proof.
  unfold RE.finish_read, RE.get_bundler. repeat (let H := fresh in intros H; bm_hyp H; revert H);
    intros H; inversion H; subst; same_tac.
Qed.

Lemma mark_cached_same s run d : samec s (RE.mark_cached P D s run d).
Proof. unfold RE.mark_cached, RE.get_bundler. destruct (alookup run (bundlers s)); same_tac. Qed.

Lemma cancel_task_spec s :
  state (RE.cancel_task P D s) = state s /\ pc (RE.cancel_task P D s) = pc s /\
  must_cancel (RE.cancel_task P D s) = match pc s with PcNone | PcDone _ => must_cancel s | _ => true end /\
  permit (RE.cancel_task P D s) = permit s /\ blocking (RE.cancel_task P D s) = blocking s /\
  plans (RE.cancel_task P D s) = plans s /\ resps (RE.cancel_task P D s) = resps s /\
  stashed (RE.cancel_task P D s) = stashed s /\ interrupted (RE.cancel_task P D s) = interrupted s /\
  icause (RE.cancel_task P D s) = icause s /\ late_pause (RE.cancel_task P D s) = late_pause s /\
  intr_err (RE.cancel_task P D s) = intr_err s /\ cache (RE.cancel_task P D s) = cache s /\
  bundlers (RE.cancel_task P D s) = bundlers s.
Proof. unfold RE.cancel_task. destruct (pc s) eqn:E; simp_st; rewrite ?E; repeat split; reflexivity. Qed.

(* ------------------------------------------------------------------ frame tactics *)
Ltac frames :=
  repeat match goal with
         | H : dcall _ _ _ = _ |- _ => apply dcall_same in H
         | H : stop_movables _ = _ |- _ => apply stop_movables_same in H
         | H : call_pausables _ _ = _ |- _ =>
             let H2 := fresh "Hhook" in apply call_pausables_same in H; destruct H as [H H2]
         | H : record_interruptions _ = _ |- _ => apply record_interruptions_same in H
         | H : RE.rewind _ _ _ = _ |- _ =>
             let H2 := fresh "Hres" in apply rewind_same in H; destruct H as [H H2]
         | H : RE.finish_read _ _ _ _ _ _ _ = _ |- _ => apply finish_read_same in H
         | |- context [RE.reset_checkpoint P D ?x] =>
             let H1 := fresh "Hrc" in let H2 := fresh "Hrcr" in
             destruct (reset_checkpoint_same x) as [H1 H2];
             generalize dependent (RE.reset_checkpoint P D x); intros
         | H : context [RE.cancel_task P D ?x] |- _ =>
             let H1 := fresh "Hct" in
             pose proof (cancel_task_spec x) as H1;
             generalize dependent (RE.cancel_task P D x); intros
         | |- context [RE.mark_cached P D ?x ?r ?d] =>
             let H1 := fresh "Hmc" in
             pose proof (mark_cached_same x r d) as H1;
             generalize dependent (RE.mark_cached P D x r d); intros
         end.

Ltac split_ands :=
  repeat match goal with H : _ /\ _ |- _ => destruct H end.

Ltac same_finish :=
  unfold samecb, samec, same, RE.resumable in *; simp_st; split_ands; repeat split; congruence.

(* ------------------------------------------------------------------ request_pause *)
Definition pause_acc (s s' : st) (e : option exn) : Prop :=
  state s = Running /\ state s' = Pausing /\ pc s' = pc s /\ permit s' = permit s /\ blocking s' = blocking s /\
  plans s' = plans s /\ resps s' = resps s /\ stashed s' = stashed s /\ cache s' = cache s /\
  interrupted s' = true /\ icause s' = Some CzPause /\
  late_pause s' = (match pc s with PcFinalSleep _ => true | _ => late_pause s end) /\
  ((e = None /\ intr_err s' = intr_err s /\
    must_cancel s' = match pc s with PcNone | PcDone _ => must_cancel s | _ => true end)
   \/ (e = Some EOther /\ intr_err s' = true /\ must_cancel s' = must_cancel s)).

Lemma request_pause_spec s d s' e o :
  request_pause s d = (s', e, o) -> samecb s s' \/ pause_acc s s' e.
Proof.
  unfold RE.request_pause. destruct (allowed (state s) Pausing) eqn:Ea; cbn [negb].
  2:{ intros H; inversion H; subst; left; apply samecb_refl. }
  destruct d.
  { intros H; inversion H; subst; left; same_tac. }
  pose proof (allowed_pausing_only_from_running _ Ea) as Est.
  unfold RE.set_state, RE.cancel_task, pause_acc.
  simp_st; destruct (pc s) eqn:Epc; simp_st; rewrite Ea;
  match goal with |- context [record_interruptions ?x] => destruct (record_interruptions x) as [[s3 o2] ok] eqn:Er end;
  apply record_interruptions_same in Er; unfold samec, same in Er; simp_st; split_ands;
  (destruct ok; intros Hrp; inversion Hrp; subst; right; simp_st;
   repeat match goal with H : pc ?x = _ |- _ => rewrite H end; simp_st;
   [ repeat split; try congruence; left; repeat split; congruence
   | repeat split; try congruence; right; repeat split; congruence ]).
Qed.

(* the 'pause' message, processed inside the task: without a checkpoint in effect the task is not cancelled (repair C10-a) *)
Definition pause_acc_nc (s s' : st) (e : option exn) : Prop :=
  state s = Running /\ state s' = Pausing /\ pc s' = pc s /\ permit s' = permit s /\ blocking s' = blocking s /\
  plans s' = plans s /\ resps s' = resps s /\ stashed s' = stashed s /\ cache s' = cache s /\
  interrupted s' = true /\ icause s' = Some CzPause /\
  late_pause s' = (match pc s with PcFinalSleep _ => true | _ => late_pause s end) /\
  must_cancel s' = must_cancel s /\
  ((e = None /\ intr_err s' = intr_err s) \/ (e = Some EOther /\ intr_err s' = true)).

Definition pause_acc_t (s s' : st) (e : option exn) : Prop :=
  (resumable s = true /\ pause_acc s s' e) \/ (resumable s = false /\ pause_acc_nc s s' e).

Lemma request_pause_in_task_spec s d s' e o :
  request_pause_in_task s d = (s', e, o) -> samecb s s' \/ pause_acc_t s s' e.
Proof.
  unfold RE.request_pause_in_task. destruct (request_pause s d) as [[s1 e1] o1] eqn:Erp.
  apply request_pause_spec in Erp. unfold pause_acc_t.
  destruct (resumable s) eqn:Er; intros H; inversion H; subst; clear H.
  - destruct Erp as [Erp|Erp]; [left; exact Erp | right; left; split; [reflexivity | exact Erp]].
  - destruct Erp as [Erp|Erp].
    + left. unfold samecb, samec, same in *; simp_st; split_ands; repeat split; congruence.
    + right; right. split; [reflexivity|]. unfold pause_acc, pause_acc_nc in *. simp_st. split_ands.
      repeat split; try assumption; try reflexivity.
      match goal with Hx : _ \/ _ |- _ => destruct Hx as [(A & B & _)|(A & B & _)]; [left | right]; split; assumption end.
Qed.

(* ------------------------------------------------------------------ exec_cmd *)
Lemma exec_cmd_same s m s' c o :
  (forall d, mcmd m <> CPause d) -> exec_cmd s m = (s', c, o) -> same s s'.
Proof.
  intros Hnp. unfold RE.exec_cmd, RE.get_bundler. destruct (mcmd m) eqn:Ec;
    try (exfalso; eapply Hnp; reflexivity);
    repeat (let H := fresh in intros H; bm_hyp H; revert H); intros H; inversion H; subst; clear H;
    frames; try same_finish.
  all: repeat match goal with
              | H : (if ?c then _ else _) = _ |- _ => destruct c; inversion H; subst; clear H
              end; frames; try same_finish.
Qed.

Lemma exec_cmd_pause s m d s' c o :
  mcmd m = CPause d -> exec_cmd s m = (s', c, o) ->
  exists e o', request_pause_in_task s d = (s', e, o') /\ exists r, c = Done r.
Proof.
  intros Hc. unfold RE.exec_cmd. rewrite Hc.
  destruct (request_pause_in_task s d) as [[s1 e] o1] eqn:E. intros H; inversion H; subst.
  exists e, o. split; [reflexivity | eexists; reflexivity].
Qed.

Lemma exec_start_suspender_spec s sid pre post s' c o :
  exec_start_suspender s sid pre post = (s', c, o) ->
  (exists r, c = Done r) /\ (same s s' \/ exists f, same (RE.push_frame P D s f) s').
Proof.
  unfold RE.exec_start_suspender.
  repeat (let H := fresh in intros H; bm_hyp H; revert H); intros H; inversion H; subst; clear H;
    (split; [eexists; reflexivity|]); frames; try (left; same_finish).
  all: right; match goal with |- exists f, same _ (RE.push_frame _ _ _ ?h) => exists h end; same_finish.
Qed.

(* ------------------------------------------------------------------ finalize *)
Definition final_res (s : st) (r : tres) (pend : option exn) : tres :=
  match pend with
  | Some e => TRaise e
  | None => match stashed s with Some ECancelled => TRaise ECancelled | _ => r end
  end.

Lemma unstage_fold_same : forall l (s0 : st) o0 s1 o1,
  fold_left (fun acc d => let '(s0, os) := acc in
                          let '(sa, _, o) := dcall s0 d MUnstage in (sa, os ++ o)) l (s0, o0) = (s1, o1) ->
  samecb s0 s1.
Proof.
  induction l as [|d l IH]; intros s0 o0 s1 o1 H; cbn in H.
  - inversion H; subst; apply samecb_refl.
  - destruct (dcall s0 d MUnstage) as [[sa ra] oa] eqn:E. apply IH in H. apply dcall_same in E.
    eapply samecb_trans; eassumption.
Qed.

(* the cleanup of `_run` always brings the engine to idle: the finally block's
   `self._state = "idle"` is accepted from every state the task can be in *)
Lemma finalize_spec s r pend s' o :
  finalize s r pend = (s', o) -> allowed (state s) Idle = true ->
  state s' = Idle /\ bundlers s' = [] /\ blocking s' = true /\ pc s' = PcDone (final_res s r pend) /\
  must_cancel s' = must_cancel s /\ permit s' = permit s /\ plans s' = plans s /\ resps s' = resps s /\
  stashed s' = stashed s /\ cache s' = cache s /\ interrupted s' = interrupted s /\ icause s' = icause s /\
  late_pause s' = late_pause s /\ intr_err s' = intr_err s.
Proof.
  unfold RE.finalize.
  destruct (stop_movables (RE.set_pardon P D s true)) as [s2 o2] eqn:E2.
  match goal with |- context [fold_left ?f ?l ?a] => destruct (fold_left f l a) as [s3 o3] eqn:E3 end.
  apply unstage_fold_same in E3. apply stop_movables_same in E2.
  unfold RE.set_state. simp_st.
  assert (Hst : state s3 = state s) by (unfold samecb, samec, same in *; simp_st; split_ands; congruence).
  rewrite Hst. intros H Hal. rewrite Hal in H. inversion H; subst; clear H. simp_st.
  unfold final_res. unfold samecb, samec, same in *; simp_st; split_ands.
  repeat match goal with H : ?f s3 = _ |- _ => rewrite H end.
  repeat match goal with H : ?f s2 = _ |- _ => rewrite H end.
  repeat split; reflexivity.
Qed.

(* ------------------------------------------------------------------ one step of the interpreter
   [dstep] is the body of [RE.drive] with the recursive call returned instead of made
   (lemma [drive_dstep] below: a change of [drive] breaks that lemma, nothing else). *)
Local Notation set_ghost := (RE.set_ghost P D).
Local Notation set_stashed := (RE.set_stashed P D).
Local Notation set_permit := (RE.set_permit P D).
Local Notation set_pc := (RE.set_pc P D).
Local Notation set_blocking := (RE.set_blocking P D).
Local Notation set_resps := (RE.set_resps P D).
Local Notation set_exc_slot := (RE.set_exc_slot P D).
Local Notation exc_slot := (RE.exc_slot P D).
Local Notation replace_top := (RE.replace_top P D).
Local Notation pop_plan := (RE.pop_plan P D).
Local Notation set_seen := (RE.set_seen P D).
Local Notation seen := (RE.seen P D).
Local Notation rewindable := (RE.rewindable P D).
Local Notation set_cache := (RE.set_cache P D).
Local Notation set_exit := (RE.set_exit P D).
Local Notation reason := (RE.reason P D).
Local Notation set_ers := (RE.set_ers P D).
Local Notation frame_resume := (RE.frame_resume P presume).

Definition dstep (s : st) (c : ctl) (os : list obs) : (st * ctl * list obs) + (st * list obs) :=
  let go := fun (a : st) (b : ctl) (o : list obs) => @inl (st * ctl * list obs) (st * list obs) (a, b, o) in
    match c with
    | CTop =>
        if (rstate_eqb (state s) Pausing || rstate_eqb (state s) Suspending) && negb (resumable s) then
          let s1 := set_ghost (set_stashed (set_permit s true) (Some EFailedPause)) (Some CzFailedPause) (late_pause s) (intr_err s) in
          match set_state s1 Aborting with
          | Some (s2, o) => go s2 CTop (os ++ o)
          | None => go s1 (CExit (XExn ETransition)) os
          end
        else
          let r1 := if rstate_eqb (state s) Suspending then set_state s Running else Some (s, []) in
          match r1 with
          | None => go s (CExit (XExn ETransition)) os
          | Some (s1, o1) =>
              if negb (permit s1) then
                if negb (rstate_eqb (state s1) Pausing) then go s1 (CExit (XExn EAssertion)) (os ++ o1)
                else
                  let '(s2, o2) := stop_movables s1 in
                  let '(s3, e, o3) := call_pausables s2 MPause in
                  match e with
                  | Some x => go s3 (CExit (XExn x)) (os ++ o1 ++ o2 ++ o3)
                  | None =>
                      match set_state s3 Paused with
                      | None => go s3 (CExit (XExn ETransition)) (os ++ o1 ++ o2 ++ o3)
                      | Some (s4, o4) => inr (set_pc (set_blocking s4 true) PcPaused, os ++ o1 ++ o2 ++ o3 ++ o4 ++ [OTask WFuture])
                      end
                  end
              else go s1 CBody (os ++ o1)
          end
    | CBody =>
        if negb (Nat.eqb (List.length (resps s)) (List.length (plans s))) then go s (CExit (XExn EAssertion)) os
        else match stashed s with
             | None => inr (set_pc s PcSleep0, os ++ [OTask WSleep0])
             | Some _ => go s CAfterSleep os
             end
    | CAfterSleep =>
        match resps s, plans s with
        | r :: rest, top :: _ =>
            let s1 := set_resps s rest in
            let s2 := match exc_slot s1 with
                      | Some e => set_exc_slot (set_stashed s1 (Some e)) None
                      | None => s1
                      end in
            let thrown := match stashed s2, r with
                          | Some e, _ => Some e
                          | None, RExn e => Some e
                          | None, RVal _ => None
                          end in
            match thrown with
            | Some e =>
                let '(o, po) := frame_resume top (Throw e) in
                match o with
                | Yielded m f' => go (set_stashed (replace_top s2 f') None) (CProcess m) (os ++ po)
                | Returned v =>
                    let s3 := pop_plan s2 in
                    match plans s3 with
                    | [] => go s3 (CExit (XRet v)) (os ++ po)
                    | _ => go (set_stashed s3 (Some EStopIteration)) (CContinue false (RVal VNone)) (os ++ po)
                    end
                | Raised e' =>
                    if is_Exception e' then
                      let s3 := pop_plan s2 in
                      match plans s3 with
                      | [] => go s3 (CExit (XExn e')) (os ++ po)
                      | _ => go (set_stashed s3 (Some e')) (CContinue false (RVal VNone)) (os ++ po)
                      end
                    else
                      match e' with
                      | ECancelled => go s2 (CCancelled true) (os ++ po)
                      | _ => go (set_resps (replace_top s2 (FList [])) (RVal VNone :: resps s2)) (CExit (XExn e')) (os ++ po)
                      end
                end
            | None =>
                let v := match r with RVal v => v | RExn _ => VNone end in
                let '(o, po) := frame_resume top (Send v) in
                match o with
                | Yielded m f' => go (replace_top s2 f') (CProcess m) (os ++ po)
                | Returned v' =>
                    let s3 := pop_plan s2 in
                    match plans s3 with
                    | [] => go s3 (CExit (XRet v')) (os ++ po)
                    | _ => go s3 (CContinue false (RVal VNone)) (os ++ po)
                    end
                | Raised e' =>
                    if is_Exception e' then
                      let s3 := pop_plan s2 in
                      match plans s3 with
                      | [] => go s3 (CExit (XExn e')) (os ++ po)
                      | _ => go (set_stashed s3 (Some e')) (CContinue false (RVal VNone)) (os ++ po)
                      end
                    else
                      match e' with
                      | ECancelled => go s2 (CCancelled true) (os ++ po)
                      | _ => go (set_resps (replace_top s2 (FList [])) (RVal VNone :: resps s2)) (CExit (XExn e')) (os ++ po)
                      end
                end
            end
        | _, _ => go s (CExit (XExn EOther)) (os ++ [OBad 2])
        end
    | CProcess m =>
        let o0 := [OMsg m] in
        let s1 := match mobj m with Some d => set_seen s (insert_sorted d (seen s)) | None => s end in
        let s2 := match cache s1 with
                  | Some l => if rewindable s1 && cacheable (mcmd m) then set_cache s1 (Some (l ++ [m])) else s1
                  | None => s1
                  end in
        let '(s3, cr, o3) := match mcmd m with
                             | CStartSuspender sid pre post => exec_start_suspender s2 sid pre post
                             | _ => exec_cmd s2 m
                             end in
        match cr with
        | Done r => go s3 (CContinue true r)
                          (os ++ o0 ++ o3 ++ match mcmd m with CUnknown => [] | _ => [OResp r] end)
        | Susp k => inr (set_pc s3 (PcCmd k), os ++ o0 ++ o3 ++ [OTask WFuture])
        end
    | CContinue popped r =>
        go (if popped then set_resps s (r :: resps s) else s) CTop os
    | CCancelled popped =>
        match state s with
        | Pausing => go (set_permit s false) (CContinue popped (RVal VNone)) os
        | Halting => go (match stashed s with None => set_stashed s (Some EPlanHalt) | _ => s end) (CContinue popped (RVal VNone)) os
        | Stopping => go (match stashed s with None => set_stashed s (Some ERequestStop) | _ => s end) (CContinue popped (RVal VNone)) os
        | Aborting => go (match stashed s with None => set_stashed s (Some ERequestAbort) | _ => s end) (CContinue popped (RVal VNone)) os
        | Suspending => go s (CContinue popped (RVal VNone)) os
        | _ =>
            match stashed s with
            | Some ECancelled => go (if popped then set_resps s (RVal VNone :: resps s) else s) (CExit (XExn ECancelled)) os
            | Some _ => go s (CContinue popped (RVal VNone)) os
            | None => go (set_stashed s (Some ECancelled)) (CContinue popped (RVal VNone)) os
            end
        end
    | CExit x =>
        match x with
        | XRet v => inr (set_pc (set_exit s XSuccess (reason s)) (PcFinalSleep (TReturn v)), os ++ [OTask WSleep0])
        | XExn ERequestStop => inr (set_pc (set_exit s XSuccess (reason s)) (PcFinalSleep (TReturn NO_RETURN)), os ++ [OTask WSleep0])
        | XExn (EFailedPause | ERequestAbort | ECancelled | EPlanHalt) =>
            inr (set_pc (set_exit s XAbort (reason s)) (PcFinalSleep (TReturn NO_RETURN)), os ++ [OTask WSleep0])
        | XExn EGeneratorExit => go (set_exit s XFail (reason s)) (CFinalize (TReturn NO_RETURN) (Some EValueError)) os
        | XExn e => go (set_ers (set_exit s XFail (reason s)) true) (CFinalize (TReturn NO_RETURN) (Some e)) os
        end
    | CFinalize r pending =>
        let '(s1, o) := finalize s r pending in inr (s1, os ++ o)
    end.

Ltac break_goal :=
  match goal with
  | |- context [match ?x with _ => _ end] =>
      lazymatch x with
      | context [match _ with _ => _ end] => fail
      | _ => destruct x eqn:?
      end
  end.

Lemma drive_dstep fuel s c os :
  drive (S fuel) s c os =
  match dstep s c os with
  | inl (s1, c1, os1) => drive fuel s1 c1 os1
  | inr r => r
  end.
Proof.
  destruct c; cbn [RE.drive dstep]; repeat break_goal; reflexivity.
Qed.

(* ================================================================== the invariant *)
Definition pc_state_ok (p : pcs) (x : rstate) : bool :=
  match p with
  | PcNone | PcNotStarted | PcPermit0 | PcDone _ => match x with Idle => true | _ => false end
  | PcSleep0 | PcCmd _ | PcFinalSleep _ => live_state x
  | PcPaused => match x with Paused | Aborting | Stopping | Halting => true | _ => false end
  end.
(* pcs from which [task_step] enters [drive] *)
Definition drv_pc (p : pcs) : bool :=
  match p with PcNotStarted | PcPermit0 | PcSleep0 | PcPaused | PcCmd _ => true | _ => false end.
(* pcs at which the blocking event may be set *)
Definition blk_pc (p : pcs) : bool :=
  match p with PcNone | PcPaused | PcDone _ => true | _ => false end.

(* "interrupted, and the only recorded reason is a plain pause request" *)
Definition PR (s : st) : Prop :=
  interrupted s = true /\ icause s = Some CzPause /\ late_pause s = false /\ intr_err s = false.

(* a device's pause() hook raises one of the exceptions `_run` treats as control flow *)
Definition pause_hook_ctl : Prop := exists x, hook_raises MPause x /\ ctl_exn x = true.

Section WithEscape.
(* [G] collects the circumstances under which the ghost clause (I6) is not claimed:
   instantiated at the end with "a pause hook raises a control exception or the schedule
   releases the run permit of a paused, still interrupted engine". *)
Variable G : Prop.

(* both stacks are aligned and not empty *)
Definition aligned (s : st) : Prop :=
  List.length (resps s) = List.length (plans s) /\ 0 < List.length (plans s).
Definition stack_c (c : ctl) (s : st) : Prop :=
  match c with
  | CTop | CBody | CAfterSleep => aligned s
  | CProcess _ => S (List.length (resps s)) = List.length (plans s)
  | CContinue p _ | CCancelled p =>
      if p then S (List.length (resps s)) = List.length (plans s)
      else aligned s
  | CExit _ | CFinalize _ _ => True
  end.
Definition permit_c (c : ctl) (s : st) : Prop :=
  match c with CBody | CAfterSleep | CProcess _ => permit s = true | _ => True end.
Definition stash_c (c : ctl) (s : st) : Prop :=
  match c with CProcess _ => stashed s = None | _ => True end.
Definition cancel_c (c : ctl) (s : st) : Prop :=
  match c with
  | CExit _ | CFinalize _ _ => True
  | _ => must_cancel s = true ->
         permit s = true /\
         ((state s = Pausing /\ stashed s = None /\
           match c with CContinue _ _ | CTop | CBody => True | _ => False end)
          \/ state s = Aborting)
  end.
Definition pr_c (c : ctl) (s : st) : Prop :=
  G \/ (PR s ->
        match c with
        | CTop | CContinue _ _ =>
            state s = Pausing /\
            ((must_cancel s = true /\ stashed s = None) \/ (must_cancel s = false /\ permit s = false) \/
             (* an in-task pause without a checkpoint (repair C10-a): the next turn of the loop throws FailedPause *)
             resumable s = false)
        | CBody => state s = Pausing /\ must_cancel s = true /\ stashed s = None
        | CCancelled _ => state s = Pausing
        | CExit (XExn x) => ctl_exn x = false
        | CFinalize _ (Some e) => e <> ECancelled
        | _ => False
        end).

(* invariant of the straight-line interpreter, indexed by the control point *)
Definition DInv (c : ctl) (s : st) : Prop :=
  live_state (state s) = true /\ blocking s = false /\ drv_pc (pc s) = true /\
  stack_c c s /\ permit_c c s /\ stash_c c s /\ cancel_c c s /\
  (state s = Pausing -> interrupted s = true) /\
  (interrupted s = true -> icause s <> None) /\
  pr_c c s.

Definition stack_a (s : st) : Prop :=
  match pc s with
  | PcNotStarted | PcPermit0 | PcSleep0 | PcPaused => aligned s
  | PcCmd _ => S (List.length (resps s)) = List.length (plans s)
  | _ => True
  end.
Definition R6 (s : st) : Prop :=
  PR s ->
  (state s = Pausing /\ must_cancel s = true /\ match pc s with PcSleep0 | PcCmd _ => True | _ => False end)
  \/ (state s = Paused /\ permit s = false)
  \/ match pc s with PcDone r => normal_done r = false | _ => False end.

(* invariant at the await points *)
Definition Inv (s : st) : Prop :=
  pc_state_ok (pc s) (state s) = true /\
  (blocking s = true -> blk_pc (pc s) = true) /\
  (pc s = PcPaused -> must_cancel s = false /\ resumable s = true /\ (blocking s = true -> permit s = false)) /\
  stack_a s /\
  match pc s with PcSleep0 | PcCmd _ => permit s = true | _ => True end /\
  match pc s with PcCmd _ => stashed s = None | _ => True end /\
  (state s = Idle -> bundlers s = []) /\
  (state s = Pausing -> interrupted s = true) /\
  (interrupted s = true -> icause s <> None) /\
  (G \/ R6 s).

(* the fuel of [drive] ran out: reported as OBad 1, the engine model is stuck from then on *)
Definition OOF (s : st) (o : list obs) : Prop :=
  pc s = PcNone /\ state s <> Idle /\ In (OBad 1) o.

(* when `_run` arrives at its paused await, the engine is paused, interrupted, and the blocking
   event is set *)
Definition paused_entry (s' : st) : Prop :=
  pc s' = PcPaused -> state s' = Paused /\ blocking s' = true /\ interrupted s' = true.

Lemma set_state_inv s x s' o :
  set_state s x = Some (s', o) -> allowed (state s) x = true /\ s' = RE.set_state_raw P D s x.
Proof. unfold RE.set_state. destruct (allowed (state s) x); intros H; inversion H; auto. Qed.
Lemma set_state_none s x : set_state s x = None -> allowed (state s) x = false.
Proof. unfold RE.set_state. destruct (allowed (state s) x); intros H; [discriminate H | reflexivity]. Qed.

Hypothesis HG : pause_hook_ctl -> G.

Ltac open_inv :=
  unfold DInv, Inv, stack_c, permit_c, stash_c, cancel_c, pr_c, stack_a, aligned, R6, PR, paused_entry in *.

Ltac rw_proj :=
  repeat match goal with
         | H : ?f ?x = _ |- _ =>
             is_var x; match type of x with RE.st _ _ => idtac end;
             let v := fresh "v" in set (v := f x) in *; clearbody v; subst v
         | H : _ = ?f ?x |- _ =>
             is_var x; match type of x with RE.st _ _ => idtac end;
             let v := fresh "v" in set (v := f x) in *; clearbody v; subst v
         end.
Ltac simp_fn := cbn [live_state term_state pc_state_ok drv_pc blk_pc ctl_exn normal_done List.length List.tl] in *.
Ltac norm_imp := repeat match goal with H : ?a = ?a -> _ |- _ => specialize (H eq_refl) end.
Ltac fin1 := intuition (subst; try assumption; try reflexivity; try discriminate; try congruence; try lia;
                        try (rw_proj; simp_fn; discriminate)).
Ltac fin0 :=
  try solve [ assumption | reflexivity | discriminate | congruence | lia | subst; simp_fn; lia | fin1
            | match goal with
              | |- ?x = false => destruct x eqn:?; [exfalso | reflexivity]
              | |- ?x = true => destruct x eqn:?; [reflexivity | exfalso]
              end; fin1 ].
Ltac bool_norm :=
  repeat match goal with
         | H : negb _ = true |- _ => apply negb_true_iff in H
         | H : negb _ = false |- _ => apply negb_false_iff in H
         | H : _ && _ = true |- _ => apply andb_true_iff in H; destruct H
         | H : _ || _ = false |- _ => apply orb_false_iff in H; destruct H
         | H : rstate_eqb _ _ = true |- _ => apply rstate_eqb_eq in H
         | H : rstate_eqb _ _ = false |- _ => apply rstate_eqb_neq in H
         | H : True |- _ => clear H
         end.
Ltac fin := open_inv; unfold samecb, samec, same, RE.resumable in *; simp_st; split_ands; bool_norm;
            rw_proj; simp_fn;
            repeat split; intros; simp_st; rw_proj; simp_fn; fin0.
Ltac ev_eqb_in H :=
  repeat match type of H with
         | context [rstate_eqb ?a ?b] =>
             let v := eval vm_compute in (rstate_eqb a b) in
             match v with true => idtac | false => idtac end;
             change (rstate_eqb a b) with v in H
         end;
  cbn [orb andb negb] in H.
Ltac eqb_cases H :=
  repeat match type of H with
         | context [rstate_eqb (state ?s) ?b] =>
             let E := fresh "Eqb" in
             destruct (rstate_eqb (state s) b) eqn:E;
             [ apply rstate_eqb_eq in E; try rewrite E in H; ev_eqb_in H
             | apply rstate_eqb_neq in E; cbn [orb andb negb] in H ]
         end.
Ltac norm :=
  repeat match goal with
         | H : set_state _ _ = Some (_, _) |- _ =>
             let H1 := fresh "Hal" in apply set_state_inv in H; destruct H as [H1 H]; subst
         | H : set_state _ _ = None |- _ => apply set_state_none in H
         | H : Some _ = Some _ |- _ => inversion H; subst; clear H
         | H : (_, _) = (_, _) |- _ => inversion H; subst; clear H
         end.
Ltac dleaf :=
  norm;
  repeat match goal with
         | H : inl _ = ?r |- _ => is_var r; subst r
         | H : inr _ = ?r |- _ => is_var r; subst r
         end;
  frames; cbv beta iota; fin.

Definition dstep_post (res : (st * ctl * list obs) + (st * list obs)) : Prop :=
  match res with
  | inl (s1, c1, _) => DInv c1 s1
  | inr (s', _) => Inv s' /\ paused_entry s'
  end.
Definition tentry_post (s : st) (res : (st * ctl * list obs) + (st * list obs)) : Prop :=
  match res with
  | inl (s1, c1, _) => DInv c1 s1
  | inr (s', _) => Inv s' /\ (pc s' = PcPaused -> s' = s)
  end.

(* one interpreter step: the next configuration satisfies the interpreter invariant, a
   suspension point satisfies the await-point invariant *)
Lemma dstep_inv s c os res : DInv c s -> dstep s c os = res -> dstep_post res.
Proof.
  intros HD H. unfold dstep_post. destruct c; cbn [dstep] in H.
  2:{ (* CBody *)
      repeat (bm_hyp H); dleaf. }
  { (* CTop *)
    eqb_cases H; repeat (bm_hyp H); try (ev_eqb_in H); dleaf.
    match goal with
    | Hh : forall x, Some ?e = Some x -> hook_raises MPause x |- _ =>
        destruct (ctl_exn e) eqn:Ec;
        [ left; apply HG; exists e; split; [apply Hh; reflexivity | exact Ec]
        | right; intros; reflexivity ]
    end. }
  { (* CAfterSleep *)
    repeat (bm_hyp H); dleaf.
    match goal with
    | H : match stashed ?s with _ => _ end = None |- _ => destruct (stashed s); [discriminate H | reflexivity]
    end. }
  { (* CProcess *)
    set (s1 := match mobj m with Some _ => _ | None => _ end) in H.
    set (s2 := match cache s1 with Some _ => _ | None => _ end) in H.
    assert (H2 : same s s2).
    { subst s2 s1. repeat match goal with |- context [match ?x with _ => _ end] => destruct x end; same_tac. }
    destruct (match mcmd m with
              | CStartSuspender sid pre post => exec_start_suspender s2 sid pre post
              | _ => exec_cmd s2 m
              end) as [[s3 cr] o3] eqn:Ex.
    clearbody s2.
    assert (Hc : (same s2 s3 \/ exists f, same (RE.push_frame P D s2 f) s3) \/
                 (exists e, pause_acc_t s2 s3 e) /\ exists r, cr = Done r).
    { destruct (mcmd m) eqn:Em;
        try (left; left; eapply exec_cmd_same; [|exact Ex]; intros d' Hd'; rewrite Em in Hd'; discriminate Hd').
      - destruct (exec_cmd_pause _ _ _ _ _ _ Em Ex) as (e & o' & Hrp & Hr).
        destruct (request_pause_in_task_spec _ _ _ _ _ Hrp) as [Hs|Hs].
        + left; left. destruct Hs as [[Hs _] _]. exact Hs.
        + right. split; [exists e; exact Hs | exact Hr].
      - left. eapply exec_start_suspender_spec. exact Ex. }
    clear Ex.
    destruct Hc as [[Hc|[f Hc]]|[[e Hc] [r Hr]]].
    1,2: destruct cr; dleaf.
    subst cr. destruct Hc as [[Hr Hc]|[Hr Hc]]; [unfold pause_acc in Hc | unfold pause_acc_nc in Hc]; dleaf.
    destruct (pc s); simp_fn; try discriminate; fin0. }
  { (* CContinue *) destruct popped; dleaf. }
  { (* CCancelled *)
    repeat (bm_hyp H); dleaf.
    destruct (must_cancel s); norm_imp; fin0. }
  { (* CExit *)
    repeat (bm_hyp H); dleaf. }
  { (* CFinalize *)
    destruct (finalize s r pending) as [s1 o1] eqn:Ef. subst res. cbv beta iota.
    apply finalize_spec in Ef; [|apply allowed_to_idle; left; apply HD].
    unfold final_res in Ef. fin.
    destruct pending as [e|]; [destruct e|]; simp_fn; fin0. }
Qed.

Lemma drive_inv_entry fuel : forall s c os s' o,
  DInv c s -> drive fuel s c os = (s', o) -> (Inv s' /\ paused_entry s') \/ OOF s' o.
Proof.
  induction fuel as [|fuel IH]; intros s c os s' o HD H.
  { cbn [RE.drive] in H. inversion H; subst. right. unfold OOF. simp_st. destruct HD as (D1 & _).
    repeat split; [ intros E; rewrite E in D1; discriminate D1 | apply in_or_app; right; left; reflexivity ]. }
  rewrite drive_dstep in H. pose proof (dstep_inv s c os _ HD eq_refl) as Hp.
  destruct (dstep s c os) as [[[s1 c1] os1]|[s2 o2]]; cbn [dstep_post] in Hp.
  - eapply IH; eassumption.
  - inversion H; subst. left; exact Hp.
Qed.

Lemma drive_inv fuel s c os s' o :
  DInv c s -> drive fuel s c os = (s', o) -> Inv s' \/ OOF s' o.
Proof.
  intros HD H. destruct (drive_inv_entry fuel s c os s' o HD H) as [[H1 _]|H1]; [left | right]; exact H1.
Qed.

(* the configurations [drive] goes through *)
Inductive dreach : st * ctl * list obs -> st * ctl * list obs -> Prop :=
  | dreach_refl cfg : dreach cfg cfg
  | dreach_step s c os cfg1 cfg2 : dstep s c os = inl cfg1 -> dreach cfg1 cfg2 -> dreach (s, c, os) cfg2.

Lemma dreach_DInv cfg1 cfg2 :
  dreach cfg1 cfg2 -> DInv (snd (fst cfg1)) (fst (fst cfg1)) -> DInv (snd (fst cfg2)) (fst (fst cfg2)).
Proof.
  induction 1 as [cfg | s c os [[s1 c1] os1] cfg2 Hst _ IH]; intros HD; [exact HD|].
  apply IH. cbn [fst snd] in *. exact (dstep_inv s c os _ HD Hst).
Qed.

(* ------------------------------------------------------------------ one step of the task
   [tentry] is [RE.task_step] with the call of [drive] returned instead of made. *)
Local Notation set_must_cancel := (RE.set_must_cancel P D).
Local Notation exit_status := (RE.exit_status P D).
Local Notation finish_read := (RE.finish_read P D).
Local Notation mark_cached := (RE.mark_cached P D).
Local Notation all_resolved := (RE.all_resolved P D).
Local Notation all_released := (RE.all_released P D).
Local Notation FUEL := (RE.FUEL P D).

Definition tentry (s : st) : (st * ctl * list obs) + (st * list obs) :=
  let go := fun (a : st) (b : ctl) (o : list obs) => @inl (st * ctl * list obs) (st * list obs) (a, b, o) in
  let cancelled := must_cancel s in
  let s0 := set_must_cancel s false in
  match pc s with
  | PcNone | PcDone _ => inr (s, [OBad 3])
  | PcNotStarted =>
      if cancelled then inr (set_blocking (set_pc s0 (PcDone (TRaise ECancelled))) true, [OTask (WRaise ECancelled)])
      else if permit s0 then
        let s1 := set_exit (set_stashed s0 None) (exit_status s0) RsEmpty in
        match set_state s1 Running with
        | Some (s2, o) => go s2 CTop o
        | None => go s1 (CExit (XExn ETransition)) []
        end
      else inr (set_pc s0 PcPermit0, [OTask WFuture])
  | PcPermit0 =>
      if cancelled then inr (set_blocking (set_pc s0 (PcDone (TRaise ECancelled))) true, [OTask (WRaise ECancelled)])
      else
        let s1 := set_exit (set_stashed s0 None) (exit_status s0) RsEmpty in
        match set_state s1 Running with
        | Some (s2, o) => go s2 CTop (if permit s0 then o else OBad 4 :: o)
        | None => go s1 (CExit (XExn ETransition)) []
        end
  | PcSleep0 =>
      if cancelled then go s0 (CCancelled false) [] else go s0 CAfterSleep []
  | PcPaused =>
      if cancelled then go s0 (CExit (XExn ECancelled)) []
      else if negb (permit s0) then inr (s, [OBad 5])      (* not enabled: the task waits for the run permit *)
      else
        match (if rstate_eqb (state s0) Paused then set_state s0 Running else Some (s0, [])) with
        | Some (s1, o) => go s1 CBody o
        | None => go s0 (CExit (XExn ETransition)) []
        end
  | PcCmd k =>
      if cancelled then
        go s0 (CCancelled true) []
      else
        match k with
        | KReadCache rn d z =>
            let '(s1, cr, o) := finish_read (mark_cached s0 rn d) rn d z [] in
            let r := match cr with Done r => r | Susp _ => RVal VNone end in
            go s1 (CContinue true r) (o ++ [OResp r])
        | KSleep => go s0 (CContinue true (RVal VNone)) [OResp (RVal VNone)]
        | KCkptSleep =>
            let '(s1, e, o) := request_pause s0 false in
            let r := match e with Some x => RExn x | None => RVal VNone end in
            go s1 (CContinue true r) (o ++ [OResp r])
        | KWait sids =>
            go s0 (CContinue true (RVal (VBool true))) ((if all_resolved s0 sids then [] else [OBad 6]) ++ [OResp (RVal (VBool true))])
        | KWaitFor fs =>
            go s0 (CContinue true (RVal (VFuts (List.length fs)))) ((if all_released s0 fs then [] else [OBad 7]) ++ [OResp (RVal (VFuts (List.length fs)))])
        end
  | PcFinalSleep r =>
      if cancelled then inr (finalize s0 r (Some ECancelled)) else inr (finalize s0 r None)
  end.

Lemma task_step_tentry s :
  task_step s =
  match tentry s with
  | inl (s1, c1, os1) => drive (FUEL s1) s1 c1 os1
  | inr r => r
  end.
Proof. unfold RE.task_step, tentry. cbv zeta. repeat break_goal; reflexivity. Qed.

(* the task enters the interpreter only in configurations satisfying its invariant *)
Lemma tentry_inv s res : Inv s -> tentry s = res -> tentry_post s res.
Proof.
  intros HI H. unfold tentry in H. cbv zeta in H. unfold tentry_post.
  assert (A1 : pc_state_ok (pc s) (state s) = true) by apply HI.
  destruct (pc s) eqn:Epc.
  - (* PcNone *) subst res. split; [exact HI | reflexivity].
  - (* PcNotStarted *)
    destruct (state s) eqn:Est; try discriminate A1. clear A1.
    unfold RE.set_state in H. simp_st. rewrite Est, allowed_idle_running in H.
    repeat (bm_hyp H); dleaf.
  - (* PcPermit0 *)
    destruct (state s) eqn:Est; try discriminate A1. clear A1.
    unfold RE.set_state in H. simp_st. rewrite Est, allowed_idle_running in H.
    repeat (bm_hyp H); dleaf.
  - (* PcSleep0 *)
    repeat (bm_hyp H); dleaf.
  - (* PcPaused *)
    destruct (state s) eqn:Est; try discriminate A1; clear A1;
    simp_st; rewrite Est in H; ev_eqb_in H;
    unfold RE.set_state in H; simp_st; rewrite ?Est, ?allowed_paused_running in H;
    repeat (bm_hyp H); dleaf.
  - (* PcCmd *)
    destruct (must_cancel s) eqn:Emc.
    + dleaf.
    + destruct k as [| |sids|fs|rn dd z].
      * dleaf.
      * destruct (request_pause (RE.set_must_cancel P D s false) false) as [[s1 e] o1] eqn:Erp.
        apply request_pause_spec in Erp. destruct Erp as [Erp|Erp]; [|unfold pause_acc in Erp]; dleaf.
      * dleaf.
      * dleaf.
      * pose proof (mark_cached_same (RE.set_must_cancel P D s false) rn dd) as Hmc.
        set (sm := RE.mark_cached P D _ rn dd) in *. clearbody sm.
        match type of H with
        | context [RE.finish_read P D ?a ?b ?c ?d ?e] =>
            destruct (RE.finish_read P D a b c d e) as [[s1 cr] o1] eqn:Efr
        end.
        dleaf.
  - (* PcFinalSleep *)
    assert (Hal : allowed (state s) Idle = true) by (apply allowed_to_idle; left; exact A1).
    destruct (must_cancel s) eqn:Emc; subst res;
      match goal with |- context [finalize ?a ?b ?c] => destruct (finalize a b c) as [s1 o1] eqn:Ef end;
      (apply finalize_spec in Ef; [|simp_st; exact Hal]); unfold final_res in Ef; simp_st; fin.
  - (* PcDone *) subst res. split; [exact HI | reflexivity].
Qed.

Lemma task_step_inv_entry s s' o :
  Inv s -> task_step s = (s', o) ->
  (Inv s' /\ (pc s' = PcPaused -> s' = s \/ (state s' = Paused /\ blocking s' = true /\ interrupted s' = true)))
  \/ OOF s' o.
Proof.
  intros HI H. rewrite task_step_tentry in H. pose proof (tentry_inv s _ HI eq_refl) as Hp.
  destruct (tentry s) as [[[s1 c1] os1]|[s2 o2]]; cbn [tentry_post] in Hp.
  - destruct (drive_inv_entry _ _ _ _ _ _ Hp H) as [[H1 H2]|H1]; [left|right; exact H1].
    split; [exact H1 | intros Hpc; right; exact (H2 Hpc)].
  - inversion H; subst. left. destruct Hp as [H1 H2]. split; [exact H1 | intros Hpc; left; exact (H2 Hpc)].
Qed.

Lemma task_step_inv s s' o : Inv s -> task_step s = (s', o) -> Inv s' \/ OOF s' o.
Proof.
  intros HI H. destruct (task_step_inv_entry s s' o HI H) as [[H1 _]|H1]; [left | right]; exact H1.
Qed.

(* ------------------------------------------------------------------ one event *)
(* the run permit of a paused engine that is still marked interrupted is released: in the source
   only resume() (which clears the mark first) and abort()/stop()/halt() (which leave "paused"
   first) call _resume_task on a paused engine *)
Definition spurious_permit (s : st) (e : event) : bool :=
  match e with EvPermit => rstate_eqb (state s) Paused && interrupted s | _ => false end.

Ltac use_allowed :=
  repeat match goal with
         | H : allowed Idle ?b = true |- _ =>
             apply allowed_from_idle in H; destruct H as [H|H]; try discriminate H
         | H : allowed ?a Pausing = true |- _ =>
             apply allowed_pausing_only_from_running in H; try discriminate H
         | H : allowed ?a Suspending = true |- _ =>
             apply allowed_suspending_only_from_running in H; try discriminate H
         | H : allowed ?a Paused = true |- _ =>
             apply allowed_paused_only_from_pausing in H; try discriminate H
         | H : allowed Aborting ?b = true |- _ =>
             apply (allowed_from_terminal Aborting b eq_refl) in H; destruct H as [H|H]; try discriminate H
         | H : allowed Stopping ?b = true |- _ =>
             apply (allowed_from_terminal Stopping b eq_refl) in H; destruct H as [H|H]; try discriminate H
         | H : allowed Halting ?b = true |- _ =>
             apply (allowed_from_terminal Halting b eq_refl) in H; destruct H as [H|H]; try discriminate H
         end.

(* case split on the (pc, state) pairs admitted by the invariant *)
Ltac pc_state_cases s A1 :=
  let Epc := fresh "Epc" in let Est := fresh "Est" in
  destruct (pc s) eqn:Epc; destruct (state s) eqn:Est; simp_fn; try discriminate A1; clear A1.

(* the same, but the lifecycle state stays abstract at the pcs where the task is live *)
Ltac pc_cases s A1 H :=
  let Epc := fresh "Epc" in let Est := fresh "Est" in
  destruct (pc s) eqn:Epc; simp_fn;
  try (lazymatch type of A1 with
       | live_state _ = true => fail
       | _ => destruct (state s) eqn:Est; try discriminate A1; rewrite ?Est in H; ev_eqb_in H
       end).
(* destruct an innermost match of H *)
Ltac bm_inner H :=
  match type of H with
  | context [match ?x with _ => _ end] =>
      lazymatch x with
      | context [match _ with _ => _ end] => fail
      | _ => destruct x eqn:?
      end
  end.

Lemma req_result_same s e s' o : RE.req_result P D s e = (s', o) -> samecb s s'.
Proof. unfold RE.req_result. destruct (RE.mreq P D s); intros H; inversion H; subst; same_tac. Qed.

Ltac sleaf :=
  norm; use_allowed;
  repeat match goal with H : RE.req_result _ _ _ _ = _ |- _ => apply req_result_same in H end;
  frames; left; fin.

Lemma Inv_samecb s s' : samecb s s' -> Inv s -> Inv s'.
Proof. intros Hs HI. destruct (pc s) eqn:Epc; fin. Qed.

Ltac step_intro HI H A1 :=
  intros HI H;
  match type of HI with Inv ?s => assert (A1 : pc_state_ok (pc s) (state s) = true) by apply HI end;
  cbn [RE.step] in H.

Lemma step_permit s s' o :
  (spurious_permit s EvPermit = true -> G) -> Inv s -> step s EvPermit = (s', o) -> Inv s' \/ OOF s' o.
Proof.
  intros Hsp. step_intro HI H A1.
  cbn [spurious_permit] in Hsp. destruct (pc s) eqn:Epc; sleaf.
  match goal with H8 : G \/ _ |- _ => destruct H8 as [g|H8]; [left; exact g|];
  destruct (interrupted s) eqn:Ei; [|right; intros [Hx _]; discriminate Hx];
  destruct (state s) eqn:Est; try discriminate A1;
    try (right; intros HPR; destruct (H8 HPR) as [(Hx & _)|[(Hx & _)|[]]]; discriminate Hx) end.
  left; apply Hsp; reflexivity.
Qed.

Lemma step_main a s s' o : Inv s -> step s (EvMain a) = (s', o) -> Inv s' \/ OOF s' o.
Proof.
  step_intro HI H A1. destruct a.
  - (* ACall *) eqb_cases H; destruct (pc s) eqn:Epc; sleaf.
  - (* AResume *)
    eqb_cases H; [|destruct (pc s) eqn:Epc; sleaf].
    repeat (bm_hyp H); destruct (pc s) eqn:Epc; sleaf.
  - destruct (pc s) eqn:Epc; sleaf.
  - destruct (pc s) eqn:Epc; sleaf.
  - destruct (pc s) eqn:Epc; sleaf.
Qed.

Lemma step_maindone a s s' o : Inv s -> step s (EvMainDone a) = (s', o) -> Inv s' \/ OOF s' o.
Proof. step_intro HI H A1. destruct (pc s) eqn:Epc; sleaf. Qed.

Lemma step_reqpause d s s' o : Inv s -> step s (EvReqPause d) = (s', o) -> Inv s' \/ OOF s' o.
Proof.
  step_intro HI H A1.
  destruct (request_pause s d) as [[s1 e1] o1] eqn:Erp.
  apply request_pause_spec in Erp. destruct Erp as [Erp|Erp]; [|unfold pause_acc in Erp];
    destruct (RE.req_result P D s1 e1) as [s2 o2] eqn:Err; destruct (pc s) eqn:Epc; sleaf.
Qed.

Lemma step_reqabort rs s s' o : Inv s -> step s (EvReqAbort rs) = (s', o) -> Inv s' \/ OOF s' o.
Proof.
  step_intro HI H A1. simp_st. pc_cases s A1 H; eqb_cases H; repeat (bm_inner H); sleaf.
Qed.

Lemma step_reqstop s s' o : Inv s -> step s EvReqStop = (s', o) -> Inv s' \/ OOF s' o.
Proof.
  step_intro HI H A1. simp_st. pc_cases s A1 H; eqb_cases H; repeat (bm_inner H). all: sleaf.
Qed.

Lemma step_reqhalt s s' o : Inv s -> step s EvReqHalt = (s', o) -> Inv s' \/ OOF s' o.
Proof.
  step_intro HI H A1. simp_st. pc_cases s A1 H; eqb_cases H; repeat (bm_inner H); sleaf.
Qed.

Lemma step_small e s s' o :
  match e with EvResumeTask | EvRelease _ | EvStatus _ _ | EvCacheDone => True | _ => False end ->
  Inv s -> step s e = (s', o) -> Inv s' \/ OOF s' o.
Proof.
  intros He; destruct e; try contradiction; clear He; step_intro HI H A1.
  - destruct (pc s) eqn:Epc; sleaf.
  - repeat (bm_hyp H); destruct (pc s) eqn:Epc; sleaf.
  - destruct (pc s) eqn:Epc; sleaf.
  - destruct (pc s) as [| | | | |k| |] eqn:Epc; try destruct k; sleaf.
Qed.

Lemma step_reqsuspend sid pre post s s' o :
  Inv s -> step s (EvReqSuspend sid pre post) = (s', o) -> Inv s' \/ OOF s' o.
Proof.
  intros HI H. cbn [RE.step] in H.
  match type of H with
  | context [RE.set_futs P D s ?f] =>
      assert (Hs0 : samecb s (RE.set_futs P D s f)) by same_tac;
      generalize dependent (RE.set_futs P D s f)
  end.
  intros s0 H Hs0. apply (Inv_samecb _ _ Hs0) in HI. clear s Hs0. rename s0 into s.
  assert (A1 : pc_state_ok (pc s) (state s) = true) by apply HI.
  unfold RE.resumable in H.
  destruct (cache s) eqn:Ec; cbn [negb] in H; simp_st; pc_cases s A1 H; eqb_cases H;
    repeat (bm_inner H; simp_st; try (eqb_cases H)).
  all: sleaf.
Qed.

Theorem step_inv s e s' o :
  (spurious_permit s e = true -> G) -> Inv s -> step s e = (s', o) -> Inv s' \/ OOF s' o.
Proof.
  intros Hsp HI H. destruct e.
  - eapply step_main; eassumption.
  - eapply step_maindone; eassumption.
  - eapply step_permit; eassumption.
  - eapply task_step_inv; eassumption.
  - eapply step_reqpause; eassumption.
  - eapply step_reqabort; eassumption.
  - eapply step_reqstop; eassumption.
  - eapply step_reqhalt; eassumption.
  - eapply step_reqsuspend; eassumption.
  - eapply step_small; [|eassumption|eassumption]; exact I.
  - eapply step_small; [|eassumption|eassumption]; exact I.
  - eapply step_small; [|eassumption|eassumption]; exact I.
  - eapply step_small; [|eassumption|eassumption]; exact I.
Qed.

Lemma Inv_init d paus stag rec : Inv (init d paus stag rec).
Proof.
  unfold Inv, RE.init, stack_a, R6, PR. simp_st. simp_fn.
  repeat split; intros; try reflexivity; try discriminate.
  right. intros [Hx _]. discriminate Hx.
Qed.

(* ------------------------------------------------------------------ out of fuel is absorbing *)
Definition oof (s : st) : Prop := pc s = PcNone /\ state s <> Idle.

Ltac oleaf :=
  norm;
  repeat match goal with H : RE.req_result _ _ _ _ = _ |- _ => apply req_result_same in H end;
  frames; unfold oof, samecb, samec, same in *; simp_st; split_ands; rw_proj;
  split; first [ reflexivity | assumption | congruence | discriminate | exfalso; congruence ].

Lemma step_oof s e : oof s -> oof (fst (step s e)).
Proof.
  intros Ho. destruct (step s e) as [s' o] eqn:H. cbn [fst].
  destruct e; cbn [RE.step] in H.
  - destruct a; eqb_cases H; repeat (bm_hyp H); oleaf.
  - oleaf.
  - oleaf.
  - unfold RE.task_step in H. destruct Ho as [Hpc Hst]. rewrite Hpc in H. inversion H; subst. split; assumption.
  - destruct (request_pause s defer) as [[s1 e1] o1] eqn:Erp.
    apply request_pause_spec in Erp. destruct Erp as [Erp|Erp]; [|unfold pause_acc in Erp];
      destruct (RE.req_result P D s1 e1) as [s2 o2] eqn:Err; oleaf.
  - simp_st. eqb_cases H; repeat (bm_hyp H); oleaf.
  - simp_st. eqb_cases H; repeat (bm_hyp H); oleaf.
  - simp_st. eqb_cases H; repeat (bm_hyp H); oleaf.
  - unfold RE.resumable in H. simp_st. eqb_cases H; repeat (bm_inner H; simp_st; try (eqb_cases H)); oleaf.
  - oleaf.
  - repeat (bm_hyp H); oleaf.
  - oleaf.
  - destruct Ho as [Hpc Hst]. rewrite Hpc in H. inversion H; subst. split; assumption.
Qed.

(* only the task moves the pc (a new call resets it) *)
Ltac pleaf :=
  norm;
  repeat match goal with H : RE.req_result _ _ _ _ = _ |- _ => apply req_result_same in H end;
  frames; unfold samecb, samec, same in *; simp_st; split_ands;
  first [ left; congruence | right; reflexivity | left; reflexivity ].

Lemma step_pc s e s' o :
  step s e = (s', o) -> e <> EvTask -> pc s' = pc s \/ pc s' = PcNotStarted.
Proof.
  intros H Hne. destruct e; cbn [RE.step] in H; try (exfalso; apply Hne; reflexivity); clear Hne.
  - destruct a; eqb_cases H; repeat (bm_hyp H); pleaf.
  - pleaf.
  - pleaf.
  - destruct (request_pause s defer) as [[s1 e1] o1] eqn:Erp.
    apply request_pause_spec in Erp. destruct Erp as [Erp|Erp]; [|unfold pause_acc in Erp];
      destruct (RE.req_result P D s1 e1) as [s2 o2] eqn:Err; pleaf.
  - simp_st. eqb_cases H; repeat (bm_hyp H); pleaf.
  - simp_st. eqb_cases H; repeat (bm_hyp H); pleaf.
  - simp_st. eqb_cases H; repeat (bm_hyp H); pleaf.
  - unfold RE.resumable in H. simp_st. eqb_cases H; repeat (bm_inner H; simp_st; try (eqb_cases H)); pleaf.
  - pleaf.
  - repeat (bm_hyp H); pleaf.
  - pleaf.
  - repeat (bm_hyp H); pleaf.
Qed.

(* the engine becomes paused only by the task reaching its paused await, and then it is
   paused, marked interrupted, blocking, with a checkpoint to rewind to, and the task waits for
   the run permit *)
Theorem enter_paused s e s' o :
  Inv s -> step s e = (s', o) -> pc s <> PcPaused -> pc s' = PcPaused ->
  e = EvTask /\ state s' = Paused /\ blocking s' = true /\ interrupted s' = true /\
  resumable s' = true /\ must_cancel s' = false /\ permit s' = false.
Proof.
  intros HI H Hn Hp.
  assert (He : e = EvTask).
  { destruct e; try reflexivity;
      (destruct (step_pc _ _ _ _ H) as [Hx|Hx]; [discriminate | congruence | congruence]). }
  subst e. split; [reflexivity|]. cbn [RE.step] in H.
  destruct (task_step_inv_entry s s' o HI H) as [[HI' Hent]|(Hpc & _)]; [|congruence].
  destruct (Hent Hp) as [Hs|(A & B & C)]; [congruence|].
  destruct HI' as (_ & _ & H3 & _). destruct (H3 Hp) as (M & R & Pm).
  repeat split; try assumption. exact (Pm B).
Qed.

(* ------------------------------------------------------------------ schedules *)
(* no event of the schedule releases the permit of a paused, still interrupted engine *)
Fixpoint sched_ok (s : st) (evs : list event) : Prop :=
  match evs with
  | [] => True
  | e :: evs' => spurious_permit s e = false /\ sched_ok (fst (step s e)) evs'
  end.

Lemma run_oof evs : forall s, oof s -> oof (fst (run s evs)).
Proof.
  induction evs as [|e evs IH]; intros s Ho; cbn [RE.run].
  - exact Ho.
  - destruct (step s e) as [s1 o1] eqn:E1. pose proof (step_oof s e Ho) as H1. rewrite E1 in H1. cbn [fst] in H1.
    specialize (IH s1 H1). destruct (run s1 evs) as [s2 o2]. exact IH.
Qed.

Lemma run_inv evs : forall s,
  (~ sched_ok s evs -> G) -> Inv s ->
  Inv (fst (run s evs)) \/ (oof (fst (run s evs)) /\ In (OBad 1) (snd (run s evs))).
Proof.
  induction evs as [|e evs IH]; intros s Hs HI; cbn [RE.run].
  - left; exact HI.
  - destruct (step s e) as [s1 o1] eqn:E1.
    assert (Hsp : spurious_permit s e = true -> G).
    { intros Ht. apply Hs. cbn [sched_ok]. intros [Hf _]. rewrite Ht in Hf. discriminate Hf. }
    destruct (step_inv s e s1 o1 Hsp HI E1) as [HI1|(Hpc & Hst & Hin)].
    + assert (Hs1 : ~ sched_ok s1 evs -> G).
      { intros Hn. apply Hs. cbn [sched_ok]. intros [_ Hok]. rewrite E1 in Hok. exact (Hn Hok). }
      specialize (IH s1 Hs1 HI1). destruct (run s1 evs) as [s2 o2]. cbn [fst snd] in *.
      destruct IH as [IH|[IH1 IH2]]; [left; exact IH | right; split; [exact IH1 | apply in_or_app; right; exact IH2]].
    + pose proof (run_oof evs s1 (conj Hpc Hst)) as Ho. destruct (run s1 evs) as [s2 o2]. cbn [fst snd] in *.
      right; split; [exact Ho | apply in_or_app; left; exact Hin].
Qed.

End WithEscape.
(* ================================================================== consequences of [Inv] *)
Section Consequences.
Variable G : Prop.
Hypothesis HG : pause_hook_ctl -> G.

(* (I1) the pc determines the lifecycle state up to the requests that do not move the task *)
Lemma inv_pc_state s : Inv G s -> pc_state_ok (pc s) (state s) = true.
Proof. intros HI; apply HI. Qed.

Lemma inv_never_panicked s : Inv G s -> state s <> Panicked.
Proof. intros HI E. pose proof (inv_pc_state s HI) as H. rewrite E in H. destruct (pc s); discriminate H. Qed.

(* (I2)/(T1) *)
Lemma inv_blocking_pc s : Inv G s -> blocking s = true -> blk_pc (pc s) = true.
Proof. intros HI; apply HI. Qed.

Lemma inv_quiescent s :
  Inv G s -> blocking s = true ->
  state s = Idle \/ state s = Paused \/
  (pc s = PcPaused /\ (state s = Aborting \/ state s = Stopping \/ state s = Halting)).
Proof.
  intros HI Hb. pose proof (inv_pc_state s HI) as H1. pose proof (inv_blocking_pc s HI Hb) as H2.
  destruct (pc s); try discriminate H2; destruct (state s); try discriminate H1; auto 6.
Qed.

(* (I3), (I5), (T2) *)
Lemma inv_paused_pc s : Inv G s -> pc s = PcPaused -> must_cancel s = false /\ resumable s = true.
Proof. intros HI Hp. destruct HI as (_ & _ & H3 & _). destruct (H3 Hp) as (A & B & _). split; assumption. Qed.

Lemma inv_paused_blocking_no_permit s :
  Inv G s -> pc s = PcPaused -> blocking s = true -> permit s = false.
Proof. intros HI Hp. destruct HI as (_ & _ & H3 & _). destruct (H3 Hp) as (_ & _ & C). exact C. Qed.

Lemma inv_paused_is_resumable s : Inv G s -> state s = Paused -> resumable s = true /\ pc s = PcPaused.
Proof.
  intros HI Hs. pose proof (inv_pc_state s HI) as H1. rewrite Hs in H1.
  destruct (pc s) eqn:Epc; try discriminate H1. split; [|reflexivity].
  apply (inv_paused_pc s HI Epc).
Qed.

(* (T3) *)
Lemma inv_done_is_idle s r : Inv G s -> pc s = PcDone r -> state s = Idle /\ bundlers s = [].
Proof.
  intros HI Hp. pose proof (inv_pc_state s HI) as H1. rewrite Hp in H1.
  destruct (state s) eqn:Es; try discriminate H1. split; [reflexivity|].
  destruct HI as (_ & _ & _ & _ & _ & _ & H7 & _). exact (H7 Es).
Qed.

Lemma inv_idle_no_open_runs s : Inv G s -> state s = Idle -> bundlers s = [].
Proof. intros HI. destruct HI as (_ & _ & _ & _ & _ & _ & H7 & _). exact H7. Qed.

(* (I4)/(T4) *)
Lemma inv_stacks_aligned s : Inv G s -> stack_a s.
Proof. intros HI; apply HI. Qed.

(* the source's `assert len(self._response_stack) == len(self._plan_stack)` at the loop body:
   whenever the interpreter is at CBody in a state satisfying its invariant the test succeeds,
   so [drive] does not take the EAssertion exit there *)
Lemma cbody_assert_holds s :
  DInv G CBody s -> negb (Nat.eqb (List.length (resps s)) (List.length (plans s))) = false.
Proof.
  intros (_ & _ & _ & H4 & _). cbn [stack_c] in H4. destruct H4 as [H4 _]. rewrite H4, Nat.eqb_refl. reflexivity.
Qed.
Lemma cbody_no_assert_exit fuel s os :
  DInv G CBody s ->
  drive (S fuel) s CBody os =
  match stashed s with
  | None => (RE.set_pc P D s PcSleep0, os ++ [OTask WSleep0])
  | Some _ => drive fuel s CAfterSleep os
  end.
Proof. intros HD. cbn [RE.drive]. rewrite (cbody_assert_holds s HD). reflexivity. Qed.
(* the only await point from which `_run` re-enters the loop at CBody *)
Lemma paused_resume_aligned s : Inv G s -> pc s = PcPaused -> aligned s.
Proof. intros HI Hp. pose proof (inv_stacks_aligned s HI) as H. unfold stack_a in H. rewrite Hp in H. exact H. Qed.

(* the cleanup (`finally`) of `_run` is never refused the move to idle *)
Lemma cleanup_reaches_idle s r pend :
  Inv G s -> pc s = PcFinalSleep r ->
  state (fst (finalize s r pend)) = Idle /\
  pc (fst (finalize s r pend)) = PcDone (final_res s r pend).
Proof.
  intros HI Hp. pose proof (inv_pc_state s HI) as H1. rewrite Hp in H1. cbn [pc_state_ok] in H1.
  destruct (finalize s r pend) as [s' o] eqn:Ef. apply finalize_spec in Ef.
  - cbn [fst]. destruct Ef as (A & _ & _ & B & _). split; assumption.
  - apply allowed_to_idle; left; exact H1.
Qed.
Lemma cleanup_reaches_idle_drive s r pend :
  DInv G (CFinalize r pend) s ->
  state (fst (finalize s r pend)) = Idle /\
  pc (fst (finalize s r pend)) = PcDone (final_res s r pend).
Proof.
  intros HD. destruct HD as (H1 & _).
  destruct (finalize s r pend) as [s' o] eqn:Ef. apply finalize_spec in Ef.
  - cbn [fst]. destruct Ef as (A & _ & _ & B & _). split; assumption.
  - apply allowed_to_idle; left; exact H1.
Qed.

(* every configuration the interpreter goes through when the task is resumed at an await point
   of a state satisfying [Inv] satisfies [DInv] (fuel plays no role: [dreach] follows [dstep]) *)
Definition visited (s : st) (cfg : st * ctl * list obs) : Prop :=
  exists cfg0, tentry s = inl cfg0 /\ dreach cfg0 cfg.

Lemma visited_DInv s s1 c1 os1 : Inv G s -> visited s (s1, c1, os1) -> DInv G c1 s1.
Proof.
  intros HI [[[sa ca] osa] [He Hr]].
  assert (H0 : tentry_post G s (inl (sa, ca, osa))) by (eapply tentry_inv; eassumption).
  cbn [tentry_post] in H0.
  exact (dreach_DInv G HG _ _ Hr H0).
Qed.

(* (I4), strong form: the assertion at the top of the loop body never fails *)
Theorem no_assertion_exit s s1 os1 :
  Inv G s -> visited s (s1, CBody, os1) ->
  aligned s1 /\
  dstep s1 CBody os1 =
  match stashed s1 with
  | None => inr (RE.set_pc P D s1 PcSleep0, os1 ++ [OTask WSleep0])
  | Some _ => inl (s1, CAfterSleep, os1)
  end.
Proof.
  intros HI Hv. pose proof (visited_DInv _ _ _ _ HI Hv) as HD.
  split; [destruct HD as (_ & _ & _ & H4 & _); exact H4|]. cbn [dstep]. rewrite (cbody_assert_holds s1 HD). reflexivity.
Qed.

(* ... and the plan to resume and the response to send it always exist (no OBad 2) *)
Theorem stacks_never_empty s s1 os1 :
  Inv G s -> visited s (s1, CAfterSleep, os1) ->
  exists r rest top below, resps s1 = r :: rest /\ plans s1 = top :: below /\
                           List.length rest = List.length below.
Proof.
  intros HI Hv. pose proof (visited_DInv _ _ _ _ HI Hv) as HD.
  destruct HD as (_ & _ & _ & [H4 H5] & _).
  destruct (resps s1) as [|r rest]; destruct (plans s1) as [|top below]; cbn [List.length] in *; try lia.
  exists r, rest, top, below. repeat split; try reflexivity. lia.
Qed.

(* (I1), strong form: whenever the interpreter runs the cleanup, the move to idle is accepted *)
Theorem cleanup_always_accepted s s1 r pend os1 :
  Inv G s -> visited s (s1, CFinalize r pend, os1) ->
  allowed (state s1) Idle = true /\
  state (fst (finalize s1 r pend)) = Idle /\ pc (fst (finalize s1 r pend)) = PcDone (final_res s1 r pend).
Proof.
  intros HI Hv. pose proof (visited_DInv _ _ _ _ HI Hv) as HD.
  split; [apply allowed_to_idle; left; apply HD | exact (cleanup_reaches_idle_drive s1 r pend HD)].
Qed.

(* (I6) *)
Lemma inv_interrupted_has_cause s : Inv G s -> interrupted s = true -> icause s <> None.
Proof. intros HI; apply HI. Qed.

Lemma inv_pausing_interrupted s : Inv G s -> state s = Pausing -> interrupted s = true.
Proof. intros HI; apply HI. Qed.

Lemma inv_interrupted_idle_cause s r :
  Inv G s -> pc s = PcDone r -> normal_done r = true ->
  interrupted s = true -> icause s = Some CzPause ->
  late_pause s = true \/ intr_err s = true \/ G.
Proof.
  intros HI Hp Hn Hi Hc.
  pose proof (inv_done_is_idle s r HI Hp) as [Hs _].
  destruct HI as (_ & _ & _ & _ & _ & _ & _ & _ & _ & [g|H10]); [auto|].
  destruct (late_pause s) eqn:El; [auto|]. destruct (intr_err s) eqn:Ee; [auto|].
  exfalso. unfold R6, PR in H10. rewrite Hs, Hp, Hi, Hc, El, Ee in H10.
  destruct H10 as [(Hx & _)|[(Hx & _)|Hx]]; auto; try discriminate Hx.
  rewrite Hn in Hx. discriminate Hx.
Qed.
End Consequences.

(* ================================================================== reachable states *)
Definition escape (s0 : st) (evs : list event) : Prop := pause_hook_ctl \/ ~ sched_ok s0 evs.

Theorem reach_inv d paus stag rec evs :
  let s0 := init d paus stag rec in
  Inv (escape s0 evs) (fst (run s0 evs)) \/
  (oof (fst (run s0 evs)) /\ In (OBad 1) (snd (run s0 evs))).
Proof.
  intros s0. apply run_inv.
  - intros H; left; exact H.
  - intros H; right; exact H.
  - apply Inv_init.
Qed.

Section Reach.
Variables (d : D) (paus stag : list nat) (rec : bool) (evs : list event).
Let s0 := init d paus stag rec.
Let sN := fst (run s0 evs).
Let oN := snd (run s0 evs).

Lemma reach_Inv : ~ In (OBad 1) oN -> Inv (escape s0 evs) sN.
Proof. intros Hno. destruct (reach_inv d paus stag rec evs) as [H|[_ H]]; [exact H | contradiction]. Qed.

Theorem pc_state_typing : ~ In (OBad 1) oN -> pc_state_ok (pc sN) (state sN) = true.
Proof. intros Hno. eapply inv_pc_state, reach_Inv, Hno. Qed.

Theorem quiescent_state :
  ~ In (OBad 1) oN -> blocking sN = true ->
  state sN = Idle \/ state sN = Paused \/
  (pc sN = PcPaused /\ (state sN = Aborting \/ state sN = Stopping \/ state sN = Halting)).
Proof. intros Hno. eapply inv_quiescent, reach_Inv, Hno. Qed.

Theorem blocking_pc : ~ In (OBad 1) oN -> blocking sN = true -> blk_pc (pc sN) = true.
Proof. intros Hno. eapply inv_blocking_pc, reach_Inv, Hno. Qed.

Theorem paused_is_resumable :
  ~ In (OBad 1) oN -> state sN = Paused -> resumable sN = true /\ pc sN = PcPaused.
Proof. intros Hno. eapply inv_paused_is_resumable, reach_Inv, Hno. Qed.

Theorem paused_pc_checkpoint :
  ~ In (OBad 1) oN -> pc sN = PcPaused -> must_cancel sN = false /\ resumable sN = true.
Proof. intros Hno. eapply inv_paused_pc, reach_Inv, Hno. Qed.

Theorem done_is_idle r :
  ~ In (OBad 1) oN -> pc sN = PcDone r -> state sN = Idle /\ bundlers sN = [].
Proof. intros Hno. eapply inv_done_is_idle, reach_Inv, Hno. Qed.

Theorem idle_no_open_runs : ~ In (OBad 1) oN -> state sN = Idle -> bundlers sN = [].
Proof. intros Hno. eapply inv_idle_no_open_runs, reach_Inv, Hno. Qed.

Theorem stacks_aligned : ~ In (OBad 1) oN -> stack_a sN.
Proof. intros Hno. eapply inv_stacks_aligned, reach_Inv, Hno. Qed.

Theorem cleanup_never_stranded r pend :
  ~ In (OBad 1) oN -> pc sN = PcFinalSleep r ->
  state (fst (finalize sN r pend)) = Idle /\ pc (fst (finalize sN r pend)) = PcDone (final_res sN r pend).
Proof. intros Hno. eapply cleanup_reaches_idle, reach_Inv, Hno. Qed.

Lemma escape_hook : pause_hook_ctl -> escape s0 evs.
Proof. intros H; left; exact H. Qed.

(* whenever the task of a reachable state is resumed, in every configuration the interpreter
   goes through: the loop-body assertion holds, and the cleanup's move to idle is accepted *)
Theorem assertion_never_fails s1 os1 :
  ~ In (OBad 1) oN -> visited sN (s1, CBody, os1) -> aligned s1.
Proof. intros Hno Hv. eapply no_assertion_exit; [exact escape_hook | apply reach_Inv, Hno | exact Hv]. Qed.

Theorem cleanup_never_refused s1 r pend os1 :
  ~ In (OBad 1) oN -> visited sN (s1, CFinalize r pend, os1) ->
  allowed (state s1) Idle = true /\ state (fst (finalize s1 r pend)) = Idle.
Proof.
  intros Hno Hv.
  destruct (cleanup_always_accepted _ escape_hook _ _ _ _ _ (reach_Inv Hno) Hv) as (A & B & _).
  split; assumption.
Qed.

Theorem stacks_never_empty_reach s1 os1 :
  ~ In (OBad 1) oN -> visited sN (s1, CAfterSleep, os1) ->
  exists r rest top below, resps s1 = r :: rest /\ plans s1 = top :: below /\
                           List.length rest = List.length below.
Proof. intros Hno Hv. eapply stacks_never_empty; [exact escape_hook | apply reach_Inv, Hno | exact Hv]. Qed.

(* replaces the second half of (I3): a reachable engine becomes paused only through the task,
   and is then paused, interrupted, blocking, resumable, waiting for the permit *)
Theorem paused_only_by_task e s' o :
  ~ In (OBad 1) oN -> step sN e = (s', o) -> pc sN <> PcPaused -> pc s' = PcPaused ->
  e = EvTask /\ state s' = Paused /\ blocking s' = true /\ interrupted s' = true /\
  resumable s' = true /\ must_cancel s' = false /\ permit s' = false.
Proof.
  intros Hno Hst Hn Hp.
  eapply enter_paused; [exact escape_hook | apply reach_Inv, Hno | exact Hst | exact Hn | exact Hp].
Qed.

Theorem interrupted_has_cause : ~ In (OBad 1) oN -> interrupted sN = true -> icause sN <> None.
Proof. intros Hno. eapply inv_interrupted_has_cause, reach_Inv, Hno. Qed.

(* full form: the escapes appear as disjuncts *)
Theorem interrupted_idle_cause_full r :
  ~ In (OBad 1) oN -> pc sN = PcDone r -> normal_done r = true ->
  interrupted sN = true -> icause sN = Some CzPause ->
  late_pause sN = true \/ intr_err sN = true \/ pause_hook_ctl \/ ~ sched_ok s0 evs.
Proof.
  intros Hno Hp Hn Hi Hc.
  destruct (inv_interrupted_idle_cause _ _ _ (reach_Inv Hno) Hp Hn Hi Hc) as [H|[H|[H|H]]]; auto.
Qed.

Theorem interrupted_idle_cause r :
  ~ pause_hook_ctl -> sched_ok s0 evs ->
  ~ In (OBad 1) oN -> pc sN = PcDone r -> normal_done r = true ->
  interrupted sN = true -> icause sN = Some CzPause ->
  late_pause sN = true \/ intr_err sN = true.
Proof.
  intros Hh Hs Hno Hp Hn Hi Hc.
  destruct (interrupted_idle_cause_full r Hno Hp Hn Hi Hc) as [H|[H|[H|H]]]; auto; contradiction.
Qed.
End Reach.

End Inv.

(* ================================================================== summary
   Model: Engine/RE.v (frozen).  Everything below holds for every plan coalgebra
   (P, presume, plan_of), every device oracle (D, dev), every initial configuration and every
   schedule, with sN = fst (run (init ..) evs), oN = snd (run (init ..) evs).

   reach_inv            Inv (escape ..) sN  \/  (oof sN /\ In (OBad 1) oN)
                        (oof: the interpreter's fuel ran out; absorbing, always reported as OBad 1;
                         RE_InvEx.out_of_fuel_reachable shows it can happen for plan coalgebras no
                         generator implements.)  All corollaries assume ~ In (OBad 1) oN.
   Inv G s              I1 pc_state_ok (pc s) (state s)
                        I2 blocking -> pc in {PcNone, PcPaused, PcDone}
                        I3 pc = PcPaused -> must_cancel = false /\ resumable /\ (blocking -> permit = false)
                        I4 stack_a: aligned (equal length, non-empty) at PcNotStarted/PcPermit0/PcSleep0/
                           PcPaused; one response short at PcCmd
                        .. pc in {PcSleep0, PcCmd} -> permit;  pc = PcCmd -> stashed = None
                        .. state = Idle -> bundlers = [];  state = Pausing -> interrupted
                        I6 interrupted -> icause <> None;  G \/ R6 s
   step_inv / run_inv   Inv is preserved by every event / schedule (G collects the two escapes of R6)
   dstep_inv, tentry_inv, visited_DInv
                        every configuration of the straight-line interpreter satisfies DInv
   T1 quiescent_state, blocking_pc          T2 paused_is_resumable, paused_pc_checkpoint
   T3 done_is_idle, idle_no_open_runs       T4 stacks_aligned, assertion_never_fails,
                                               stacks_never_empty(_reach), cbody_no_assert_exit
   I1 pc_state_typing, cleanup_never_stranded, cleanup_never_refused
   T5 interrupted_has_cause, interrupted_idle_cause(_full)
   I3' paused_only_by_task / enter_paused   (the transition form of "paused means interrupted")
   Table facts used: the lemmas allowed_* at the top of the file, nothing else. *)
