"""C01 - every opened run is a well-formed document stream, whatever happens."""
from harness.props.engine_common import *  # noqa: F401,F403
from harness.props import docs_common as dc
from harness.props import engine_common as ec

ID = "C01"
PROP_FILE = "Props/C01.v"
THEOREMS = ["C01_document_stream_well_formed", "C01_monitor_tracks_engine", "C01_run_structure", "C01_all_stopped_when_idle"]
COQ_IMPORTS = dc.COQ_IMPORTS
RULE = dc.RULE + " || C01 additionally re-runs a deterministic sample (every 5th case) with the raw documents kept: uid uniqueness, references, event_model JSON schema"
coq_term = dc.coq_term


def cases(rng, tier):
    # + oracle-only families (not in the engine model): raising subscribers, monitored signals
    return dc.cases(rng, tier) + dc.engine_cases_docs.gen_subscribers(rng, tier) + dc.engine_cases_docs.gen_monitors(rng, tier)


def impl_batch(cases_):
    plain = [c for c in cases_ if c.get("oracle_only") != "docs"]
    special = [c for c in cases_ if c.get("oracle_only") == "docs"]
    obs = dict(zip((dc.case_key(c) for c in plain), ec.impl_batch(plain)))
    sample = [c for i, c in enumerate(plain) if i % 5 == 0]
    info = dc.docinfo_batch(sample + special)      # the special ones come back with their whole observation
    out = []
    for c in cases_:
        k = dc.case_key(c)
        if c.get("oracle_only") == "docs":
            o = dict(info[k])
            o["raw_docs"] = {"errors": o.get("errors", []), "verdict": o.get("verdict")}
            out.append(o)
            continue
        o = obs[k]
        r = info.get(k)
        if r is not None:
            o = dict(o)
            o["raw_docs"] = r
        out.append(o)
    return out


def oracle(case, obs):
    e = dc.driver_error(obs)
    if e:
        return e
    res = dc.mon(case, obs)
    why = dc.docs_monitor.first(res, ("grammar",))
    if why:
        return why
    sr = case.get("sub_raise")
    if sr and not sr.get("ignore") and sr.get("on") == "stop":
        # a consumer raising on the stop document with exceptions not ignored is C19's recorded finding C19-a
        # (later consumers miss that stop; the engine's re-close meets the poison pill): outside C01's hypothesis
        # "callbacks do not raise on the stop" -- the document grammar above is still required
        return None
    outs = ec.outs_of(obs)
    if outs and outs[-1]["state"] == "idle":
        # once the RunEngine is idle again: exactly one stop for every started run
        if res["open"]:
            return "engine idle but runs %s have no stop document" % res["open"]
        for u in res["started"]:
            if res["closed"].get(u, 0) != 1:
                return "run %s has %d stop documents" % (u, res["closed"].get(u, 0))
    for u, n in res["closed"].items():
        if n > 1:
            return "run %s has %d stop documents" % (u, n)
    raw = obs.get("raw_docs")
    if raw is not None:
        if raw.get("errors"):
            return "driver (raw documents): " + str(raw["errors"][0])[:200]
        if raw.get("verdict"):
            return raw["verdict"]
    return None


def finding(case, obs):
    return None
