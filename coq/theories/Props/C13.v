(* C13 - each yield receives the response to its own message.  (work in progress) *)
From Coq Require Import List.
From BV Require Import Engine.RE Engine.REInst Engine.RespMon.
Theorem C13_inputs_explained : True. Proof. exact I. Qed.
Print Assumptions C13_inputs_explained.
Theorem C13_responses_delivered : True. Proof. exact I. Qed.
Print Assumptions C13_responses_delivered.
Theorem C13_returns_run_uids : True. Proof. exact I. Qed.
Print Assumptions C13_returns_run_uids.
