(* C32 - the plan simulator replays plans faithfully.
   Model: Gen/Simulator.v (RunEngineSimulator.simulate_plan / add_handler, check_limits_async in
   src/bluesky/simulators.py).  A plan is ANY coalgebra (state type P, resume : P -> val -> outcome P),
   so the theorems cover every generator, terminating or not; handlers are arbitrary predicates and
   arbitrary runnables (which may also change the handler list); check_value is an arbitrary function. *)
From BV Require Import Base.Prelude Gen.Simulator Proofs.Simulator.

(* whatever simulate_plan returns is a replay of the plan: the returned list is exactly the plan's yields
   in order, each yield is answered with the runnable of the FIRST handler in list order whose predicate
   holds (None when there is none), the recorded final value is the plan's return *)
Theorem C32_simulate_replays :
  forall (P : Type) (resume : P -> val -> outcome P) (H : Type) (pred : H -> msg -> bool)
         (run : H -> msg -> list H -> hres * list H) (fuel : nat) (p : P) (hs : list H) (o : sim_out H),
    simulate P resume H pred run fuel p VNone hs [] = Some o ->
    Replay P resume H pred run p VNone hs (o_msgs o) (o_final o) (o_hs o).
Proof. exact simulate_replays. Qed.
Print Assumptions C32_simulate_replays.

(* ... and every finite replay is what simulate_plan computes (any sufficient fuel): nothing is lost *)
Theorem C32_replay_simulated :
  forall (P : Type) (resume : P -> val -> outcome P) (H : Type) (pred : H -> msg -> bool)
         (run : H -> msg -> list H -> hres * list H) (p : P) (hs : list H) (ms : list msg) (fin : final) (hs' : list H),
    Replay P resume H pred run p VNone hs ms fin hs' ->
    exists fuel, forall fuel', fuel <= fuel' ->
      simulate P resume H pred run fuel' p VNone hs [] = Some {| o_msgs := ms; o_final := fin; o_hs := hs' |}.
Proof. exact replay_simulated. Qed.
Print Assumptions C32_replay_simulated.

(* add_handler with the default index: the newest matching handler wins, other messages are unaffected *)
Theorem C32_newest_handler_wins :
  forall (H : Type) (pred : H -> msg -> bool) (h : H) (hs : list H) (m : msg),
    first_match H pred (add_handler (IdxInt 0) h hs) m = if pred h m then Some h else first_match H pred hs m.
Proof. exact newest_handler_wins. Qed.
Print Assumptions C32_newest_handler_wins.

(* add_handler with any index (list.insert semantics incl. negative / too large / END): handlers before the
   insertion point win, then the new one, then the rest *)
Theorem C32_add_handler_position :
  forall (H : Type) (pred : H -> msg -> bool) (idx : hindex) (h : H) (hs : list H) (m : msg),
    let k := insert_pos idx (length hs) in
    first_match H pred (add_handler idx h hs) m =
    match first_match H pred (firstn k hs) m with
    | Some h' => Some h'
    | None => if pred h m then Some h else first_match H pred (skipn k hs) m
    end.
Proof. exact add_handler_position. Qed.
Print Assumptions C32_add_handler_position.

(* check_limits raises at the first set whose device has check_value and rejects the target - whatever the
   plan would do afterwards *)
Theorem C32_check_limits_raises_at_first_offender :
  forall (P : Type) (resume : P -> val -> outcome P) (limit_ok : dev -> val -> bool)
         (p : P) (pre : list msg) (p1 : P) (m : msg) (p2 : P) (d : dev) (v : val),
    Drives P resume p pre p1 -> resume p1 VNone = Yielded (YMsg m) p2 ->
    Forall (fun m => wf_msg m = true) pre -> Forall (fun m => offending limit_ok m = None) pre ->
    offending limit_ok m = Some (d, v) ->
    exists fuel, forall fuel', fuel <= fuel' -> check_limits P resume limit_ok fuel' p [] = Some (CLLimit d v).
Proof. exact check_limits_raises. Qed.
Print Assumptions C32_check_limits_raises_at_first_offender.

(* ... and never for others: a terminating plan with no such set passes *)
Theorem C32_check_limits_ok :
  forall (P : Type) (resume : P -> val -> outcome P) (limit_ok : dev -> val -> bool)
         (p : P) (ms : list msg) (p' : P) (v : val),
    Drives P resume p ms p' -> resume p' VNone = Returned v ->
    Forall (fun m => wf_msg m = true) ms -> Forall (fun m => offending limit_ok m = None) ms ->
    exists fuel w, forall fuel', fuel <= fuel' -> check_limits P resume limit_ok fuel' p [] = Some (CLOk w).
Proof. exact check_limits_ok. Qed.
Print Assumptions C32_check_limits_ok.

(* conversely (no well-formedness needed): a limit error always comes from the first offending set, OK means
   the plan ended without one, and the devices warned about have no check_value *)
Theorem C32_check_limits_sound :
  forall (P : Type) (resume : P -> val -> outcome P) (limit_ok : dev -> val -> bool)
         (fuel : nat) (p : P) (r : cl_result),
    check_limits P resume limit_ok fuel p [] = Some r ->
    match r with
    | CLLimit d v =>
        exists pre p1 m p2, Drives P resume p pre p1 /\ resume p1 VNone = Yielded (YMsg m) p2 /\
                            Forall (fun m => offending limit_ok m = None) pre /\ offending limit_ok m = Some (d, v)
    | CLOk w =>
        exists ms p' v, Drives P resume p ms p' /\ resume p' VNone = Returned v /\
                        Forall (fun m => offending limit_ok m = None) ms /\ uncheckable w
    | _ => True
    end.
Proof. exact check_limits_sound. Qed.
Print Assumptions C32_check_limits_sound.

(* ---- non-vacuity: a concrete plan and handler set where two handlers match and the newest wins,
        falsy handler results are sent, and the plan's return is recorded ---- *)
Definition nv_dev : dev := {| d_id := 1; d_name := 7; d_checkable := true; d_lo := 0; d_hi := 5 |}.
Definition nv_read : msg := {| m_cmd := 11; m_obj := Some nv_dev; m_args := [] |}.
Definition nv_set (z : Z) : msg := {| m_cmd := 0; m_obj := Some nv_dev; m_args := [VInt z] |}.
Definition nv_plan : dplan := DYield (YMsg nv_read) [] (DYield (YMsg (nv_set 3)) [] DRetRecv).
Definition nv_handlers : list hspec :=
  setup [(IdxInt 0, HS 1 [11%N] FNone (RConst (VStr 1)) []); (IdxInt 0, HS 2 [11%N; 0%N] (FName 7) (RConst (VInt 0)) [])].

Example C32_simulate_nonvacuous :
  simulate dstate dresume hspec hpred hrun 8 (Fresh nv_plan) VNone nv_handlers [] =
  Some {| o_msgs := [nv_read; nv_set 3]; o_final := FReturned (VTuple [VInt 0; VInt 0]); o_hs := nv_handlers |}.
Proof. vm_compute. reflexivity. Qed.

Definition nv_limits_plan : dplan := DYield (YMsg (nv_set 3)) [] (DYield (YMsg nv_read) [] (DYield (YMsg (nv_set 6)) [] (DRet VNone))).
Example C32_check_limits_nonvacuous :
  check_limits dstate dresume in_limits 8 (Fresh nv_limits_plan) [] = Some (CLLimit nv_dev (VInt 6)) /\
  Drives dstate dresume (Fresh nv_limits_plan) [nv_set 3; nv_read] (Waiting [] (DYield (YMsg (nv_set 6)) [] (DRet VNone)) [VNone]) /\
  offending in_limits (nv_set 6) = Some (nv_dev, VInt 6) /\ offending in_limits (nv_set 3) = None.
Proof.
  split; [vm_compute; reflexivity|]. split; [|split; vm_compute; reflexivity].
  econstructor; [reflexivity|]. econstructor; [reflexivity|]. constructor.
Qed.
