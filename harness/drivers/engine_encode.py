"""Encode an engine case + the driver's record of the real run as Coq terms for Engine/REInst.v.

encode(case, out) -> dict with Coq text for tapes, ledger, events, expected observations.
Anything outside the modelled fragment raises Unsupported (the case is then not sent to Coq and
is counted as such in the evidence).
"""


class Unsupported(Exception):
    pass


EXN = {
    "EUser1": "EUser1", "EUser2": "EUser2", "EDev": "EDev", "ValueError": "EValueError",
    "RequestAbort": "ERequestAbort", "RequestStop": "ERequestStop", "PlanHalt": "EPlanHalt",
    "FailedPause": "EFailedPause", "FailedStatus": "EFailedStatus", "IllegalMessageSequence": "EIMS",
    "InvalidCommand": "EInvalidCommand", "CancelledError": "ECancelled", "RuntimeError": "ERuntimeError",
    "GeneratorExit": "EGeneratorExit", "TransitionError": "ETransition", "StopIteration": "EStopIteration",
    "TypeError": "ETypeError", "AssertionError": "EAssertion",
}
STATE = {"idle": "Idle", "running": "Running", "pausing": "Pausing", "paused": "Paused", "halting": "Halting",
         "stopping": "Stopping", "aborting": "Aborting", "suspending": "Suspending", "panicked": "Panicked"}
EXIT = {"success": "XSuccess", "abort": "XAbort", "fail": "XFail"}
METH = {"read": "MRead", "set": "MSet", "trigger": "MTrigger", "stop": "MStop", "stage": "MStage",
        "unstage": "MUnstage", "pause": "MPause", "resume": "MResume"}


def exn(name):
    return EXN.get(name, "EOther")


def cb(b):
    return "true" if b else "false"


def cl(xs):
    return "[" + "; ".join(xs) + "]"


def cnl(xs):
    return cl([str(int(x)) for x in xs])


class Enc:
    def __init__(self, case, out):
        self.case, self.out = case, out
        self.groups = {"None": 0}
        self.runs = {None: 0}
        self.streams = {"primary": 0, "interruptions": 1}
        self.given_reasons = {"because": 1, "main": 2}

    def code(self, table, k):
        if k not in table:
            table[k] = len(table)
        return table[k]

    def reason(self, r):
        if r is None or r == "":
            return "RsEmpty"
        if r in self.given_reasons:
            return "(RsGiven %d)" % self.given_reasons[r]
        if isinstance(r, str) and r.startswith("given:"):
            return "(RsGiven %d)" % (10 + int(r[6:]))
        return "RsExnText"

    def val(self, v):
        if v is None:
            return "VNone"
        if isinstance(v, bool):
            return "(VBool %s)" % cb(v)
        if isinstance(v, int):
            return "(VInt (%d)%%Z)" % v
        if isinstance(v, list) and v:
            t = v[0]
            if t == "uid":
                return "(VUid %d)" % v[1]
            if t == "status":
                return "(VStatus %d)" % v[1]
            if t == "reading":
                if len(v[1]) == 1 and str(v[1][0][0]).startswith("d"):
                    return "(VReading %d (%d)%%Z)" % (int(v[1][0][0][1:]), v[1][0][1])
                return "VOther"
            if t == "devs":
                return "(VDevs %s)" % cnl(v[1])
            if t == "futs":
                return "(VFuts %d)" % v[1]
            if t == "list" and v[1] == []:
                return "(VDevs [])"
        return "VOther"

    def cmd(self, m):
        c, a = m["cmd"], m["args"]
        if c == "null":
            return "CNull"
        if c == "sleep":
            return "CSleep"
        if c == "checkpoint":
            return "CCheckpoint"
        if c == "clear_checkpoint":
            return "CClearCheckpoint"
        if c == "rewindable":
            return "(CRewindable %s)" % ("None" if a[0] is None else "(Some %s)" % cb(a[0]))
        if c == "pause":
            return "(CPause %s)" % cb(a[0])
        if c == "open_run":
            return "COpenRun"
        if c == "close_run":
            es = "None" if a[0] is None else "(Some %s)" % EXIT[a[0]]
            return "(CCloseRun %s %s)" % (es, self.reason(a[1]))
        if c == "create":
            return "(CCreate %d)" % self.code(self.streams, a[0])
        if c in ("read", "save", "drop", "stage", "unstage", "stop"):
            return "C" + c.capitalize()
        if c == "set":
            return "(CSet %d)" % self.code(self.groups, a[0])
        if c == "trigger":
            return "(CTrigger %d)" % self.code(self.groups, a[0])
        if c == "wait":
            return "(CWait %d)" % self.code(self.groups, a[0])
        if c == "wait_for":
            return "(CWaitFor %s)" % cnl(a[0])
        if c == "_start_suspender":
            return "(CStartSuspender %d %s %s)" % (a[0], cb(a[1]), cb(a[2]))
        if c == "_resume_from_suspender":
            return "CResumeFromSuspender"
        if c.startswith("unknown"):
            return "CUnknown"
        raise Unsupported("command " + c)

    def msg(self, m, mid):
        return "{| mid := %s; mcmd := %s; mobj := %s; mrun := %d |}" % (
            "None" if mid is None else "(Some %d)" % mid, self.cmd(m),
            "None" if m["obj"] is None else "(Some %d)" % m["obj"], self.code(self.runs, m["run"]))

    def inp(self, i):
        if i[0] == "send":
            return "(Send %s)" % self.val(i[1])
        if i[0] == "throw":
            return "(Throw %s)" % exn(i[1])
        return "Close"

    def encode(self):
        out = self.out
        if out.get("errors"):
            raise Unsupported("driver errors: %s" % out["errors"][:1])
        if any("stagest" in fl for fl in self.case.get("devs", [])):
            raise Unsupported("a device whose stage()/unstage() returns a Status (the model's stage answers with a device list)")
        msgs = out["msgs"]
        tapes = []
        for tid, tape in sorted(out["tapes"].items(), key=lambda kv: int(kv[0])):
            ents = []
            for _inp, o in tape:
                if o[0] == "yield":
                    ents.append("TY %s" % self.msg(msgs[o[1]], o[1]))
                elif o[0] == "ret":
                    ents.append("TR %s" % self.val(o[1]))
                elif o[0] == "raise":
                    ents.append("TE %s" % exn(o[1]))
                else:
                    ents.append("TClosed")
            tapes.append("(%d, %s)" % (int(tid), cl(ents)))
        ledger = []
        for d, meth, res in out["devcalls"]:
            if meth not in METH:
                raise Unsupported("device method " + meth)
            if res[0] == "raise":
                ledger.append("DRaise %s" % exn(res[1]))
            elif res[0] == "status":
                ledger.append("DStatus %d false" % res[1])
            elif res[1] is None:
                ledger.append("DUnit")
            else:
                ledger.append("DVal (%d)%%Z" % res[1])
        evs = []
        ncall = 0
        for e in out["sched"]:
            k = e[0]
            if k == "main":
                if e[1] == "call":
                    evs.append("EvMain (ACall %d)" % ncall)
                    ncall += 1
                else:
                    evs.append("EvMain A%s" % e[1].capitalize())
            elif k == "main_done":
                evs.append("EvMainDone %s" % ("(ACall 0)" if e[1] == "call" else "A" + e[1].capitalize()))
            elif k == "permit_set":
                evs.append("EvPermit")
            elif k == "task":
                evs.append("EvTask")
            elif k == "req_done":
                kind, p = e[1], e[2]
                if kind == "pause":
                    if p is None:
                        raise Unsupported("pause request without recorded parameter")
                    evs.append("EvReqPause %s" % cb(p))
                elif kind == "abort":
                    evs.append("EvReqAbort %s" % self.reason(p))
                elif kind == "stop":
                    evs.append("EvReqStop")
                elif kind == "halt":
                    evs.append("EvReqHalt")
                elif kind == "suspend":
                    evs.append("EvReqSuspend %d %s %s" % (p[0], cb(p[1]), cb(p[2])))
            elif k == "inject":
                if e[1] == "release":
                    evs.append("EvRelease %d" % e[2])
            elif k == "resume_task":
                evs.append("EvResumeTask")
            elif k == "cache_done":
                evs.append("EvCacheDone")
            elif k == "status_done":
                evs.append("EvStatus %d %s" % (e[1], cb(e[2])))
        obs = []
        for o in out["obs"]:
            k = o[0]
            if k == "main":
                continue
            if k == "msg":
                obs.append("OMsg %s" % self.msg(o[2], o[1]))
            elif k == "resp":
                v = o[1]
                if isinstance(v, list) and v and v[0] == "exn" and v[1] == "WaitForTimeoutError":
                    # `wait` on a group in which one status failed while another is still pending: asyncio.wait
                    # (FIRST_EXCEPTION) returns with pending futures and _wait_for raises WaitForTimeoutError.
                    # This path is outside the modelled fragment (the oracles still judge the run).
                    raise Unsupported("wait: a status of the group failed while another was pending (WaitForTimeoutError path)")
                if isinstance(v, list) and v and v[0] == "exn":
                    obs.append("OResp (RExn %s)" % exn(v[1]))
                else:
                    obs.append("OResp (RVal %s)" % self.val(v))
            elif k == "state":
                obs.append("OState %s %s" % (STATE[o[1]], STATE[o[2]]))
            elif k == "task":
                w = o[1]
                if w == "sleep0":
                    obs.append("OTask WSleep0")
                elif w == "future":
                    obs.append("OTask WFuture")
                elif w == "return":
                    obs.append("OTask WReturn")
                else:
                    obs.append("OTask (WRaise %s)" % exn(w.split(":", 1)[1]))
            elif k == "req":
                obs.append("OReq %s" % cb(o[1]))
            elif k == "dev":
                if o[2] not in METH:
                    raise Unsupported("device method " + o[2])
                obs.append("ODev %d %s" % (o[1], METH[o[2]]))
            elif k == "plan_in":
                obs.append("OPlanIn %d %s" % (o[1], self.inp(o[2])))
            elif k == "doc":
                if o[1] == "start":
                    obs.append("ODoc (DStart %d)" % o[2])
                elif o[1] == "stop":
                    num = cl(["(%d, %d)" % (self.code(self.streams, n), c) for n, c in o[5]])
                    obs.append("ODoc (DStop %d %s %s %s)" % (o[2], EXIT[o[3]], self.reason(o[4]), num))
                elif o[1] == "descriptor":
                    if o[3] == "interruptions":
                        obs.append("ODoc (DDescr %d 1 [])" % o[2])
                    else:
                        obs.append("ODoc (DDescr %d %d %s)" % (o[2], self.code(self.streams, o[3]), cnl(int(x[1:]) for x in o[4])))
                elif o[1] == "event":
                    if o[3] == "interruptions":
                        obs.append("ODoc (DIntr %d %d)" % (o[2], o[4]))
                    else:
                        data = cl(["(%d, (%d)%%Z)" % (int(kk[1:]), vv) for kk, vv in o[5]])
                        obs.append("ODoc (DEvent %d %d %d %s)" % (o[2], self.code(self.streams, o[3]), o[4], data))
                else:
                    raise Unsupported("document " + o[1])
            elif k == "out":
                # ["out", action, kind, ..., state, deferred]
                kind = o[2]
                if kind == "return":
                    v = o[3]
                    uids = [x[1] for x in v[1]] if isinstance(v, list) and v[0] == "list" else []
                    oo = "(OutReturn %s)" % cnl(uids)
                elif kind == "interrupted":
                    oo = "OutInterrupted"
                else:
                    oo = "(OutRaise %s)" % exn(o[3])
                obs.append("OOut %s %s %s %s" % (oo, STATE[o[-3]], cb(o[-2]), cb(o[-1])))
            else:
                raise Unsupported("observation " + k)
        devs = self.case.get("devs", [["stage"], [], ["pause"]])
        paus = [i for i, fl in enumerate(devs) if "pause" in fl]
        stag = [i for i, fl in enumerate(devs) if "stage" in fl]
        return {"tapes": cl(tapes), "ledger": cl(ledger), "paus": cnl(paus), "stag": cnl(stag),
                "rec": cb(self.case.get("record_interruptions", False)), "evs": cl(evs),
                "obs": cl(["(%s)" % x for x in obs]), "nobs": len(obs), "obs_list": obs}


def coq_check_term(case, out):
    e = Enc(case, out).encode()
    return "check %s %s %s %s %s %s %s" % (e["tapes"], e["ledger"], e["paus"], e["stag"], e["rec"], e["evs"], e["obs"])


def debug(case, out):
    """Print the model's observation list next to the real one (development aid)."""
    import os
    import re
    import subprocess
    from harness.core import COQ, coq_flags
    e = Enc(case, out).encode()
    src = ("From BV Require Import Engine.RE Engine.REInst.\nFrom Coq Require Import List ZArith. Import ListNotations.\n"
           "Definition mo := model_obs %s %s %s %s %s %s.\nDefinition ex : list obs := %s.\n"
           "Eval vm_compute in (first_diff 0 mo ex).\nEval vm_compute in mo.\n"
           % (e["tapes"], e["ledger"], e["paus"], e["stag"], e["rec"], e["evs"], e["obs"]))
    os.makedirs(os.path.join(COQ, "cases"), exist_ok=True)
    p = os.path.join(COQ, "cases", "debug_engine.v")
    open(p, "w").write(src)
    r = subprocess.run(["coqc"] + coq_flags() + ["cases/debug_engine.v"], cwd=COQ, capture_output=True, text=True)
    txt = r.stdout + r.stderr
    flat = " ".join(txt.split())
    m = re.search(r"= (Some \d+|None)", flat)
    print("first difference:", m.group(1) if m else txt[:2000])
    m2 = re.search(r"= \[(.*)\] : list obs", flat)
    model = [x.strip() for x in split_top(m2.group(1))] if m2 else []
    real = e["obs_list"]
    for i in range(max(len(model), len(real))):
        a = model[i] if i < len(model) else "-"
        b = real[i] if i < len(real) else "-"
        mark = "  " if norm(a) == norm(b) else "!!"
        print("%s %3d  model: %-60s real: %s" % (mark, i, a, b))


def norm(s):
    return s.replace("%Z", "").replace("(", "").replace(")", "").replace(" ", "")


def split_top(s):
    out, depth, cur = [], 0, ""
    for ch in s:
        if ch in "([{":
            depth += 1
        elif ch in ")]}":
            depth -= 1
        if ch == ";" and depth == 0:
            out.append(cur)
            cur = ""
        else:
            cur += ch
    if cur.strip():
        out.append(cur)
    return out


if __name__ == "__main__":
    import json
    import sys
    from harness.drivers.engine_driver import run_case
    case = json.loads(sys.argv[1])
    out = run_case(case)
    if out["errors"]:
        print("ERRORS", out["errors"])
    debug(case, out)
