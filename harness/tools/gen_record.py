"""Development-time helper: print a Coq Record and one setter per field (Coq 8.16 has no record update).
usage: gen_record.py  (edit FIELDS below)"""
FIELDS = [
    ("b_strict", "bool"), ("b_record_int", "bool"),
    ("b_bundling", "bool"), ("b_bundle_name", "option name"), ("b_run_uid", "option uid"),
    ("b_objs_read", "list obj"), ("b_read_cache", "list reading"), ("b_asset_cache", "list asset"),
    ("b_desc_cache", "dict dks"), ("b_dcoll_cache", "dict dks"),
    ("b_cfgdesc_cache", "list obj"), ("b_cfgval_cache", "dict (option Z)"),
    ("b_descriptors", "dict descr"), ("b_descriptor_objs", "dict (dict dks)"),
    ("b_seq", "dict Z"), ("b_seq_copy", "dict Z"),
    ("b_monitors", "dict nat"), ("b_mon_susp", "nat"), ("b_sres_keys", "list (uid * key)"),
    ("b_run_open", "bool"), ("b_uncollected", "list obj"), ("b_declared", "list (list obj * list name)"), ("b_local", "list obj"),
    ("b_int", "option (option descr)"), ("b_int_counter", "nat"),
    ("b_composed", "bool"), ("b_streams", "dict (list key)"), ("b_poison", "bool"),
    ("b_next_uid", "nat"), ("b_next_cb", "nat"),
    ("w_cfg", "dict Z"), ("w_subs", "list (obj * nat)"), ("w_closures", "dict (obj * descr)"),
    ("b_out", "list doc"), ("b_ledger", "list devcall"),
]
print("Record bstate := mkB {")
print(";\n".join("  %s : %s" % f for f in FIELDS))
print("}.")
print()
names = [f for f, _ in FIELDS]
for i, (f, t) in enumerate(FIELDS):
    args = " ".join(("x" if j == i else "(%s s)" % n) for j, n in enumerate(names))
    print("Definition set_%s (x : %s) (s : bstate) : bstate :=\n  mkB %s." % (f, t, args))
