(* C05 - seq_num and num_events account for every event exactly.

   Model: Engine/RE.v with its minimal RunBundler (bundled streams + the 'interruptions' stream).
   The numbering discipline is the one of the document monitor Engine/DocMon.v, per run and stream:
   an event carries exactly the next seq_num when nothing was rolled back since the last event of
   the stream; after a rewind point (an accepted resume, a `_start_suspender`) it carries a number in
   1..next (a re-taken point), never a skipped one; the interruptions stream is never rolled back;
   RunStop.num_events is next-1 and lists every described stream.
   The statement of the property, in full, for the streams the engine model has (bundled streams and
   the interruptions stream), for every plan, device and schedule:
   - C05_numbering_exact: every run is accepted by the refined monitor Engine/DocMon2.v, which also
     tracks the checkpoint snapshot of the counters: a re-issued seq_num is never below the counter
     value at the last `checkpoint` message that took effect;
   - C05_successive_events (plain reading): two successive events of a stream never skip a seq_num
     and carry consecutive seq_nums unless a rewind mark (a resume() call, a `_start_suspender`
     message) lies between them;
   - C05_checkpoint_protects (plain reading): an event followed by an effective `checkpoint` message
     (nothing of its stream, no rewind mark in between) is never re-issued while no
     `clear_checkpoint` is processed: re-issued seq_nums belong to points begun after the last checkpoint;
   - C05_counts_exact: in a trace that never stops a run behind a rewind (outside finding class
     C05-b), at every RunStop and for every stream it reports, the seq_nums emitted in that stream are
     exactly 1..num_events: num_events = number of distinct seq_nums emitted = largest seq_num.
   C05_full (exact counts at every RunStop) is violated by the unchanged code inside class C05-b
   (C05_b_refuted).  Still outside the engine model: monitor streams, collect / stream datums
   (bundler side: C15, C16, C41, C45).  The snapshot bound of DocMon2 is the one of explicit
   `checkpoint` messages; the implicit checkpoints (close_run, stage/unstage, rewindable toggles) only
   move the real snapshot up (Proofs/RE_DocsMon2.v: Rel_b_snapshot), so the bound is sound, not tight. *)
From Coq Require Import List ZArith Bool.
From BV Require Import Engine.RE Engine.REInst Engine.DocMon Proofs.RE_Docs Proofs.RE_DocsMon Proofs.RE_DocsCor.
From BV Require Engine.DocMon2 Proofs.RE_Docs2 Proofs.RE_DocsMon2 Proofs.RE_DocsCor2 Proofs.RE_DocsExact.
Import ListNotations.

Theorem C05_numbering_partial :
  forall (P : Type) (presume : P -> input -> outcome P) (plan_of : nat -> P)
         (D : Type) (dev : D -> nat -> devmeth -> D * devres)
         (d : D) (paus stag : list nat) (rec : bool) (evs : list event),
    docs_ok rec (snd (run_steps P presume plan_of D dev (init P D d paus stag rec) evs)) = true.
Proof. exact run_docs_ok. Qed.
Print Assumptions C05_numbering_partial.

(* the statement of the property at every RunStop: num_events = largest seq_num emitted *)
Definition C05_full : Prop :=
  forall (P : Type) (presume : P -> input -> outcome P) (plan_of : nat -> P)
         (D : Type) (dev : D -> nat -> devmeth -> D * devres)
         (d : D) (paus stag : list nat) (rec : bool) (evs : list event),
    miscounted rec (snd (run_steps P presume plan_of D dev (init P D d paus stag rec) evs)) = false.

(* finding class C05-b: some run was stopped behind a rewind (after a resume/suspension rolled its
   counters back and before the replay had re-emitted everything).  Outside the class the counts are exact. *)
Definition finding_C05_b (rec : bool) (l : list (event * list obs)) : Prop := stopped_behind rec l = true.

Theorem C05_counts_exact_outside_b :
  forall (P : Type) (presume : P -> input -> outcome P) (plan_of : nat -> P)
         (D : Type) (dev : D -> nat -> devmeth -> D * devres)
         (d : D) (paus stag : list nat) (rec : bool) (evs : list event),
    miscounted rec (snd (run_steps P presume plan_of D dev (init P D d paus stag rec) evs)) = true ->
    stopped_behind rec (snd (run_steps P presume plan_of D dev (init P D d paus stag rec) evs)) = true.
Proof. exact counts_exact_outside_b. Qed.
Print Assumptions C05_counts_exact_outside_b.

Theorem C05_interruptions_never_rolled_back :
  forall (P : Type) (presume : P -> input -> outcome P) (plan_of : nat -> P)
         (D : Type) (dev : D -> nat -> devmeth -> D * devres)
         (d : D) (paus stag : list nat) (rec : bool) (evs : list event),
    exists m', mon_steps rec mon0 (snd (run_steps P presume plan_of D dev (init P D d paus stag rec) evs)) = Some m' /\
               Forall intr_exact (m_open m').
Proof. exact interruptions_exact. Qed.
Print Assumptions C05_interruptions_never_rolled_back.

(* ---------------------------------------------------------------- the full numbering statement *)
Theorem C05_numbering_exact :
  forall (P : Type) (presume : P -> input -> outcome P) (plan_of : nat -> P)
         (D : Type) (dev : D -> nat -> devmeth -> D * devres)
         (d : D) (paus stag : list nat) (rec : bool) (evs : list event),
    DocMon2.docs_ok rec (snd (run_steps P presume plan_of D dev (init P D d paus stag rec) evs)) = true.
Proof. exact RE_DocsMon2.run_docs_ok. Qed.
Print Assumptions C05_numbering_exact.

Theorem C05_successive_events :
  forall (P : Type) (presume : P -> input -> outcome P) (plan_of : nat -> P)
         (D : Type) (dev : D -> nat -> devmeth -> D * devres)
         (d : D) (paus stag : list nat) (rec : bool) (evs : list event)
         (A : list RE_DocsCor2.item) (d1 : doc) (B : list RE_DocsCor2.item) (d2 : doc) (C : list RE_DocsCor2.item)
         (u name n1 n2 : nat),
    RE_DocsCor2.items (snd (run_steps P presume plan_of D dev (init P D d paus stag rec) evs)) =
      A ++ RE_DocsCor2.IOb (ODoc d1) :: B ++ RE_DocsCor2.IOb (ODoc d2) :: C ->
    RE_DocsCor2.on_stream u name d1 = Some n1 -> RE_DocsCor2.on_stream u name d2 = Some n2 ->
    forallb (fun it => negb (RE_DocsCor2.touches u name it)) B = true ->
    n2 <= S n1 /\ (forallb (fun it => negb (RE_DocsCor2.rewind_mark it)) B = true -> n2 = S n1).
Proof. exact RE_DocsCor2.run_successive_events. Qed.
Print Assumptions C05_successive_events.

Theorem C05_checkpoint_protects :
  forall (P : Type) (presume : P -> input -> outcome P) (plan_of : nat -> P)
         (D : Type) (dev : D -> nat -> devmeth -> D * devres)
         (d : D) (paus stag : list nat) (rec : bool) (evs : list event)
         (A : list RE_DocsCor2.item) (d1 : doc) (B : list RE_DocsCor2.item) (mm : msg) (ok : obs)
         (C : list RE_DocsCor2.item) (d2 : doc) (E : list RE_DocsCor2.item) (u name n1 n2 : nat),
    RE_DocsCor2.items (snd (run_steps P presume plan_of D dev (init P D d paus stag rec) evs)) =
      A ++ RE_DocsCor2.IOb (ODoc d1) :: B ++ RE_DocsCor2.IOb (OMsg mm) :: RE_DocsCor2.IOb ok :: C ++ RE_DocsCor2.IOb (ODoc d2) :: E ->
    RE_DocsCor2.on_stream u name d1 = Some n1 ->
    forallb (fun it => negb (RE_DocsCor2.touches u name it)) B = true ->
    forallb (fun it => negb (RE_DocsCor2.rewind_mark it)) B = true ->
    DocMon2.is_ckpt_msg mm = true -> RE_Docs2.ck_ok ok = true ->
    forallb (fun it => negb (RE_DocsCor2.clear_mark it)) C = true ->
    RE_DocsCor2.on_stream u name d2 = Some n2 -> n1 < n2.
Proof. exact RE_DocsCor2.run_checkpoint_protects. Qed.
Print Assumptions C05_checkpoint_protects.

Theorem C05_counts_exact :
  forall (P : Type) (presume : P -> input -> outcome P) (plan_of : nat -> P)
         (D : Type) (dev : D -> nat -> devmeth -> D * devres)
         (d : D) (paus stag : list nat) (rec : bool) (evs : list event),
    let tr := snd (run_steps P presume plan_of D dev (init P D d paus stag rec) evs) in
    stopped_behind rec tr = false ->
    forall l1 u xs rs num l2, docs_of (flat_map snd tr) = l1 ++ DStop u xs rs num :: l2 ->
    forall name N, In (name, N) num ->
      (forall k, In k (RE_DocsExact.seqs u name l1) <-> (1 <= k /\ k <= N)) /\
      List.length (nodup Nat.eq_dec (RE_DocsExact.seqs u name l1)) = N /\
      (forall k, In k (RE_DocsExact.seqs u name l1) -> k <= N) /\ (1 <= N -> In N (RE_DocsExact.seqs u name l1)).
Proof. exact RE_DocsExact.run_stops_exact. Qed.
Print Assumptions C05_counts_exact.

(* witness of C05-b (recorded from the implementation): events 1, 2, 3, pause, resume (roll-back to the
   checkpoint), abort before anything is re-taken: the RunStop says num_events = 0 although seq_nums 1..3 were emitted *)
(* exb: {"plan": ["seq", ["m", "open_run", null, [], {}, null], ["m", "checkpoint", null, [], {}, null], ["m", "create", null, [], {"name": "primary"}, null], ["m", "read", 1, [], {}, null], ["m", "save", null, [], {}, null], ["m", "create", null, [], {"name": "primary"}, null], ["m", "read", 1, [], {}, null], ["m", "save", null, [], {}, null], ["m", "create", null, [], {"name": "primary"}, null], ["m", "read", 1, [], {}, null], ["m", "save", null, [], {}, null], ["m", "null", null, [], {}, null], ["m", "null", null, [], {}, null], ["m", "null", null, [], {}, null], ["m", "null", null, [], {}, null], ["m", "close_run", null, [], {}, null]], "devs": [["stage"], [], ["pause"], ["stage"]], "inject": [{"at": 14, "req": "pause"}, {"at": 17, "req": "abort"}], "script": ["resume"], "tag": "behind"} *)
Definition exb_tapes := [(0, [TY {| mid := (Some 0); mcmd := COpenRun; mobj := None; mrun := 0 |}; TY {| mid := (Some 1); mcmd := CCheckpoint; mobj := None; mrun := 0 |}; TY {| mid := (Some 2); mcmd := (CCreate 0); mobj := None; mrun := 0 |}; TY {| mid := (Some 3); mcmd := CRead; mobj := (Some 1); mrun := 0 |}; TY {| mid := (Some 4); mcmd := CSave; mobj := None; mrun := 0 |}; TY {| mid := (Some 5); mcmd := (CCreate 0); mobj := None; mrun := 0 |}; TY {| mid := (Some 6); mcmd := CRead; mobj := (Some 1); mrun := 0 |}; TY {| mid := (Some 7); mcmd := CSave; mobj := None; mrun := 0 |}; TY {| mid := (Some 8); mcmd := (CCreate 0); mobj := None; mrun := 0 |}; TY {| mid := (Some 9); mcmd := CRead; mobj := (Some 1); mrun := 0 |}; TY {| mid := (Some 10); mcmd := CSave; mobj := None; mrun := 0 |}; TY {| mid := (Some 11); mcmd := CNull; mobj := None; mrun := 0 |}; TE ERequestAbort])].
Definition exb_ledger := [DVal (0)%Z; DVal (1)%Z; DVal (2)%Z].
Definition exb_paus := [2].
Definition exb_stag := [0; 3].
Definition exb_rec := false.
Definition exb_evs := [EvMain (ACall 0); EvPermit; EvTask; EvTask; EvTask; EvTask; EvTask; EvCacheDone; EvTask; EvTask; EvTask; EvTask; EvTask; EvTask; EvTask; EvTask; EvTask; EvReqPause false; EvTask; EvMainDone (ACall 0); EvMain AResume; EvPermit; EvTask; EvTask; EvReqAbort (RsGiven 1); EvTask; EvTask; EvMainDone AResume].
Definition exb_obs : list obs := [(OState Idle Running); (OTask WSleep0); (OPlanIn 0 (Send VNone)); (OMsg {| mid := (Some 0); mcmd := COpenRun; mobj := None; mrun := 0 |}); (ODoc (DStart 0)); (OResp (RVal (VUid 0))); (OTask WSleep0); (OPlanIn 0 (Send (VUid 0))); (OMsg {| mid := (Some 1); mcmd := CCheckpoint; mobj := None; mrun := 0 |}); (OResp (RVal VNone)); (OTask WSleep0); (OPlanIn 0 (Send VNone)); (OMsg {| mid := (Some 2); mcmd := (CCreate 0); mobj := None; mrun := 0 |}); (OResp (RVal VNone)); (OTask WSleep0); (OPlanIn 0 (Send VNone)); (OMsg {| mid := (Some 3); mcmd := CRead; mobj := (Some 1); mrun := 0 |}); (ODev 1 MRead); (OTask WFuture); (OResp (RVal (VReading 1 (0)%Z))); (OTask WSleep0); (OPlanIn 0 (Send (VReading 1 (0)%Z))); (OMsg {| mid := (Some 4); mcmd := CSave; mobj := None; mrun := 0 |}); (ODoc (DDescr 0 0 [1])); (ODoc (DEvent 0 0 1 [(1, (0)%Z)])); (OResp (RVal VNone)); (OTask WSleep0); (OPlanIn 0 (Send VNone)); (OMsg {| mid := (Some 5); mcmd := (CCreate 0); mobj := None; mrun := 0 |}); (OResp (RVal VNone)); (OTask WSleep0); (OPlanIn 0 (Send VNone)); (OMsg {| mid := (Some 6); mcmd := CRead; mobj := (Some 1); mrun := 0 |}); (ODev 1 MRead); (OResp (RVal (VReading 1 (1)%Z))); (OTask WSleep0); (OPlanIn 0 (Send (VReading 1 (1)%Z))); (OMsg {| mid := (Some 7); mcmd := CSave; mobj := None; mrun := 0 |}); (ODoc (DEvent 0 0 2 [(1, (1)%Z)])); (OResp (RVal VNone)); (OTask WSleep0); (OPlanIn 0 (Send VNone)); (OMsg {| mid := (Some 8); mcmd := (CCreate 0); mobj := None; mrun := 0 |}); (OResp (RVal VNone)); (OTask WSleep0); (OPlanIn 0 (Send VNone)); (OMsg {| mid := (Some 9); mcmd := CRead; mobj := (Some 1); mrun := 0 |}); (ODev 1 MRead); (OResp (RVal (VReading 1 (2)%Z))); (OTask WSleep0); (OPlanIn 0 (Send (VReading 1 (2)%Z))); (OMsg {| mid := (Some 10); mcmd := CSave; mobj := None; mrun := 0 |}); (ODoc (DEvent 0 0 3 [(1, (2)%Z)])); (OResp (RVal VNone)); (OTask WSleep0); (OPlanIn 0 (Send VNone)); (OMsg {| mid := (Some 11); mcmd := CNull; mobj := None; mrun := 0 |}); (OResp (RVal VNone)); (OTask WSleep0); (OState Running Pausing); (OReq true); (OState Pausing Paused); (OTask WFuture); (OOut OutInterrupted Paused false true); (OState Paused Running); (OTask WSleep0); (OMsg {| mid := (Some 2); mcmd := (CCreate 0); mobj := None; mrun := 0 |}); (OResp (RVal VNone)); (OTask WSleep0); (OState Running Aborting); (OReq true); (OPlanIn 0 (Throw ERequestAbort)); (OTask WSleep0); (ODoc (DStop 0 XAbort (RsGiven 1) [(0, 0)])); (OState Aborting Idle); (OTask WReturn); (OOut OutInterrupted Idle false true)].
Example C05_b_refuted :
  let l := model_steps exb_tapes exb_ledger exb_paus exb_stag exb_rec exb_evs in
  check exb_tapes exb_ledger exb_paus exb_stag exb_rec exb_evs exb_obs = true /\
  finding_C05_b exb_rec l /\ miscounted exb_rec l = true /\
  docs_of (flat_map snd l) =
    [DStart 0; DDescr 0 0 [1]; DEvent 0 0 1 [(1, 0%Z)]; DEvent 0 0 2 [(1, 1%Z)]; DEvent 0 0 3 [(1, 2%Z)];
     DStop 0 XAbort (RsGiven 1) [(0, 0)]].
Proof. vm_compute. repeat split. Qed.

(* non-vacuity: a schedule with a roll-back that is replayed completely: counts exact, class not entered *)
(* exk: {"plan": ["seq", ["m", "open_run", null, [], {}, "a"], ["m", "checkpoint", null, [], {}, null], ["m", "create", null, [], {"name": "primary"}, "a"], ["m", "read", 1, [], {}, "a"], ["m", "save", null, [], {}, "a"], ["m", "open_run", null, [], {}, "b"], ["m", "create", null, [], {"name": "primary"}, "b"], ["m", "read", 1, [], {}, "b"], ["m", "save", null, [], {}, "b"], ["m", "close_run", null, [], {}, "b"], ["m", "create", null, [], {"name": "primary"}, "a"], ["m", "read", 1, [], {}, "a"], ["m", "save", null, [], {}, "a"], ["m", "close_run", null, [], {}, "a"]], "devs": [["stage"], [], ["pause"], ["stage"]], "inject": [{"at": 9, "req": "pause"}], "script": ["resume"], "record_interruptions": true, "tag": "ex keys"} *)
Definition exk_tapes := [(0, [TY {| mid := (Some 0); mcmd := COpenRun; mobj := None; mrun := 1 |}; TY {| mid := (Some 1); mcmd := CCheckpoint; mobj := None; mrun := 0 |}; TY {| mid := (Some 2); mcmd := (CCreate 0); mobj := None; mrun := 1 |}; TY {| mid := (Some 3); mcmd := CRead; mobj := (Some 1); mrun := 1 |}; TY {| mid := (Some 4); mcmd := CSave; mobj := None; mrun := 1 |}; TY {| mid := (Some 5); mcmd := COpenRun; mobj := None; mrun := 2 |}; TY {| mid := (Some 6); mcmd := (CCreate 0); mobj := None; mrun := 2 |}; TY {| mid := (Some 7); mcmd := CRead; mobj := (Some 1); mrun := 2 |}; TY {| mid := (Some 8); mcmd := CSave; mobj := None; mrun := 2 |}; TY {| mid := (Some 9); mcmd := (CCloseRun None RsEmpty); mobj := None; mrun := 2 |}; TY {| mid := (Some 10); mcmd := (CCreate 0); mobj := None; mrun := 1 |}; TY {| mid := (Some 11); mcmd := CRead; mobj := (Some 1); mrun := 1 |}; TY {| mid := (Some 12); mcmd := CSave; mobj := None; mrun := 1 |}; TY {| mid := (Some 13); mcmd := (CCloseRun None RsEmpty); mobj := None; mrun := 1 |}; TR (VUid 0)])].
Definition exk_ledger := [DVal (0)%Z; DVal (1)%Z; DVal (2)%Z; DVal (3)%Z].
Definition exk_paus := [2].
Definition exk_stag := [0; 3].
Definition exk_rec := true.
Definition exk_evs := [EvMain (ACall 0); EvPermit; EvTask; EvTask; EvTask; EvTask; EvTask; EvCacheDone; EvTask; EvTask; EvTask; EvTask; EvReqPause false; EvTask; EvMainDone (ACall 0); EvMain AResume; EvPermit; EvTask; EvTask; EvTask; EvTask; EvTask; EvTask; EvTask; EvCacheDone; EvTask; EvTask; EvTask; EvTask; EvTask; EvTask; EvTask; EvTask; EvTask; EvMainDone AResume].
Definition exk_obs : list obs := [(OState Idle Running); (OTask WSleep0); (OPlanIn 0 (Send VNone)); (OMsg {| mid := (Some 0); mcmd := COpenRun; mobj := None; mrun := 1 |}); (ODoc (DStart 0)); (ODoc (DDescr 0 1 [])); (OResp (RVal (VUid 0))); (OTask WSleep0); (OPlanIn 0 (Send (VUid 0))); (OMsg {| mid := (Some 1); mcmd := CCheckpoint; mobj := None; mrun := 0 |}); (OResp (RVal VNone)); (OTask WSleep0); (OPlanIn 0 (Send VNone)); (OMsg {| mid := (Some 2); mcmd := (CCreate 0); mobj := None; mrun := 1 |}); (OResp (RVal VNone)); (OTask WSleep0); (OPlanIn 0 (Send VNone)); (OMsg {| mid := (Some 3); mcmd := CRead; mobj := (Some 1); mrun := 1 |}); (ODev 1 MRead); (OTask WFuture); (OResp (RVal (VReading 1 (0)%Z))); (OTask WSleep0); (OPlanIn 0 (Send (VReading 1 (0)%Z))); (OMsg {| mid := (Some 4); mcmd := CSave; mobj := None; mrun := 1 |}); (ODoc (DDescr 0 0 [1])); (ODoc (DEvent 0 0 1 [(1, (0)%Z)])); (OResp (RVal VNone)); (OTask WSleep0); (OPlanIn 0 (Send VNone)); (OMsg {| mid := (Some 5); mcmd := COpenRun; mobj := None; mrun := 2 |}); (ODoc (DStart 1)); (ODoc (DDescr 1 1 [])); (OResp (RVal (VUid 1))); (OTask WSleep0); (OPlanIn 0 (Send (VUid 1))); (OMsg {| mid := (Some 6); mcmd := (CCreate 0); mobj := None; mrun := 2 |}); (OResp (RVal VNone)); (OTask WSleep0); (OState Running Pausing); (ODoc (DIntr 0 1)); (ODoc (DIntr 1 1)); (OReq true); (OState Pausing Paused); (OTask WFuture); (OOut OutInterrupted Paused false true); (ODoc (DIntr 0 2)); (ODoc (DIntr 1 2)); (OState Paused Running); (OTask WSleep0); (OMsg {| mid := (Some 2); mcmd := (CCreate 0); mobj := None; mrun := 1 |}); (OResp (RVal VNone)); (OTask WSleep0); (OMsg {| mid := (Some 3); mcmd := CRead; mobj := (Some 1); mrun := 1 |}); (ODev 1 MRead); (OResp (RVal (VReading 1 (1)%Z))); (OTask WSleep0); (OMsg {| mid := (Some 4); mcmd := CSave; mobj := None; mrun := 1 |}); (ODoc (DEvent 0 0 1 [(1, (1)%Z)])); (OResp (RVal VNone)); (OTask WSleep0); (OMsg {| mid := (Some 6); mcmd := (CCreate 0); mobj := None; mrun := 2 |}); (OResp (RVal VNone)); (OTask WSleep0); (OTask WSleep0); (OPlanIn 0 (Send VNone)); (OMsg {| mid := (Some 7); mcmd := CRead; mobj := (Some 1); mrun := 2 |}); (ODev 1 MRead); (OTask WFuture); (OResp (RVal (VReading 1 (2)%Z))); (OTask WSleep0); (OPlanIn 0 (Send (VReading 1 (2)%Z))); (OMsg {| mid := (Some 8); mcmd := CSave; mobj := None; mrun := 2 |}); (ODoc (DDescr 1 0 [1])); (ODoc (DEvent 1 0 1 [(1, (2)%Z)])); (OResp (RVal VNone)); (OTask WSleep0); (OPlanIn 0 (Send VNone)); (OMsg {| mid := (Some 9); mcmd := (CCloseRun None RsEmpty); mobj := None; mrun := 2 |}); (ODoc (DStop 1 XSuccess RsEmpty [(1, 2); (0, 1)])); (OResp (RVal (VUid 1))); (OTask WSleep0); (OPlanIn 0 (Send (VUid 1))); (OMsg {| mid := (Some 10); mcmd := (CCreate 0); mobj := None; mrun := 1 |}); (OResp (RVal VNone)); (OTask WSleep0); (OPlanIn 0 (Send VNone)); (OMsg {| mid := (Some 11); mcmd := CRead; mobj := (Some 1); mrun := 1 |}); (ODev 1 MRead); (OResp (RVal (VReading 1 (3)%Z))); (OTask WSleep0); (OPlanIn 0 (Send (VReading 1 (3)%Z))); (OMsg {| mid := (Some 12); mcmd := CSave; mobj := None; mrun := 1 |}); (ODoc (DEvent 0 0 2 [(1, (3)%Z)])); (OResp (RVal VNone)); (OTask WSleep0); (OPlanIn 0 (Send VNone)); (OMsg {| mid := (Some 13); mcmd := (CCloseRun None RsEmpty); mobj := None; mrun := 1 |}); (ODoc (DStop 0 XSuccess RsEmpty [(1, 2); (0, 2)])); (OResp (RVal (VUid 0))); (OTask WSleep0); (OPlanIn 0 (Send (VUid 0))); (OTask WSleep0); (OState Running Idle); (OTask WReturn); (OOut (OutReturn [0; 1]) Idle false true)].
Example C05_nonvacuous :
  let l := model_steps exk_tapes exk_ledger exk_paus exk_stag exk_rec exk_evs in
  docs_ok exk_rec l = true /\ stopped_behind exk_rec l = false /\ miscounted exk_rec l = false /\
  In (DEvent 0 0 1 [(1, 0%Z)]) (docs_of (flat_map snd l)) /\ In (DEvent 0 0 1 [(1, 1%Z)]) (docs_of (flat_map snd l)).
Proof. vm_compute. repeat split; auto 20. Qed.

(* the monitor rejects a gap, a repeat without a rewind point, and a wrong count *)
Example C05_monitor_rejects :
  docs_ok false [(EvTask, [ODoc (DStart 0); ODoc (DDescr 0 0 [1]); ODoc (DEvent 0 0 1 []); ODoc (DEvent 0 0 3 [])])] = false /\
  docs_ok false [(EvTask, [ODoc (DStart 0); ODoc (DDescr 0 0 [1]); ODoc (DEvent 0 0 1 []); ODoc (DEvent 0 0 1 [])])] = false /\
  docs_ok false [(EvTask, [ODoc (DStart 0); ODoc (DDescr 0 0 [1]); ODoc (DEvent 0 0 1 []); ODoc (DStop 0 XSuccess RsEmpty [(0, 2)])])] = false /\
  docs_ok false [(EvTask, [ODoc (DStart 0); ODoc (DDescr 0 0 [1]); ODoc (DEvent 0 0 1 []); ODoc (DStop 0 XSuccess RsEmpty [])])] = false.
Proof. vm_compute. repeat split. Qed.

(* ---------------------------------------------------------------- non-vacuity of the new theorems
   recorded from the implementation: event 1, checkpoint, event 2, pause, resume (roll-back to the
   second checkpoint), event 2 again - never event 1 *)
(* ckp: {"plan": ["seq", ["m", "open_run", null, [], {}, null], ["m", "checkpoint", null, [], {}, null], ["m", "create", null, [], {"name": "primary"}, null], ["m", "read", 1, [], {}, null], ["m", "save", null, [], {}, null], ["m", "checkpoint", null, [], {}, null], ["m", "create", null, [], {"name": "primary"}, null], ["m", "read", 1, [], {}, null], ["m", "save", null, [], {}, null], ["m", "null", null, [], {}, null], ["m", "null", null, [], {}, null], ["m", "close_run", null, [], {}, null]], "devs": [["stage"], [], ["pause"], ["stage"]], "inject": [{"at": 12, "req": "pause"}], "script": ["resume"], "tag": "checkpoint protects"} *)
Definition ckp_tapes := [(0, [TY {| mid := (Some 0); mcmd := COpenRun; mobj := None; mrun := 0 |}; TY {| mid := (Some 1); mcmd := CCheckpoint; mobj := None; mrun := 0 |}; TY {| mid := (Some 2); mcmd := (CCreate 0); mobj := None; mrun := 0 |}; TY {| mid := (Some 3); mcmd := CRead; mobj := (Some 1); mrun := 0 |}; TY {| mid := (Some 4); mcmd := CSave; mobj := None; mrun := 0 |}; TY {| mid := (Some 5); mcmd := CCheckpoint; mobj := None; mrun := 0 |}; TY {| mid := (Some 6); mcmd := (CCreate 0); mobj := None; mrun := 0 |}; TY {| mid := (Some 7); mcmd := CRead; mobj := (Some 1); mrun := 0 |}; TY {| mid := (Some 8); mcmd := CSave; mobj := None; mrun := 0 |}; TY {| mid := (Some 9); mcmd := CNull; mobj := None; mrun := 0 |}; TY {| mid := (Some 10); mcmd := CNull; mobj := None; mrun := 0 |}; TY {| mid := (Some 11); mcmd := (CCloseRun None RsEmpty); mobj := None; mrun := 0 |}; TR (VUid 0)])].
Definition ckp_ledger := [DVal (0)%Z; DVal (1)%Z; DVal (2)%Z].
Definition ckp_paus := [2].
Definition ckp_stag := [0; 3].
Definition ckp_rec := false.
Definition ckp_evs := [EvMain (ACall 0); EvTask; EvPermit; EvTask; EvTask; EvTask; EvTask; EvTask; EvCacheDone; EvTask; EvTask; EvTask; EvTask; EvTask; EvTask; EvReqPause false; EvTask; EvMainDone (ACall 0); EvMain AResume; EvPermit; EvTask; EvTask; EvTask; EvTask; EvTask; EvTask; EvTask; EvTask; EvTask; EvTask; EvMainDone AResume].
Definition ckp_obs : list obs := [(OTask WFuture); (OState Idle Running); (OTask WSleep0); (OPlanIn 0 (Send VNone)); (OMsg {| mid := (Some 0); mcmd := COpenRun; mobj := None; mrun := 0 |}); (ODoc (DStart 0)); (OResp (RVal (VUid 0))); (OTask WSleep0); (OPlanIn 0 (Send (VUid 0))); (OMsg {| mid := (Some 1); mcmd := CCheckpoint; mobj := None; mrun := 0 |}); (OResp (RVal VNone)); (OTask WSleep0); (OPlanIn 0 (Send VNone)); (OMsg {| mid := (Some 2); mcmd := (CCreate 0); mobj := None; mrun := 0 |}); (OResp (RVal VNone)); (OTask WSleep0); (OPlanIn 0 (Send VNone)); (OMsg {| mid := (Some 3); mcmd := CRead; mobj := (Some 1); mrun := 0 |}); (ODev 1 MRead); (OTask WFuture); (OResp (RVal (VReading 1 (0)%Z))); (OTask WSleep0); (OPlanIn 0 (Send (VReading 1 (0)%Z))); (OMsg {| mid := (Some 4); mcmd := CSave; mobj := None; mrun := 0 |}); (ODoc (DDescr 0 0 [1])); (ODoc (DEvent 0 0 1 [(1, (0)%Z)])); (OResp (RVal VNone)); (OTask WSleep0); (OPlanIn 0 (Send VNone)); (OMsg {| mid := (Some 5); mcmd := CCheckpoint; mobj := None; mrun := 0 |}); (OResp (RVal VNone)); (OTask WSleep0); (OPlanIn 0 (Send VNone)); (OMsg {| mid := (Some 6); mcmd := (CCreate 0); mobj := None; mrun := 0 |}); (OResp (RVal VNone)); (OTask WSleep0); (OPlanIn 0 (Send VNone)); (OMsg {| mid := (Some 7); mcmd := CRead; mobj := (Some 1); mrun := 0 |}); (ODev 1 MRead); (OResp (RVal (VReading 1 (1)%Z))); (OTask WSleep0); (OPlanIn 0 (Send (VReading 1 (1)%Z))); (OMsg {| mid := (Some 8); mcmd := CSave; mobj := None; mrun := 0 |}); (ODoc (DEvent 0 0 2 [(1, (1)%Z)])); (OResp (RVal VNone)); (OTask WSleep0); (OState Running Pausing); (OReq true); (OState Pausing Paused); (OTask WFuture); (OOut OutInterrupted Paused false true); (OState Paused Running); (OTask WSleep0); (OMsg {| mid := (Some 6); mcmd := (CCreate 0); mobj := None; mrun := 0 |}); (OResp (RVal VNone)); (OTask WSleep0); (OMsg {| mid := (Some 7); mcmd := CRead; mobj := (Some 1); mrun := 0 |}); (ODev 1 MRead); (OResp (RVal (VReading 1 (2)%Z))); (OTask WSleep0); (OMsg {| mid := (Some 8); mcmd := CSave; mobj := None; mrun := 0 |}); (ODoc (DEvent 0 0 2 [(1, (2)%Z)])); (OResp (RVal VNone)); (OTask WSleep0); (OTask WSleep0); (OPlanIn 0 (Send VNone)); (OMsg {| mid := (Some 9); mcmd := CNull; mobj := None; mrun := 0 |}); (OResp (RVal VNone)); (OTask WSleep0); (OPlanIn 0 (Send VNone)); (OMsg {| mid := (Some 10); mcmd := CNull; mobj := None; mrun := 0 |}); (OResp (RVal VNone)); (OTask WSleep0); (OPlanIn 0 (Send VNone)); (OMsg {| mid := (Some 11); mcmd := (CCloseRun None RsEmpty); mobj := None; mrun := 0 |}); (ODoc (DStop 0 XSuccess RsEmpty [(0, 2)])); (OResp (RVal (VUid 0))); (OTask WSleep0); (OPlanIn 0 (Send (VUid 0))); (OTask WSleep0); (OState Running Idle); (OTask WReturn); (OOut (OutReturn [0]) Idle false true)].

Definition ckp_items := RE_DocsCor2.items (model_steps ckp_tapes ckp_ledger ckp_paus ckp_stag ckp_rec ckp_evs).
Definition ev1 := DEvent 0 0 1 [(1, 0%Z)].
Definition ev2 := DEvent 0 0 2 [(1, 1%Z)].
Definition ev2' := DEvent 0 0 2 [(1, 2%Z)].
Definition ck_msg := {| mid := Some 5; mcmd := CCheckpoint; mobj := None; mrun := 0 |}.
Example C05_exact_nonvacuous :
  check ckp_tapes ckp_ledger ckp_paus ckp_stag ckp_rec ckp_evs ckp_obs = true /\
  DocMon2.docs_ok ckp_rec (model_steps ckp_tapes ckp_ledger ckp_paus ckp_stag ckp_rec ckp_evs) = true /\
  stopped_behind ckp_rec (model_steps ckp_tapes ckp_ledger ckp_paus ckp_stag ckp_rec ckp_evs) = false /\
  (* event 1 -> event 2: nothing of the stream, no rewind mark in between: consecutive *)
  (let B := firstn 21 (skipn 37 ckp_items) in
   ckp_items = firstn 36 ckp_items ++ RE_DocsCor2.IOb (ODoc ev1) :: B ++ RE_DocsCor2.IOb (ODoc ev2) :: skipn 59 ckp_items /\
   forallb (fun it => negb (RE_DocsCor2.touches 0 0 it)) B = true /\
   forallb (fun it => negb (RE_DocsCor2.rewind_mark it)) B = true) /\
  (* event 2 -> event 2 again: a rewind mark (the resume) lies between them *)
  (let B := firstn 26 (skipn 59 ckp_items) in
   ckp_items = firstn 58 ckp_items ++ RE_DocsCor2.IOb (ODoc ev2) :: B ++ RE_DocsCor2.IOb (ODoc ev2') :: skipn 86 ckp_items /\
   forallb (fun it => negb (RE_DocsCor2.touches 0 0 it)) B = true /\
   forallb (fun it => negb (RE_DocsCor2.rewind_mark it)) B = false) /\
  (* event 1, then the effective checkpoint, then anything (event 2, pause, resume): event 1 is never re-issued *)
  (let B := firstn 4 (skipn 37 ckp_items) in
   let C := firstn 42 (skipn 43 ckp_items) in
   ckp_items = firstn 36 ckp_items ++ RE_DocsCor2.IOb (ODoc ev1) :: B ++ RE_DocsCor2.IOb (OMsg ck_msg) ::
               RE_DocsCor2.IOb (OResp (RVal VNone)) :: C ++ RE_DocsCor2.IOb (ODoc ev2') :: skipn 86 ckp_items /\
   forallb (fun it => negb (RE_DocsCor2.touches 0 0 it)) B = true /\
   forallb (fun it => negb (RE_DocsCor2.rewind_mark it)) B = true /\
   forallb (fun it => negb (RE_DocsCor2.clear_mark it)) C = true /\
   existsb RE_DocsCor2.rewind_mark C = true) /\
  RE_DocsCor2.on_stream 0 0 ev1 = Some 1 /\ RE_DocsCor2.on_stream 0 0 ev2 = Some 2 /\ RE_DocsCor2.on_stream 0 0 ev2' = Some 2 /\
  (* the RunStop reports num_events = 2 = the set {1, 2} of seq_nums emitted *)
  docs_of (flat_map snd (model_steps ckp_tapes ckp_ledger ckp_paus ckp_stag ckp_rec ckp_evs)) =
    [DStart 0; DDescr 0 0 [1]; ev1; ev2; ev2'; DStop 0 XSuccess RsEmpty [(0, 2)]] /\
  RE_DocsExact.seqs 0 0 [DStart 0; DDescr 0 0 [1]; ev1; ev2; ev2'] = [1; 2; 2].
Proof. vm_compute. repeat split; reflexivity. Qed.

(* the refined monitor rejects a re-issue below the checkpoint snapshot (DocMon.v accepts it) *)
Definition susp_msg := {| mid := None; mcmd := CStartSuspender 0 false false; mobj := None; mrun := 0 |}.
Definition below_snapshot : list (event * list obs) :=
  [(EvTask, [ODoc (DStart 0); ODoc (DDescr 0 0 [1]); ODoc (DEvent 0 0 1 []); OMsg ck_msg; OResp (RVal VNone)]);
   (EvTask, [OMsg susp_msg; ODoc (DEvent 0 0 1 [])])].
Definition at_snapshot : list (event * list obs) :=
  [(EvTask, [ODoc (DStart 0); ODoc (DDescr 0 0 [1]); ODoc (DEvent 0 0 1 []); OMsg ck_msg; OResp (RVal VNone); ODoc (DEvent 0 0 2 [])]);
   (EvTask, [OMsg susp_msg; ODoc (DEvent 0 0 2 [])])].
Example C05_refined_monitor_rejects :
  DocMon2.docs_ok false below_snapshot = false /\ docs_ok false below_snapshot = true /\
  DocMon2.docs_ok false at_snapshot = true /\
  (* a checkpoint answered with an exception does not move the snapshot *)
  DocMon2.docs_ok false
    [(EvTask, [ODoc (DStart 0); ODoc (DDescr 0 0 [1]); ODoc (DEvent 0 0 1 []); OMsg ck_msg; OResp (RExn EIMS)]);
     (EvTask, [OMsg susp_msg; ODoc (DEvent 0 0 1 [])])] = true.
Proof. vm_compute. repeat split. Qed.
