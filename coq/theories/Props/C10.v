(* C10 - interrupting a non-resumable section aborts cleanly.

   Model: Engine/RE.v (all plan coalgebras, device oracles, schedules).
   Proved for ALL schedules: the engine becomes `paused` only while a checkpoint is in effect according to the trace
   specification [mon] (cache <> None) -- so a pause or suspension that lands after clear_checkpoint never ends in
   `paused`.  Step level: at the top of the `_run` loop pausing/suspending without a checkpoint arms FailedPause and
   moves to aborting (the pause branch is not taken); FailedPause is thrown into the plan on top of the stack (its
   cleanup message runs next / it propagates); leaving the loop with FailedPause sets exit status abort; the finally
   block emits a RunStop with that status for every run still open, empties the bundlers and goes idle; a suspension
   requested without checkpoint arms FailedPause, goes aborting, cancels the task and leaves nothing on the stack.
   END TO END ([C10_end_to_end], Proofs/RE_C10.v): for every reachable state in which the engine runs a plan with no
   checkpoint in effect and no device failure pending, a pause or a suspension request, and every continuation of the
   schedule made of task steps and events that cannot disturb the task (run permit, status completions that succeed,
   releases, cache completions): the engine never becomes paused; the first thing any plan is handed afterwards --
   before any further message is processed -- is FailedPause, and it goes to the plan on top of the stack when that is
   a running plan; and once the task has finished: the engine is idle with no run open, every run started has its
   RunStop, every started plan that was on the stack has been resumed again or closed, and RE(...)/resume() ends
   RunEngineInterrupted unless the task itself raised (then that exception).  [C10_full] as first stated is false
   ([C10_full_refuted]: it allows the call that ends to be abort()/stop()/halt(), whose result is the run uids); exit
   status 'abort' is not guaranteed ([C10_status_success_when_plan_swallows]): it is decided by how the outermost plan
   ends (C02).  [C10_any_requests]: whatever else arrives after the failed request -- abort, stop, halt, further pauses and
   suspensions, failing statuses, any main-thread call except a new RE(...)/resume() -- the engine never becomes paused,
   and once the task has finished it is idle, marked interrupted, with every run stopped (no hypothesis on where the
   request lands: the final sleep of `_run` included).  Still partial: WHAT is thrown when further requests arrive before
   the task's next step (RequestAbort/PlanHalt instead of FailedPause) is only shown by the oracle, and "every cleanup
   block entered exactly once" on the generator level (C20-C22 have the generator semantics).
   The window opened by clear_checkpoint ends at the next EXPLICIT
   checkpoint (repaired defect C09-a, fixes/C09-a.diff); implicit checkpoints (stage, close_run, ...) do not end it.
   Repaired defect C10-a (fixes/C10-a.diff; Engine/RE.v models the REPAIRED code): a 'pause' MESSAGE processed inside
   the plan's task while no checkpoint is in effect no longer cancels its own task -- the cancellation used to stay
   pending and hit the plan's clean-up as a RequestAbort nobody had requested.
   [C10_pause_message_without_checkpoint_keeps_task] (step level, Proofs/RE_C10a.v) and [C10_a_cleanup_runs] (recorded
   real run of the repaired code: both clean-up messages are executed, only FailedPause is ever thrown). *)
From Coq Require Import List.
From BV Require Import Engine.RE Engine.REInst Proofs.RE_Ctl Proofs.RE_Replay Proofs.RE_CtlExamples Proofs.RE_Hold Proofs.RE_DocsCor
  Proofs.RE_C10 Proofs.RE_C10Ex Proofs.RE_C10a.
Import ListNotations.

Theorem C10_paused_only_when_resumable :
  forall (P : Type) (presume : P -> input -> outcome P) (plan_of : nat -> P) (D : Type) (dev : D -> nat -> devmeth -> D * devres)
         (d : D) (paus stag : list nat) (rec : bool) (evs : list event) (l1 : list titem) (a : rstate) (l2 : list titem),
    trace P presume plan_of D dev (init P D d paus stag rec) evs = l1 ++ TObs (OState a Paused) :: l2 ->
    mcache (mon_run mon0 l1) <> None.
Proof. exact paused_needs_checkpoint. Qed.
Print Assumptions C10_paused_only_when_resumable.

Theorem C10_failed_pause_at_top_of_loop :
  forall (P : Type) (presume : P -> input -> outcome P) (plan_of : nat -> P) (D : Type) (dev : D -> nat -> devmeth -> D * devres)
         (fuel : nat) (s : st P D) (os : list obs),
    (state P D s = Pausing \/ state P D s = Suspending) -> cache P D s = None ->
    drive P presume plan_of D dev (S fuel) s CTop os =
    drive P presume plan_of D dev fuel
          (set_state_raw P D (set_ghost P D (set_stashed P D (set_permit P D s true) (Some EFailedPause))
                                        (Some CzFailedPause) (late_pause P D s) (intr_err P D s)) Aborting)
          CTop (os ++ [OState (state P D s) Aborting]).
Proof. exact failed_pause_at_top_of_loop. Qed.
Print Assumptions C10_failed_pause_at_top_of_loop.

Theorem C10_failed_pause_runs_cleanup :
  forall (P : Type) (presume : P -> input -> outcome P) (plan_of : nat -> P) (D : Type) (dev : D -> nat -> devmeth -> D * devres)
         (fuel : nat) (s : st P D) (os : list obs) (r : resp) (rest : list resp) (pid : nat) (p : P) (tlp : list (frame P)) (m : msg) (p' : P),
    stashed P D s = Some EFailedPause -> exc_slot P D s = None ->
    resps P D s = r :: rest -> plans P D s = FUser pid p true :: tlp ->
    presume p (Throw EFailedPause) = Yielded m p' ->
    drive P presume plan_of D dev (S fuel) s CAfterSleep os =
    drive P presume plan_of D dev fuel (set_stashed P D (replace_top P D (set_resps P D s rest) (FUser pid p' true)) None)
          (CProcess m) (os ++ [OPlanIn pid (Throw EFailedPause)]).
Proof. exact failed_pause_runs_cleanup. Qed.
Print Assumptions C10_failed_pause_runs_cleanup.

Theorem C10_failed_pause_exit_aborts :
  forall (P : Type) (presume : P -> input -> outcome P) (plan_of : nat -> P) (D : Type) (dev : D -> nat -> devmeth -> D * devres)
         (fuel : nat) (s : st P D) (os : list obs),
    drive P presume plan_of D dev (S fuel) s (CExit (XExn EFailedPause)) os =
    (set_pc P D (set_exit P D s XAbort (reason P D s)) (PcFinalSleep (TReturn NO_RETURN)), os ++ [OTask WSleep0]).
Proof. exact failed_pause_exit_aborts. Qed.
Print Assumptions C10_failed_pause_exit_aborts.

Theorem C10_finalize_closes_open_runs :
  forall (P : Type) (presume : P -> input -> outcome P) (D : Type) (dev : D -> nat -> devmeth -> D * devres)
         (s : st P D) (r : tres) (pend : option exn) (s' : st P D) (o : list obs),
    finalize P presume D dev s r pend = (s', o) ->
    bundlers P D s' = [] /\ staged P D s' = [] /\
    (forall k b, In (k, b) (bundlers P D s) -> bopen b = true ->
       In (ODoc (DStop (buid b) (exit_status P D s) (if exit_reason_set P D s then RsExnText else reason P D s) (num_events b))) o) /\
    (allowed (state P D s) Idle = true -> state P D s' = Idle /\ blocking P D s' = true /\ exists res, pc P D s' = PcDone res).
Proof. exact finalize_closes_open_runs. Qed.
Print Assumptions C10_finalize_closes_open_runs.

Theorem C10_suspend_request_without_checkpoint_aborts :
  forall (P : Type) (presume : P -> input -> outcome P) (plan_of : nat -> P) (D : Type) (dev : D -> nat -> devmeth -> D * devres)
         (s : st P D) (sid : nat) (pre post : bool) (s' : st P D) (o : list obs),
    state P D s = Running -> cache P D s = None -> pc P D s = PcSleep0 \/ (exists k, pc P D s = PcCmd k) ->
    step P presume plan_of D dev s (EvReqSuspend sid pre post) = (s', o) ->
    o = [OState Running Aborting; OReq false] /\ state P D s' = Aborting /\ exc_slot P D s' = Some EFailedPause /\
    interrupted P D s' = true /\ must_cancel P D s' = true /\ plans P D s' = plans P D s /\ resps P D s' = resps P D s /\
    cache P D s' = None.
Proof. exact suspend_request_without_checkpoint_aborts. Qed.
Print Assumptions C10_suspend_request_without_checkpoint_aborts.

(* repaired defect C10-a: a 'pause' message (not deferred) executed where the engine may pause and no checkpoint is in
   effect leaves the task's pending-cancellation flag, the stacks, the stash and the pc as they were; the engine is
   pausing and interrupted, so the next turn of the loop ([C10_failed_pause_at_top_of_loop]) throws FailedPause and
   nothing else is pending *)
Theorem C10_pause_message_without_checkpoint_keeps_task :
  forall (P D : Type) (dev : D -> nat -> devmeth -> D * devres) (s : st P D) (m : msg) (s' : st P D) (c : cres) (o : list obs),
    mcmd m = CPause false -> cache P D s = None -> allowed (state P D s) Pausing = true ->
    exec_cmd P D dev s m = (s', c, o) ->
    must_cancel P D s' = must_cancel P D s /\
    state P D s' = Pausing /\ interrupted P D s' = true /\ cache P D s' = None /\
    pc P D s' = pc P D s /\ permit P D s' = permit P D s /\ stashed P D s' = stashed P D s /\
    plans P D s' = plans P D s /\ resps P D s' = resps P D s /\
    (exists r, c = Done r) /\
    (exists o2, o = OState (state P D s) Pausing :: o2).
Proof. exact pause_message_without_checkpoint_keeps_task. Qed.
Print Assumptions C10_pause_message_without_checkpoint_keeps_task.

Example C10_pause_message_without_checkpoint_nonvacuous :
  let s := fst (run TP (t_resume ex_c10a_tapes) t_plan_of nat (t_dev ex_c10a_ledger) (init TP nat 0 ex_c10a_paus ex_c10a_stag ex_c10a_rec) (firstn 5 ex_c10a_evs)) in
  cache TP nat s = None /\ allowed (state TP nat s) Pausing = true /\ must_cancel TP nat s = false /\
  let s' := fst (run TP (t_resume ex_c10a_tapes) t_plan_of nat (t_dev ex_c10a_ledger) s [EvTask]) in
  state TP nat s' = Aborting /\ must_cancel TP nat s' = false /\ stashed TP nat s' = None /\ pc TP nat s' = PcSleep0.
Proof. exact c10a_step_nonvacuous. Qed.

(* the witness of C10-a replayed: recorded real run (repaired code) of  try: open_run; clear_checkpoint; pause
   finally: null (3); null (4).  The model reproduces it; both clean-up messages are executed and FailedPause is the
   only exception ever thrown into the plan (the unrepaired code threw RequestAbort after message 3). *)
Example C10_a_cleanup_runs :
  check ex_c10a_tapes ex_c10a_ledger ex_c10a_paus ex_c10a_stag ex_c10a_rec ex_c10a_evs ex_c10a_obs = true /\
  let o := model_obs ex_c10a_tapes ex_c10a_ledger ex_c10a_paus ex_c10a_stag ex_c10a_rec ex_c10a_evs in
  no_bad o = true /\ never_paused_b o = true /\
  thrown_of o = [EFailedPause] /\
  has_o (OMsg {| mid := Some 3; mcmd := CNull; mobj := None; mrun := 0 |}) o = true /\
  has_o (OMsg {| mid := Some 4; mcmd := CNull; mobj := None; mrun := 0 |}) o = true /\
  has_o (ODoc (DStop 0 XAbort RsEmpty [])) o = true /\
  has_o (OOut OutInterrupted Idle false false) o = true.
Proof. exact c10a_cleanup_runs. Qed.

(* the end-to-end statement as first written: FALSE ([C10_full_refuted] below); the proved one is [C10_end_to_end] *)
Definition C10_full : Prop :=
  forall (P : Type) (presume : P -> input -> outcome P) (plan_of : nat -> P) (D : Type) (dev : D -> nat -> devmeth -> D * devres)
         (d : D) (paus stag : list nat) (rec : bool) (evs1 evs2 : list event) (req : event) (a : mainact),
    (req = EvReqPause false \/ exists sid pre post, req = EvReqSuspend sid pre post) ->
    let s1 := fst (run P presume plan_of D dev (init P D d paus stag rec) evs1) in
    state P D s1 = Running -> cache P D s1 = None ->
    Forall (fun e => e = EvTask) evs2 ->
    let o := snd (run P presume plan_of D dev s1 (req :: evs2 ++ [EvMainDone a])) in
    (forall x, In x o -> match x with OBad _ => False | _ => True end) ->
    (exists w, In (OTask w) o /\ (w = WReturn \/ exists e, w = WRaise e)) ->
    (forall x, In x o -> match x with OState _ Paused => False | _ => True end) /\
    exists out dfr rsm, In (OOut out Idle dfr rsm) o /\ out <> OutReturn (run_uids P D s1).

Example C10_nonvacuous :
  let o := snd (irun ex_nockpt_tapes ex_nockpt_ledger ex_nockpt_paus ex_nockpt_stag ex_nockpt_rec ex_nockpt_evs) in
  In (OPlanIn 0 (Throw EFailedPause)) o /\ In (ODoc (DStop 0 XAbort RsEmpty [])) o /\ In (OOut OutInterrupted Idle false false) o /\
  forallb (fun x => match x with OState _ Paused => false | _ => true end) o = true /\ In (OState Running Pausing) o.
Proof. exact c10_pause_without_checkpoint_aborts. Qed.

(* ------------------------------------------------------------------ end to end (Proofs/RE_C10.v) *)
Theorem C10_end_to_end :
  forall (P : Type) (presume : P -> input -> outcome P) (plan_of : nat -> P) (D : Type) (dev : D -> nat -> devmeth -> D * devres)
         (d : D) (paus stag : list nat) (rec : bool) (evs1 : list event) (req : event) (evs2 : list event),
    let s0 := init P D d paus stag rec in
    let s1 := fst (run P presume plan_of D dev s0 evs1) in
    let o1 := snd (run P presume plan_of D dev s0 evs1) in
    let s3 := fst (run P presume plan_of D dev s1 (req :: evs2)) in
    let o := snd (run P presume plan_of D dev s1 (req :: evs2)) in
    (req = EvReqPause false \/ exists sid pre post, req = EvReqSuspend sid pre post) ->
    state P D s1 = Running -> cache P D s1 = None -> exc_slot P D s1 = None ->
    (pc P D s1 = PcSleep0 \/ exists k, pc P D s1 = PcCmd k) ->
    forallb cont_ev evs2 = true ->
    no_bad (o1 ++ o) = true ->
    Forall np o /\
    match fin o with
    | Some x => exists pid, x = OPlanIn pid (Throw EFailedPause) /\ toppid P (plans P D s1) pid
    | None => existsb is_task evs2 = true -> nolive_top P (plans P D s1)
    end /\
    (forall r, pc P D s3 = PcDone r ->
       state P D s3 = Idle /\ bundlers P D s3 = [] /\ interrupted P D s3 = true /\
       (forall pid p, In (FUser pid p true) (plans P D s1) -> given pid o) /\
       (forall u, In (DStart u) (docs_of (o1 ++ o)) -> exists xs rs n, In (DStop u xs rs n) (docs_of (o1 ++ o))) /\
       (forall a, (a = AResume \/ exists pid, a = ACall pid) -> main_err P D s1 = None ->
          exists out, snd (step P presume plan_of D dev s3 (EvMainDone a)) = [OOut out Idle (deferred P D s3) (resumable P D s3)] /\
                      (raises r = false -> out = OutInterrupted) /\
                      (forall e, r = TRaise e -> e <> ECancelled -> out = OutRaise e))).
Proof. exact failed_pause_end_to_end. Qed.
Print Assumptions C10_end_to_end.

(* whatever follows the failed request (any requests, statuses, main-thread calls except a new RE(...)/resume()) *)
Theorem C10_any_requests :
  forall (P : Type) (presume : P -> input -> outcome P) (plan_of : nat -> P) (D : Type) (dev : D -> nat -> devmeth -> D * devres)
         (d : D) (paus stag : list nat) (rec : bool) (evs1 : list event) (req : event) (evs2 : list event),
    let s0 := init P D d paus stag rec in
    let s1 := fst (run P presume plan_of D dev s0 evs1) in
    let o1 := snd (run P presume plan_of D dev s0 evs1) in
    let s3 := fst (run P presume plan_of D dev s1 (req :: evs2)) in
    let o := snd (run P presume plan_of D dev s1 (req :: evs2)) in
    (req = EvReqPause false \/ exists sid pre post, req = EvReqSuspend sid pre post) ->
    state P D s1 = Running -> cache P D s1 = None ->
    forallb ok_ev evs2 = true ->
    no_bad (o1 ++ o) = true ->
    Forall np o /\
    (forall r, pc P D s3 = PcDone r ->
       state P D s3 = Idle /\ bundlers P D s3 = [] /\ interrupted P D s3 = true /\
       (forall u, In (DStart u) (docs_of (o1 ++ o)) -> exists xs rs n, In (DStop u xs rs n) (docs_of (o1 ++ o)))).
Proof. exact failed_pause_any_requests. Qed.
Print Assumptions C10_any_requests.

Example C10_any_requests_nonvacuous :
  check ex_c10_pa_tapes ex_c10_pa_ledger ex_c10_pa_paus ex_c10_pa_stag ex_c10_pa_rec ex_c10_pa_evs ex_c10_pa_obs = true /\
  ex_c10_pa_evs = pa_evs1 ++ EvReqPause false :: pa_evs2 ++ [EvMainDone (ACall 0)] /\
  In (EvReqAbort (RsGiven 1)) pa_evs2 /\
  let s1 := fst (run TP (t_resume ex_c10_pa_tapes) t_plan_of nat (t_dev ex_c10_pa_ledger) (init TP nat 0 ex_c10_pa_paus ex_c10_pa_stag ex_c10_pa_rec) pa_evs1) in
  let o1 := snd (run TP (t_resume ex_c10_pa_tapes) t_plan_of nat (t_dev ex_c10_pa_ledger) (init TP nat 0 ex_c10_pa_paus ex_c10_pa_stag ex_c10_pa_rec) pa_evs1) in
  let s3 := fst (run TP (t_resume ex_c10_pa_tapes) t_plan_of nat (t_dev ex_c10_pa_ledger) s1 (EvReqPause false :: pa_evs2)) in
  let o := snd (run TP (t_resume ex_c10_pa_tapes) t_plan_of nat (t_dev ex_c10_pa_ledger) s1 (EvReqPause false :: pa_evs2)) in
  state TP nat s1 = Running /\ cache TP nat s1 = None /\ forallb ok_ev pa_evs2 = true /\ no_bad (o1 ++ o) = true /\
  (exists r, pc TP nat s3 = PcDone r) /\
  never_paused_b o = true /\ state TP nat s3 = Idle /\ bundlers TP nat s3 = [] /\ interrupted TP nat s3 = true.
Proof.
  destruct c10_any_requests_nonvacuous as (A & B & C). split; [exact A|]. split; [exact B|]. split; [|exact C].
  right; right; left; reflexivity.
Qed.

Theorem C10_full_refuted : ~ C10_full.
Proof. exact c10_full_refuted. Qed.
Print Assumptions C10_full_refuted.

(* the hypotheses of [C10_end_to_end] are met by recorded real runs: a pause (plan with try/finally cleanup) and a
   suspension (two nested open runs), both after clear_checkpoint *)
Example C10_end_to_end_nonvacuous_pause :
  check ex_c10_fin_tapes ex_c10_fin_ledger ex_c10_fin_paus ex_c10_fin_stag ex_c10_fin_rec ex_c10_fin_evs ex_c10_fin_obs = true /\
  ex_c10_fin_evs = fin_evs1 ++ EvReqPause false :: fin_evs2 ++ [EvMainDone (ACall 0)] /\
  let s1 := fst (run TP (t_resume ex_c10_fin_tapes) t_plan_of nat (t_dev ex_c10_fin_ledger) (init TP nat 0 ex_c10_fin_paus ex_c10_fin_stag ex_c10_fin_rec) fin_evs1) in
  let o1 := snd (run TP (t_resume ex_c10_fin_tapes) t_plan_of nat (t_dev ex_c10_fin_ledger) (init TP nat 0 ex_c10_fin_paus ex_c10_fin_stag ex_c10_fin_rec) fin_evs1) in
  let s3 := fst (run TP (t_resume ex_c10_fin_tapes) t_plan_of nat (t_dev ex_c10_fin_ledger) s1 (EvReqPause false :: fin_evs2)) in
  let o := snd (run TP (t_resume ex_c10_fin_tapes) t_plan_of nat (t_dev ex_c10_fin_ledger) s1 (EvReqPause false :: fin_evs2)) in
  state TP nat s1 = Running /\ cache TP nat s1 = None /\ exc_slot TP nat s1 = None /\ pc TP nat s1 = PcSleep0 /\
  main_err TP nat s1 = None /\ forallb cont_ev fin_evs2 = true /\ no_bad (o1 ++ o) = true /\
  (exists r, pc TP nat s3 = PcDone r) /\
  never_paused_b o = true /\ fin o = Some (OPlanIn 0 (Throw EFailedPause)) /\
  has_o (OMsg {| mid := Some 6; mcmd := CCloseRun None RsEmpty; mobj := None; mrun := 0 |}) o = true /\
  has_o (OMsg {| mid := Some 7; mcmd := CUnstage; mobj := Some 0; mrun := 0 |}) o = true /\
  state TP nat s3 = Idle /\ bundlers TP nat s3 = [].
Proof. exact c10_end_to_end_nonvacuous_pause. Qed.

Example C10_end_to_end_nonvacuous_suspend :
  check ex_c10_susp_tapes ex_c10_susp_ledger ex_c10_susp_paus ex_c10_susp_stag ex_c10_susp_rec ex_c10_susp_evs ex_c10_susp_obs = true /\
  ex_c10_susp_evs = susp_evs1 ++ EvReqSuspend 0 false false :: susp_evs2 ++ [EvMainDone (ACall 0)] /\
  let s1 := fst (run TP (t_resume ex_c10_susp_tapes) t_plan_of nat (t_dev ex_c10_susp_ledger) (init TP nat 0 ex_c10_susp_paus ex_c10_susp_stag ex_c10_susp_rec) susp_evs1) in
  let o1 := snd (run TP (t_resume ex_c10_susp_tapes) t_plan_of nat (t_dev ex_c10_susp_ledger) (init TP nat 0 ex_c10_susp_paus ex_c10_susp_stag ex_c10_susp_rec) susp_evs1) in
  let s3 := fst (run TP (t_resume ex_c10_susp_tapes) t_plan_of nat (t_dev ex_c10_susp_ledger) s1 (EvReqSuspend 0 false false :: susp_evs2)) in
  let o := snd (run TP (t_resume ex_c10_susp_tapes) t_plan_of nat (t_dev ex_c10_susp_ledger) s1 (EvReqSuspend 0 false false :: susp_evs2)) in
  state TP nat s1 = Running /\ cache TP nat s1 = None /\ exc_slot TP nat s1 = None /\
  (exists k, pc TP nat s1 = PcSleep0 \/ pc TP nat s1 = PcCmd k) /\
  main_err TP nat s1 = None /\ forallb cont_ev susp_evs2 = true /\ no_bad (o1 ++ o) = true /\
  (exists r, pc TP nat s3 = PcDone r) /\
  never_paused_b o = true /\ fin o = Some (OPlanIn 0 (Throw EFailedPause)) /\
  existsb (fun x => match x with ODoc (DStop 0 XAbort _ _) => true | _ => false end) o = true /\
  existsb (fun x => match x with ODoc (DStop 1 XAbort _ _) => true | _ => false end) o = true /\
  state TP nat s3 = Idle.
Proof. exact c10_end_to_end_nonvacuous_suspend. Qed.

(* exit status 'abort' needs the plans to let the exception through: this plan catches FailedPause and returns *)
Example C10_status_success_when_plan_swallows :
  let o := snd (run TP (t_resume sw_tapes) t_plan_of nat (t_dev []) (init TP nat 0 [] [] false) sw_evs) in
  no_bad o = true /\ never_paused_b o = true /\
  has_o (OPlanIn 0 (Throw EFailedPause)) o = true /\
  has_o (ODoc (DStop 0 XSuccess RsEmpty [])) o = true /\
  has_o (OOut OutInterrupted Idle false false) o = true.
Proof. exact c10_status_success_when_plan_swallows. Qed.
