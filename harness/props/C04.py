"""C04 - resuming replays exactly the work done since the last checkpoint."""
from harness.props.engine_common import *  # noqa: F401,F403
from harness.props import engine_common as ec
from harness.props import ctl_common as cc
from harness.drivers import engine_cases_ctl as ecc

ID = "C04"
PROP_FILE = "Props/C04.v"
THEOREMS = ["C04_cache_is_trace_spec", "C04_resume_pushes_cache", "C04_resume_replays_trace_spec", "C04_suspender_pushes_cache",
            "C04_rewind_plan_replays_in_order", "C04_helper_replays_in_order",
            "C04_cache_only_cacheable", "C04_resume_replays_end_to_end", "C04_resume_replays_messages",
            "C04_suspender_tail_replays", "C04_implicit_checkpoints_end_to_end"]
impl_batch = cc.impl_batch
coq_term = cc.coq_term
RULE = ec.RULE + ("; plus C04 extras: plans mixing checkpoints, clear_checkpoint, rewindable regions, stage/unstage, monitor/unmonitor, "
                  "subscribe/unsubscribe and run boundaries with a pause(+resume) or a suspension(+release) at every `_run` step "
                  "(the monitor/subscribe cases are outside the engine model: oracle only)")


def cases(rng, tier):
    extra = ecc.c04_cases(rng, tier)
    return ec.gen_cases(rng, tier) + extra + ec.stagest_variants(extra, 2 if tier == "quick" else 1)


def oracle(case, obs):
    if obs.get("errors"):
        return "driver: " + str(obs["errors"][0])[:200]
    return cc.check_replay(cc.timeline(obs), obs["tapes"])


def finding(case, obs):
    return None
