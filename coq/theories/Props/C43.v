(* C43 -- PersistentDict keeps what was last written.
   Model: Pure/PDict.v (the code with fix C43-a).  Specification: two plain finite maps,
   cur (what the user's dict holds) and wr (what was last set / deleted / popped / flushed),
   stepped by [spec_step]; the only thing it takes from the run is which key popitem() gave. *)
From BV Require Import Base.Prelude Pure.PDict Proofs.PDict.
From Coq Require Import NArith.
Local Open Scope N_scope.

(* every history from an empty directory -- any operations, any number of reopen points of
   either kind, any directory listing orders -- keeps the cache equal to cur and the directory
   equal to wr (both duplicate-free, same key sets), and every operation answers as specified *)
Theorem C43_refines_spec : forall h,
  let '(s, rs) := run init h in R s (spec_run sp_init h rs) /\ results_ok sp_init h rs.
Proof. exact (fun h => run_refines h init sp_init R_init). Qed.
Print Assumptions C43_refines_spec.

(* the property: reopening after any history yields exactly the last written state (process
   died: finalizer did not run) resp. the current state including in-place mutations (instance
   collected: finalizer ran), and the new instance's directory agrees with it *)
Theorem C43_reopen_last_written : forall h g order,
  let '(s, rs) := run init h in
  let p := spec_run sp_init h rs in
  let s' := fst (step s (OReopen g order)) in
  forall k, lookup k (cache s') = (if g then cur p k else wr p k) /\ lookup k (disk s') = lookup k (cache s').
Proof. exact reopen_last_written. Qed.
Print Assumptions C43_reopen_last_written.

(* "most recently": operations that do not touch key k (anything on other keys, reads, reload,
   in-place mutation, crash-reopen) leave its written value unchanged *)
Theorem C43_untouched_key_keeps_value : forall h rs p k,
  untouched k h rs = true -> wr (spec_run p h rs) k = wr p k.
Proof. exact untouched_run. Qed.
Print Assumptions C43_untouched_key_keeps_value.

(* ---- non-vacuity / regression: the C43-a history, and mutate-then-crash vs mutate-then-collect ---- *)
Definition ex_hist : list op :=
  [OSet 0 0; OSet 1 2; OReload; ODel 0; OSet 1 4; OMutate 1 8; OSet 2 1; OPopItem].

Example C43_nonvacuous :
  (let '(s, rs) := run init ex_hist in
   cache (fst (step s (OReopen true [1]))) = [(1, 8)] /\
   cache (fst (step s (OReopen false [1]))) = [(1, 4)] /\
   rs = [ROk; ROk; ROk; ROk; ROk; ROk; ROk; RPair 2 1]) /\
  untouched 1 [OMutate 1 8; OSet 2 1; OPopItem; OReopen false []] [ROk; ROk; RPair 2 1; ROk] = true.
Proof. vm_compute. repeat split; reflexivity. Qed.
