(* C23: plan_mutator with a list-inserting processor (Gen/During.v) on scripts that only send:
   the machine of Gen/Mutators.v (C21's verified machine, fixed = true) is the expansion [exp_resume]. *)
From BV Require Import Base.Prelude Gen.Coalg Gen.Mutators Gen.Paired Gen.During.
From BV Require Import Proofs.Coalg Proofs.Paired.

Section DuringProofs.
  Context {Q : Type}.
  Variable qres : Q -> input -> outcome Q.
  Variable is_status : val -> bool.
  Variable ins : msg -> option (list msg) * option (list msg).
  (* msg_proc inserts nothing around the messages it inserts *)
  Hypothesis ins_inserted :
    forall m a, In a (olist (fst (ins m)) ++ olist (snd (ins m))) -> ins a = (None, None).

  Notation dres := (dp_resume qres is_status).
  Notation proc := (list_proc ins).

  Definition clean (l : list msg) : Prop := Forall (fun a => ins a = (None, None)) l.

  Definition tail_ent (n : nat) (post : option (list msg)) : option (nat * pent (@dplan Q)) :=
    option_map (fun t => (S n, EPlan t)) (option_map (fun l => DList (LPStart l None)) post).

  Definition host_ent (q : Q) : nat * pent (@dplan Q) := (0, EPlan (DHostP q)).
  Definition list_ent (n : nat) (todo : list msg) (acc : list val) : nat * pent (@dplan Q) :=
    (n, EPlan (DList (LPAt todo acc None))).

  Inductive RD : @pm_state (@dplan Q) unit -> @estate Q -> Prop :=
    | RD_start q : RD (PMStart (DHostP q) tt) (EStart q)
    | RD_host q seen r rv k m :
        Nat.eqb k 0 = false ->
        RD (PMRun (mkPM seen [host_ent q] [] [] [] None r rv k tt) m) (EOwn q seen None)
    | RD_single q seen post r rv n m :
        Nat.eqb n 0 = false -> clean post ->
        RD (PMRun (mkPM seen [(n, ESingle1); host_ent q] [] [(n, tail_ent n (Some post))] [] None r rv (S (S n)) tt) m)
           (EOwn q seen (Some post))
    | RD_pre q seen todo m0 post acc r rv n k m :
        Nat.eqb n 0 = false -> Nat.eqb k 0 = false -> clean todo -> clean (olist post) -> mem_nat m0 seen = true ->
        RD (PMRun (mkPM seen [list_ent n (todo ++ [m0]) acc; host_ent q] [] [(n, tail_ent n post)] [] None r rv k tt) m)
           (EPre q seen todo m0 post)
    | RD_own q seen post acc r rv n k m :
        Nat.eqb n 0 = false -> Nat.eqb k 0 = false -> clean (olist post) ->
        RD (PMRun (mkPM seen [list_ent n [] acc; host_ent q] [] [(n, tail_ent n post)] [] None r rv k tt) m)
           (EOwn q seen post)
    | RD_post q seen todo saved acc r rv t k m :
        Nat.eqb t 0 = false -> Nat.eqb k 0 = false -> clean todo ->
        RD (PMRun (mkPM seen [list_ent t todo acc; host_ent q] [] [] [(t, saved)] None r rv k tt) m)
           (EPost q seen todo saved).

  Lemma pm_loop_S :
    forall f (st : @pm_run (@dplan Q) unit) log,
      pm_loop dres proc true (S f) st log =
      match pm_iter dres proc true st with
      | ICont st' calls => pm_loop dres proc true f st' (log ++ calls)
      | IOut o calls => (o, log ++ calls)
      end.
  Proof. reflexivity. Qed.

  Lemma mem_nat_head : forall m l, mem_nat m (m :: l) = true.
  Proof. intros. unfold mem_nat. cbn. now rewrite Nat.eqb_refl. Qed.

  Lemma mem_nat_mark : forall m a l, mem_nat m l = true -> mem_nat m (e_mark a l) = true.
  Proof.
    intros m a l H. unfold e_mark. destruct (mem_nat a l); [exact H|].
    unfold mem_nat in *. cbn. rewrite H. apply orb_true_r.
  Qed.

  Lemma clean_ins_pre : forall m pre post, ins m = (Some pre, post) -> clean pre /\ clean (olist post).
  Proof.
    intros m pre post H. split; apply Forall_forall; intros a Ha; apply (ins_inserted m); rewrite H; cbn;
      apply in_or_app; [now left|now right].
  Qed.

  Lemma clean_ins_post : forall m post, ins m = (None, post) -> clean (olist post).
  Proof.
    intros m post H. apply Forall_forall. intros a Ha. apply (ins_inserted m). rewrite H. exact Ha.
  Qed.

  (* ---- the pieces of one step *)
  (* a message [a] that msg_proc leaves alone arrives from the top of the stack *)
  Lemma process_clean :
    forall (st : @pm_run (@dplan Q) unit) a calls, ins a = (None, None) ->
      process_msg proc st a calls =
      IOut (Yielded a (PMRun (mkPM (e_mark a (msgs_seen st)) (plan_stack st) (result_stack st) (tail_cache st)
                                   (tail_result_cache st) (exception st) (ret st) (ret_value st) (next_id st) (pstate st)) a))
           calls.
  Proof.
    intros st a calls H. unfold process_msg, e_mark. destruct (mem_nat a (msgs_seen st)).
    - destruct st; reflexivity.
    - unfold list_proc. rewrite H. cbn. destruct st. destruct pstate. reflexivity.
  Qed.

  Lemma process_seen :
    forall (st : @pm_run (@dplan Q) unit) a calls, mem_nat a (msgs_seen st) = true ->
      process_msg proc st a calls = IOut (Yielded a (PMRun st a)) calls.
  Proof. intros st a calls H. unfold process_msg. now rewrite H. Qed.

  Definition fst3 {A B} (r : outcome A * B) : outcome A := fst r.

  (* the host is resumed (the stack is just the host) and answers o *)
  Lemma host_step :
    forall fuel q seen x r rv k log,
      Nat.eqb k 0 = false ->
      out_rel RD
        (fst (pm_loop dres proc true (4 + fuel) (mkPM seen [host_ent q] [x] [] [] None r rv k tt) log))
        (e_host ins seen (qres q (Send x))).
  Proof.
    intros fuel q seen x r rv k log Hk.
    cbn [Nat.add]. rewrite pm_loop_S. unfold pm_iter, host_ent. cbn [plan_stack exception result_stack ent_resume dp_resume].
    destruct (qres q (Send x)) as [m q'|v|e|]; cbn [map_outcome e_host].
    - (* a message *)
      unfold process_msg. cbn [set_top msgs_seen pstate next_id].
      destruct (mem_nat m seen) eqn:Hs.
      + cbn. split; [reflexivity|]. now constructor.
      + unfold list_proc. destruct (ins m) as [[pre|] post] eqn:Hi; cbn [option_map].
        * (* a head: pre ++ [m] *)
          destruct (clean_ins_pre m pre post Hi) as [Cpre Cpost].
          rewrite pm_loop_S. unfold pm_iter. cbn [plan_stack exception result_stack ent_resume dp_resume lp_resume].
          destruct pre as [|a pre']; cbn [app lp_advance map_outcome e_pre].
          -- rewrite process_seen by apply mem_nat_head. cbn. split; [reflexivity|].
             apply (RD_own q' (m :: seen) post [] _ _ k (S (S k)) m Hk eq_refl Cpost).
          -- inversion Cpre as [|? ? Ha Cpre']; subst.
             rewrite (process_clean _ a _ Ha). cbn. split; [reflexivity|].
             apply (RD_pre q' (e_mark a (m :: seen)) pre' m post [] _ _ k (S (S k)) a Hk eq_refl Cpre' Cpost).
             apply mem_nat_mark, mem_nat_head.
        * destruct post as [post|]; cbn [option_map].
          -- (* single_gen(m) with a tail *)
             pose proof (clean_ins_post m (Some post) Hi) as Cpost.
             rewrite pm_loop_S. unfold pm_iter. cbn [plan_stack exception result_stack ent_resume].
             rewrite process_seen by apply mem_nat_head. cbn. split; [reflexivity|].
             now apply RD_single.
          -- cbn. split; [reflexivity|]. now constructor.
    - (* the host returned *)
      unfold stop_iteration, pop_top. cbn. reflexivity.
    - destruct (is_Exception e); cbn; reflexivity.
    - reflexivity.
  Qed.

  Lemma assoc_get_hd : forall A n (v : A) l, assoc_get n ((n, v) :: l) = Some v.
  Proof. intros. cbn. now rewrite Nat.eqb_refl. Qed.
  Lemma assoc_del_hd : forall A n (v : A) l, assoc_del n ((n, v) :: l) = l.
  Proof. intros. cbn. now rewrite Nat.eqb_refl. Qed.

  (* a tail generator (id t) is on top, about to be resumed with x; it will go through [todo] *)
  Lemma post_step :
    forall fuel q seen (l : lplan) todo acc' saved x r rv t k log,
      Nat.eqb t 0 = false -> Nat.eqb k 0 = false -> clean todo ->
      lp_resume is_status l (Send x) = lp_advance is_status todo acc' None ->
      out_rel RD
        (fst (pm_loop dres proc true (6 + fuel)
                      (mkPM seen [(t, EPlan (DList l)); host_ent q] [x] [] [(t, saved)] None r rv k tt) log))
        (e_post qres ins q seen todo saved).
  Proof.
    intros fuel q seen l todo acc' saved x r rv t k log Ht Hk Hc Hl.
    cbn [Nat.add]. rewrite pm_loop_S. unfold pm_iter. cbn [plan_stack exception result_stack ent_resume dp_resume].
    rewrite Hl. destruct todo as [|a todo']; cbn [lp_advance map_outcome e_post].
    - unfold stop_iteration, pop_top. cbn [tail_result_cache tail_cache plan_stack result_stack msgs_seen ret_value next_id pstate].
      rewrite assoc_get_hd, assoc_del_hd, Ht. cbn [assoc_get].
      apply (host_step (1 + fuel)). exact Hk.
    - inversion Hc as [|? ? Ha Hc']; subst.
      rewrite (process_clean _ a _ Ha). cbn. split; [reflexivity|].
      now apply RD_post.
  Qed.

  (* a head generator (id n) has just returned after being sent v: its tail, if any, runs; then the host *)
  Lemma head_done :
    forall fuel q seen post w v r rv n k log0 log,
      Nat.eqb n 0 = false -> Nat.eqb k 0 = false -> clean (olist post) ->
      out_rel RD
        (fst (match stop_iteration (mkPM seen [host_ent q] [] [(n, tail_ent n post)] [] None r rv k tt) None n w v log with
              | ICont st' calls => pm_loop dres proc true (7 + fuel) st' (log0 ++ calls)
              | IOut o calls => (o, log0 ++ calls)
              end))
        (match post with Some l => e_post qres ins q seen l v | None => e_host ins seen (qres q (Send v)) end).
  Proof.
    intros fuel q seen post w v r rv n k log0 log Hn Hk Hc.
    unfold stop_iteration. cbn [tail_result_cache tail_cache plan_stack result_stack msgs_seen ret_value next_id pstate].
    rewrite assoc_get_hd, assoc_del_hd, Hn. cbn [assoc_get].
    destruct post as [l|]; cbn [tail_ent option_map assoc_set assoc_del].
    - apply (post_step (1 + fuel) q seen (LPStart l None) l [] v VNone); auto.
    - apply (host_step (3 + fuel)). exact Hk.
  Qed.

  Theorem layer_send_step :
    forall x y, RD x y -> forall v fuel,
      out_rel RD (layer_resume qres is_status ins (8 + fuel) x (Send v)) (exp_resume qres ins y (Send v)).
  Proof.
    intros x y H v fuel. unfold layer_resume, pm_resume, pm_lresume.
    destruct H as [q|q seen r rv k m Hk|q seen post r rv n m Hn Hc|q seen todo m0 post acc r rv n k m Hn Hk Hct Hcp Hm
                   |q seen post acc r rv n k m Hn Hk Hc|q seen todo saved acc r rv t k m Ht Hk Hc];
      cbn [exp_resume msgs_seen plan_stack result_stack tail_cache tail_result_cache exception ret ret_value next_id pstate].
    - destruct v as [|z]; [|cbn; reflexivity]. apply (host_step (4 + fuel)). reflexivity.
    - apply (host_step (4 + fuel)). exact Hk.
    - (* single_gen(m) is answered *)
      change (8 + fuel) with (S (7 + fuel)). rewrite pm_loop_S. unfold pm_iter. cbn [plan_stack exception result_stack ent_resume].
      unfold pop_top. cbn [msgs_seen tail_cache tail_result_cache exception ret_value next_id pstate].
      apply (head_done fuel q seen (Some post) v v v rv n (S (S n)) [] [Call n (Send v)]); auto.
    - (* a message inserted before m0 is answered *)
      cbn [Nat.add]. rewrite pm_loop_S. unfold pm_iter, list_ent. cbn [plan_stack exception result_stack ent_resume dp_resume lp_resume].
      destruct todo as [|a todo']; cbn [app lp_advance map_outcome e_pre].
      + rewrite process_seen by exact Hm. cbn. split; [reflexivity|]. now apply RD_own.
      + inversion Hct as [|? ? Ha Hct']; subst.
        rewrite (process_clean _ a _ Ha). cbn. split; [reflexivity|].
        apply RD_pre; auto. now apply mem_nat_mark.
    - (* m itself, re-yielded by its head, is answered *)
      change (8 + fuel) with (S (7 + fuel)). rewrite pm_loop_S. unfold pm_iter, list_ent. cbn [plan_stack exception result_stack ent_resume dp_resume lp_resume lp_advance map_outcome].
      unfold pop_top. cbn [msgs_seen tail_cache tail_result_cache exception ret_value next_id pstate].
      destruct post as [l|].
      + apply (head_done fuel q seen (Some l) VNone v v rv n k [] [Call n (Send v)]); auto.
      + apply (head_done fuel q seen None VNone v v rv n k [] [Call n (Send v)]); auto.
    - apply (post_step (2 + fuel) q seen (LPAt todo acc None) todo (acc ++ [v]) saved v); auto.
  Qed.

  (* scripts that only send *)
  Definition sends_only (s : list input) : bool :=
    forallb (fun i => match i with Send _ => true | _ => false end) s.

  Theorem layer_is_expansion :
    forall s x y fuel, RD x y -> sends_only s = true ->
      trace (layer_resume qres is_status ins (8 + fuel)) x s = trace (exp_resume qres ins) y s.
  Proof.
    induction s as [|i s IH]; intros x y fuel HR Hs; [reflexivity|].
    cbn in Hs. apply andb_true_iff in Hs as [Hi Hs]. destruct i as [v|e|]; try discriminate.
    pose proof (layer_send_step x y HR v fuel) as Ho. cbn [trace].
    destruct (layer_resume qres is_status ins (8 + fuel) x (Send v)) as [m x'|v1|e1|],
             (exp_resume qres ins y (Send v)) as [m' y'|v2|e2|]; cbn in Ho; try contradiction;
      try (destruct Ho as [-> Ho]); subst; try reflexivity.
    f_equal. now apply IH.
  Qed.
End DuringProofs.

(* ------------------------------------------------------------------ the expansion respects a change of host *)
Section ExpCongruence.
  Context {Q1 Q2 : Type}.
  Variable res1 : Q1 -> input -> outcome Q1.
  Variable res2 : Q2 -> input -> outcome Q2.
  Variable ins : msg -> option (list msg) * option (list msg).
  Variable Rh : Q1 -> Q2 -> Prop.
  Hypothesis host_step_rel : forall a b, Rh a b -> forall v, out_rel Rh (res1 a (Send v)) (res2 b (Send v)).

  Inductive RE : @estate Q1 -> @estate Q2 -> Prop :=
    | RE_start a b : Rh a b -> RE (EStart a) (EStart b)
    | RE_pre a b seen todo m post : Rh a b -> RE (EPre a seen todo m post) (EPre b seen todo m post)
    | RE_own a b seen post : Rh a b -> RE (EOwn a seen post) (EOwn b seen post)
    | RE_post a b seen todo saved : Rh a b -> RE (EPost a seen todo saved) (EPost b seen todo saved).

  Lemma e_host_rel :
    forall seen o1 o2, out_rel Rh o1 o2 -> out_rel RE (e_host ins seen o1) (e_host ins seen o2).
  Proof.
    intros seen o1 o2 H. destruct o1 as [m a|v|e|], o2 as [m' b|v'|e'|]; cbn in H; try contradiction; cbn [e_host].
    - destruct H as [<- H]. destruct (mem_nat m seen).
      + split; [reflexivity|now constructor].
      + destruct (ins m) as [[pre|] post].
        * destruct pre; cbn; (split; [reflexivity|now constructor]).
        * split; [reflexivity|now constructor].
    - exact H.
    - exact H.
    - exact I.
  Qed.

  Lemma e_post_rel :
    forall a b seen post saved, Rh a b -> out_rel RE (e_post res1 ins a seen post saved) (e_post res2 ins b seen post saved).
  Proof.
    intros a b seen post saved H. destruct post; cbn [e_post].
    - apply e_host_rel. now apply host_step_rel.
    - split; [reflexivity|now constructor].
  Qed.

  Lemma exp_step_rel :
    forall x y, RE x y -> forall v, out_rel RE (exp_resume res1 ins x (Send v)) (exp_resume res2 ins y (Send v)).
  Proof.
    intros x y H v. destruct H as [a b H|a b seen todo m post H|a b seen post H|a b seen todo saved H]; cbn [exp_resume].
    - destruct v; [|cbn; reflexivity]. apply e_host_rel. now apply host_step_rel.
    - destruct todo; cbn; (split; [reflexivity|now constructor]).
    - destruct post; [now apply e_post_rel|]. apply e_host_rel. now apply host_step_rel.
    - now apply e_post_rel.
  Qed.

  Theorem exp_congruence :
    forall s x y, RE x y -> sends_only s = true -> trace (exp_resume res1 ins) x s = trace (exp_resume res2 ins) y s.
  Proof.
    induction s as [|i s IH]; intros x y HR Hs; [reflexivity|].
    cbn in Hs. apply andb_true_iff in Hs as [Hi Hs]. destruct i as [v|e|]; try discriminate.
    pose proof (exp_step_rel x y HR v) as Ho. cbn [trace].
    destruct (exp_resume res1 ins x (Send v)) as [m x'|v1|e1|],
             (exp_resume res2 ins y (Send v)) as [m' y'|v2|e2|]; cbn in Ho; try contradiction;
      try (destruct Ho as [Hm Ho]); subst; try reflexivity.
    f_equal. now apply IH.
  Qed.
End ExpCongruence.

(* ------------------------------------------------------------------ monitor_during_wrapper / fly_during_wrapper *)
Section DuringWrapperProofs.
  Context {P : Type}.
  Variable resume : P -> input -> outcome P.
  Variable view : msg -> mview.
  Variable is_status : val -> bool.

  Lemma sends_plain : forall s, sends_only s = true -> plain s = true.
  Proof.
    induction s as [|i s IH]; intros H; [reflexivity|]. cbn in *. apply andb_true_iff in H as [Hi Hs].
    destruct i; try discriminate. cbn. now apply IH.
  Qed.

  Lemma ins_after_clean :
    forall after, Forall (fun a => is_open view a = false) after ->
      forall m a, In a (olist (fst (ins_after view after m)) ++ olist (snd (ins_after view after m))) -> ins_after view after a = (None, None).
  Proof.
    intros after HF m a HIn. unfold ins_after in *. destruct (is_open view m); cbn in HIn; [|contradiction].
    rewrite Forall_forall in HF. now rewrite (HF a HIn).
  Qed.

  Lemma ins_before_clean :
    forall before, Forall (fun a => is_close view a = false) before ->
      forall m a, In a (olist (fst (ins_before view before m)) ++ olist (snd (ins_before view before m))) -> ins_before view before a = (None, None).
  Proof.
    intros before HF m a HIn. unfold ins_before in *. destruct (is_close view m); cbn in HIn; [|contradiction].
    rewrite app_nil_r in HIn. rewrite Forall_forall in HF. now rewrite (HF a HIn).
  Qed.

  (* for every script that only sends (every message succeeds; any length): the wrapper is the two-fold expansion --
     [after] inserted behind every fresh open_run of the wrapped plan, [before] in front of every fresh close_run *)
  Theorem during_is_expansion :
    forall after before p s fuel,
      Forall (fun a => is_open view a = false) after -> Forall (fun a => is_close view a = false) before ->
      sends_only s = true ->
      trace (during_resume resume view is_status (8 + fuel) after before) (during_init p) (Send VNone :: s)
      = trace (exp_resume (exp_resume resume (ins_after view after)) (ins_before view before)) (EStart (EStart p)) (Send VNone :: s).
  Proof.
    intros after before p s fuel HA HB Hs.
    unfold during_resume, during_init.
    etransitivity; [apply d_start_trace; now apply sends_plain|].
    unfold during2_resume.
    etransitivity.
    { apply (layer_is_expansion (during1_resume resume view is_status (8 + fuel) after) is_status (ins_before view before)
               (ins_before_clean before HB) (Send VNone :: s) _ (EStart (layer_init p)) fuel); [constructor|exact Hs]. }
    apply (exp_congruence (during1_resume resume view is_status (8 + fuel) after) (exp_resume resume (ins_after view after))
             (ins_before view before)
             (RD (ins_after view after))).
    - intros a b HR v. apply (layer_send_step resume is_status (ins_after view after) (ins_after_clean after HA) a b HR v fuel).
    - constructor. constructor.
    - exact Hs.
  Qed.
End DuringWrapperProofs.

(* ------------------------------------------------------------------ reading the expansion *)
Section ExpansionFacts.
  Context {Q : Type}.
  Variable qres : Q -> input -> outcome Q.
  Variable ins : msg -> option (list msg) * option (list msg).
  Notation exp := (exp_resume qres ins).

  Lemma e_pre_trace :
    forall pre q seen m post vs, length vs = length pre ->
      trace_from exp (e_pre q seen pre m post) (map Send vs) = map OYield (pre ++ [m]).
  Proof.
    induction pre as [|a r IH]; intros q seen m post vs HL.
    - destruct vs; [reflexivity|discriminate].
    - destruct vs as [|v vs]; [discriminate|]. cbn [e_pre trace_from map app].
      f_equal. rewrite trace_cons by discriminate. cbn [exp_resume]. apply IH. now injection HL.
  Qed.

  (* a message m of the wrapped plan that this layer has not seen, with something to insert before it: the inserted
     messages, each answered, and then m -- nothing in between *)
  Theorem expansion_before :
    forall q q' seen v m pre post vs,
      qres q (Send v) = Yielded m q' -> mem_nat m seen = false -> ins m = (Some pre, post) -> length vs = length pre ->
      trace exp (EOwn q seen None) (Send v :: map Send vs) = map OYield (pre ++ [m]).
  Proof.
    intros q q' seen v m pre post vs Hq Hs Hi HL.
    rewrite trace_cons by discriminate. cbn [exp_resume]. rewrite Hq. cbn [e_host]. rewrite Hs, Hi.
    now apply e_pre_trace.
  Qed.

  Lemma e_post_trace :
    forall post q seen saved a vs, S (length vs) = length (a :: post) ->
      trace_from exp (e_post qres ins q seen (a :: post) saved) (map Send vs) = map OYield (a :: post).
  Proof.
    induction post as [|b r IH]; intros q seen saved a vs HL.
    - destruct vs; [reflexivity|cbn in HL; discriminate].
    - destruct vs as [|v vs]; [discriminate|]. cbn [e_post trace_from map].
      f_equal. rewrite trace_cons by discriminate. cbn [exp_resume]. apply IH. cbn in *. lia.
  Qed.

  (* the wrapped plan's message m is out with [post] to follow: once m is answered the post-messages come, one per
     answer, and after the last of them the plan is resumed with the answer m got *)
  Theorem expansion_after :
    forall q seen v a post vs, S (length vs) = length (a :: post) ->
      trace exp (EOwn q seen (Some (a :: post))) (Send v :: map Send vs) = map OYield (a :: post).
  Proof.
    intros q seen v a post vs HL. rewrite trace_cons by discriminate. cbn [exp_resume]. now apply e_post_trace.
  Qed.

  Theorem expansion_after_resumes :
    forall q seen saved w, exp (EPost q seen [] saved) (Send w) = e_host ins seen (qres q (Send saved)).
  Proof. reflexivity. Qed.
End ExpansionFacts.

Section DuringLists.
  Variable mk : mview -> msg.
  Variable view : msg -> mview.
  Hypothesis view_mk : forall v, view (mk v) = v.

  Lemma monitor_lists_clean :
    forall sigs, Forall (fun a => is_open view a = false) (monitor_after mk sigs) /\
                 Forall (fun a => is_close view a = false) (monitor_before mk sigs).
  Proof.
    intros sigs. split; apply Forall_forall; intros a Ha; unfold monitor_after, monitor_before in Ha;
      apply in_map_iff in Ha as (d & <- & _); unfold is_open, is_close; now rewrite view_mk.
  Qed.

  Lemma fly_lists_clean :
    forall fl, Forall (fun a => is_open view a = false) (fly_after mk fl) /\
               Forall (fun a => is_close view a = false) (fly_before mk fl).
  Proof.
    intros fl. split; apply Forall_forall; intros a Ha; unfold fly_after, fly_before in Ha;
      repeat (apply in_app_or in Ha as [Ha|Ha]);
      try (apply in_map_iff in Ha as (d & <- & _); unfold is_open, is_close; now rewrite view_mk);
      destruct fl; try contradiction; destruct Ha as [<-|[]]; unfold is_open, is_close; now rewrite view_mk.
  Qed.
End DuringLists.
