"""C20 - message mutators are transparent when they change nothing.

Tie: (i) PyGen (the Coq model of CPython generators) against CPython itself on every DSL program x
script, (ii) the real bluesky.preprocessors.plan_mutator / msg_mutator with identity processors against
the stack machines of Gen/Mutators.v on the same programs x scripts, including what the wrapped plan
itself receives at each step."""
from harness.drivers import gen_dsl as G

ID = "C20"
PROP_FILE = "Props/C20.v"
THEOREMS = ["C20_plan_mutator_transparent", "C20_plan_mutator_inputs",
            "C20_msg_mutator_transparent", "C20_msg_mutator_inputs"]
COQ_IMPORTS = "From BV Require Import Gen.Coalg Gen.PyGen Gen.Mutators Gen.Tie."
PARALLEL = True
MODELLED = ("plan_mutator and msg_mutator (preprocessors.py 33-283) are modelled as stack machines over an arbitrary plan "
            "coalgebra (Gen/Mutators.v), field for field; CPython's generator protocol is modelled by Gen/PyGen.v and "
            "validated differentially, not verified; id() reuse after garbage collection, exceptions raised by msg_proc "
            "itself, StopIteration used as a thrown exception and generator finalisation by the GC are not modelled.")
RULE = ("small-scope exhaustive: every program of the generator grammar (yield, x = yield, the same Msg yielded twice, "
        "nested yield from, if, try/except with 4 clause kinds, try/finally, try/except/else/finally, raise, bare raise, "
        "return, for) with <= 3 nodes (quick) / <= 4 (thorough) x every script over {send None, send 1, throw User0, "
        "throw User1, close} up to length 4 (scripts stop where the bare plan stops); then every 4-node program "
        "(quick: every 3rd) x scripts up to length 3; then seeded random programs of 3..16 nodes x scripts over the wide "
        "alphabet (adds RequestAbort, PlanHalt, GeneratorExit, KeyboardInterrupt, CancelledError); non-trivial = the "
        "program yields and some script has >= 2 steps")

CORE = [["send", None], ["send", 1], ["throw", "User0"], ["throw", "User1"], ["close"]]
WIDE = CORE + [["throw", "RequestAbort"], ["throw", "PlanHalt"], ["throw", "GeneratorExit"],
               ["throw", "KeyboardInterrupt"], ["throw", "CancelledError"]]
ALPHA = {"core": CORE, "wide": WIDE}


def cases(rng, tier):
    out = []
    nmax = 3 if tier == "quick" else 4
    for n in range(1, nmax + 1):
        for p in G.enum_stmts(n):
            out.append({"prog": p, "alpha": "core", "depth": 4, "kind": "enum%d" % n})
    if tier == "quick":
        for i, p in enumerate(G.enum_stmts(4)):
            if i % 3 == 0:
                out.append({"prog": p, "alpha": "core", "depth": 3, "kind": "enum4"})
    else:
        for i, p in enumerate(G.enum_stmts(5)):
            if i % 7 == 0:
                out.append({"prog": p, "alpha": "core", "depth": 3, "kind": "enum5"})
    nrand = 500 if tier == "quick" else 6000
    for _ in range(nrand):
        p = G.rand_stmt(rng, rng.randint(3, 16))
        out.append({"prog": p, "alpha": "wide", "depth": 3, "kind": "rand"})
    # malformed / error stream: scripts that do not start the generator properly, throws at a dead start
    for p in (["yield", None, 0], ["seq", ["yield", 0, 1], ["return", ["var", 0]]]):
        out.append({"prog": p, "scripts": [[["send", 1]], [["throw", "User0"]], [["close"]],
                                           [["throw", "KeyboardInterrupt"]], [["send", None], ["send", 5], ["send", 6]]],
                    "kind": "unstarted"})
    return out


def _identity_pm(m):
    return None, None


def _identity_mm(m):
    return m


def impl(case):
    from bluesky.preprocessors import msg_mutator, plan_mutator
    prog = case["prog"]

    def bare():
        log = []
        return G.make_gen(prog, 0, log), log

    def pm():
        log = []
        return plan_mutator(G.make_gen(prog, 0, log), _identity_pm), log

    def mm():
        log = []
        return msg_mutator(G.make_gen(prog, 0, log), _identity_mm), log

    if "scripts" in case:
        scripts = case["scripts"]
    else:
        scripts = [s for s, _, _ in G.explore(bare, ALPHA[case["alpha"]], case["depth"])]
    runs = []
    for s in scripts:
        tb, lb = G.run_script(bare, s)
        tp, lp = G.run_script(pm, s)
        tm, lm = G.run_script(mm, s)
        runs.append([s, tb, tp, lp, tm, lm, lb])
    del G.KEEP[:]
    return {"runs": runs}


def base_only(script):
    return any(i[0] == "throw" and i[1] in G.BASE_ONLY_KINDS for i in script)


def _lt(trace, slices):
    return "[" + "; ".join("(%s, %s)" % (G.c_obs(o), G.c_calls(cs)) for o, cs in zip(trace, slices)) + "]"


def coq_term(case, obs):
    items = []
    for s, tb, tp, lp, tm, lm, lb in obs["runs"]:
        items.append("mkC20 %s %s %s %s %s" % (G.c_script(s), G.c_trace(tb), _lt(tp, lp), _lt(tm, lm),
                                               "true" if base_only(s) else "false"))
    return "c20_case %s [%s]" % (G.to_coq(case["prog"]), "; ".join(items))


def _failures(obs):
    """(script, why) for every script on which a wrapper is not observationally identical to the bare plan."""
    out = []
    for s, tb, tp, lp, tm, lm, lb in obs["runs"]:
        for name, t, l in (("plan_mutator", tp, lp), ("msg_mutator", tm, lm)):
            if t != tb:
                out.append((s, "%s: script %s gives %s, the bare plan gives %s" % (name, s, t, tb)))
            elif s and s[0] == ["send", None] and l != lb:
                out.append((s, "%s: script %s: the wrapped plan received %s, run bare it receives %s" % (name, s, l, lb)))
    return out


def oracle(case, obs):
    f = _failures(obs)
    if not f:
        return None
    outside = [w for s, w in f if not base_only(s)]
    return (outside or [w for _, w in f])[0]


def finding(case, obs):
    f = _failures(obs)
    if f and all(base_only(s) for s, _ in f):
        return "a"
    return None


def nontrivial(case, obs):
    return G.has(case["prog"], "yield") and any(len(r[1]) >= 2 for r in obs["runs"])


def describe(case):
    p = case["prog"]
    return "%s try=%d yf=%d" % (case["kind"], G.has(p, "try"), G.has(p, "yf"))
