(* C04 - resuming replays exactly the work done since the last checkpoint.

   Model: Engine/RE.v (all plan coalgebras, all device oracles, all schedules).  The specification of "the work
   to be replayed" is the monitor [mon] of Proofs/RE_Ctl.v, a function of the TRACE only (schedule events +
   msg_hook / response / lifecycle observations): a message is appended when a checkpoint is in effect, the plan is
   rewindable and the command is not in RunEngine._UNCACHEABLE_COMMANDS (Tables, regenerated from the source);
   checkpoint, a stage/unstage that staged something, close_run, a rewindable toggle and the rewind done by
   resume()/_start_suspender empty it; clear_checkpoint removes it.

   C04_full (below) additionally says that the next |l| messages the engine executes after the resume are l.
   That does not hold for arbitrary schedules (another interruption, a failing replayed command); proved here:
   the cache IS the specification (all schedules), resume/_start_suspender turn exactly the cache into the plan on
   top of the stack, and that plan yields exactly those messages in order and then returns to the plan below.
   Not in the engine model: monitor/unmonitor/subscribe/unsubscribe (implicit checkpoints on the real engine:
   checked by the implementation-side oracle only). *)
From Coq Require Import List.
From BV Require Import Engine.RE Engine.REInst Proofs.RE_Ctl Proofs.RE_Replay Proofs.RE_CtlExamples.
Import ListNotations.

(* after ANY schedule the engine's message cache is what the trace specification says *)
Theorem C04_cache_is_trace_spec :
  forall (P : Type) (presume : P -> input -> outcome P) (plan_of : nat -> P) (D : Type) (dev : D -> nat -> devmeth -> D * devres)
         (d : D) (paus stag : list nat) (rec : bool) (evs : list event),
    cache P D (fst (run P presume plan_of D dev (init P D d paus stag rec) evs)) =
    mcache (mon_run mon0 (trace P presume plan_of D dev (init P D d paus stag rec) evs)).
Proof. exact cache_is_trace_spec. Qed.
Print Assumptions C04_cache_is_trace_spec.

(* resume(): exactly the cached messages become the plan on top of the stack; the cache is emptied *)
Theorem C04_resume_pushes_cache :
  forall (P : Type) (presume : P -> input -> outcome P) (plan_of : nat -> P) (D : Type) (dev : D -> nat -> devmeth -> D * devres)
         (s : st P D) (l : list msg) (s' : st P D) (o : list obs),
    state P D s = Paused -> cache P D s = Some l -> bintr_ok (bundlers P D s) = true ->
    step P presume plan_of D dev s (EvMain AResume) = (s', o) ->
    plans P D s' = FList l :: plans P D s /\ resps P D s' = RVal VNone :: resps P D s /\ cache P D s' = Some [] /\
    rewindable P D s' = rewindable P D s /\ state P D s' = Paused.
Proof. exact resume_pushes_cache. Qed.
Print Assumptions C04_resume_pushes_cache.

(* ... hence, end to end: after ANY schedule that leaves the engine paused, resume() pushes exactly the message list
   computed by the trace specification *)
Theorem C04_resume_replays_trace_spec :
  forall (P : Type) (presume : P -> input -> outcome P) (plan_of : nat -> P) (D : Type) (dev : D -> nat -> devmeth -> D * devres)
         (d : D) (paus stag : list nat) (rec : bool) (evs : list event) (l : list msg) (s' : st P D) (o : list obs),
    let s := fst (run P presume plan_of D dev (init P D d paus stag rec) evs) in
    state P D s = Paused ->
    mcache (mon_run mon0 (trace P presume plan_of D dev (init P D d paus stag rec) evs)) = Some l ->
    step P presume plan_of D dev s (EvMain AResume) = (s', o) ->
    plans P D s' = FList l :: plans P D s /\ resps P D s' = RVal VNone :: resps P D s /\ cache P D s' = Some [] /\
    rewindable P D s' = rewindable P D s /\ state P D s' = Paused.
Proof. exact resume_replays_trace_spec. Qed.
Print Assumptions C04_resume_replays_trace_spec.

(* _start_suspender: exactly the cached messages are captured by the helper plan *)
Theorem C04_suspender_pushes_cache :
  forall (P : Type) (plan_of : nat -> P) (D : Type) (dev : D -> nat -> devmeth -> D * devres)
         (s : st P D) (sid : nat) (pre post : bool) (s' : st P D) (o : list obs),
    exec_start_suspender P plan_of D dev s sid pre post = (s', Done (RVal VNone), o) ->
    exists l, cache P D s = Some l /\ cache P D s' = Some [] /\
      plans P D s' = FHelper {| hph := H0; hsid := sid;
                                hpre := if pre then Some (pid_pre sid, plan_of (pid_pre sid)) else None;
                                hpost := if post then Some (pid_post sid, plan_of (pid_post sid)) else None;
                                hwas := rewindable P D s; hrw := l |} :: plans P D s /\
      resps P D s' = RVal VNone :: resps P D s.
Proof. exact suspender_pushes_cache. Qed.
Print Assumptions C04_suspender_pushes_cache.

(* the rewind plan yields exactly those messages, in order, whatever it is sent, and then returns *)
Theorem C04_rewind_plan_replays_in_order :
  forall (P : Type) (presume : P -> input -> outcome P) (l : list msg) (vs : list val),
    length vs = length l ->
    drain P presume (FList l) vs = (l, Some (FList [])) /\
    forall v, frame_resume P presume (FList []) (Send v) = (Returned VNone, []).
Proof. exact rewind_plan_replays_in_order. Qed.
Print Assumptions C04_rewind_plan_replays_in_order.

(* so does the tail of the suspender helper plan *)
Theorem C04_helper_replays_in_order :
  forall (P : Type) (presume : P -> input -> outcome P) (h : helper P) (l : list msg) (vs : list val),
    hph h = HRwBack -> hrw h = l -> length vs = length l ->
    exists h', drain P presume (FHelper h) vs = (l, Some (FHelper h')) /\ (l <> [] -> hph h' = HRewind []) /\
               forall v, l <> [] -> frame_resume P presume (FHelper h') (Send v) = (Returned VNone, []).
Proof. exact helper_replays_in_order. Qed.
Print Assumptions C04_helper_replays_in_order.

(* the full statement (NOT proved; it needs "no further interruption and no failing command during the replay"):
   if a resume is accepted after a schedule, then running on with task steps only, the first |l| messages
   executed are the specification's cache l, in order *)
Definition C04_full : Prop :=
  forall (P : Type) (presume : P -> input -> outcome P) (plan_of : nat -> P) (D : Type) (dev : D -> nat -> devmeth -> D * devres)
         (d : D) (paus stag : list nat) (rec : bool) (evs : list event) (n : nat) (l : list msg),
    let s := fst (run P presume plan_of D dev (init P D d paus stag rec) evs) in
    state P D s = Paused ->
    mcache (mon_run mon0 (trace P presume plan_of D dev (init P D d paus stag rec) evs)) = Some l ->
    let o := snd (run P presume plan_of D dev s (EvMain AResume :: EvPermit :: repeat EvTask n)) in
    (forall x, In x o -> match x with OBad _ | OResp (RExn _) => False | _ => True end) ->
    length l <= length (filter (fun x => match x with OMsg _ => true | _ => false end) o) ->
    firstn (length l) (flat_map (fun x => match x with OMsg m => [m] | _ => [] end) o) = l.

Example C04_nonvacuous_cache :
  cache TP nat (fst (irun ex_pause_tapes ex_pause_ledger ex_pause_paus ex_pause_stag ex_pause_rec ex_pause_before_resume)) = Some [msg_null2] /\
  state TP nat (fst (irun ex_pause_tapes ex_pause_ledger ex_pause_paus ex_pause_stag ex_pause_rec ex_pause_before_resume)) = Paused /\
  mcache (mon_run mon0 (itrace ex_pause_tapes ex_pause_ledger ex_pause_paus ex_pause_stag ex_pause_rec ex_pause_before_resume)) = Some [msg_null2].
Proof. exact c04_cache_nonempty_at_pause. Qed.
Example C04_nonvacuous_resume :
  exists rest,
    plans TP nat (fst (irun ex_pause_tapes ex_pause_ledger ex_pause_paus ex_pause_stag ex_pause_rec (firstn 10 ex_pause_evs))) = FList [msg_null2] :: rest /\
    cache TP nat (fst (irun ex_pause_tapes ex_pause_ledger ex_pause_paus ex_pause_stag ex_pause_rec (firstn 10 ex_pause_evs))) = Some [].
Proof. exact c04_resume_pushes_rewind_plan. Qed.
Example C04_nonvacuous_reissued :
  exists a b, snd (irun ex_pause_tapes ex_pause_ledger ex_pause_paus ex_pause_stag ex_pause_rec ex_pause_evs)
              = a ++ [OState Paused Running; OTask WSleep0; OMsg msg_null2; OResp (RVal VNone)] ++ b.
Proof. exact c04_message_is_reissued. Qed.
