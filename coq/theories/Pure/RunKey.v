(* Model of bluesky.preprocessors.set_run_key_wrapper on the messages it yields:
   msg_mutator(plan, f) with f replacing the run key only where it is unset (None).
   Run keys are arbitrary values; here [nat], where every number - 0 included - is a legitimate key
   (the harness maps Python's 0, '', 'a', 1, ... to 0, 1, 2, 3, ...: "falsy" keys are ordinary keys).
   A message is (payload, optional run key).  No proofs in this file. *)
From Coq Require Import List Arith Bool.
Import ListNotations.

Definition kmsg := (nat * option nat)%type.      (* payload id, run key *)

Definition set_run_key (k : nat) (m : kmsg) : kmsg :=
  match snd m with
  | None => (fst m, Some k)
  | Some _ => m
  end.

(* the messages that reach the consumer of  set_run_key_wrapper(plan, k)  *)
Definition wrap (k : nat) (plan : list kmsg) : list kmsg := map (set_run_key k) plan.

Definition okey_beq (a b : option nat) : bool :=
  match a, b with
  | None, None => true
  | Some x, Some y => Nat.eqb x y
  | _, _ => false
  end.
Fixpoint keys_beq (a b : list (option nat)) : bool :=
  match a, b with
  | [], [] => true
  | x :: a', y :: b' => okey_beq x y && keys_beq a' b'
  | _, _ => false
  end.

(* per-case evaluation: the real wrapper(s), outermost first in [ks], produced these run keys *)
Definition check_runkeys (ks : list nat) (plan : list kmsg) (expected : list (option nat)) : bool :=
  keys_beq (map snd (fold_right wrap plan ks)) expected.
