"""Development/sweep tool: run engine cases on the real RunEngine and in the Coq model, report disagreements."""
import json
import multiprocessing as mp
import random
import sys
import time
from collections import Counter

from harness import core
from harness.drivers import engine_cases, engine_encode
from harness.drivers.engine_driver import run_case


def work(case):
    try:
        return run_case(case)
    except Exception as e:  # pragma: no cover
        return {"errors": ["worker: %r" % (e,)], "sched": [], "obs": [], "tapes": {}, "msgs": [], "devcalls": []}


def work_chunk(chunk):
    return [work(c) for c in chunk]


def run_all(cases, procs=16, chunk=8):
    """Run cases in a process pool; a chunk that does not come back in time is reported as driver errors."""
    ctx = mp.get_context("spawn")
    outs = [None] * len(cases)
    pool = ctx.Pool(procs, maxtasksperchild=25)
    try:
        jobs = [(k, pool.apply_async(work_chunk, (cases[k:k + chunk],))) for k in range(0, len(cases), chunk)]
        for k, j in jobs:
            try:
                res = j.get(timeout=40 * chunk)
            except Exception as e:
                res = [{"errors": ["pool: %r" % (e,)], "sched": [], "obs": [], "tapes": {}, "msgs": [], "devcalls": []}] * len(cases[k:k + chunk])
            outs[k:k + len(res)] = res
    finally:
        pool.terminate()
    return outs


def main():
    tier = sys.argv[1] if len(sys.argv) > 1 else "quick"
    limit = int(sys.argv[2]) if len(sys.argv) > 2 else None
    rng = random.Random(1)
    cases = engine_cases.gen(rng, tier)
    if len(sys.argv) > 4:
        cases = [c for c in cases if c.get("tag", "").startswith(sys.argv[4])]
    if limit:
        cases = cases[:limit]
    t0 = time.time()
    outs = run_all(cases)
    t1 = time.time()
    terms, idx, unsupported, errs = [], [], Counter(), []
    for i, (c, o) in enumerate(zip(cases, outs)):
        if o.get("errors"):
            errs.append((i, o["errors"][0][:200]))
            continue
        try:
            terms.append(engine_encode.coq_check_term(c, o))
            idx.append(i)
        except engine_encode.Unsupported as e:
            unsupported[str(e)[:60]] += 1
    ok, bad, log = core.eval_cases_in_coq("engine", "From BV Require Import Engine.RE Engine.REInst.\nFrom Coq Require Import ZArith.", terms, shard=150)
    t2 = time.time()
    print("cases %d impl %.1fs coq %.1fs; encoded %d; driver-errors %d; unsupported %s; coq ok=%s; disagreements %d"
          % (len(cases), t1 - t0, t2 - t1, len(terms), len(errs), dict(unsupported), ok, len(bad)))
    if log:
        print(log[:3000])
    for i, e in errs[:10]:
        print("ERR", cases[i].get("tag"), e)
    tags = Counter(cases[idx[b]].get("tag", "?").split("@")[0] for b in bad)
    print(tags.most_common(30))
    for b in bad[:int(sys.argv[3]) if len(sys.argv) > 3 else 3]:
        c = cases[idx[b]]
        print("=" * 100)
        print(json.dumps(c))
        engine_encode.debug(c, outs[idx[b]])


if __name__ == "__main__":
    main()
