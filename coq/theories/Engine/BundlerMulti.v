(* Several runs open at once: RunEngine._run_bundlers as an insertion-ordered dict run key -> RunBundler state,
   with the two engine-side handlers that look at more than the addressed bundler (definitions only):
     _checkpoint : refuses while ANY registered bundler is bundling (the message's run key is not looked at),
                   then resets the checkpoint state of EVERY bundler;
     _configure  : guards on the bundler of the message's own run key only, calls obj.configure, then that
                   bundler's configure; without a bundler for the key it only configures the device.
   Every other message goes to the bundler of its run key ([step]).  Devices are shared: a configure updates the
   device world of every bundler (the caches of the other bundlers are not refreshed - as in the code).
   Monitors (device subscriptions shared between bundlers) are outside this layer.
   Run key 0 is the default key None.  uids of different bundlers are kept apart by [retag]. *)
From BV Require Import Base.Prelude Engine.Bundler Engine.BundlerObs.
From Coq Require Import ZArith List Bool.
Import ListNotations.

Definition runkey := nat.
Definition mstate := dict bstate.
Definition mop := (runkey * op)%type.

Definition any_bundling (ms : mstate) : bool := existsb (fun ks => b_bundling (snd ks)) ms.

(* uid supplies are per bundler: make generated uids of bundler k distinct from the others' *)
Definition retag_uid (k : runkey) (u : uid) : uid :=
  match u with UGen n => UGen (n * 8 + k) | UDev _ => u end.
Definition retag_doc (k : runkey) (d : doc) : doc :=
  match d with
  | DStart u => DStart (retag_uid k u)
  | DDescr d => DDescr (mkDescr (retag_uid k (de_uid d)) (retag_uid k (de_run d)) (de_name d) (de_keys d)
                                (de_objkeys d) (de_cfg d))
  | DEvent u de seq data filled => DEvent (retag_uid k u) (retag_uid k de) seq data filled
  | DStreamRes u run key => DStreamRes u (retag_uid k run) key
  | DStreamDatum u sres de ia ib sa sb => DStreamDatum u sres (retag_uid k de) ia ib sa sb
  | DResource u run => DResource u (retag_uid k run)
  | DDatum u r => DDatum u r
  | DStop u run st reason ne => DStop (retag_uid k u) (retag_uid k run) st reason ne
  end.

Definition sync_cfg (o : obj) (v : Z) (ms : mstate) : mstate :=
  map (fun ks => (fst ks, set_w_cfg (dset (w_cfg (snd ks)) o v) (snd ks))) ms.

Definition mstep (E : env) (ms : mstate) (m : mop) : mstate * list doc * list devcall * result :=
  let '(k, o) := m in
  match o with
  | OCheckpoint =>
      if any_bundling ms then (ms, [], [], RErr EIllegalMessageSequence)
      else (map (fun ks => (fst ks, fst (fst (step E (snd ks) OResetCheckpoint)))) ms, [], [], ROk)
  | OConfigure ob v =>
      match dget ms k with
      | Some s =>
          if b_bundling s then (ms, [], [], RErr EIllegalMessageSequence)
          else let sr := step E s (OConfigure ob v) in
               (dset (sync_cfg ob v ms) k (fst (fst sr)),
                map (retag_doc k) (snd (fst sr)), b_ledger (fst (fst sr)), snd sr)
      | None => (sync_cfg ob v ms, [], [CConfigure ob v], ROk)
      end
  | _ =>
      match dget ms k with
      | Some s => let sr := step E s o in
                  (dset ms k (fst (fst sr)), map (retag_doc k) (snd (fst sr)), b_ledger (fst (fst sr)), snd sr)
      | None => (ms, [], [], RErr EUnmodelled)
      end
  end.

Fixpoint mrun (E : env) (ms : mstate) (h : list mop) : mstate * list obs :=
  match h with
  | [] => (ms, [])
  | m :: h' =>
      let r := mstep E ms m in
      let rest := mrun E (fst (fst (fst r))) h' in
      (fst rest, (snd (fst (fst r)), snd (fst r), snd r) :: snd rest)
  end.

Definition minit (keys : list runkey) (strict record_int : bool) : mstate :=
  map (fun k => (k, init strict record_int)) keys.
Definition magrees (devs : dict devspec) (keys : list runkey) (strict record_int : bool) (h : list mop)
           (expected : list obs) : bool :=
  agree_list (canon_obs [] (snd (mrun (env_of devs) (minit keys strict record_int) h))) expected.
