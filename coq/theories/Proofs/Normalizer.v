(* C35 - proofs about Pure/Normalizer.v *)
From Coq Require Import String List ZArith Bool Arith Lia.
From BV Require Import Base.Prelude Pure.Normalizer.
Import ListNotations.
Open Scope string_scope.
Open Scope list_scope.

(* ================================================================== induction on values *)

Section ValInd.
  Variable P : val -> Prop.
  Hypothesis Hnone : P VNone.
  Hypothesis Hbool : forall b, P (VBool b).
  Hypothesis Hint : forall z, P (VInt z).
  Hypothesis Hstr : forall s, P (VStr s).
  Hypothesis Hflt : forall s, P (VFlt s).
  Hypothesis Hdict : forall kv, Forall (fun p => P (snd p)) kv -> P (VDict kv).
  Hypothesis Hlist : forall l, Forall P l -> P (VList l).
  Hypothesis Href : forall o, P (VRef o).

  Fixpoint val_rect' (v : val) : P v :=
    match v with
    | VNone => Hnone
    | VBool b => Hbool b
    | VInt z => Hint z
    | VStr s => Hstr s
    | VFlt s => Hflt s
    | VDict kv =>
        Hdict kv ((fix go (l : list (string * val)) : Forall (fun p => P (snd p)) l :=
                     match l with
                     | [] => Forall_nil _
                     | p :: l' => Forall_cons p (val_rect' (snd p)) (go l')
                     end) kv)
    | VList l =>
        Hlist l ((fix go (l : list val) : Forall P l :=
                    match l with
                    | [] => Forall_nil _
                    | x :: l' => Forall_cons x (val_rect' x) (go l')
                    end) l)
    | VRef o => Href o
    end.
End ValInd.

(* ================================================================== reference-free values *)

Fixpoint noref (v : val) : bool :=
  match v with
  | VRef _ => false
  | VDict kv => (fix go (l : list (string * val)) : bool :=
                   match l with [] => true | p :: l' => noref (snd p) && go l' end) kv
  | VList l => (fix go (l : list val) : bool :=
                  match l with [] => true | x :: l' => noref x && go l' end) l
  | _ => true
  end.

Definition allnoref (d : dict) : bool := forallb (fun p => noref (snd p)) d.

Lemma noref_dict : forall kv, noref (VDict kv) = allnoref kv.
Proof. induction kv as [|p kv IH]; cbn in *; [reflexivity|]. now rewrite IH. Qed.

Lemma noref_list : forall l, noref (VList l) = forallb noref l.
Proof. induction l as [|x l IH]; cbn in *; [reflexivity|]. now rewrite IH. Qed.

(* the two inner loops of [readback], named *)
Fixpoint rb_kvs (rb : val -> option val) (l : list (string * val)) : option (list (string * val)) :=
  match l with
  | [] => Some []
  | (k, x) :: l' =>
      match rb x, rb_kvs rb l' with
      | Some x', Some r => Some ((k, x') :: r)
      | _, _ => None
      end
  end.
Fixpoint rb_list (rb : val -> option val) (l : list val) : option (list val) :=
  match l with
  | [] => Some []
  | x :: l' =>
      match rb x, rb_list rb l' with
      | Some x', Some r => Some (x' :: r)
      | _, _ => None
      end
  end.

Lemma readback_dict : forall f s kv, readback f s (VDict kv) = option_map VDict (rb_kvs (readback f s) kv).
Proof.
  intros f s kv. destruct f; cbn; f_equal; induction kv as [|[k x] kv IH]; cbn; try reflexivity;
    now rewrite IH.
Qed.

Lemma readback_list : forall f s l, readback f s (VList l) = option_map VList (rb_list (readback f s) l).
Proof.
  intros f s l. destruct f; cbn; f_equal; induction l as [|x l IH]; cbn; try reflexivity;
    now rewrite IH.
Qed.

Lemma readback_ref : forall f s o,
  readback (S f) s (VRef o) = match nth_error s o with Some ob => readback f s ob | None => None end.
Proof. reflexivity. Qed.

Lemma readback_ref0 : forall s o, readback 0 s (VRef o) = None.
Proof. reflexivity. Qed.

Lemma readback_atom : forall f s v, is_atom v = true -> readback f s v = Some v.
Proof. intros f s v H. destruct f, v; cbn in *; try reflexivity; discriminate. Qed.

Lemma rb_kvs_noref : forall (rb : val -> option val) kv r,
  Forall (fun p => forall v', rb (snd p) = Some v' -> noref v' = true) kv ->
  rb_kvs rb kv = Some r -> allnoref r = true.
Proof.
  intros rb kv r H; revert r. induction H as [|[k x] kv Hx Hkv IH]; intros r Er; simpl in Er.
  - inversion Er; reflexivity.
  - destruct (rb x) as [x'|] eqn:Ex; [|discriminate]. destruct (rb_kvs rb kv) as [r'|] eqn:Ek; [|discriminate].
    inversion Er; subst. simpl. rewrite (Hx _ Ex). simpl. now apply IH.
Qed.

Lemma rb_list_noref : forall (rb : val -> option val) l r,
  Forall (fun x => forall v', rb x = Some v' -> noref v' = true) l ->
  rb_list rb l = Some r -> forallb noref r = true.
Proof.
  intros rb l r H; revert r. induction H as [|x l Hx Hl IH]; intros r Er; simpl in Er.
  - inversion Er; reflexivity.
  - destruct (rb x) as [x'|] eqn:Ex; [|discriminate]. destruct (rb_list rb l) as [r'|] eqn:Ek; [|discriminate].
    inversion Er; subst. simpl. rewrite (Hx _ eq_refl). simpl. now apply IH.
Qed.

(* a snapshot never contains a reference *)
Lemma readback_noref : forall f s v v', readback f s v = Some v' -> noref v' = true.
Proof.
  induction f as [|f IHf]; intros s v; induction v using val_rect'; intros v' E;
    try (rewrite readback_atom in E by reflexivity; inversion E; subst; reflexivity).
  - rewrite readback_dict in E. destruct (rb_kvs _ kv) as [r|] eqn:Er; simpl in E; [|discriminate].
    inversion E; subst. rewrite noref_dict. eapply rb_kvs_noref; eauto.
  - rewrite readback_list in E. destruct (rb_list _ l) as [r|] eqn:Er; simpl in E; [|discriminate].
    inversion E; subst. rewrite noref_list. eapply rb_list_noref; eauto.
  - rewrite readback_ref0 in E. discriminate.
  - rewrite readback_dict in E. destruct (rb_kvs _ kv) as [r|] eqn:Er; simpl in E; [|discriminate].
    inversion E; subst. rewrite noref_dict. eapply rb_kvs_noref; eauto.
  - rewrite readback_list in E. destruct (rb_list _ l) as [r|] eqn:Er; simpl in E; [|discriminate].
    inversion E; subst. rewrite noref_list. eapply rb_list_noref; eauto.
  - rewrite readback_ref in E. destruct (nth_error s o) as [ob|]; [|discriminate]. eapply IHf; eauto.
Qed.

(* a reference-free value is its own snapshot, whatever the store and the fuel *)
Lemma readback_id : forall f s v, noref v = true -> readback f s v = Some v.
Proof.
  intros f s v; induction v using val_rect'; intros N;
    try (apply readback_atom; reflexivity).
  - rewrite readback_dict. rewrite noref_dict in N.
    assert (E : rb_kvs (readback f s) kv = Some kv).
    { induction H as [|[k x] kv Hx Hkv IH]; cbn in *; [reflexivity|].
      apply andb_true_iff in N as [N1 N2]. rewrite (Hx N1), (IH N2). reflexivity. }
    now rewrite E.
  - rewrite readback_list. rewrite noref_list in N.
    assert (E : rb_list (readback f s) l = Some l).
    { induction H as [|x l Hx Hl IH]; cbn in *; [reflexivity|].
      apply andb_true_iff in N as [N1 N2]. rewrite (Hx N1), (IH N2). reflexivity. }
    now rewrite E.
  - discriminate.
Qed.

(* ================================================================== dict operations keep reference-freeness *)

Lemma allnoref_cons : forall k v d, allnoref ((k, v) :: d) = noref v && allnoref d.
Proof. reflexivity. Qed.

Lemma allnoref_dget : forall k d v, allnoref d = true -> dget k d = Some v -> noref v = true.
Proof.
  induction d as [|[k' v'] d IH]; intros v A G; simpl in G; [discriminate|].
  rewrite allnoref_cons in A. apply andb_true_iff in A as [A1 A2].
  destruct (String.eqb k k'); [inversion G; now subst|eauto].
Qed.

Lemma allnoref_dset : forall k v d, allnoref d = true -> noref v = true -> allnoref (dset k v d) = true.
Proof.
  induction d as [|[k' v'] d IH]; intros A N; simpl dset.
  - rewrite allnoref_cons, N. reflexivity.
  - rewrite allnoref_cons in A. apply andb_true_iff in A as [A1 A2]. destruct (String.eqb k k').
    + rewrite allnoref_cons, N, A2. reflexivity.
    + rewrite allnoref_cons, A1, IH by assumption. reflexivity.
Qed.

Lemma allnoref_filter : forall f d, allnoref d = true -> allnoref (filter f d) = true.
Proof.
  induction d as [|[k v] d IH]; intros A; simpl filter; [reflexivity|].
  rewrite allnoref_cons in A. apply andb_true_iff in A as [A1 A2].
  destruct (f (k, v)); [rewrite allnoref_cons, A1, IH by assumption; reflexivity | now apply IH].
Qed.

Lemma allnoref_ddel : forall k d, allnoref d = true -> allnoref (ddel k d) = true.
Proof. intros. now apply allnoref_filter. Qed.

Lemma allnoref_dupdate : forall u d, allnoref d = true -> allnoref u = true -> allnoref (dupdate d u) = true.
Proof.
  induction u as [|[k v] u IH]; intros d A U; simpl dupdate; [assumption|].
  rewrite allnoref_cons in U. apply andb_true_iff in U as [U1 U2]. apply IH; [now apply allnoref_dset | assumption].
Qed.

(* ================================================================== (a) the store is never written (after the repair) *)

(* Invariant of the normalizer state: the cached Datum documents are private trees (dicts). *)
Definition is_dict (v : val) : bool := match v with VDict _ => true | _ => false end.
Definition priv (p : val * val) : bool := noref (snd p) && is_dict (snd p).
Definition inv (n : nstate) : Prop := forallb priv (datum_cache n) = true.

(* [keeps m Q]: from a state satisfying the invariant, [m] leaves the store exactly as it
   was, re-establishes the invariant, and its result (if any) satisfies Q - also when it raises. *)
Definition keeps {A} (m : M A) (Q : A -> Prop) : Prop :=
  forall x x' r, inv (ns x) -> m x = (x', r) ->
    st x' = st x /\ inv (ns x') /\ (forall a, r = inl a -> Q a).

Lemma keeps_ret : forall A (a : A) (Q : A -> Prop), Q a -> keeps (ret a) Q.
Proof. intros A a Q H x x' r I E. inversion E; subst. repeat split; auto. intros a' Ea. inversion Ea; now subst. Qed.

Lemma keeps_fail : forall A e (Q : A -> Prop), keeps (fail e) Q.
Proof. intros A e Q x x' r I E. inversion E; subst. repeat split; auto. intros a' Ea. discriminate. Qed.

Lemma keeps_bind : forall A B (m : M A) (f : A -> M B) (Q : A -> Prop) (R : B -> Prop),
  keeps m Q -> (forall a, Q a -> keeps (f a) R) -> keeps (bind m f) R.
Proof.
  intros A B m f Q R Hm Hf x x' r I E. unfold bind in E.
  destruct (m x) as [x1 [a|e]] eqn:Em.
  - destruct (Hm _ _ _ I Em) as (S1 & I1 & Q1).
    destruct (Hf a (Q1 a eq_refl) _ _ _ I1 E) as (S2 & I2 & Q2).
    repeat split; auto. congruence.
  - destruct (Hm _ _ _ I Em) as (S1 & I1 & Q1). inversion E; subst.
    repeat split; auto. intros a Ea; discriminate.
Qed.

Lemma keeps_weaken : forall A (m : M A) (Q Q' : A -> Prop),
  keeps m Q -> (forall a, Q a -> Q' a) -> keeps m Q'.
Proof. intros A m Q Q' H W x x' r I E. destruct (H _ _ _ I E) as (S1 & I1 & Q1). repeat split; auto. Qed.

Lemma keeps_lift : forall A (r : A + err) (Q : A -> Prop), (forall a, r = inl a -> Q a) -> keeps (lift r) Q.
Proof. intros A r Q H x x' r' I E. inversion E; subst. repeat split; auto. Qed.

Lemma keeps_of_opt : forall A e (o : option A) (Q : A -> Prop), (forall a, o = Some a -> Q a) -> keeps (of_opt e o) Q.
Proof. intros A e [a|] Q H; [apply keeps_ret; auto | apply keeps_fail]. Qed.

Lemma keeps_get_ns : keeps get_ns inv.
Proof. intros x x' r I E. inversion E; subst. repeat split; auto. intros a Ea. inversion Ea; now subst. Qed.

Lemma keeps_put_ns : forall n, inv n -> keeps (put_ns n) (fun _ => True).
Proof. intros n H x x' r I E. inversion E; subst. repeat split; auto. Qed.

Lemma keeps_get_st : keeps get_st (fun _ => True).
Proof. intros x x' r I E. inversion E; subst. repeat split; auto. Qed.

Lemma keeps_deepcopy : forall v, keeps (deepcopy v) (fun c => noref c = true).
Proof.
  intros v. unfold deepcopy. eapply keeps_bind; [apply keeps_get_st|]. intros s _.
  apply keeps_of_opt. intros a E. eapply readback_noref; eauto.
Qed.

Lemma keeps_shallow : forall v, keeps (shallow v) (fun _ => True).
Proof.
  intros [] ; try (apply keeps_ret; exact I). unfold shallow.
  eapply keeps_bind; [apply keeps_get_st|]. intros s _. apply keeps_of_opt. auto.
Qed.

Lemma keeps_load_dict : forall v, noref v = true -> keeps (load_dict v) (fun kv => allnoref kv = true).
Proof.
  intros [] N; try apply keeps_fail; try discriminate.
  apply keeps_ret. now rewrite <- noref_dict.
Qed.

(* the one primitive that can write the store does not, when its target is a private value *)
Lemma keeps_mut_dict : forall v f, noref v = true ->
  (forall kv, allnoref kv = true -> allnoref (f kv) = true) ->
  keeps (mut_dict v f) (fun v' => noref v' = true).
Proof.
  intros [] f N Hf; try apply keeps_fail; try discriminate.
  apply keeps_ret. rewrite noref_dict in *. auto.
Qed.

Lemma keeps_emit : forall name v, keeps (emit name v) (fun _ => True).
Proof.
  intros name v. unfold emit. eapply keeps_bind; [apply keeps_deepcopy|]. intros snap _.
  intros x x' r I E. destruct (existsb _ _); inversion E; subst; cbn; repeat split; auto.
Qed.

Lemma keeps_forM : forall A (l : list A) (f : A -> M unit),
  (forall a, keeps (f a) (fun _ => True)) -> keeps (forM l f) (fun _ => True).
Proof.
  intros A l f H. induction l as [|a l IH]; cbn.
  - apply keeps_ret. exact I.
  - eapply keeps_bind; [apply H|]. intros _ _. exact IH.
Qed.

Ltac kb := eapply keeps_bind; [ | intros ? ? ].
Ltac ktriv := first [ apply keeps_fail | apply keeps_ret; try exact I | apply keeps_lift; intros; exact I ].

(* the normalizer-state updates that leave the datum cache alone *)
Lemma inv_with_next_frame : forall n t, inv n -> inv (with_next_frame n t). Proof. auto. Qed.
Lemma inv_with_ext_refs : forall n t, inv n -> inv (with_ext_refs n t). Proof. auto. Qed.
Lemma inv_with_desc_names : forall n t, inv n -> inv (with_desc_names n t). Proof. auto. Qed.
Lemma inv_with_sres_cache : forall n t, inv n -> inv (with_sres_cache n t). Proof. auto. Qed.
Lemma inv_with_emitted : forall n t, inv n -> inv (with_emitted n t). Proof. auto. Qed.
Lemma inv_with_keys : forall n i e, inv n -> inv (with_keys n i e). Proof. auto. Qed.

Lemma cache_vdel : forall k c, forallb priv c = true -> forallb priv (vdel k c) = true.
Proof.
  induction c as [|[k' v'] c IH]; simpl; intros H; [reflexivity|].
  apply andb_true_iff in H as [H1 H2]. destruct (atom_eqb k k'); [assumption|].
  simpl. now rewrite H1, IH.
Qed.
Lemma cache_vset : forall k v c, forallb priv c = true -> noref v = true -> is_dict v = true ->
  forallb priv (vset k v c) = true.
Proof.
  induction c as [|[k' v'] c IH]; simpl; intros H N Dv.
  - unfold priv; simpl. now rewrite N, Dv.
  - apply andb_true_iff in H as [H1 H2]. destruct (atom_eqb k k'); simpl.
    + unfold priv at 1; simpl. now rewrite N, Dv, H2.
    + now rewrite H1, IH.
Qed.
Lemma cache_vget : forall k c v, forallb priv c = true ->
  vget k c = Some v -> noref v = true /\ is_dict v = true.
Proof.
  induction c as [|[k' v'] c IH]; simpl; intros v H G; [discriminate|].
  apply andb_true_iff in H as [H1 H2]. destruct (atom_eqb k k'); [|eauto].
  inversion G; subst. unfold priv in H1; simpl in H1. now apply andb_true_iff in H1.
Qed.

Lemma keeps_pop_datum : forall id, keeps (pop_datum id) (fun od => forall d, od = Some d -> noref d = true /\ is_dict d = true).
Proof.
  intros id. unfold pop_datum. kb; [apply keeps_lift; intros; exact I|].
  kb; [apply keeps_get_ns|]. destruct (vget a (datum_cache a0)) eqn:G.
  - kb; [apply keeps_put_ns; unfold inv; cbn; now apply cache_vdel|].
    apply keeps_ret. intros d E. inversion E; subst. eapply cache_vget; eauto.
  - apply keeps_ret. intros d E; discriminate.
Qed.

Lemma keeps_convert_datum : forall dd data_key desc_uid seq_num, noref dd = true ->
  keeps (convert_datum dd data_key desc_uid seq_num) (fun _ => True).
Proof.
  intros dd data_key desc_uid seq_num N. unfold convert_datum.
  kb; [apply keeps_load_dict; assumption|]. rename a into ddk, H into Hdd.
  assert (Nkw : noref (match dget "datum_kwargs" ddk with Some x => x | None => VDict [] end) = true).
  { cbv beta in Hdd. destruct (dget "datum_kwargs" ddk) eqn:G; [exact (allnoref_dget _ _ _ Hdd G) | reflexivity]. }
  kb; [apply keeps_load_dict; assumption|].
  kb; [apply keeps_mut_dict; [assumption | intros; now apply allnoref_ddel]|].
  kb.
  { instantiate (1 := fun _ => True).
    destruct (dget "frame" a) as [[]|]; try apply keeps_fail.
    - destruct seq_num; try apply keeps_fail. ktriv.
    - kb; [apply keeps_get_ns|]. kb; [apply keeps_lift; intros; exact I|].
      kb; [apply keeps_of_opt; intros; exact I|]. kb; [apply keeps_lift; intros; exact I|].
      destruct (frame_step _ _). kb; [apply keeps_put_ns; now apply inv_with_next_frame|]. ktriv.
    - destruct seq_num; try apply keeps_fail. ktriv. }
  destruct a1 as [i0 i1].
  kb; [apply keeps_lift; intros; exact I|]. kb; [apply keeps_lift; intros; exact I|].
  kb; [apply keeps_get_ns|].
  kb.
  { instantiate (1 := fun _ => True).
    destruct (vget a1 (sres_cache a3)); [|ktriv]. destruct (mem_str _ _); [ktriv|].
    kb; [apply keeps_deepcopy|]. kb; [apply keeps_lift; intros; exact I|].
    kb; [apply keeps_lift; intros; exact I|]. kb; [apply keeps_lift; intros; exact I|]. ktriv. }
  kb; [apply keeps_lift; intros; exact I|]. ktriv.
Qed.

Lemma keeps_emit_converted : forall r, keeps (emit_converted r) (fun _ => True).
Proof.
  intros [sres sdat]. unfold emit_converted. kb; [|apply keeps_emit].
  instantiate (1 := fun _ => True). destruct sres; [|ktriv].
  kb; [apply keeps_lift; intros; exact I|]. kb; [apply keeps_lift; intros; exact I|].
  kb; [apply keeps_lift; intros; exact I|]. kb; [apply keeps_get_ns|].
  destruct (mem_str _ _); [ktriv|]. kb; [apply keeps_emit|]. kb; [apply keeps_get_ns|].
  apply keeps_put_ns. now apply inv_with_emitted.
Qed.

Lemma keeps_h_start : forall doc, keeps (h_start doc) (fun _ => True).
Proof. intros doc. unfold h_start. kb; [apply keeps_shallow|]. apply keeps_emit. Qed.

Lemma keeps_h_stream_datum : forall doc, keeps (h_stream_datum doc) (fun _ => True).
Proof. intros doc. unfold h_stream_datum. kb; [apply keeps_shallow|]. apply keeps_emit. Qed.

Tactic Notation "kb" "as" ident(a) ident(H) := eapply keeps_bind; [ | intros a H ].

Lemma keeps_stop_item : forall r, keeps (stop_item r) (fun _ => True).
Proof.
  intros [[[datum_id data_key] desc_uid] seq_num]. unfold stop_item.
  kb as od Hod; [apply keeps_pop_datum|]. destruct od as [dd|]; [|ktriv].
  destruct (truthy dd); [|ktriv]. kb; [apply keeps_convert_datum; apply (Hod dd eq_refl)|]. apply keeps_emit_converted.
Qed.

Lemma keeps_h_stop : forall doc, keeps (h_stop doc) (fun _ => True).
Proof.
  intros doc. unfold h_stop. kb; [apply keeps_shallow|]. kb; [apply keeps_get_ns|].
  kb; [|apply keeps_emit]. apply keeps_forM. apply keeps_stop_item.
Qed.

Lemma keeps_h_descriptor : forall doc, keeps (h_descriptor doc) (fun _ => True).
Proof.
  intros doc. unfold h_descriptor. kb; [apply keeps_deepcopy|].
  do 7 (kb; [apply keeps_lift; intros; exact I|]).
  kb as n Hn; [apply keeps_get_ns|]. kb; [apply keeps_lift; intros; exact I|].
  kb; [apply keeps_put_ns; now apply inv_with_keys|].
  do 3 (kb; [apply keeps_lift; intros; exact I|]).
  kb as n' Hn'; [apply keeps_get_ns|]. kb; [apply keeps_put_ns; now apply inv_with_desc_names|].
  apply keeps_emit.
Qed.

Lemma keeps_ext_item : forall d du sq kv, keeps (ext_item d du sq kv) (fun _ => True).
Proof.
  intros d du sq [data_key datum_id]. unfold ext_item.
  kb as od Hod; [apply keeps_pop_datum|]. kb.
  { instantiate (1 := fun _ => True). destruct (_ && _); ktriv. }
  destruct od as [dd|].
  - destruct (truthy dd).
    + kb; [apply keeps_convert_datum; apply (Hod dd eq_refl)|]. apply keeps_emit_converted.
    + kb as n Hn; [apply keeps_get_ns|]. apply keeps_put_ns. now apply inv_with_ext_refs.
  - kb as n Hn; [apply keeps_get_ns|]. apply keeps_put_ns. now apply inv_with_ext_refs.
Qed.

Lemma keeps_h_event_tree : forall c, keeps (h_event_tree c) (fun _ => True).
Proof.
  intros c. unfold h_event_tree. kb; [apply keeps_lift; intros; exact I|].
  kb; [apply keeps_get_ns|]. kb as sp Hsp; [apply keeps_lift; intros; exact I|].
  destruct sp as [[[ev ext] desc_uid] seq_num]. kb; [apply keeps_emit|].
  apply keeps_forM. apply keeps_ext_item.
Qed.

Lemma keeps_h_event : forall doc, keeps (h_event doc) (fun _ => True).
Proof. intros doc. unfold h_event. kb; [apply keeps_deepcopy|]. apply keeps_h_event_tree. Qed.

Lemma convert_legacy_noref : forall d d', allnoref d = true -> convert_legacy d = inl d' -> allnoref d' = true.
Proof.
  intros d d' A E. unfold convert_legacy in E.
  destruct (dhas "mimetype" d); [inversion E; now subst|].
  destruct (first_missing _ d); [discriminate|].
  unfold ebind, egetitem, eopt, hashable, as_str in E.
  repeat match type of E with
  | context [match dget ?k ?x with _ => _ end] => destruct (dget k x) eqn:?; [|discriminate]
  | context [if is_atom ?x then _ else _] => destruct (is_atom x); [|discriminate]
  | context [match ?x with VStr _ => _ | _ => _ end] => destruct x; try discriminate
  end; inversion E; subst;
  repeat first [ apply allnoref_dset | apply allnoref_ddel | assumption | reflexivity ];
  match goal with
  | H : dget "resource_kwargs" _ = Some ?v |- noref ?v = true =>
      eapply allnoref_dget; [| exact H]; repeat first [ apply allnoref_dset | apply allnoref_ddel | assumption | reflexivity ]
  end.
Qed.

Lemma hdf5_rename_noref : forall p, allnoref p = true -> allnoref (hdf5_rename p) = true.
Proof.
  intros p A. unfold hdf5_rename, dpop.
  apply allnoref_dset; [now repeat apply allnoref_ddel|].
  destruct (dget "path" (ddel "dataset" p)) eqn:G.
  - eapply allnoref_dget; [|exact G]. now apply allnoref_ddel.
  - destruct (dget "dataset" p) eqn:G2; [eapply allnoref_dget; eauto | reflexivity].
Qed.

Lemma keeps_convert_resource : forall d, allnoref d = true -> keeps (convert_resource d) (fun _ => True).
Proof.
  intros d A. unfold convert_resource.
  kb as d1 Hd1; [apply keeps_lift; intros a E; exact (convert_legacy_noref _ _ A E)|].
  kb; [apply keeps_lift; intros; exact I|].
  kb; [|ktriv]. instantiate (1 := fun _ => True).
  destruct (atom_eqb _ _); [|ktriv].
  kb as p Hp; [apply keeps_lift; intros p E; unfold egetitem, eopt in E;
       destruct (dget "parameters" d1) eqn:G; inversion E; subst; exact (allnoref_dget _ _ _ Hd1 G)|].
  kb; [apply keeps_mut_dict; [assumption | apply hdf5_rename_noref]|]. ktriv.
Qed.

Lemma as_dict_noref : forall c d, noref c = true -> as_dict c = inl d -> allnoref d = true.
Proof. intros [] d N E; inversion E; subst. now rewrite <- noref_dict. Qed.

Lemma keeps_h_resource_deep : forall doc, keeps (h_resource Deep doc) (fun _ => True).
Proof.
  intros doc. unfold h_resource, copy_doc. kb as c Hc; [apply keeps_deepcopy|].
  kb; [apply keeps_lift; intros d E; exact (as_dict_noref _ _ Hc E)|].
  kb; [apply keeps_convert_resource; assumption|].
  kb; [apply keeps_lift; intros; exact I|]. kb; [apply keeps_get_ns|].
  apply keeps_put_ns. now apply inv_with_sres_cache.
Qed.

Lemma keeps_h_stream_resource_deep : forall doc, keeps (h_stream_resource Deep doc) (fun _ => True).
Proof.
  intros doc. unfold h_stream_resource, copy_doc. kb as c Hc; [apply keeps_deepcopy|].
  kb; [apply keeps_lift; intros d E; exact (as_dict_noref _ _ Hc E)|].
  kb; [apply keeps_convert_resource; assumption|]. apply keeps_emit.
Qed.

Lemma keeps_h_datum_owned : forall c, noref c = true -> keeps (h_datum_owned c) (fun _ => True).
Proof.
  intros c N. unfold h_datum_owned.
  kb as d Hd; [apply keeps_lift; intros a E; exact E|].
  kb; [apply keeps_lift; intros; exact I|]. kb as n Hn; [apply keeps_get_ns|].
  apply keeps_put_ns. unfold inv; cbn. apply cache_vset; auto. destruct c; try discriminate; reflexivity.
Qed.

Lemma keeps_h_datum_deep : forall doc, keeps (h_datum Deep doc) (fun _ => True).
Proof.
  intros doc. unfold h_datum, copy_doc. kb; [apply keeps_deepcopy|]. now apply keeps_h_datum_owned.
Qed.

Lemma keeps_h_datum_page_deep : forall doc, keeps (h_datum_page Deep doc) (fun _ => True).
Proof.
  intros doc. unfold h_datum_page. kb; [apply keeps_deepcopy|].
  do 4 (kb; [apply keeps_lift; intros; exact I|]).
  apply keeps_forM. intros i. apply keeps_h_datum_deep.
Qed.

Lemma keeps_h_event_page : forall doc, keeps (h_event_page doc) (fun _ => True).
Proof.
  intros doc. unfold h_event_page. kb; [apply keeps_deepcopy|].
  do 8 (kb; [apply keeps_lift; intros; exact I|]).
  apply keeps_forM. intros i. apply keeps_h_event.
Qed.

Lemma keeps_dispatch_deep : forall name doc, keeps (dispatch Deep name doc) (fun _ => True).
Proof.
  intros name doc. unfold dispatch.
  repeat match goal with |- keeps (if ?c then _ else _) _ => destruct c end;
    first [ apply keeps_h_start | apply keeps_h_stop | apply keeps_h_descriptor | apply keeps_h_event
          | apply keeps_h_event_page | apply keeps_h_resource_deep | apply keeps_h_stream_resource_deep
          | apply keeps_h_stream_datum | apply keeps_h_datum_deep | apply keeps_h_datum_page_deep
          | apply keeps_fail ].
Qed.

Lemma run_from_keeps : forall docs i m errs m' errs',
  inv (ns m) -> run_from Deep i docs m errs = (m', errs') -> st m' = st m /\ inv (ns m').
Proof.
  induction docs as [|[name d] docs IH]; intros i m errs m' errs' I E; simpl in E.
  - inversion E; subst. auto.
  - destruct (dispatch Deep name d m) as [m1 [u|e]] eqn:Ed;
      destruct (keeps_dispatch_deep name d _ _ _ I Ed) as (S1 & I1 & _);
      destruct (IH _ _ _ _ _ I1 E) as (S2 & I2); split; auto; congruence.
Qed.

(* (a) For ANY store (shared, cyclic, whatever), any normalizer-side consumer failures and ANY list
   of (name, value) documents: after the run the store is exactly the store before the run.
   Exceptions raised by handlers on the way do not matter. *)
Theorem inputs_never_modified : forall (s0 : store) (fe : list nat) (docs : list (string * val)) m errs,
  run_from Deep 0 docs (init_mst s0 fe) [] = (m, errs) -> st m = s0.
Proof.
  intros s0 fe docs m errs E. apply run_from_keeps in E; [tauto | reflexivity].
Qed.

(* ================================================================== (c) _ConditionalBackup *)

Section BackupProofs.
  Variable D : Type.

  Lemma received_by_app : forall b (l1 l2 : list (D * nat)),
    received_by D b (l1 ++ l2) = received_by D b l1 ++ received_by D b l2.
  Proof. intros. unfold received_by. now rewrite filter_app, map_app. Qed.

  Lemma received_by_one : forall b nb (x : D), b < nb ->
    received_by D b (map (fun b' => (x, b')) (seq 0 nb)) = [x].
  Proof.
    intros b nb x Hb. unfold received_by.
    assert (G : forall k n, k <= b < k + n ->
              map fst (filter (fun p : D * nat => Nat.eqb (snd p) b) (map (fun b' => (x, b')) (seq k n))) = [x]).
    { intros k n; revert k. induction n as [|n IH]; intros k Hk; [lia|]. simpl.
      destruct (Nat.eqb k b) eqn:E.
      - apply Nat.eqb_eq in E; subst. simpl. f_equal.
        assert (Z0 : forall m j, b < j -> filter (fun p : D * nat => Nat.eqb (snd p) b) (map (fun b' => (x, b')) (seq j m)) = []).
        { induction m as [|m IHm]; intros j Hj; simpl; [reflexivity|].
          destruct (Nat.eqb j b) eqn:E2; [apply Nat.eqb_eq in E2; lia|]. apply IHm. lia. }
        rewrite Z0 by lia. reflexivity.
      - apply Nat.eqb_neq in E. apply IH. lia. }
    apply G. lia.
  Qed.

  Lemma received_by_flush : forall b nb (buf : list D), b < nb ->
    received_by D b (flat_map (fun x => map (fun b' => (x, b')) (seq 0 nb)) buf) = buf.
  Proof.
    intros b nb buf Hb. induction buf as [|x buf IH]; simpl; [reflexivity|].
    rewrite received_by_app, received_by_one, IH by assumption. reflexivity.
  Qed.

  Lemma cb_run_cons : forall maxlen nb c d r raises,
    cb_run D maxlen nb c (d :: r) raises =
    (fst (cb_run D maxlen nb (fst (cb_call D maxlen nb c d (hd false raises))) r (tl raises)),
     snd (cb_call D maxlen nb c d (hd false raises)) ++
     snd (cb_run D maxlen nb (fst (cb_call D maxlen nb c d (hd false raises))) r (tl raises))).
  Proof.
    intros. simpl. destruct (cb_call D maxlen nb c d (hd false raises)) as [c1 l1].
    simpl. destruct (cb_run D maxlen nb c1 r (tl raises)) as [c2 l2]. reflexivity.
  Qed.

  Lemma cb_call_push : forall maxlen nb c d raised, (cb_push D c || raised) = true ->
    cb_call D maxlen nb c d raised =
    ({| cb_buffer := []; cb_push := true |},
     flat_map (fun x => map (fun b => (x, b)) (seq 0 nb)) (dq_append D maxlen (cb_buffer D c) d)).
  Proof. intros. unfold cb_call. now rewrite H. Qed.

  Lemma cb_call_keep : forall maxlen nb c d raised, (cb_push D c || raised) = false ->
    cb_call D maxlen nb c d raised =
    ({| cb_buffer := dq_append D maxlen (cb_buffer D c) d; cb_push := false |}, []).
  Proof. intros. unfold cb_call. now rewrite H. Qed.

  Lemma dq_append_room : forall maxlen (buf : list D) d,
    (N.of_nat (S (length buf)) <= maxlen)%N -> dq_append D maxlen buf d = buf ++ [d].
  Proof.
    intros maxlen buf d H. unfold dq_append.
    destruct (N.eqb maxlen 0) eqn:E0; [apply N.eqb_eq in E0; lia|].
    destruct (N.ltb (N.of_nat (length buf)) maxlen) eqn:E1; [reflexivity|]. apply N.ltb_ge in E1. lia.
  Qed.

  (* once the flag is set every document is handed over as it arrives *)
  Lemma cb_run_pushing : forall maxlen nb b docs raises, b < nb -> (1 <= maxlen)%N ->
    received_by D b (snd (cb_run D maxlen nb {| cb_buffer := []; cb_push := true |} docs raises)) = docs.
  Proof.
    intros maxlen nb b docs; induction docs as [|d docs IH]; intros raises Hb Hm; [reflexivity|].
    rewrite cb_run_cons, cb_call_push by reflexivity.
    cbn [fst snd cb_buffer]. rewrite dq_append_room by (simpl; lia).
    rewrite received_by_app, received_by_flush by assumption. rewrite IH by assumption. reflexivity.
  Qed.

  (* index of the first document on which the primary raises *)
  Fixpoint first_failure (n : nat) (raises : list bool) : option nat :=
    match n with
    | O => None
    | S n' => if hd false raises then Some O else option_map S (first_failure n' (tl raises))
    end.

  Lemma cb_run_buffering : forall maxlen nb b docs raises buf, b < nb ->
    match first_failure (length docs) raises with
    | None => received_by D b (snd (cb_run D maxlen nb {| cb_buffer := buf; cb_push := false |} docs raises)) = []
    | Some f => (N.of_nat (length buf + S f) <= maxlen)%N ->
                received_by D b (snd (cb_run D maxlen nb {| cb_buffer := buf; cb_push := false |} docs raises)) = buf ++ docs
    end.
  Proof.
    intros maxlen nb b docs; induction docs as [|d docs IH]; intros raises buf Hb; [reflexivity|].
    rewrite cb_run_cons. cbn [length first_failure]. destruct (hd false raises) eqn:Eh.
    - (* the primary raises here: the whole buffer goes to the backups *)
      intros Hm. rewrite cb_call_push by reflexivity. cbn [fst snd cb_buffer].
      rewrite dq_append_room by lia.
      rewrite received_by_app, received_by_flush by assumption.
      rewrite cb_run_pushing by (try assumption; lia). now rewrite <- app_assoc.
    - rewrite cb_call_keep by reflexivity. cbn [fst snd cb_buffer app].
      specialize (IH (tl raises)). destruct (first_failure (length docs) (tl raises)) as [f|] eqn:Ef; cbn [option_map].
      + intros Hm. rewrite dq_append_room by lia.
        specialize (IH (buf ++ [d]) Hb). rewrite app_length in IH. cbn [length] in IH.
        rewrite IH by lia. now rewrite <- app_assoc.
      + exact (IH (dq_append D maxlen buf d) Hb).
  Qed.

  (* (c) For every run (any length), every behaviour of the primary and any number of backups:
     if the primary never raises the backups are not called; if it first raises on document f
     (and the bounded buffer, maxlen, has not overflowed before: f+1 <= maxlen) then every backup
     receives exactly the documents of the run, each once, in order. *)
  Theorem backup_exactly_once_in_order : forall maxlen nb b (docs : list D) raises, b < nb ->
    let log := snd (cb_run D maxlen nb (cb0 D) docs raises) in
    match first_failure (length docs) raises with
    | None => received_by D b log = []
    | Some f => (N.of_nat (S f) <= maxlen)%N -> received_by D b log = docs
    end.
  Proof.
    intros maxlen nb b docs raises Hb. exact (cb_run_buffering maxlen nb b docs raises [] Hb).
  Qed.
  (* the fast evaluator is the model *)
  Definition cbf_rel (c : cb_state D) (f : cbf_state D) : Prop :=
    cbf_rev D f = rev (cb_buffer D c) /\ cbf_len D f = N.of_nat (length (cb_buffer D c)) /\ cbf_push D f = cb_push D c.

  Lemma rev_tl_removelast : forall (l : list D), rev (tl l) = removelast (rev l).
  Proof.
    intros [|x l]; [reflexivity|]. simpl. rewrite removelast_app by discriminate. simpl. now rewrite app_nil_r.
  Qed.

  Lemma cbf_call_eq : forall maxlen nb c f d raised, cbf_rel c f ->
    cbf_rel (fst (cb_call D maxlen nb c d raised)) (fst (cbf_call D maxlen nb f d raised)) /\
    snd (cbf_call D maxlen nb f d raised) = snd (cb_call D maxlen nb c d raised).
  Proof.
    intros maxlen nb c f d raised (R1 & R2 & R3). unfold cb_call, cbf_call, dq_append, dq_append_fast.
    rewrite R1, R2, R3.
    destruct (N.eqb maxlen 0) eqn:E0.
    - destruct (cb_push D c || raised); simpl; repeat split; reflexivity.
    - destruct (N.ltb (N.of_nat (length (cb_buffer D c))) maxlen) eqn:E1.
      + destruct (cb_push D c || raised); simpl.
        * repeat split; try reflexivity. now rewrite rev_involutive.
        * repeat split; simpl; try reflexivity.
          -- now rewrite rev_app_distr.
          -- rewrite app_length. simpl. lia.
      + destruct (cb_push D c || raised); simpl.
        * repeat split; try reflexivity. simpl rev. now rewrite <- rev_tl_removelast, rev_involutive.
        * repeat split; simpl; try reflexivity.
          -- rewrite rev_app_distr. simpl. now rewrite rev_tl_removelast.
          -- rewrite app_length. simpl. apply N.ltb_ge in E1. apply N.eqb_neq in E0.
             destruct (cb_buffer D c); simpl in *; lia.
  Qed.

  Theorem cb_run_fast_eq : forall maxlen nb docs raises c f, cbf_rel c f ->
    snd (cbf_run D maxlen nb f docs raises) = snd (cb_run D maxlen nb c docs raises).
  Proof.
    intros maxlen nb docs; induction docs as [|d docs IH]; intros raises c f R; [reflexivity|].
    simpl. destruct (cbf_call_eq maxlen nb c f d (hd false raises) R) as [R' E].
    destruct (cb_call D maxlen nb c d (hd false raises)) as [c1 l1].
    destruct (cbf_call D maxlen nb f d (hd false raises)) as [f1 k1]. simpl in *. subst k1.
    specialize (IH (tl raises) c1 f1 R').
    destruct (cb_run D maxlen nb c1 docs (tl raises)) as [c2 l2].
    destruct (cbf_run D maxlen nb f1 docs (tl raises)) as [f2 k2]. simpl in *. now subst.
  Qed.

  Lemma first_failure_lt : forall n raises f, first_failure n raises = Some f -> f < n.
  Proof.
    induction n as [|n IH]; intros raises f E; simpl in E; [discriminate|].
    destruct (hd false raises); [inversion E; lia|].
    destruct (first_failure n (tl raises)) as [g|] eqn:G; [|discriminate].
    inversion E; subst. specialize (IH _ _ G). lia.
  Qed.

  (* the form that names what the property needs from the buffer bound: it must cover the run *)
  Theorem backup_whole_run : forall maxlen nb b (docs : list D) raises, b < nb ->
    (N.of_nat (length docs) <= maxlen)%N ->
    let log := snd (cb_run D maxlen nb (cb0 D) docs raises) in
    match first_failure (length docs) raises with
    | None => received_by D b log = []
    | Some _ => received_by D b log = docs
    end.
  Proof.
    intros maxlen nb b docs raises Hb Hm. assert (T := backup_exactly_once_in_order maxlen nb b docs raises Hb).
    cbv zeta in *. destruct (first_failure (length docs) raises) as [f|] eqn:E; [|exact T].
    apply T. apply first_failure_lt in E. lia.
  Qed.
End BackupProofs.

(* ================================================================== the caller's documents read back unchanged *)

Lemma rb_kvs_impl : forall (rb rb' : val -> option val) kv r,
  Forall (fun p => forall x, rb (snd p) = Some x -> rb' (snd p) = Some x) kv ->
  rb_kvs rb kv = Some r -> rb_kvs rb' kv = Some r.
Proof.
  intros rb rb' kv r H; revert r. induction H as [|[k v] kv Hx Hkv IH]; intros r E; simpl in *; [assumption|].
  destruct (rb v) as [v'|] eqn:Ev; [|discriminate]. destruct (rb_kvs rb kv) as [r'|] eqn:Er; [|discriminate].
  rewrite (Hx _ eq_refl), (IH _ eq_refl). assumption.
Qed.

Lemma rb_list_impl : forall (rb rb' : val -> option val) l r,
  Forall (fun v => forall x, rb v = Some x -> rb' v = Some x) l ->
  rb_list rb l = Some r -> rb_list rb' l = Some r.
Proof.
  intros rb rb' l r H; revert r. induction H as [|v l Hx Hl IH]; intros r E; simpl in *; [assumption|].
  destruct (rb v) as [v'|] eqn:Ev; [|discriminate]. destruct (rb_list rb l) as [r'|] eqn:Er; [|discriminate].
  rewrite (Hx _ eq_refl), (IH _ eq_refl). assumption.
Qed.

(* more fuel and a longer store do not change a snapshot *)
Lemma readback_mono : forall f s v x, readback f s v = Some x ->
  forall f' e, f <= f' -> readback f' (s ++ e) v = Some x.
Proof.
  induction f as [|f IHf]; intros s v; induction v using val_rect'; intros x E f' e Hf;
    try (rewrite readback_atom in * by reflexivity; assumption).
  - rewrite readback_dict in *. destruct (rb_kvs (readback 0 s) kv) as [r|] eqn:Er; [|discriminate].
    erewrite rb_kvs_impl; [exact E | | exact Er].
    eapply Forall_impl; [|exact H]. intros p Hp y Ey. eapply Hp; eauto.
  - rewrite readback_list in *. destruct (rb_list (readback 0 s) l) as [r|] eqn:Er; [|discriminate].
    erewrite rb_list_impl; [exact E | | exact Er].
    eapply Forall_impl; [|exact H]. intros p Hp y Ey. eapply Hp; eauto.
  - rewrite readback_ref0 in E. discriminate.
  - rewrite readback_dict in *. destruct (rb_kvs (readback (S f) s) kv) as [r|] eqn:Er; [|discriminate].
    erewrite rb_kvs_impl; [exact E | | exact Er].
    eapply Forall_impl; [|exact H]. intros p Hp y Ey. eapply Hp; eauto.
  - rewrite readback_list in *. destruct (rb_list (readback (S f) s) l) as [r|] eqn:Er; [|discriminate].
    erewrite rb_list_impl; [exact E | | exact Er].
    eapply Forall_impl; [|exact H]. intros p Hp y Ey. eapply Hp; eauto.
  - rewrite readback_ref in E. destruct (nth_error s o) as [ob|] eqn:En; [|discriminate].
    destruct f' as [|f']; [lia|]. rewrite readback_ref.
    rewrite nth_error_app1 by (apply nth_error_Some; congruence). rewrite En.
    eapply IHf; eauto. lia.
Qed.

Fixpoint alloc_kvs (s : store) (l : list (string * val)) : store * list (string * val) :=
  match l with
  | [] => (s, [])
  | (k, x) :: l' =>
      let '(s1, x') := alloc s x in
      let '(s2, r) := alloc_kvs s1 l' in (s2, (k, x') :: r)
  end.
Fixpoint alloc_list (s : store) (l : list val) : store * list val :=
  match l with
  | [] => (s, [])
  | x :: l' =>
      let '(s1, x') := alloc s x in
      let '(s2, r) := alloc_list s1 l' in (s2, x' :: r)
  end.

Lemma alloc_dict : forall s kv,
  alloc s (VDict kv) = let '(s', kv') := alloc_kvs s kv in (s' ++ [VDict kv'], VRef (length s')).
Proof.
  intros s kv. simpl.
  match goal with |- (let '(_, _) := ?F s kv in _) = _ => assert (G : forall l s0, F s0 l = alloc_kvs s0 l) end.
  { induction l as [|[k x] l IH]; intros s0; simpl; [reflexivity|].
    destruct (alloc s0 x) as [s1 x']. rewrite IH. reflexivity. }
  rewrite G. reflexivity.
Qed.

Lemma alloc_vlist : forall s l,
  alloc s (VList l) = let '(s', l') := alloc_list s l in (s' ++ [VList l'], VRef (length s')).
Proof.
  intros s l. simpl.
  match goal with |- (let '(_, _) := ?F s l in _) = _ => assert (G : forall l0 s0, F s0 l0 = alloc_list s0 l0) end.
  { induction l0 as [|x l0 IH]; intros s0; simpl; [reflexivity|].
    destruct (alloc s0 x) as [s1 x']. rewrite IH. reflexivity. }
  rewrite G. reflexivity.
Qed.

Definition alloc_ok (v : val) : Prop :=
  noref v = true -> forall s s' r, alloc s v = (s', r) ->
  (exists e, s' = s ++ e) /\ readback (length s') s' r = Some v.

Lemma alloc_kvs_spec : forall kv, Forall (fun p => alloc_ok (snd p)) kv -> allnoref kv = true ->
  forall s s1 kv', alloc_kvs s kv = (s1, kv') ->
  (exists e, s1 = s ++ e) /\ rb_kvs (readback (length s1) s1) kv' = Some kv.
Proof.
  intros kv H; induction H as [|[k x] kv Hx Hkv IH]; intros N s s1 kv' Ek; simpl in Ek.
  - inversion Ek; subst. split; [exists []; now rewrite app_nil_r | reflexivity].
  - rewrite allnoref_cons in N. apply andb_true_iff in N as [N1 N2].
    destruct (alloc s x) as [sa x'] eqn:Ea. destruct (alloc_kvs sa kv) as [sb r] eqn:Eb.
    inversion Ek; subst s1 kv'; clear Ek.
    destruct (Hx N1 _ _ _ Ea) as [[e1 ->] R1]. destruct (IH N2 _ _ _ Eb) as [[e2 ->] R2].
    split; [exists (e1 ++ e2); now rewrite app_assoc|]. simpl.
    rewrite (readback_mono _ _ _ _ R1 (length ((s ++ e1) ++ e2)) e2) by (rewrite !app_length; lia).
    rewrite R2. reflexivity.
Qed.

Lemma alloc_list_spec : forall l, Forall alloc_ok l -> forallb noref l = true ->
  forall s s1 l', alloc_list s l = (s1, l') ->
  (exists e, s1 = s ++ e) /\ rb_list (readback (length s1) s1) l' = Some l.
Proof.
  intros l H; induction H as [|x l Hx Hl IH]; intros N s s1 l' Ek; simpl in Ek.
  - inversion Ek; subst. split; [exists []; now rewrite app_nil_r | reflexivity].
  - simpl in N. apply andb_true_iff in N as [N1 N2].
    destruct (alloc s x) as [sa x'] eqn:Ea. destruct (alloc_list sa l) as [sb r] eqn:Eb.
    inversion Ek; subst s1 l'; clear Ek.
    destruct (Hx N1 _ _ _ Ea) as [[e1 ->] R1]. destruct (IH N2 _ _ _ Eb) as [[e2 ->] R2].
    split; [exists (e1 ++ e2); now rewrite app_assoc|]. simpl.
    rewrite (readback_mono _ _ _ _ R1 (length ((s ++ e1) ++ e2)) e2) by (rewrite !app_length; lia).
    rewrite R2. reflexivity.
Qed.

(* placing a tree in the store and reading it back gives the tree *)
Lemma alloc_spec : forall v, alloc_ok v.
Proof.
  induction v using val_rect'; intros N s0 s' r E;
    try (simpl in E; inversion E; subst; split; [exists []; now rewrite app_nil_r | apply readback_atom; reflexivity]).
  - rewrite alloc_dict in E. destruct (alloc_kvs s0 kv) as [s1 kv'] eqn:Ek. inversion E; subst s' r; clear E.
    rewrite noref_dict in N.
    destruct (alloc_kvs_spec kv H N _ _ _ Ek) as [[e ->] R].
    split; [exists (e ++ [VDict kv']); now rewrite app_assoc|].
    rewrite app_length. simpl length. rewrite Nat.add_1_r, readback_ref.
    rewrite nth_error_app2 by lia. rewrite Nat.sub_diag. simpl nth_error. cbv iota beta.
    rewrite readback_dict.
    erewrite rb_kvs_impl; [reflexivity | | exact R].
    apply Forall_forall. intros p _ y Ey. eapply readback_mono; eauto.
  - rewrite alloc_vlist in E. destruct (alloc_list s0 l) as [s1 l'] eqn:Ek. inversion E; subst s' r; clear E.
    rewrite noref_list in N.
    destruct (alloc_list_spec l H N _ _ _ Ek) as [[e ->] R].
    split; [exists (e ++ [VList l']); now rewrite app_assoc|].
    rewrite app_length. simpl length. rewrite Nat.add_1_r, readback_ref.
    rewrite nth_error_app2 by lia. rewrite Nat.sub_diag. simpl nth_error. cbv iota beta.
    rewrite readback_list.
    erewrite rb_list_impl; [reflexivity | | exact R].
    apply Forall_forall. intros p _ y Ey. eapply readback_mono; eauto.
  - discriminate.
Qed.

Lemma alloc_all_spec : forall vs, Forall (fun v => noref v = true) vs -> forall s s' refs,
  alloc_all s vs = (s', refs) ->
  (exists e, s' = s ++ e) /\ map (readback (fuel_of s') s') refs = map Some vs.
Proof.
  intros vs H; induction H as [|v vs Hv Hvs IH]; intros s s' refs E; simpl in E.
  - inversion E; subst. split; [exists []; now rewrite app_nil_r | reflexivity].
  - destruct (alloc s v) as [s1 r] eqn:Ea. destruct (alloc_all s1 vs) as [s2 rs] eqn:Eb.
    inversion E; subst s' refs; clear E.
    destruct (alloc_spec v Hv _ _ _ Ea) as [[e1 ->] R1]. destruct (IH _ _ _ Eb) as [[e2 ->] R2].
    split; [exists (e1 ++ e2); now rewrite app_assoc|]. cbn [map]. rewrite R2. f_equal.
    eapply readback_mono; eauto. unfold fuel_of. rewrite !app_length. lia.
Qed.

(* (a), as observed by the correspondence: documents given as trees are placed in a fresh store,
   the whole stream is processed, and every document reads back exactly as it was given *)
Theorem inputs_read_back_unchanged : forall fe docs,
  Forall (fun d => noref (snd d) = true) docs ->
  r_after (run Deep fe docs) = map (fun d => Some (snd d)) docs.
Proof.
  intros fe docs H. unfold run.
  destruct (alloc_all [] (map snd docs)) as [s0 refs] eqn:Ea.
  destruct (run_from Deep 0 (combine (map fst docs) refs) (init_mst s0 fe) []) as [m errs] eqn:Er.
  cbn [r_after]. apply inputs_never_modified in Er. rewrite Er.
  apply alloc_all_spec in Ea as [_ R]; [|now apply Forall_map]. rewrite R. now rewrite map_map.
Qed.
