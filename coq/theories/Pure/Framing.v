(* C33 -- model of bluesky/callbacks/zmq.py: Publisher.__call__ framing and
   RemoteDispatcher._poll parsing / prefix filter (with fix C33-a: an unknown document
   name is handled like the other decode failures).

   bytes = list N.  The (de)serialiser is an argument (pickle in the code); the transport
   is a FIFO list of frames.  MODEL ONLY -- proofs are in Proofs/Framing.v. *)
From BV Require Import Base.Prelude.
From Coq Require Import NArith.
Local Open Scope N_scope.

Definition bytes := list N.
Definition bytes_beq : bytes -> bytes -> bool := list_beq N.eqb.
Definition SP : N := 32.

(* ---- Publisher ---------------------------------------------------------------- *)

(* Publisher.__init__ / RemoteDispatcher.__init__:  if b" " in prefix: raise ValueError *)
Definition prefix_ok (p : bytes) : bool := negb (existsb (N.eqb SP) p).

(* b" ".join([prefix, name.encode(), serializer(doc)]) *)
Definition frame (p n payload : bytes) : bytes := p ++ SP :: n ++ SP :: payload.

(* ---- message.split(b" ", 2) ----------------------------------------------------- *)

Fixpoint split_first (l : bytes) : option (bytes * bytes) :=
  match l with
  | [] => None
  | b :: t => if N.eqb b SP then Some ([], t)
              else match split_first t with
                   | Some (x, y) => Some (b :: x, y)
                   | None => None
                   end
  end.

(* prefix, name, doc = message.split(b" ", 2)   (ValueError unless three parts) *)
Definition parse (m : bytes) : option (bytes * bytes * bytes) :=
  match split_first m with
  | None => None
  | Some (p, r) => match split_first r with
                   | None => None
                   | Some (n, d) => Some (p, n, d)
                   end
  end.

(* ---- name.decode(): strict UTF-8 validity (RFC 3629 table, as CPython) ---------- *)

Definition in_rng (lo hi b : N) : bool := (lo <=? b) && (b <=? hi).
Definition cont (b : N) : bool := in_rng 128 191 b.

Fixpoint utf8_valid (l : bytes) : bool :=
  match l with
  | [] => true
  | b0 :: t0 =>
    if b0 <? 128 then utf8_valid t0
    else match t0 with
    | [] => false
    | b1 :: t1 =>
      if in_rng 194 223 b0 then cont b1 && utf8_valid t1
      else match t1 with
      | [] => false
      | b2 :: t2 =>
        if N.eqb b0 224 then in_rng 160 191 b1 && cont b2 && utf8_valid t2
        else if in_rng 225 236 b0 || in_rng 238 239 b0 then cont b1 && cont b2 && utf8_valid t2
        else if N.eqb b0 237 then in_rng 128 159 b1 && cont b2 && utf8_valid t2
        else match t2 with
        | [] => false
        | b3 :: t3 =>
          if N.eqb b0 240 then in_rng 144 191 b1 && cont b2 && cont b3 && utf8_valid t3
          else if in_rng 241 243 b0 then cont b1 && cont b2 && cont b3 && utf8_valid t3
          else if N.eqb b0 244 then in_rng 128 143 b1 && cont b2 && cont b3 && utf8_valid t3
          else false
        end
      end
    end
  end.

(* ---- DocumentNames[name]: the member names, as their UTF-8 (ASCII) bytes --------
   (event_model.DocumentNames; the check compares this list with the enum on every run) *)
Definition document_names : list bytes := [
  [115;116;111;112];                                          (* stop *)
  [115;116;97;114;116];                                       (* start *)
  [100;101;115;99;114;105;112;116;111;114];                   (* descriptor *)
  [101;118;101;110;116];                                      (* event *)
  [100;97;116;117;109];                                       (* datum *)
  [114;101;115;111;117;114;99;101];                           (* resource *)
  [101;118;101;110;116;95;112;97;103;101];                    (* event_page *)
  [100;97;116;117;109;95;112;97;103;101];                     (* datum_page *)
  [115;116;114;101;97;109;95;114;101;115;111;117;114;99;101]; (* stream_resource *)
  [115;116;114;101;97;109;95;100;97;116;117;109];             (* stream_datum *)
  [98;117;108;107;95;100;97;116;117;109];                     (* bulk_datum *)
  [98;117;108;107;95;101;118;101;110;116;115]                 (* bulk_events *)
].
Definition known_name (n : bytes) : bool := existsb (bytes_beq n) document_names.

(* ---- RemoteDispatcher._poll ------------------------------------------------------ *)

(* which step of decoding failed = the __cause__ of Bluesky0MQDecodeError *)
Inductive cause := CSplit | CName | CDeser | CUnknown.
Definition cause_beq (a b : cause) : bool :=
  match a, b with
  | CSplit, CSplit | CName, CName | CDeser, CDeser | CUnknown, CUnknown => true
  | _, _ => false
  end.

Inductive status := Running | Raised (c : cause).
Definition status_beq (a b : status) : bool :=
  match a, b with
  | Running, Running => true
  | Raised x, Raised y => cause_beq x y
  | _, _ => false
  end.

Section Codec.
  Variable doc : Type.
  Variable deser : bytes -> option doc.

  Inductive verdict := Deliver (n : bytes) (d : doc) | Skip | Bad (c : cause).

  (* one trip round the `while True` body, before the strict/non-strict decision *)
  Definition handle (q m : bytes) : verdict :=
    match parse m with
    | None => Bad CSplit
    | Some (p, n, payload) =>
      if negb (utf8_valid n) then Bad CName
      else if match q with [] => true | _ => bytes_beq p q end then
        match deser payload with
        | None => Bad CDeser
        | Some d => if known_name n then Deliver n d else Bad CUnknown
        end
      else Skip
    end.

  (* the loop over the frames received, in order; a Bad frame is dropped when not strict and
     ends the loop with Bluesky0MQDecodeError when strict.  Result: the calls made to
     self.process, in order, and how the loop stands. *)
  Fixpoint poll (strict : bool) (q : bytes) (frames : list bytes) : list (bytes * doc) * status :=
    match frames with
    | [] => ([], Running)
    | m :: rest =>
      match handle q m with
      | Deliver n d => let '(ds, s) := poll strict q rest in ((n, d) :: ds, s)
      | Skip => poll strict q rest
      | Bad c => if strict then ([], Raised c) else poll strict q rest
      end
    end.

  (* number of frames taken from the socket *)
  Fixpoint consumed (strict : bool) (q : bytes) (frames : list bytes) : nat :=
    match frames with
    | [] => 0%nat
    | m :: rest =>
      match handle q m with
      | Bad _ => if strict then 1%nat else S (consumed strict q rest)
      | _ => S (consumed strict q rest)
      end
    end.
End Codec.

Arguments Deliver {doc}.
Arguments Skip {doc}.
Arguments Bad {doc}.

(* ---- transport: the proxy forwards every frame to every subscriber, in order ------ *)
Definition transport := list bytes.
Definition send (t : transport) (m : bytes) : transport := t ++ [m].

(* what a test harness does with publishers and raw (possibly malformed) frames *)
Section Wire.
  Variable doc : Type.
  Variable ser : doc -> bytes.
  Inductive item := Pub (p n : bytes) (d : doc) | Junk (m : bytes).
  Definition wire1 (i : item) : bytes :=
    match i with
    | Pub p n d => frame p n (ser d)      (* Publisher(prefix=p)(name, doc) *)
    | Junk m => m
    end.
  Definition wire (t : transport) (items : list item) : transport := fold_left (fun t i => send t (wire1 i)) items t.

  (* the documents a dispatcher with prefix q must deliver *)
  Definition matches (q p : bytes) : bool := match q with [] => true | _ => bytes_beq p q end.
  Fixpoint expected (q : bytes) (items : list item) : list (bytes * doc) :=
    match items with
    | [] => []
    | Pub p n d :: r => if matches q p then (n, d) :: expected q r else expected q r
    | Junk _ :: r => expected q r
    end.
End Wire.
Arguments Pub {doc}.
Arguments Junk {doc}.

(* ---- instance used by the correspondence: documents are numbered, the deserialiser is the
   finite table  payload bytes -> document number  observed from the real deserialiser ------ *)
Definition tab_deser (tab : list (bytes * N)) (b : bytes) : option N :=
  match find (fun e => bytes_beq (fst e) b) tab with
  | Some e => Some (snd e)
  | None => None
  end.

Definition deliveries_beq : list (bytes * N) -> list (bytes * N) -> bool :=
  list_beq (prod_beq bytes_beq N.eqb).

Definition poll_obs_beq (strict : bool) (q : bytes) (tab : list (bytes * N)) (frames : list bytes)
           (ds : list (bytes * N)) (st : status) (taken : nat) : bool :=
  let '(ds', st') := poll N (tab_deser tab) strict q frames in
  deliveries_beq ds' ds && status_beq st' st && Nat.eqb (consumed N (tab_deser tab) strict q frames) taken.

(* Publisher framing as observed on the wire *)
Definition frame_beq (p n payload m : bytes) : bool := bytes_beq (frame p n payload) m.
Definition names_beq (l : list bytes) : bool := list_beq bytes_beq document_names l.

(* batch forms used by the generated cases files *)
Definition disp_obs := (bool * bytes * list (bytes * N) * status * nat)%type.
Definition stream_beq (tab : list (bytes * N)) (frames : list bytes) (obs : list disp_obs) : bool :=
  forallb (fun o : disp_obs => let '(strict, q, ds, st, taken) := o in
                               poll_obs_beq strict q tab frames ds st taken) obs.
(* what each Publisher call put on the wire: (prefix, name, payload, index of its frame); the
   payload is given by its index in the deserialiser table, or literally *)
Definition pub_beq (tab : list (bytes * N)) (frames : list bytes) (x : bytes * bytes * (nat + bytes) * nat) : bool :=
  let '(p, n, pl, fi) := x in
  match nth_error frames fi with
  | None => false
  | Some m =>
      match pl with
      | inr payload => frame_beq p n payload m
      | inl ti => match nth_error tab ti with
                  | Some e => frame_beq p n (fst e) m
                  | None => false
                  end
      end
  end.
Definition pubs_beq (tab : list (bytes * N)) (frames : list bytes) (pubs : list (bytes * bytes * (nat + bytes) * nat)) : bool :=
  forallb (pub_beq tab frames) pubs.
(* a strict dispatcher with prefix q given the single frame  q SP name SP payload *)
Definition name_status (tab : list (bytes * N)) (q payload n : bytes) : status :=
  snd (poll N (tab_deser tab) true q [frame q n payload]).
Definition statuses_beq : list status -> list status -> bool := list_beq status_beq.
