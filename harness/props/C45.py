"""C45 - collected stream assets line up with the stream's event numbering (RunBundler.collect,
_pack_external_assets, _pack_seq_nums_into_stream_datum)."""
import itertools

from harness.drivers import bundler_cases as bc
from harness.drivers import bundler_driver as bd
from harness.drivers import bundler_oracles as bo
from harness.drivers import bundler_terms as bt

ID = "C45"
PROP_FILE = "Props/C45.v"
THEOREMS = ["C45_collect_numbering", "C45_min_index_is_the_minimum", "C45_cadence", "C45_cadence_contiguous",
            "C45_new_stream_starts_at_one", "C45_stop_reports_counters"]
COQ_IMPORTS = bt.imports() + "\nFrom BV Require Import Engine.BundlerDet."
PARALLEL = False
MODELLED = (
    "RunBundler.collect / _pack_external_assets / _pack_seq_nums_into_stream_datum / declare_stream / close_run as "
    "modelled in coq/theories/Engine/Bundler.v (see C15). A well-behaved WritesStreamAssets detector (yields its "
    "stream_resource once and one stream_datum [last, index) per collect, nothing when index <= last; alone it is "
    "collected up to its own index) is a definition in Engine/BundlerDet.v, mirrored by the fake device programs of "
    "the harness; C45_cadence is about such detectors always collected as one group, C45_collect_numbering about "
    "arbitrary asset documents. Collects without a declared stream and EventCollectable / EventPageCollectable "
    "devices (event pages) are not modelled (EUnmodelled). Rewinds: see C05.")
RULE = ("corpus; cadence cases: detector groups {5}, {5,6}, {5,6,7'} x all index-vector sequences over {0,1,3} up to 2 "
        "collects (quick; groups of 3 sampled) / over {0,1,2,4} up to 3 collects (thorough), run through Coq's own "
        "[cadence] on the model side (ties BundlerDet.v to the fake detectors) + close_run; random walks with the collect "
        "profile (declared streams, 1-3 detectors together, kickoff/backstop, interleaved bundles/monitors/configure/"
        "checkpoints/rewinds); malformed stream: inconsistent widths, unknown/duplicate stream resources, pre-filled "
        "descriptor / seq_nums, wrong data_key, undeclared streams, non-WritesStreamAssets objects, stream=True. "
        "non-trivial = at least two successful collects that emitted stream datums; distinct by op list")

DET7 = {"id": 7, "caps": ["configurable", "collectable", "flyable", "wsa"], "describe_collect": [[8, "stream"]]}
DEVS45 = bc.DEVS[:6] + [DET7]
SKEY = {5: 5, 6: 7, 7: 8}


def cadence_case(dets, ws, name=7, close=True):
    """ops = open_run; declare; one collect per index vector, exactly as Engine/BundlerDet.v `cadence` builds them:
    stream resource uid = the detector's id, datum uid = 100 + number of the collect."""
    ops = [["open_run"], ["declare", list(dets), name, True]]
    last, started = 0, False
    for k, w in enumerate(ws):
        m = min(w) if len(dets) > 1 else w[0]
        triples = []
        for o, wi in zip(dets, w):
            a = []
            if m > last:
                if not started:
                    a.append(["sres", o, SKEY[o]])
                a.append(["sdatum", 100 + k, o, False, True, last, m])
            triples.append([o, wi, a])
        ops.append(["collect", triples, name, False])
        started = started or m > last
        last = max(last, m)
    if close:
        ops.append(["close_run", None, 0])
    c = bc.mk(DEVS45, ops, tag="cadence%d" % len(dets))
    c.update(kind="cadence", dets=list(dets), ws=[list(w) for w in ws], name=name, close=close)
    return c


def cases(rng, tier):
    out = []
    vals = [0, 1, 3] if tier == "quick" else [0, 1, 2, 4]
    maxc = 2 if tier == "quick" else 3
    for dets in ([5], [5, 6], [5, 6, 7]):
        vecs = list(itertools.product(vals, repeat=len(dets)))
        for n in range(1, maxc + 1):
            seqs = list(itertools.product(vecs, repeat=n))
            cap = 100 if tier == "quick" else 3000
            if len(seqs) > cap:
                seqs = rng.sample(seqs, cap)
            for ws in seqs:
                out.append(cadence_case(dets, ws))
    nr = 100 if tier == "quick" else 3000
    for _ in range(nr):      # longer random cadences, non-monotone indices included
        dets = rng.choice([[5], [6], [5, 6], [6, 7], [5, 6, 7]])
        cur = [0] * len(dets)
        ws = []
        for _ in range(rng.randint(3, 9)):
            cur = [max(0, c + rng.choice([0, 0, 1, 2, 5, -1])) for c in cur]
            ws.append(list(cur))
        out.append(cadence_case(dets, ws, name=rng.choice([7, 8]), close=rng.random() < 0.8))
    # detectors reporting different widths in one collect (must be refused unless the earlier width was 0)
    for dets in ([5, 6], [5, 6, 7]):
        for ws in itertools.product([0, 1, 2, 3] if len(dets) == 2 else [0, 2, 3], repeat=len(dets)):
            triples = [[o, 5, [["sres", o, SKEY[o]], ["sdatum", 100 + o, o, False, True, 0, wi]]] for o, wi in zip(dets, ws)]
            ops = [["open_run"], ["declare", dets, 7, True], ["collect", triples, 7, False], ["close_run", None, 0]]
            out.append(bc.mk(DEVS45, ops, tag="widths"))
    n = 150 if tier == "quick" else 5000
    out += bc.random_cases(rng, n, "collect")
    out += bc.random_cases(rng, n // 2, "collect", wild=0.3, tag="malformed")
    out += evc_cases(rng, tier)
    return out


# ORACLE-ONLY family: a flyer that hands over EVENTS from collect()/collect_pages() and external assets through the older
# collect_asset_docs() without get_index (WritesExternalAssets, so not WritesStreamAssets): the branch of RunBundler.collect
# for EventCollectable / EventPageCollectable objects.  Engine/Bundler.v answers EUnmodelled for such flyers.
DET8 = {"id": 8, "caps": ["collectable", "flyable", "wea", "evc"], "describe_collect": [[9, "stream"], [10, "none"]]}
DET9 = {"id": 9, "caps": ["collectable", "flyable", "wea", "pgc"], "describe_collect": [[9, "stream"], [10, "none"]]}


def evc_cases(rng, tier):
    out = []
    for det in (DET8, DET9):
        o = det["id"]
        for widths in ([2, 3], [1, 1, 2], [3], [2, 0, 2]) + (([1, 2, 1, 3], [4, 1]) if tier == "thorough" else ()):
            for rp in (True, False):
                for declared in (True,):
                    ops = [["open_run"], ["declare", [o], 7, True]]
                    last = 0
                    for k, w in enumerate(widths):
                        assets = ([["sres", o, 9]] if k == 0 else []) + ([["sdatum", 100 + k, o, False, True, last, last + w]] if w else [])
                        events = [[[10, 10 * k + j]] for j in range(w)]      # the internal key only: external keys may not be in events
                        ops.append(["collect", [[o, None, assets, events]], 7, False, rp])
                        last += w
                    ops.append(["close_run", None, 0])
                    c = bc.mk(DEVS45 + [DET8, DET9], ops, tag="evc %s rp=%s" % ("pages" if det is DET9 else "events", rp))
                    c.update(kind="evc", widths=list(widths))
                    out.append(c)
    return out


def oracle_evc(case, obs):
    """the events of the stream are numbered 1..N without gaps across the collects, each collect's stream datum covers exactly
    the seq_nums of the events handed over by that collect, and the RunStop counts N"""
    view = bo.View()
    nxt = 1
    total = sum(case["widths"])
    for i, (op, o) in enumerate(zip(case["ops"], obs)):
        k, docs, res = op[0], o["docs"], o["res"]
        where = "op %d %s: " % (i, k)
        if res != "ok":
            return where + "a well-formed %s was refused (%s)" % (k, res)
        seqs = []
        for d in docs:
            view.see(d)
            if d[0] == "event":
                seqs.append(d[3])
            elif d[0] == "epage":
                seqs += list(d[3]) if isinstance(d[3], list) else [d[3]]
        if k == "collect":
            w = len(op[1][0][3])
            if seqs != list(range(nxt, nxt + w)):
                return where + "the %d events handed over got seq_nums %r, expected %r" % (w, seqs, list(range(nxt, nxt + w)))
            for d in docs:
                if d[0] == "sdatum" and (d[6], d[7]) != (nxt, nxt + w):
                    return where + "stream datum covers seq_nums [%d, %d), the events of this collect are [%d, %d)" % (d[6], d[7], nxt, nxt + w)
            nxt += w
        for d in docs:
            if d[0] == "stop":
                ne = dict((a, b) for a, b in d[5])
                if ne.get(7) != total:
                    return where + "RunStop says num_events=%r for the stream, %d events were emitted" % (ne.get(7), total)
    return None


def impl(case):
    return bd.run_case(case)


def coq_term(case, obs):
    if case.get("kind") == "evc":
        return None           # ORACLE ONLY
    if case.get("kind") == "cadence":
        # the model side runs Coq's own cadence: ties Engine/BundlerDet.v to what the fake detectors were told to do
        dets = bt.cl(case["dets"], lambda o: "mkDet %d %d %d" % (o, SKEY[o], o))
        ws = bt.cl(case["ws"], lambda w: bt.cl(w, bt.cz))
        ops = "(OOpenRun :: ODeclareStream %s (Some %d) true :: cadence_from %s %d %s ++ %s)" % (
            bt.cl(case["dets"], bt.cn), case["name"], dets, case["name"], ws,
            "[OCloseRun None 0]" if case["close"] else "[]")
        try:
            exp = bt.cl(obs, bt.cobs)
        except (ValueError, KeyError, AssertionError) as e:
            return "false (* %s *)" % str(e).replace("*", "x")
        return "agrees %s false false %s %s" % (bt.cdevs(case["devs"]), ops, exp)
    return bt.agrees_term(case, obs)


def oracle(case, obs):
    if case.get("kind") == "evc":
        return oracle_evc(case, obs)
    return bo.c45(case, obs)


def finding(case, obs):
    return None


def nontrivial(case, obs):
    n = sum(1 for op, o in zip(case["ops"], obs)
            if op[0] == "collect" and o["res"] == "ok" and any(d[0] == "sdatum" for d in o["docs"]))
    return n >= 2


def describe(case):
    return "%s ops=%s" % (case.get("tag", "corpus"), "<=6" if len(case["ops"]) <= 6 else "7-15" if len(case["ops"]) <= 15 else ">15")
