"""C34 - JSON writers produce files that parse back to the documents.

Runs the real JSONWriter / JSONLinesWriter in a temporary directory (under /tmp, removed afterwards)
on call sequences, with pre-existing files, and compares the complete resulting directory (every file
name and every byte), the writer's final `filename` and the exception class of every call with the
model (Pure/JsonW.v) run on the same calls, where a record's encoding is what json.dumps gives for
{"name": name, "doc": doc}.
"""
import itertools
import json
import os
import shutil
import tempfile

from harness.drivers.io_common import build, canon, coq_bytes, coq_list, rand_doc

ID = "C34"
PROP_FILE = "Props/C34.v"
THEOREMS = ["C34_array_file", "C34_array_parses", "C34_splitter_complete", "C34_splitter_sound",
            "C34_lines_file", "C34_lines_parse", "C34_lines_split"]
COQ_IMPORTS = "From BV Require Import Pure.JsonW.\nFrom Coq Require Import NArith."
MODELLED = ("JSONWriter.__call__ / JSONLinesWriter.__call__ are modelled over a file system = map name -> bytes with "
            "open('w') = create/truncate and open('a') = create/append; json.dump is an abstract encoder (newline-free, "
            "decodable); the array and lines layouts are parsed back by splitters certified in Coq, json.loads is run on "
            "the implementation side. OS file semantics beyond that (torn writes, permissions, concurrent writers), "
            "documents json.dump rejects midway, and datetime.today() (an input) are not modelled.")
RULE = ("exhaustive: every call sequence of length <=2 (quick) / <=3 (thorough), plus a sample one longer, over {start(uid), start(other uid), "
        "start(no uid), event, stop} x filename given / not given / '' x target file pre-existing or not (JSONWriter), "
        "and over {start(uid), start(no uid), event, stop} x filename x pre-existing content empty / newline-terminated / "
        "unterminated (JSONLinesWriter); random: 1-3 runs of random JSON-compatible documents (nested, unicode, embedded "
        "newlines and quotes, big ints, floats) with stray documents, unicode uids, unrelated pre-existing files. "
        "non-trivial = at least 3 successful calls and a pre-existing file in the directory.")

TODAY = "2026-09-21"


def _h(s):
    return s.encode("utf-8").hex()


# ------------------------------------------------------------------------------ cases

def _alpha_json():
    return [["start", {"uid": "ab-c"}], ["start", {"uid": "zz", "n": 1}], ["start", {"i": 3}],
            ["event", {"s": "a\n,\n]"}], ["stop", {"uid": "q-1"}]]


def _alpha_lines():
    return [["start", {"uid": "ab-c"}], ["start", {"i": 3}], ["descriptor", {"n": "p\n"}], ["stop", {}]]


def cases(rng, tier):
    out = []
    full = 2 if tier == "quick" else 3            # exhaustive up to this length, sampled one longer
    nsample = 120 if tier == "quick" else 700
    pre_json = [["ab.json", _h("[\nold")], ["out.json", _h("junk\n")], ["o.txt", _h("keep")]]
    pres = [[], [["ab.jsonl", _h("")], ["log.jsonl", _h("")]],
            [["ab.jsonl", _h('{"o": 1}\n')], ["log.jsonl", _h('{"o": 1}\n[2]\n')], [TODAY + ".jsonl", _h("[1]\n")]],
            [["ab.jsonl", _h('{"u": 1}')], ["log.jsonl", _h("x")], [TODAY + ".jsonl", _h("y")], ["o.txt", _h("keep")]]]
    # JSONWriter, small scope
    for n in range(0, full + 1):
        for seq in itertools.product(_alpha_json(), repeat=n):
            for fn in (None, "out.json", ""):
                for pre in ([], pre_json):
                    out.append({"writer": "json", "filename": fn, "pre": pre, "calls": list(seq)})
    for _ in range(nsample):
        seq = [rng.choice(_alpha_json()) for _ in range(full + 1)]
        out.append({"writer": "json", "filename": rng.choice([None, None, "out.json", ""]), "pre": rng.choice([[], pre_json]), "calls": seq})
    # JSONLinesWriter, small scope
    for n in range(0, full + 1):
        for seq in itertools.product(_alpha_lines(), repeat=n):
            for fn in (None, "log.jsonl", ""):
                for pre in pres:
                    out.append({"writer": "jsonl", "filename": fn, "pre": pre, "calls": list(seq)})
    for _ in range(nsample):
        seq = [rng.choice(_alpha_lines()) for _ in range(full + 1)]
        out.append({"writer": "jsonl", "filename": rng.choice([None, None, "log.jsonl", ""]), "pre": rng.choice(pres), "calls": seq})
    # random
    nrand = 60 if tier == "quick" else 1500
    uids = ["ab-cd", "x", "né-1", "0a1b2c3d-0000-4000-8000-000000000000", "-lead", "no_dash", "sp ace-1", "日本-2", "a.b-c"]
    names = ["descriptor", "event", "event_page", "datum", "resource", "stream_datum", "bulk_events", "weird name"]
    for _ in range(nrand):
        writer = rng.choice(["json", "jsonl"])
        calls = []
        if rng.random() < 0.15:
            calls.append([rng.choice(names + ["stop"]), rand_doc(rng, "json")])       # stray document before any start
        for _run in range(rng.randint(1, 3)):
            uid = rng.choice(uids)
            calls.append(["start", rand_doc(rng, "json", uid if rng.random() < 0.93 else None)])
            for _ in range(rng.randint(0, 4)):
                calls.append([rng.choice(names), rand_doc(rng, "json", rng.choice([None, "e-1"]))])
            if rng.random() < 0.9:
                calls.append(["stop", rand_doc(rng, "json")])
            if rng.random() < 0.1:
                calls.append([rng.choice(names), rand_doc(rng, "json")])               # stray document after stop
        if rng.random() < 0.3:
            # a string with a lone surrogate: what os.fsdecode / os.listdir return for a file name holding a non-UTF-8 byte
            # (a detector reporting the path of a frame). json round-trips it (escaped as \udcXX); a UTF-8 encoder does not.
            tgt = [c for c in calls if isinstance(c[1], dict)]
            if tgt:
                rng.choice(tgt)[1]["fs_path"] = "/data/caf\udce9/img_%d.tif" % rng.randrange(100)
        fn = rng.choice([None, None, "given.json", "given.jsonl", "né.out"])
        pre = []
        if rng.random() < 0.7:
            for f in rng.sample(["ab.json", "ab.jsonl", "x.json", "x.jsonl", "given.json", "given.jsonl", TODAY + ".jsonl",
                                 "né.json", "né.jsonl", "unrelated.dat", "né.out"], rng.randint(1, 4)):
                pre.append([f, _h(rng.choice(["", "[\n", '{"a": 1}\n', '{"a": 1}', "\n", "x\n\n", '[\n{"k": [1, 2]},\n{"k": 3}\n]']))])
        out.append({"writer": writer, "filename": fn, "pre": pre, "calls": calls})
    return out


# ------------------------------------------------------------------------------ implementation

def impl(case):
    import datetime as _dt

    import bluesky.callbacks.json_writer as jwmod
    tmp = tempfile.mkdtemp(prefix="verif_c34_", dir="/tmp")
    real = jwmod.datetime

    class _FixedDate:
        @staticmethod
        def today():
            return _dt.datetime(2026, 9, 21, 12, 0, 0)
    try:
        for fn, hx in case["pre"]:
            with open(os.path.join(tmp, fn), "wb") as fh:
                fh.write(bytes.fromhex(hx))
        jwmod.datetime = _FixedDate
        cls = jwmod.JSONWriter if case["writer"] == "json" else jwmod.JSONLinesWriter
        w = cls(tmp, case["filename"])
        outcomes, encs, mutated = [], [], False
        for name, spec in case["calls"]:
            doc = build(spec)
            before = canon(doc)
            encs.append(json.dumps({"name": name, "doc": build(spec)}).encode("utf-8").hex())
            try:
                r = w(name, doc)
                outcomes.append("ok" if r is None else "returned")
            except Exception as e:
                outcomes.append(type(e).__name__)
            mutated = mutated or canon(doc) != before
        files = []
        for fn in sorted(os.listdir(tmp)):
            p = os.path.join(tmp, fn)
            if os.path.isfile(p):
                files.append([fn, open(p, "rb").read().hex()])
            else:
                files.append([fn, None])
        return {"outcomes": outcomes, "files": files, "filename": w.filename, "encs": encs, "mutated": mutated}
    finally:
        jwmod.datetime = real
        shutil.rmtree(tmp, ignore_errors=True)


# ------------------------------------------------------------------------------ Coq side

ERRS = {"TypeError": "ETypeError", "KeyError": "EKeyError", "IsADirectoryError": "EIsADirectory"}


def _s(text):
    return coq_bytes(text.encode("utf-8"))


def _os(x):
    return "None" if x is None else "(Some %s)" % _s(x)


def _kind(name):
    return {"start": "KStart", "stop": "KStop"}.get(name, "KOther")


def _pieces(content, recs, pres):
    """content as a list of pieces (literal bytes / record i / pre-existing content i) that
    concatenates to it exactly (asserted here; the Coq side flattens the pieces again)"""
    cands = sorted([(r, "PRec %d%%nat" % i) for i, r in enumerate(recs) if len(r) > 3] +
                   [(c, "PPre %d%%nat" % i) for i, c in enumerate(pres) if len(c) > 3], key=lambda t: -len(t[0]))
    out, lit, pos, check = [], bytearray(), 0, bytearray()
    while pos < len(content):
        for b, ref in cands:
            if content.startswith(b, pos):
                if lit:
                    out.append("PLit %s" % coq_bytes(lit))
                    lit = bytearray()
                out.append(ref)
                check += b
                pos += len(b)
                break
        else:
            lit.append(content[pos])
            check.append(content[pos])
            pos += 1
    if lit:
        out.append("PLit %s" % coq_bytes(lit))
    assert bytes(check) == content
    return coq_list(out)


def coq_term(case, obs):
    es = []
    for o in obs["outcomes"]:
        if o == "ok":
            es.append("None")
        elif o in ERRS:
            es.append("(Some %s)" % ERRS[o])
        else:
            return "false"
    if any(c is None for _, c in obs["files"]):
        return "false"
    calls = []
    for (name, spec), e in zip(case["calls"], obs["encs"]):
        uid = spec.get("uid") if isinstance(spec, dict) else None
        calls.append("(mk_call %s %s %s)" % (_kind(name), _os(uid if isinstance(uid, str) else None), coq_bytes(bytes.fromhex(e))))
    pre = coq_list(case["pre"], lambda p: "(%s, %s)" % (_s(p[0]), coq_bytes(bytes.fromhex(p[1]))))
    recs = [bytes.fromhex(e) for e in obs["encs"]]
    pres = [bytes.fromhex(p[1]) for p in case["pre"]]
    files = coq_list(obs["files"], lambda p: "(%s, %s)" % (_s(p[0]), _pieces(bytes.fromhex(p[1]), recs, pres)))
    args = "%s %s %s %s %s %s" % (_os(case["filename"]), pre, coq_list(calls), _os(obs["filename"]), files, coq_list(es))
    if case["writer"] == "json":
        return "(jw_obs_beq %s)%%N" % args
    return "(jl_obs_beq %s %s)%%N" % (_s(TODAY), args)


# ------------------------------------------------------------------------------ oracle

def _records(case):
    return [{"name": n, "doc": build(s)} for n, s in case["calls"]]


def _eq(a, b):
    return canon(a) == canon(b)


def oracle(case, obs):
    if obs["mutated"]:
        return "the writer mutated a document it was given"
    pre = {fn: bytes.fromhex(hx) for fn, hx in case["pre"]}
    files = {fn: (None if hx is None else bytes.fromhex(hx)) for fn, hx in obs["files"]}
    recs = _records(case)
    calls = case["calls"]
    touched = set()
    if case["writer"] == "json":
        # follow the documented behaviour: a start document opens the run's file; the file of a
        # completed run (start, docs, stop, nothing after) must be the JSON array of its records
        cur, runs = case["filename"] or None, {}
        for i, (name, spec) in enumerate(calls):
            if name == "start":
                if not cur:
                    uid = spec.get("uid")
                    if not isinstance(uid, str):
                        if obs["outcomes"][i] == "ok":
                            return "start document without uid accepted without a file name"
                        continue
                    cur = uid.split("-")[0] + ".json"
                runs[cur] = {"recs": [recs[i]], "closed": False, "broken": False}
            elif cur and cur in runs:
                if runs[cur]["closed"]:
                    runs[cur]["broken"] = True        # documents after the stop: outside the property
                runs[cur]["recs"].append(recs[i])
                if name == "stop":
                    runs[cur]["closed"] = True
            elif cur:
                touched.add(cur)                      # appended to a file no run of this writer opened
            if cur and obs["outcomes"][i] != "ok":
                return "call %d (%s) raised %s inside a run" % (i, name, obs["outcomes"][i])
        for fn, r in runs.items():
            touched.add(fn)
            if r["broken"] or not r["closed"]:
                continue
            if files.get(fn) is None:
                return "run file %r missing" % fn
            try:
                got = json.loads(files[fn].decode("utf-8"))
            except Exception as e:
                return "run file %r does not parse as JSON: %s" % (fn, e)
            if not (isinstance(got, list) and _eq(got, r["recs"])):
                return "run file %r parses to %d records, the run had %d (or they differ)" % (
                    fn, len(got) if isinstance(got, list) else -1, len(r["recs"]))
    else:
        cur = case["filename"] or None
        written = []
        for i, (name, spec) in enumerate(calls):
            if not cur:
                if name == "start":
                    uid = spec.get("uid")
                    if not isinstance(uid, str):
                        if obs["outcomes"][i] == "ok":
                            return "first start document without uid accepted"
                        continue
                    cur = uid.split("-")[0] + ".jsonl"
                else:
                    cur = TODAY + ".jsonl"
            if obs["outcomes"][i] != "ok":
                return "call %d (%s) raised %s" % (i, name, obs["outcomes"][i])
            written.append(recs[i])
        if cur and written:
            touched.add(cur)
            old = pre.get(cur, b"")
            if files.get(cur) is None:
                return "lines file %r missing" % cur
            new = files[cur]
            if not new.startswith(old):
                return "earlier content of %r was lost" % cur
            tail = new[len(old):].decode("utf-8")
            parts = tail.split("\n")
            if parts[-1] != "" or len(parts) - 1 != len(written):
                return "%d documents appended, %d newline-terminated lines found" % (len(written), len(parts) - 1)
            if old == b"" or old.endswith(b"\n"):
                for ln, r in zip(parts[:-1], written):
                    try:
                        if not _eq(json.loads(ln), r):
                            return "a line does not parse back to its document"
                    except Exception as e:
                        return "a line is not independently parseable: %s" % e
    for fn, c in pre.items():
        if fn not in touched and files.get(fn) != c:
            return "unrelated pre-existing file %r changed" % fn
    for fn in files:
        if fn not in pre and fn not in touched:
            return "unexpected file %r created" % fn
    return None


def finding(case, obs):
    return None


def nontrivial(case, obs):
    return sum(1 for o in obs["outcomes"] if o == "ok") >= 3 and bool(case["pre"])


def describe(case):
    return "%s calls=%d fn=%s pre=%d" % (case["writer"], len(case["calls"]),
                                         "none" if case["filename"] is None else ("empty" if case["filename"] == "" else "given"),
                                         len(case["pre"]))
