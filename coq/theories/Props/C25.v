(* C25 - step scans visit exactly the documented trajectory.
   Models: Pure/Linspace.v (numpy.linspace as implemented), Pure/Patterns.v (plan_patterns),
   Gen/Scan.v (scan_nd + one_nd_step/move_per_step with the skip-if-unchanged cache, trigger_and_read,
   stage/run wrappers, the eight plans and their open_run metadata), instantiated with exact rationals Q.
   Vocabulary (Proofs/Scan.v, Gen/Scan.v):
     Qvisits ms traj      for every initial position map, the effective position vector (fold of the `set`
                          messages) at each `save` of ms agrees (==) with the corresponding point of traj,
                          and there are exactly |traj| saves;
     scan_shaped ms md n  ms = stage* ; open_run md ; g_1 ... g_n ; close_run ; unstage*  where every g_i is
                          checkpoint, set*(one group), wait(that group), [trigger+, wait], create, read*, save;
     lin_spec a b n i     a + i*(b-a)/(n-1)   (a when n = 1);
     idx lens flags k t   the snaked row-major label of axis k at point t (Pure/Snake.v, property C26).
   The binary64 instance of the same model text is what the correspondence compares bit-exactly with /repo;
   rounding/absorption/overflow/signed zeros are outside these theorems (DESIGN section 6). *)
From Coq Require Import QArith Qminmax.
From BV Require Import Base.Prelude Base.OrdFieldS Pure.Snake Pure.Linspace Pure.Patterns Gen.Scan.
From BV Require Import Proofs.Linspace Proofs.Scan.
Local Open Scope nat_scope.

(* numpy's linspace algorithm computes the documented arithmetic progression *)
Theorem C25_linspace : forall (a b : Q) (n : nat),
  length (linspace QOps a b n) = n /\
  (forall i, i < n -> (nth i (linspace QOps a b n) 0 == lin_spec a b n i)%Q) /\
  (forall i, i < n -> (Qmin a b <= lin_spec a b n i <= Qmax a b)%Q) /\
  (1 <= n -> (nth 0 (linspace QOps a b n) 0 == a)%Q) /\
  (2 <= n -> nth (n - 1) (linspace QOps a b n) 0%Q = b).
Proof.
  intros a b n. split; [apply linspace_length|]. split; [intros i Hi; apply linspace_nth; exact Hi|].
  split; [intros i Hi; apply lin_spec_bounds; exact Hi|].
  split; [apply linspace_first|apply linspace_last].
Qed.
Print Assumptions C25_linspace.

(* scan_nd visits the points of the cycler it is given, in order, one checkpointed reading per point *)
Theorem C25_scan_nd : forall dets motors (cy : @cyc Q),
  (forall p, In p cy -> NoDup (map fst p)) ->
  exists ms md, scan_nd QOps dets motors cy = Done ms /\
    Qvisits ms cy /\ scan_shaped ms md (length cy) /\
    md_num_points md = length cy /\ md_num_intervals md = (Z.of_nat (length cy) - 1)%Z /\
    md_plan_name md = PNscan_nd /\ md_detectors md = map det_id dets.
Proof. exact scan_nd_thm. Qed.
Print Assumptions C25_scan_nd.

(* scan: every motor k is at start_k + t*(stop_k-start_k)/(num-1) at point t *)
Theorem C25_scan : forall dets (axes : list (nat * Q * Q)) num,
  axes <> [] -> NoDup (map (fun a => fst (fst a)) axes) -> 1 <= num ->
  exists ms md,
    scan QOps dets (args3 axes) (Some num) = Done ms /\
    scan QOps dets (args3 axes ++ [ANum num]) None = Done ms /\
    Qvisits ms (lin_traj axes num) /\ scan_shaped ms md num /\
    md_num_points md = num /\ md_num_intervals md = (Z.of_nat num - 1)%Z /\
    md_motors md = map (fun a => fst (fst a)) axes /\ md_plan_name md = PNscan.
Proof. exact scan_thm. Qed.
Print Assumptions C25_scan.

Theorem C25_inner_product_scan : forall dets (axes : list (nat * Q * Q)) num,
  axes <> [] -> NoDup (map (fun a => fst (fst a)) axes) -> 1 <= num ->
  exists ms md,
    inner_product_scan QOps dets num (args3 axes) = Done ms /\
    Qvisits ms (lin_traj axes num) /\ scan_shaped ms md num /\
    md_num_points md = num /\ md_num_intervals md = (Z.of_nat num - 1)%Z /\
    md_motors md = map (fun a => fst (fst a)) axes /\ md_plan_name md = PNinner_product_scan.
Proof. exact inner_product_scan_thm. Qed.
Print Assumptions C25_inner_product_scan.

(* list_scan: the given lists, point by point *)
Theorem C25_list_scan : forall dets (axes : list (nat * list Q)) n,
  axes <> [] -> NoDup (map fst axes) -> 1 <= n -> (forall a, In a axes -> length (snd a) = n) ->
  exists ms md,
    list_scan QOps dets (args_lists axes) = Done ms /\
    Qvisits ms (list_traj axes n) /\ scan_shaped ms md n /\
    md_num_points md = n /\ md_num_intervals md = (Z.of_nat n - 1)%Z /\
    md_motors md = map fst axes /\ md_plan_name md = PNlist_scan.
Proof. exact list_scan_thm. Qed.
Print Assumptions C25_list_scan.

(* grid_scan (documented argument pattern + snake_axes): row-major outer product of the per-axis
   linspaces with the requested snaking; shape/extents/snaking/num_points say what was done *)
Theorem C25_grid_scan : forall dets (axes : list (@axis Q)) sa,
  axes <> [] -> NoDup (map (@ax_motor Q) axes) -> (forall a, In a axes -> 1 <= ax_num a) ->
  sa_valid sa (map (@ax_motor Q) axes) ->
  let flags := grid_flags sa (map (@ax_motor Q) axes) in
  let lens := map (@ax_num Q) axes in
  exists ms md, grid_scan QOps dets (args_grid1 axes) sa = Done ms /\
    Qvisits ms (grid_lin_traj axes flags) /\ scan_shaped ms md (prodl lens) /\
    md_plan_name md = PNgrid_scan /\ md_motors md = map (@ax_motor Q) axes /\
    md_num_points md = prodl lens /\ md_num_intervals md = (Z.of_nat (prodl lens) - 1)%Z /\
    md_shape md = Some lens /\
    md_extents md = Some (map (fun a => (ax_start a, ax_stop a)) axes) /\
    md_snaking md = Some flags /\
    length flags = length lens /\ valid_lens lens.
Proof. exact grid_scan_thm. Qed.
Print Assumptions C25_grid_scan.

(* grid_scan, deprecated argument pattern (snake booleans in the argument list) *)
Theorem C25_grid_scan_old_pattern : forall dets (a0 a1 : @axis Q) (r : list (@axis Q)),
  let axes := set_snake a0 false :: a1 :: r in
  NoDup (map (@ax_motor Q) axes) -> (forall a, In a axes -> 1 <= ax_num a) ->
  let flags := map (@ax_snake Q) axes in
  let lens := map (@ax_num Q) axes in
  exists ms md, grid_scan QOps dets (args_modified (a0 :: a1 :: r)) SANone = Done ms /\
    Qvisits ms (grid_lin_traj axes flags) /\ scan_shaped ms md (prodl lens) /\
    md_plan_name md = PNgrid_scan /\ md_motors md = map (@ax_motor Q) axes /\
    md_num_points md = prodl lens /\ md_num_intervals md = (Z.of_nat (prodl lens) - 1)%Z /\
    md_shape md = Some lens /\
    md_extents md = Some (map (fun a => (ax_start a, ax_stop a)) axes) /\
    md_snaking md = Some flags.
Proof. exact grid_scan_old_thm. Qed.
Print Assumptions C25_grid_scan_old_pattern.

(* list_grid_scan: outer product of the given lists; extents are the true min/max of each list *)
Theorem C25_list_grid_scan : forall dets (axes : list (nat * list Q)) sa,
  axes <> [] -> NoDup (map fst axes) -> (forall a, In a axes -> 1 <= length (snd a)) ->
  let flags := list_flags sa (map fst axes) in
  let lens := map (fun a => length (snd a)) axes in
  exists ms md ext, list_grid_scan QOps dets (args_lists axes) sa = Done ms /\
    Qvisits ms (list_grid_traj axes flags) /\ scan_shaped ms md (prodl lens) /\
    md_plan_name md = PNlist_grid_scan /\ md_motors md = map fst axes /\
    md_num_points md = prodl lens /\ md_num_intervals md = (Z.of_nat (prodl lens) - 1)%Z /\
    md_shape md = Some lens /\ md_extents md = Some ext /\
    Forall2 (fun a e => extent_ok (snd a) e) axes ext /\
    length flags = length lens /\ valid_lens lens.
Proof. exact list_grid_scan_thm. Qed.
Print Assumptions C25_list_grid_scan.

(* x2x_scan: relative to the initial positions, second motor over half the range, positions restored *)
Theorem C25_x2x_scan : forall dets m1 m2 (start stop : Q) num (init : nat -> Q),
  m1 <> m2 -> 1 <= num ->
  exists ms md pre groups post,
    x2x_scan QOps dets m1 m2 start stop num init = Done ms /\
    Qvisits ms (x2x_traj m1 m2 start stop num init) /\
    (forall pm0, final_pos ms pm0 m1 = Some (init m1) /\ final_pos ms pm0 m2 = Some (init m2)) /\
    ms = pre ++ [MOpenRun md] ++ concat groups ++ [MCloseRun] ++ post /\
    forallb is_stage pre = true /\ forallb after_run post = true /\
    length groups = num /\ Forall point_group groups /\
    md_num_points md = num /\ md_num_intervals md = (Z.of_nat num - 1)%Z /\
    md_plan_name md = PNx2x_scan /\ md_motors md = [m1; m2].
Proof. exact x2x_scan_thm. Qed.
Print Assumptions C25_x2x_scan.

(* log_scan: visits exactly the sequence it is given (np.logspace is an oracle), setting the motor at every point *)
Theorem C25_log_scan : forall dets motor (steps : list Q),
  exists ms md groups pre post, log_scan dets motor steps = Done ms /\
    (forall pm0, Forall2 (fun s v => s motor = Some v) (snapshots ms pm0) steps) /\
    ms = pre ++ [MOpenRun md] ++ concat groups ++ [MCloseRun] ++ post /\
    forallb is_stage pre = true /\ forallb is_unstage post = true /\
    Forall2 (log_group motor) groups steps /\
    md_num_points md = length steps /\ md_num_intervals md = (Z.of_nat (length steps) - 1)%Z /\
    md_plan_name md = PNlog_scan /\ md_motors md = [motor].
Proof. exact (@log_scan_thm Q). Qed.
Print Assumptions C25_log_scan.

(* ---- non-vacuity: concrete inputs meeting the hypotheses, run through the model *)
Definition ex_axes : list (@axis Q) := [mkAxis 0 0%Q 1%Q 2 false; mkAxis 1 (1#2)%Q (-1)%Q 3 false].

Example C25_grid_nonvacuous :
  ex_axes <> [] /\ NoDup (map (@ax_motor Q) ex_axes) /\ (forall a, In a ex_axes -> 1 <= ax_num a) /\
  sa_valid (SAList [1]) (map (@ax_motor Q) ex_axes) /\
  grid_flags (SAList [1]) (map (@ax_motor Q) ex_axes) = [false; true] /\
  (exists ms, grid_scan QOps [mkDet 0 true] (args_grid1 ex_axes) (SAList [1]) = Done ms /\
              length (snapshots ms (fun _ => None)) = 6 /\
              map (fun s => (option_map Qred (s 0), option_map Qred (s 1))) (snapshots ms (fun _ => None)) =
                [(Some 0%Q, Some (1#2)%Q); (Some 0%Q, Some (-1#4)%Q); (Some 0%Q, Some (-1)%Q);
                 (Some 1%Q, Some (-1)%Q); (Some 1%Q, Some (-1#4)%Q); (Some 1%Q, Some (1#2)%Q)]).
Proof.
  split; [discriminate|]. split; [repeat constructor; cbn; intuition congruence|].
  split; [intros a [<-|[<-|[]]]; cbn; lia|].
  split; [cbn; repeat split; [repeat constructor; intros []| intros m [<-|[]]; right; left; reflexivity | intros [E|[]]; discriminate]|].
  split; [reflexivity|].
  eexists. split; [vm_compute; reflexivity|]. split; vm_compute; reflexivity.
Qed.

Example C25_scan_nonvacuous :
  exists ms, scan QOps [mkDet 0 true] (args3 [(0, 0%Q, 1%Q); (1, 5%Q, 5%Q)]) (Some 3) = Done ms /\
    (* the second motor does not move after the first point: it is set once, the first three times *)
    length (filter (fun m => match m with MSet 1 _ _ => true | _ => false end) ms) = 1 /\
    length (filter (fun m => match m with MSet 0 _ _ => true | _ => false end) ms) = 3 /\
    length (snapshots ms (fun _ => None)) = 3.
Proof. eexists. split; [vm_compute; reflexivity|]. repeat split; vm_compute; reflexivity. Qed.

Example C25_x2x_nonvacuous :
  exists ms, x2x_scan QOps [] 0 1 (-1)%Q 1%Q 3 (fun k => if k =? 0 then 10%Q else 20%Q) = Done ms /\
    length (snapshots ms (fun _ => None)) = 3.
Proof. eexists. split; [vm_compute; reflexivity|]. vm_compute. reflexivity. Qed.
