(* Shapes of the observation lists produced by the helper functions of Engine/RE.v (which constructors can occur
   in what a device loop, a command, a frame resumption, the finally block emit), and frame facts for two fields the
   `_run` task never writes (the suspension futures and the main thread's error slot).
   Shared by Proofs/RE_C10.v and Proofs/RE_C11.v.  All plans, devices, states. *)
From Coq Require Import List String ZArith Bool Arith Lia.
From BV Require Import Engine.RE Proofs.RE_Small Proofs.RE_Inv.
Import ListNotations.
(* file-local implicit arguments for the model's functions (the model file itself is untouched) *)
Local Arguments upd {P D}.
Local Arguments set_state_raw {P D}.
Local Arguments set_pc {P D}.
Local Arguments set_must_cancel {P D}.
Local Arguments set_permit {P D}.
Local Arguments set_blocking {P D}.
Local Arguments set_plans {P D}.
Local Arguments set_resps {P D}.
Local Arguments set_cache {P D}.
Local Arguments set_rewindable {P D}.
Local Arguments set_exc_slot {P D}.
Local Arguments set_stashed {P D}.
Local Arguments set_interrupted {P D}.
Local Arguments set_deferred {P D}.
Local Arguments set_exit {P D}.
Local Arguments upd2 {P D}.
Local Arguments set_bundlers {P D}.
Local Arguments set_staged {P D}.
Local Arguments set_moved {P D}.
Local Arguments set_seen {P D}.
Local Arguments set_groups {P D}.
Local Arguments set_statuses {P D}.
Local Arguments set_futs {P D}.
Local Arguments set_uids {P D}.
Local Arguments set_pardon {P D}.
Local Arguments set_dst {P D}.
Local Arguments set_task_set {P D}.
Local Arguments set_ghost {P D}.
Local Arguments interrupt {P D}.
Local Arguments resumable {P D}.
Local Arguments set_state {P D}.
Local Arguments cancel_task {P D}.
Local Arguments map_bundlers {P D}.
Local Arguments record_interruptions {P D}.
Local Arguments reset_checkpoint {P D}.
Local Arguments rewind {P D}.
Local Arguments dcall {P D}.
Local Arguments stop_movables {P D}.
Local Arguments call_pausables {P D}.
Local Arguments get_bundler {P D}.
Local Arguments put_bundler {P D}.
Local Arguments any_bundling {P D}.
Local Arguments add_status {P D}.
Local Arguments request_pause {P D}.
Local Arguments request_pause_in_task {P D}.
Local Arguments finish_read {P D}.
Local Arguments mark_cached {P D}.
Local Arguments exec_cmd {P D}.
Local Arguments set_main {P D}.
Local Arguments set_mreq {P D}.
Local Arguments set_ers {P D}.
Local Arguments push_frame {P D}.
Local Arguments pop_plan {P D}.
Local Arguments replace_top {P D}.
Local Arguments all_resolved {P D}.
Local Arguments all_released {P D}.
Local Arguments close_runs {P D}.
Local Arguments FUEL {P D}.
Local Arguments req_result {P D}.
Local Arguments clear_call {P D}.
Local Arguments state {P D}.
Local Arguments pc {P D}.
Local Arguments must_cancel {P D}.
Local Arguments permit {P D}.
Local Arguments blocking {P D}.
Local Arguments task_set {P D}.
Local Arguments plans {P D}.
Local Arguments resps {P D}.
Local Arguments cache {P D}.
Local Arguments rewindable {P D}.
Local Arguments exc_slot {P D}.
Local Arguments stashed {P D}.
Local Arguments interrupted {P D}.
Local Arguments deferred {P D}.
Local Arguments exit_status {P D}.
Local Arguments reason {P D}.
Local Arguments bundlers {P D}.
Local Arguments staged {P D}.
Local Arguments moved {P D}.
Local Arguments pausables {P D}.
Local Arguments stageables {P D}.
Local Arguments seen {P D}.
Local Arguments groups {P D}.
Local Arguments statuses {P D}.
Local Arguments failed_seen {P D}.
Local Arguments futs {P D}.
Local Arguments uid_supply {P D}.
Local Arguments run_uids {P D}.
Local Arguments record_intr {P D}.
Local Arguments pardon {P D}.
Local Arguments mreq {P D}.
Local Arguments was_paused {P D}.
Local Arguments main_err {P D}.
Local Arguments exit_reason_set {P D}.
Local Arguments icause {P D}.
Local Arguments late_pause {P D}.
Local Arguments intr_err {P D}.
Local Arguments dst {P D}.
Local Arguments start_sub {P}.
Local Arguments helper_after_pre {P}.
Local Arguments helper_after_post {P}.
Local Arguments helper_set {P}.
Local Arguments helper_rewind_next {P}.
Local Arguments helper_resume {P}.
Local Arguments frame_resume {P}.
Local Arguments exec_start_suspender {P} plan_of {D} dev.
Local Arguments close_frames {P} presume {D}.
Local Arguments finalize {P} presume {D} dev.
Local Arguments drive {P} presume plan_of {D} dev.
Local Arguments task_step {P} presume plan_of {D} dev.
Local Arguments step {P} presume plan_of {D} dev.
Local Arguments run {P} presume plan_of {D} dev.

Ltac bmh H := match type of H with context [match ?x with _ => _ end] => destruct x eqn:? end.
Ltac bmg := match goal with |- context [match ?x with _ => _ end] => destruct x eqn:? end.
Ltac invc H := inversion H; subst; clear H.
Ltac fa :=
  repeat match goal with
         | |- Forall _ (_ :: _) => apply Forall_cons
         | |- Forall _ (_ ++ _) => apply Forall_app; split
         | |- Forall _ [] => apply Forall_nil
         end.

(* device calls and documents *)
Definition dq (x : obs) : Prop := match x with ODoc _ | ODev _ _ => True | _ => False end.
(* ... and the lifecycle change of an accepted pause (OBad 90: [exec_cmd] applied to `_start_suspender`, which
   [drive] never does) *)
Definition rpq (x : obs) : Prop := match x with ODoc _ | ODev _ _ | OState _ Pausing | OBad _ => True | _ => False end.
(* close() of a plan *)
Definition clq (x : obs) : Prop := match x with OPlanIn _ Close => True | _ => False end.
(* what the finally block of `_run` emits *)
Definition finq (x : obs) : Prop :=
  match x with
  | ODoc _ | ODev _ _ | OPlanIn _ Close | OState _ Idle | OTask WReturn | OTask (WRaise _) => True
  | _ => False
  end.

Lemma dq_rpq x : dq x -> rpq x. Proof. destruct x; cbn; tauto. Qed.
Lemma dq_finq x : dq x -> finq x. Proof. destruct x; cbn; tauto. Qed.
Lemma clq_finq x : clq x -> finq x. Proof. destruct x; cbn; try tauto. Qed.
Lemma Forall_imp' {A} (Pa Qa : A -> Prop) l : (forall x, Pa x -> Qa x) -> Forall Pa l -> Forall Qa l.
Proof. intros H F. eapply Forall_impl; [exact H | exact F]. Qed.

(* what a frame is handed when the engine resumes it with [i] *)
Definition inp_rel (i i' : input) : Prop :=
  match i with
  | Send _ => match i' with Send _ => True | _ => False end
  | Throw e => i' = Throw e \/ i' = Close
  | Close => i' = Close
  end.

Section Shape.
Variable P : Type.
Variable presume : P -> input -> outcome P.
Variable plan_of : nat -> P.
Variable D : Type.
Variable dev : D -> nat -> devmeth -> D * devres.
Notation st := (st P D).
Local Notation dstep := (RE_Small.dstep P presume plan_of D dev).

(* ------------------------------------------------------------------ observation shapes *)
Lemma dcall_dq (s : st) d m s' r o : dcall dev s d m = (s', r, o) -> Forall dq o.
Proof. unfold dcall. destruct (dev _ _ _). intros H; invc H. repeat constructor. Qed.

Lemma dloop_dq mth l : forall (s0 : st) o0 s1 o1, Forall dq o0 ->
  fold_left (fun acc d => let '(s0, os) := acc in
                          let '(s1, _, o) := dcall dev s0 d mth in (s1, os ++ o)) l (s0, o0) = (s1, o1) -> Forall dq o1.
Proof.
  induction l as [|d l IH]; intros s0 o0 s1 o1 H0 H; cbn in H.
  - invc H; assumption.
  - destruct (dcall dev s0 d mth) as [[sa ra] oa] eqn:E. apply IH in H; [assumption|].
    apply Forall_app; split; [assumption | eapply dcall_dq; eassumption].
Qed.

Lemma stop_movables_dq (s : st) s' o : stop_movables dev s = (s', o) -> Forall dq o.
Proof. unfold stop_movables. intros H. eapply dloop_dq; [|exact H]. constructor. Qed.

Lemma call_pausables_dq (s : st) m s' e o : call_pausables dev s m = (s', e, o) -> Forall dq o.
Proof.
  unfold call_pausables.
  assert (G : forall l (s0 : st) e0 o0 s1 e1 o1, Forall dq o0 ->
             fold_left (fun acc d =>
               let '(s0, e, os) := acc in
               match e with
               | Some _ => acc
               | None => if mem_nat d (seen s0)
                         then let '(s1, r, o) := dcall dev s0 d m in
                              (s1, match r with DRaise x => Some x | _ => None end, os ++ o)
                         else acc
               end) l (s0, e0, o0) = (s1, e1, o1) -> Forall dq o1).
  { induction l as [|d l IH]; intros s0 e0 o0 s1 e1 o1 H0 H; cbn in H.
    - invc H; assumption.
    - destruct e0; [eapply IH; eassumption|].
      destruct (mem_nat d (seen s0)); [|eapply IH; eassumption].
      destruct (dcall dev s0 d m) as [[sa ra] oa] eqn:E.
      eapply IH; [|exact H]. apply Forall_app; split; [assumption | eapply dcall_dq; eassumption]. }
  intros H. eapply G; [|exact H]. constructor.
Qed.

Lemma record_intr_list_dq l r o ok : record_intr_list l = (r, o, ok) -> Forall dq o.
Proof.
  revert r o ok; induction l as [|[k b] l IH]; intros r o ok H; cbn in H.
  - invc H; constructor.
  - destruct (b_record_intr b) as [[b' o']|] eqn:E.
    + destruct (record_intr_list l) as [[r0 os] ok0] eqn:E2. invc H.
      apply Forall_app; split; [|eapply IH; reflexivity].
      unfold b_record_intr in E. destruct (bintr b); [destruct (alookup INTR (bseq b))|]; invc E; repeat constructor.
    + invc H; constructor.
Qed.

Lemma record_interruptions_dq (s : st) s' o ok : record_interruptions s = (s', o, ok) -> Forall dq o.
Proof.
  unfold record_interruptions. destruct (record_intr_list (bundlers s)) as [[bs os] ok0] eqn:E.
  intros H; invc H. eapply record_intr_list_dq; eassumption.
Qed.

Lemma request_pause_rpq (s : st) d s' e o : request_pause s d = (s', e, o) -> Forall rpq o.
Proof.
  unfold request_pause. cbv zeta. destruct (negb (allowed (state s) Pausing)); [intros H; invc H; constructor|].
  destruct d; [intros H; invc H; constructor|].
  match goal with |- context [set_state ?sx Pausing] => generalize sx; intros s1 end.
  unfold set_state. destruct (allowed (state s1) Pausing); [|intros H; invc H; constructor].
  destruct (record_interruptions (set_state_raw s1 Pausing)) as [[s3 o2] ok] eqn:E. apply record_interruptions_dq in E.
  destruct ok; intros H; invc H; fa; try exact I; (eapply Forall_imp'; [exact dq_rpq | exact E]).
Qed.

Lemma request_pause_in_task_rpq (s : st) d s' e o : request_pause_in_task s d = (s', e, o) -> Forall rpq o.
Proof.
  unfold request_pause_in_task. destruct (request_pause s d) as [[s1 e1] o1] eqn:E.
  intros H; invc H. eapply request_pause_rpq; exact E.
Qed.

Lemma finish_read_obs (s : st) run d z o0 s' c o : finish_read s run d z o0 = (s', c, o) -> o = o0.
Proof. unfold finish_read. repeat bmg; intros H; invc H; reflexivity. Qed.

Lemma helper_resume_po h i o po :
  helper_resume presume h i = (o, po) -> po = [] \/ exists pid i', po = [OPlanIn pid i'] /\ inp_rel i i'.
Proof.
  unfold helper_resume. repeat bmg; intros H; invc H; auto; right; eexists _, _; (split; [reflexivity|]); cbn; auto.
Qed.

Lemma frame_resume_po f i o po :
  frame_resume presume f i = (o, po) -> po = [] \/ exists pid i', po = [OPlanIn pid i'] /\ inp_rel i i'.
Proof.
  unfold frame_resume. destruct f.
  - repeat bmg; intros H; invc H; auto; right; eexists _, _; (split; [reflexivity|]); cbn; auto.
  - repeat bmg; intros H; invc H; auto.
  - repeat bmg; intros H; invc H; auto.
  - destruct (helper_resume presume h i) as [o0 os0] eqn:E. intros H; invc H. eapply helper_resume_po; eassumption.
Qed.

(* an exception thrown into a frame: either the frame is not a running generator (engine-made, or never started) and
   the exception comes straight back, or the plan (the user's, or the pre/post plan a helper delegates to) is handed
   the exception -- a GeneratorExit-like one closes the delegate and is re-raised *)
Lemma helper_resume_throw h e o po :
  helper_resume presume h (Throw e) = (o, po) ->
  (po = [] /\ o = Raised e) \/ (exists pid, po = [OPlanIn pid (Throw e)]) \/
  (exists pid, po = [OPlanIn pid Close] /\ o = Raised e /\ is_Exception e = false).
Proof.
  unfold helper_resume. repeat bmg; intros H; invc H; auto.
  all: try (right; left; eexists; reflexivity).
  all: right; right; eexists; repeat split.
Qed.

Lemma frame_resume_throw f e o po :
  frame_resume presume f (Throw e) = (o, po) ->
  (po = [] /\ o = Raised e) \/ (exists pid, po = [OPlanIn pid (Throw e)]) \/
  (exists pid, po = [OPlanIn pid Close] /\ o = Raised e /\ is_Exception e = false).
Proof.
  unfold frame_resume. destruct f.
  - repeat bmg; intros H; invc H; auto; right; left; eexists; reflexivity.
  - intros H; invc H; auto.
  - intros H; invc H; auto.
  - destruct (helper_resume presume h (Throw e)) as [o0 os0] eqn:E. intros H; invc H.
    destruct (helper_resume_throw _ _ _ _ E) as [[-> ->]|[[pid ->]|(pid & -> & -> & Hx)]]; auto.
    + right; left; eexists; reflexivity.
    + right; right; eexists; repeat split; assumption.
Qed.

Lemma exec_cmd_rpq (s : st) m s' c o : exec_cmd dev s m = (s', c, o) -> Forall rpq o.
Proof.
  unfold exec_cmd. destruct (mcmd m);
    repeat bmg; intros H; invc H;
    repeat match goal with
           | Hx : dcall _ _ _ _ = _ |- _ => apply dcall_dq in Hx
           | Hx : call_pausables _ _ _ = _ |- _ => apply call_pausables_dq in Hx
           | Hx : request_pause _ _ = _ |- _ => apply request_pause_rpq in Hx
           | Hx : request_pause_in_task _ _ = _ |- _ => apply request_pause_in_task_rpq in Hx
           | Hx : finish_read _ _ _ _ _ = _ |- _ => apply finish_read_obs in Hx; subst
           end;
    try assumption; try (eapply Forall_imp'; [exact dq_rpq | eassumption]); try (repeat constructor; fail).
  all: repeat match goal with
              | Hx : (if ?c then _ else _) = _ |- _ => destruct c; invc Hx
              end; repeat constructor.
Qed.

Lemma exec_start_suspender_dq (s : st) sid pre post s' c o :
  exec_start_suspender plan_of dev s sid pre post = (s', c, o) -> Forall dq o.
Proof.
  unfold exec_start_suspender. repeat bmg; intros H; invc H;
    repeat match goal with
           | Hx : stop_movables _ _ = _ |- _ => apply stop_movables_dq in Hx
           | Hx : call_pausables _ _ _ = _ |- _ => apply call_pausables_dq in Hx
           | Hx : record_interruptions _ = _ |- _ => apply record_interruptions_dq in Hx
           end;
    repeat (apply Forall_app; split); assumption.
Qed.

Lemma close_runs_dq (s : st) xs rs : Forall dq (close_runs s xs rs).
Proof.
  unfold close_runs. induction (bundlers s) as [|kb l IH]; cbn; [constructor|].
  apply Forall_app; split; [|exact IH]. destruct (bopen (snd kb)); repeat constructor.
Qed.

Lemma close_frames_clq (s : st) : Forall clq (close_frames presume s).
Proof.
  unfold close_frames. induction (rev (plans s)) as [|f l IH]; cbn; [constructor|].
  apply Forall_app; split; [|exact IH]. destruct (frame_resume presume f Close) as [o po] eqn:E. cbn.
  destruct (frame_resume_po _ _ _ _ E) as [->|(pid & i' & -> & Hr)]; [constructor|]. cbn in Hr. subst. repeat constructor.
Qed.

Lemma finalize_finq (s : st) r pend s' o : finalize presume dev s r pend = (s', o) -> Forall finq o.
Proof.
  unfold finalize.
  destruct (stop_movables dev (set_pardon s true)) as [s2 o2] eqn:E2.
  match goal with |- context [fold_left ?f ?l ?a] => destruct (fold_left f l a) as [s3 o3] eqn:E3 end.
  apply stop_movables_dq in E2. apply dloop_dq in E3; [|constructor].
  unfold set_state. cbv zeta.
  match goal with |- context [allowed ?a Idle] => destruct (allowed a Idle) end; intros H; invc H; fa.
  all: try (eapply Forall_imp'; [exact dq_finq | first [eassumption | apply close_runs_dq]]).
  all: try (eapply Forall_imp'; [exact clq_finq | apply close_frames_clq]).
  all: try exact I.
  all: match goal with |- finq (OTask match ?x with _ => _ end) => destruct x; exact I end.
Qed.


(* ------------------------------------------------------------------ fields the task never writes *)
Definition aux (s : st) := (futs s, main_err s).

Lemma dcall_aux (s : st) d m s' r o : dcall dev s d m = (s', r, o) -> aux s' = aux s.
Proof. unfold dcall. destruct (dev _ _ _). intros H; invc H. reflexivity. Qed.

Lemma dloop_aux mth l : forall (s0 : st) o0 s1 o1,
  fold_left (fun acc d => let '(s0, os) := acc in
                          let '(s1, _, o) := dcall dev s0 d mth in (s1, os ++ o)) l (s0, o0) = (s1, o1) -> aux s1 = aux s0.
Proof.
  induction l as [|d l IH]; intros s0 o0 s1 o1 H; cbn in H.
  - invc H; reflexivity.
  - destruct (dcall dev s0 d mth) as [[sa ra] oa] eqn:E. apply IH in H. apply dcall_aux in E. congruence.
Qed.

Lemma stop_movables_aux (s : st) s' o : stop_movables dev s = (s', o) -> aux s' = aux s.
Proof. unfold stop_movables. apply dloop_aux. Qed.

Lemma call_pausables_aux (s : st) m s' e o : call_pausables dev s m = (s', e, o) -> aux s' = aux s.
Proof.
  unfold call_pausables.
  assert (G : forall l (s0 : st) e0 o0 s1 e1 o1,
             fold_left (fun acc d =>
               let '(s0, e, os) := acc in
               match e with
               | Some _ => acc
               | None => if mem_nat d (seen s0)
                         then let '(s1, r, o) := dcall dev s0 d m in
                              (s1, match r with DRaise x => Some x | _ => None end, os ++ o)
                         else acc
               end) l (s0, e0, o0) = (s1, e1, o1) -> aux s1 = aux s0).
  { induction l as [|d l IH]; intros s0 e0 o0 s1 e1 o1 H; cbn in H.
    - invc H; reflexivity.
    - destruct e0; [eapply IH; eassumption|].
      destruct (mem_nat d (seen s0)); [|eapply IH; eassumption].
      destruct (dcall dev s0 d m) as [[sa ra] oa] eqn:E. apply IH in H. apply dcall_aux in E. congruence. }
  intros H. eapply G; exact H.
Qed.

Lemma record_interruptions_aux (s : st) s' o ok : record_interruptions s = (s', o, ok) -> aux s' = aux s.
Proof. unfold record_interruptions. destruct (record_intr_list (bundlers s)) as [[bs os] ok0]. intros H; invc H. reflexivity. Qed.

Lemma reset_checkpoint_aux (s : st) : aux (reset_checkpoint s) = aux s.
Proof. unfold reset_checkpoint. destruct (cache s); reflexivity. Qed.

Lemma rewind_aux (s : st) s1 l : rewind s = (s1, l) -> aux s1 = aux s.
Proof. unfold rewind. destruct (cache s); intros H; invc H; [destruct (Nat.eqb (List.length l) 0)|]; reflexivity. Qed.

Lemma cancel_task_aux (s : st) : aux (cancel_task s) = aux s.
Proof. unfold cancel_task. destruct (pc s); reflexivity. Qed.

Lemma request_pause_aux (s : st) d s' e o : request_pause s d = (s', e, o) -> aux s' = aux s.
Proof.
  unfold request_pause. cbv zeta. destruct (negb (allowed (state s) Pausing)); [intros H; invc H; reflexivity|].
  destruct d; [intros H; invc H; reflexivity|].
  match goal with |- context [set_state ?sx Pausing] => set (s1 := sx) end.
  assert (B1 : aux s1 = aux s) by (unfold s1; destruct (pc (interrupt (set_deferred s false) CzPause)); reflexivity).
  unfold set_state. destruct (allowed (state s1) Pausing); [|intros H; invc H; exact B1].
  destruct (record_interruptions (set_state_raw s1 Pausing)) as [[s3 o2] ok] eqn:E. apply record_interruptions_aux in E.
  change (aux (set_state_raw s1 Pausing)) with (aux s1) in E.
  destruct ok; intros H; invc H; [rewrite cancel_task_aux|change (aux (set_ghost s3 (icause s3) (late_pause s3) true)) with (aux s3)]; congruence.
Qed.

Lemma request_pause_in_task_aux (s : st) d s' e o : request_pause_in_task s d = (s', e, o) -> aux s' = aux s.
Proof.
  unfold request_pause_in_task. destruct (request_pause s d) as [[s1 e1] o1] eqn:E.
  apply request_pause_aux in E. intros H; invc H. destruct (resumable s); exact E.
Qed.

Lemma finish_read_aux (s : st) run d z o0 s' c o : finish_read s run d z o0 = (s', c, o) -> aux s' = aux s.
Proof. unfold finish_read. repeat bmg; intros H; invc H; reflexivity. Qed.

Lemma mark_cached_aux (s : st) run d : aux (mark_cached s run d) = aux s.
Proof. unfold mark_cached. destruct (get_bundler s run); reflexivity. Qed.

Lemma exec_cmd_aux (s : st) m s' c o : exec_cmd dev s m = (s', c, o) -> aux s' = aux s.
Proof.
  unfold exec_cmd. destruct (mcmd m);
    repeat bmg; intros H; invc H;
    repeat match goal with
           | Hx : dcall _ _ _ _ = _ |- _ => apply dcall_aux in Hx
           | Hx : call_pausables _ _ _ = _ |- _ => apply call_pausables_aux in Hx
           | Hx : request_pause _ _ = _ |- _ => apply request_pause_aux in Hx
           | Hx : request_pause_in_task _ _ = _ |- _ => apply request_pause_in_task_aux in Hx
           | Hx : finish_read _ _ _ _ _ = _ |- _ => apply finish_read_aux in Hx
           end;
    rewrite ?reset_checkpoint_aux; unfold aux in *; cbn in *; rewrite ?reset_checkpoint_aux; try congruence; try reflexivity.
Qed.

Lemma exec_start_suspender_aux (s : st) sid pre post s' c o :
  exec_start_suspender plan_of dev s sid pre post = (s', c, o) -> aux s' = aux s.
Proof.
  unfold exec_start_suspender. repeat bmg; intros H; invc H;
    repeat match goal with
           | Hx : stop_movables _ _ = _ |- _ => apply stop_movables_aux in Hx
           | Hx : call_pausables _ _ _ = _ |- _ => apply call_pausables_aux in Hx
           | Hx : record_interruptions _ = _ |- _ => apply record_interruptions_aux in Hx
           | Hx : rewind _ = _ |- _ => apply rewind_aux in Hx
           end; unfold aux in *; cbn in *; congruence.
Qed.

Lemma finalize_aux (s : st) r pend s' o : finalize presume dev s r pend = (s', o) -> aux s' = aux s.
Proof.
  unfold finalize.
  destruct (stop_movables dev (set_pardon s true)) as [s2 o2] eqn:E2.
  match goal with |- context [fold_left ?f ?l ?a] => destruct (fold_left f l a) as [s3 o3] eqn:E3 end.
  apply stop_movables_aux in E2. apply dloop_aux in E3.
  unfold set_state. cbv zeta.
  match goal with |- context [allowed ?a Idle] => destruct (allowed a Idle) end; intros H; invc H;
    unfold aux in *; cbn in *; congruence.
Qed.

Lemma dstep_aux (s : st) c r :
  dstep s c = r ->
  match r with
  | inl (s', _, _) => aux s' = aux s
  | inr (s', _) => aux s' = aux s
  end.
Proof.
  intros H. destruct c; cbn [RE_Small.dstep] in H.
  - (* CTop *)
    unfold set_state in H. repeat (bmh H); subst r; try reflexivity;
      repeat match goal with
             | Hx : (if ?c then _ else _) = Some _ |- _ => destruct c; invc Hx
             | Hx : Some _ = Some _ |- _ => invc Hx
             | Hx : stop_movables _ _ = _ |- _ => apply stop_movables_aux in Hx
             | Hx : call_pausables _ _ _ = _ |- _ => apply call_pausables_aux in Hx
             end; unfold aux in *; cbn in *; congruence.
  - repeat (bmh H); subst r; reflexivity.
  - repeat (bmh H); subst r; reflexivity.
  - (* CProcess *)
    match type of H with
    | context [exec_start_suspender plan_of dev ?s2] =>
        assert (B2 : aux s2 = aux s) by (destruct (mobj m); cbn; repeat bmg; reflexivity);
        destruct (match mcmd m with
                  | CStartSuspender sid pre post => exec_start_suspender plan_of dev s2 sid pre post
                  | _ => exec_cmd dev s2 m
                  end) as [[s3 cr] o3] eqn:Epr
    end.
    assert (B3 : aux s3 = aux s).
    { rewrite <- B2. destruct (mcmd m); first [eapply exec_cmd_aux; exact Epr | eapply exec_start_suspender_aux; exact Epr]. }
    destruct cr; subst r; exact B3.
  - subst r. destruct popped; reflexivity.
  - repeat (bmh H); subst r; reflexivity.
  - repeat (bmh H); subst r; reflexivity.
  - subst r. destruct (finalize presume dev s r0 pending) as [s1 o1] eqn:Ef. eapply finalize_aux; exact Ef.
Qed.

Lemma drive_aux fuel (s : st) c os s' o : drive presume plan_of dev fuel s c os = (s', o) -> aux s' = aux s.
Proof.
  revert s c os; induction fuel as [|fuel IH]; intros s c os H.
  - rewrite RE_Small.drive_0 in H. invc H. reflexivity.
  - rewrite RE_Small.drive_dstep in H. pose proof (dstep_aux s c _ eq_refl) as Hd.
    destruct (dstep s c) as [[[s1 c1] o1]|[s1 o1]].
    + apply IH in H. congruence.
    + invc H. exact Hd.
Qed.

Lemma task_step_aux (s : st) s' o : task_step presume plan_of dev s = (s', o) -> aux s' = aux s.
Proof.
  unfold task_step. intros H.
  assert (K : forall fuel s1 c1 x, aux s1 = aux s -> drive presume plan_of dev fuel s1 c1 x = (s', o) -> aux s' = aux s).
  { intros fuel s1 c1 x Hb H1. apply drive_aux in H1. congruence. }
  repeat (bmh H);
    repeat match goal with
           | Hx : (if ?c then set_state _ _ else Some (_, _)) = Some _ |- _ => destruct c; [|invc Hx]
           | Hx : request_pause _ _ = _ |- _ => apply request_pause_aux in Hx
           | Hx : finish_read _ _ _ _ _ = _ |- _ => apply finish_read_aux in Hx
           | Hx : set_state ?sx _ = Some _ |- _ =>
               unfold set_state in Hx; destruct (allowed (state sx) _); [invc Hx | discriminate Hx]
           end;
    try (eapply K; [|exact H]; rewrite ?mark_cached_aux in *; unfold aux in *; cbn in *; congruence);
    try (invc H; reflexivity);
    try (apply finalize_aux in H; exact H).
Qed.


(* ------------------------------------------------------------------ the loop body after the sleep, factored:
   which state, which input for the frame on top, and what is done with the frame's answer *)
Definition as_state (s : st) (rest : list resp) : st :=
  let s1 := set_resps s rest in
  match exc_slot s1 with
  | Some e => set_exc_slot (set_stashed s1 (Some e)) None
  | None => s1
  end.
Definition as_input (s2 : st) (r : resp) : input :=
  match stashed s2, r with
  | Some e, _ => Throw e
  | None, RExn e => Throw e
  | None, RVal v => Send v
  end.
Definition is_throw (i : input) : bool := match i with Throw _ => true | _ => false end.
Definition as_post (s2 : st) (thr : bool) (o : outcome (frame P)) (po : list obs) : st * ctl * list obs :=
  match o with
  | Yielded m f' => ((if thr then set_stashed (replace_top s2 f') None else replace_top s2 f'), CProcess m, po)
  | Returned v =>
      let s3 := pop_plan s2 in
      match plans s3 with
      | [] => (s3, CExit (XRet v), po)
      | _ => ((if thr then set_stashed s3 (Some EStopIteration) else s3), CContinue false (RVal VNone), po)
      end
  | Raised e' =>
      if is_Exception e' then
        let s3 := pop_plan s2 in
        match plans s3 with
        | [] => (s3, CExit (XExn e'), po)
        | _ => (set_stashed s3 (Some e'), CContinue false (RVal VNone), po)
        end
      else
        match e' with
        | ECancelled => (s2, CCancelled true, po)
        | _ => (set_resps (replace_top s2 (FList [])) (RVal VNone :: resps s2), CExit (XExn e'), po)
        end
  end.

Lemma dstep_aftersleep (s : st) r rest top tl :
  resps s = r :: rest -> plans s = top :: tl ->
  dstep s CAfterSleep =
  let s2 := as_state s rest in
  let i := as_input s2 r in
  let '(o, po) := frame_resume presume top i in inl (as_post s2 (is_throw i) o po).
Proof.
  intros Hr Hp. cbn [RE_Small.dstep]. rewrite Hr, Hp. unfold as_state, as_input. cbv zeta.
  destruct (exc_slot (set_resps s rest)); cbn [stashed set_exc_slot set_stashed set_resps upd].
  - destruct (frame_resume presume top (Throw e)) as [o po]. destruct o; unfold as_post; cbn [is_throw]; cbv zeta; repeat bmg; reflexivity.
  - destruct (stashed s) as [e|].
    + destruct (frame_resume presume top (Throw e)) as [o po]. destruct o; unfold as_post; cbn [is_throw]; cbv zeta; repeat bmg; reflexivity.
    + destruct r as [v|e].
      * destruct (frame_resume presume top (Send v)) as [o po]. destruct o; unfold as_post; cbn [is_throw]; cbv zeta; repeat bmg; reflexivity.
      * destruct (frame_resume presume top (Throw e)) as [o po]. destruct o; unfold as_post; cbn [is_throw]; cbv zeta; repeat bmg; reflexivity.
Qed.

Lemma dstep_aftersleep_bad (s : st) :
  (resps s = [] \/ plans s = []) -> dstep s CAfterSleep = inl (s, CExit (XExn EOther), [OBad 2]).
Proof. intros [H|H]; cbn [RE_Small.dstep]; rewrite H; [reflexivity | destruct (resps s); reflexivity]. Qed.

Lemma as_state_fields (s : st) rest :
  state (as_state s rest) = state s /\ pc (as_state s rest) = pc s /\ must_cancel (as_state s rest) = must_cancel s /\
  permit (as_state s rest) = permit s /\ plans (as_state s rest) = plans s /\ resps (as_state s rest) = rest /\
  cache (as_state s rest) = cache s /\ bundlers (as_state s rest) = bundlers s /\
  stashed (as_state s rest) = match exc_slot s with Some e => Some e | None => stashed s end /\
  exc_slot (as_state s rest) = None.
Proof.
  unfold as_state. cbv zeta. cbn [exc_slot set_resps upd]. destruct (exc_slot s) eqn:E; cbn; rewrite ?E; repeat split; reflexivity.
Qed.

Lemma finalize_pc (s : st) r pend s' o : finalize presume dev s r pend = (s', o) -> exists r', pc s' = PcDone r'.
Proof.
  unfold finalize.
  destruct (stop_movables dev (set_pardon s true)) as [s2 o2].
  match goal with |- context [fold_left ?f ?l ?a] => destruct (fold_left f l a) as [s3 o3] end.
  unfold set_state. cbv zeta.
  match goal with |- context [allowed ?a Idle] => destruct (allowed a Idle) end; intros H; invc H; eexists; reflexivity.
Qed.


(* the bookkeeping at the start of message processing (seen objects, message cache) leaves the control fields alone *)
Lemma process_pre_same (s : st) (m : msg) :
  let s1 := match mobj m with Some d => set_seen s (insert_sorted d (seen s)) | None => s end in
  let s2 := match cache s1 with
            | Some l => if rewindable s1 && cacheable (mcmd m) then set_cache s1 (Some (l ++ [m])) else s1
            | None => s1
            end in
  RE_Inv.same P D s s2 /\ exc_slot s2 = exc_slot s /\ bundlers s2 = bundlers s.
Proof.
  cbv zeta. unfold RE_Inv.same. repeat bmg; cbn; repeat split; reflexivity.
Qed.

End Shape.
