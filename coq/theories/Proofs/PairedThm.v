(* C23: the wrapper machines of Gen/Paired.v produce their reference traces; what the undo plans yield;
   the device roots. *)
From Coq Require Import String.
From BV Require Import Base.Prelude Gen.Coalg Gen.PyGen Gen.Wrappers Gen.Paired Proofs.Coalg Proofs.Paired.

Section WrapperTraces.
  Context {P : Type}.
  Variable resume : P -> input -> outcome P.
  Variable mk : mview -> msg.
  Variable is_status : val -> bool.

  Notation pp := (pp_resume resume is_status).
  Notation lp := (lp_resume is_status).

  (* body, then undo(store): the s2 reference is the three-phase reference *)
  Lemma paired_s2 :
    forall pre undo p s, plain s = true ->
      s2_ref pp pp_store lp (fw_next undo) (PPStart pre p) (Send VNone :: s)
      = paired_ref resume is_status pre undo p s.
  Proof.
    intros pre undo p s Hp. unfold s2_ref, paired_ref.
    rewrite (pp_split_start resume is_status s pre p Hp). unfold body_ref.
    destruct (lp_split is_status pre (Send VNone :: s)) as [ms1 [[[t acc] rest]|]].
    - destruct t as [v|e|].
      + destruct (split resume no_store p (Send VNone :: rest)) as [ms2 [[[t2 u] rest2]|]]; cbn [retag].
        * rewrite map_app, <- app_assoc. f_equal. f_equal.
          destruct t2 as [v2|e2|]; cbn [fw_next]; try reflexivity.
          destruct (is_GeneratorExit e2); reflexivity.
        * now rewrite map_app, app_nil_r, app_nil_r.
      + cbn [fw_next]. destruct (is_GeneratorExit e); reflexivity.
      + reflexivity.
    - reflexivity.
  Qed.

  (* ---------------- stage_wrapper / suspend_wrapper *)
  Definition wstore (w : @wplan P) (i : input) : list val :=
    match w with WBody b => pp_store b i | WList l => lp_store l i end.

  Notation wres := (w_resume resume is_status).

  Lemma w_next_ref :
    forall undo c s, next_ref wres (WList undo) c s = next_ref lp undo c s.
  Proof.
    intros undo c s. unfold next_ref.
    rewrite (split_map _ _ _ lp wres WList no_store no_store); [reflexivity| |reflexivity].
    intros x i. reflexivity.
  Qed.

  Lemma w_s2_ref :
    forall undo b s,
      s2_ref wres wstore wres (fw_next (fun _ => WList undo)) (WBody b) s
      = s2_ref pp pp_store lp (fw_next (fun _ => undo)) b s.
  Proof.
    intros undo b s. unfold s2_ref.
    rewrite (split_map _ _ _ pp wres WBody pp_store wstore); [| |reflexivity].
    - destruct (split pp pp_store b s) as [ms [[[t st] rest]|]]; [|reflexivity].
      f_equal. destruct t as [v|e|]; cbn [fw_next]; try reflexivity.
      + apply w_next_ref.
      + destruct (is_GeneratorExit e); [reflexivity|apply w_next_ref].
    - intros x i. reflexivity.
  Qed.

  Theorem sw_trace :
    forall pre undo p s, plain s = true ->
      trace (sw_resume resume is_status undo) (DStart (PhStart (WBody (PPStart pre p)))) (Send VNone :: s)
      = paired_ref resume is_status pre (fun _ => undo) p s.
  Proof.
    intros pre undo p s Hp. unfold sw_resume, fin_resume.
    etransitivity; [apply d_start_trace; exact Hp|].
    rewrite (cw_finalize_trace wres wstore).
    rewrite s2_start_trace by exact Hp.
    rewrite w_s2_ref. now apply paired_s2.
  Qed.

  Theorem stage_wrapper_trace :
    forall roots p s, plain s = true ->
      trace (stage_wrapper_resume resume mk is_status roots) (stage_wrapper_init mk roots p) (Send VNone :: s)
      = stage_ref resume mk is_status roots p s.
  Proof. intros. now apply sw_trace. Qed.

  Theorem suspend_wrapper_trace :
    forall susps p s, plain s = true ->
      trace (suspend_wrapper_resume resume mk is_status susps) (suspend_wrapper_init mk susps p) (Send VNone :: s)
      = suspend_ref resume mk is_status susps p s.
  Proof. intros. now apply sw_trace. Qed.

  (* ---------------- subs_wrapper *)
  Variable set_iter : list val -> list val.

  Theorem subs_wrapper_trace :
    forall subs p s, plain s = true ->
      trace (subs_resume resume mk is_status set_iter) (subs_wrapper_init mk subs p) (Send VNone :: s)
      = subs_ref resume mk is_status set_iter subs p s.
  Proof.
    intros subs p s Hp. unfold subs_resume, subs_wrapper_init, subs_fin_resume, fw_resume, subs_ref.
    etransitivity; [apply d_start_trace; exact Hp|].
    etransitivity; [apply s2_start_trace; exact Hp|].
    now apply paired_s2.
  Qed.

  (* ---------------- run_wrapper *)
  Notation rw := (rw_resume resume mk is_status).
  Notation rc := (rc_resume resume mk is_status).
  Notation rres := (r_resume resume is_status).

  Lemma rw_cont_trace :
    forall s uid ph, plain s = true -> trace rw (RwCont uid ph) s = map (ret_obs uid) (trace rc ph s).
  Proof.
    induction s as [|i s IH]; intros uid ph Hp; [reflexivity|].
    apply plain_cons in Hp as [Hi Hs].
    rewrite !trace_cons by now apply plain_not_close.
    assert (E : rw (RwCont uid ph) i = rw_cont_result uid (rc ph i)).
    { destruct i as [v|e|]; cbn in *; [reflexivity| |discriminate].
      apply negb_true_iff in Hi. now rewrite Hi. }
    rewrite E. destruct (rc ph i) as [m ph'|v|e|]; cbn; try reflexivity. now rewrite IH.
  Qed.

  Theorem run_wrapper_trace :
    forall p s, plain s = true ->
      trace rw (run_wrapper_init p) (Send VNone :: s) = OYield (mk VOpen) :: run_ref resume mk is_status p s.
  Proof.
    intros p s Hp. unfold run_wrapper_init. rewrite trace_cons by discriminate. cbn [rw_resume trace_from].
    f_equal. destruct s as [|i rest]; [reflexivity|].
    apply plain_cons in Hp as [Hi Hs].
    destruct i as [uid|e|]; [| |discriminate Hi].
    - cbn [run_ref]. rewrite trace_cons by discriminate. cbn [rw_resume].
      transitivity (map (ret_obs uid) (trace rc (PhStart (RPlan p)) (Send VNone :: rest))).
      + rewrite (trace_cons _ rc) by discriminate.
        destruct (rc (PhStart (RPlan p)) (Send VNone)) as [m ph'|v|e|]; cbn; try reflexivity.
        now rewrite rw_cont_trace.
      + f_equal. unfold rc_resume, run_opts.
        rewrite (cw_run_trace rres _ _ _ (Send VNone :: rest) (PhStart (RPlan p)) (S2Start (RPlan p))) by constructor.
        rewrite s2_start_trace by exact Hs. reflexivity.
    - reflexivity.
  Qed.
End WrapperTraces.

(* ------------------------------------------------------------------ what a list plan yields when every message is answered *)
Section ListPlanFacts.
  Variable is_status : val -> bool.
  Notation lp := (lp_resume is_status).

  Definition lp_from (o : outcome lplan) (acc : list val) (s : list input)
    : list msg * option (term * list val * list input) :=
    match o with
    | Yielded m l' => let '(ms, e) := split lp lp_store l' s in (m :: ms, e)
    | Returned v => ([], Some (TRet v, acc, s))
    | Raised e => ([], Some (TExc e, acc, s))
    | OutOfFuel => ([], Some (TFuel, acc, s))
    end.

  Lemma lp_split_start :
    forall todo w s, split lp lp_store (LPStart todo w) (Send VNone :: s) = lp_from (lp_advance is_status todo [] w) [] s.
  Proof. intros. rewrite split_cons. cbn [lp_resume lp_store lp_acc]. destruct (lp_advance is_status todo [] w); reflexivity. Qed.

  Lemma lp_split_at :
    forall todo acc w v s,
      split lp lp_store (LPAt todo acc w) (Send v :: s)
      = lp_from (lp_advance is_status todo (acc ++ [v]) w) (acc ++ [v]) s.
  Proof. intros. rewrite split_cons. cbn [lp_resume lp_store]. destruct (lp_advance is_status todo (acc ++ [v]) w); reflexivity. Qed.

  (* no trailing wait: none was asked for, or no response was a Status *)
  Lemma lp_answered :
    forall todo acc w vs rest,
      length vs = length todo -> (w = None \/ existsb is_status (acc ++ vs) = false) ->
      lp_from (lp_advance is_status todo acc w) acc (map Send vs ++ rest) = (todo, Some (TRet VNone, acc ++ vs, rest)).
  Proof.
    induction todo as [|m r IH]; intros acc w vs rest HL HW.
    - destruct vs; [|discriminate]. rewrite app_nil_r in *. cbn.
      destruct HW as [->|HW]; [reflexivity|]. destruct w; [now rewrite HW|reflexivity].
    - destruct vs as [|v vs]; [discriminate|]. cbn [lp_advance lp_from map app].
      rewrite lp_split_at. rewrite (IH (acc ++ [v]) w vs rest).
      + now rewrite <- app_assoc.
      + now injection HL.
      + now rewrite <- app_assoc.
  Qed.

  (* a Status among the responses: the wait message follows and is answered *)
  Lemma lp_answered_wait :
    forall todo acc wm vs v' rest,
      length vs = length todo -> existsb is_status (acc ++ vs) = true ->
      lp_from (lp_advance is_status todo acc (Some wm)) acc (map Send vs ++ Send v' :: rest)
      = (todo ++ [wm], Some (TRet VNone, acc ++ vs, rest)).
  Proof.
    induction todo as [|m r IH]; intros acc wm vs v' rest HL HW.
    - destruct vs; [|discriminate]. rewrite app_nil_r in *. cbn [lp_advance]. rewrite HW. reflexivity.
    - destruct vs as [|v vs]; [discriminate|]. cbn [lp_advance lp_from map app].
      rewrite lp_split_at. rewrite (IH (acc ++ [v]) wm vs v' rest).
      + now rewrite <- app_assoc.
      + now injection HL.
      + now rewrite <- app_assoc.
  Qed.

  (* the undo phase, fully answered: every undo message in order, then the wrapper's pending completion *)
  Theorem undo_complete :
    forall um w c vs rest,
      length vs = length um -> (w = None \/ existsb is_status vs = false) ->
      undo_ref is_status (LPStart um w) c (map Send vs ++ rest) = map OYield um ++ [compl_obs c].
  Proof.
    intros um w c vs rest HL HW. unfold undo_ref, next_ref.
    assert (E : split lp no_store (LPStart um w) (Send VNone :: map Send vs ++ rest)
                = (um, Some (TRet VNone, tt, rest))).
    { pose proof (lp_split_start um w (map Send vs ++ rest)) as E1.
      rewrite (lp_answered um [] w vs rest HL HW) in E1.
      revert E1. generalize (Send VNone :: map Send vs ++ rest). intros s E1.
      clear - E1. revert E1. generalize (LPStart um w). intros l. revert l um.
      induction s as [|i s IH]; intros l um E1; [discriminate|].
      rewrite split_cons in *. destruct (lp l i) as [m l'|v|e|].
      - destruct (split lp lp_store l' s) as [ms e] eqn:E2. injection E1 as <- ->.
        rewrite (IH l' ms E2). reflexivity.
      - injection E1 as <- -> _ <-. reflexivity.
      - discriminate.
      - discriminate. }
    rewrite E. reflexivity.
  Qed.

  Theorem undo_complete_wait :
    forall um wm c vs v' rest,
      length vs = length um -> existsb is_status vs = true ->
      undo_ref is_status (LPStart um (Some wm)) c (map Send vs ++ Send v' :: rest)
      = map OYield (um ++ [wm]) ++ [compl_obs c].
  Proof.
    intros um wm c vs v' rest HL HW. unfold undo_ref, next_ref.
    assert (E : split lp no_store (LPStart um (Some wm)) (Send VNone :: map Send vs ++ Send v' :: rest)
                = (um ++ [wm], Some (TRet VNone, tt, rest))).
    { pose proof (lp_split_start um (Some wm) (map Send vs ++ Send v' :: rest)) as E1.
      rewrite (lp_answered_wait um [] wm vs v' rest HL HW) in E1.
      revert E1. generalize (um ++ [wm]). generalize (Send VNone :: map Send vs ++ Send v' :: rest). intros s um' E1.
      clear - E1. revert E1. generalize (LPStart um (Some wm)). intros l. revert l um'.
      induction s as [|i s IH]; intros l um' E1; [discriminate|].
      rewrite split_cons in *. destruct (lp l i) as [m l'|v|e|].
      - destruct (split lp lp_store l' s) as [ms e] eqn:E2. injection E1 as <- ->.
        rewrite (IH l' ms E2). reflexivity.
      - injection E1 as <- -> _ <-. reflexivity.
      - discriminate.
      - discriminate. }
    rewrite E. reflexivity.
  Qed.
End ListPlanFacts.

(* ------------------------------------------------------------------ the headline corollaries *)
Section Corollaries.
  Context {P : Type}.
  Variable resume : P -> input -> outcome P.
  Variable mk : mview -> msg.
  Variable is_status : val -> bool.

  Lemma paired_ref_body :
    forall pre undo p s,
      paired_ref resume is_status pre undo p s =
      map OYield (fst (body_ref resume is_status pre p (Send VNone :: s))) ++
      match snd (body_ref resume is_status pre p (Send VNone :: s)) with
      | None => []
      | Some (TFuel, _, _) => [OFuel]
      | Some (t, acc, rest) =>
          match plain_end t with
          | Some c => undo_ref is_status (undo acc) c rest
          | None => [term_obs t]
          end
      end.
  Proof.
    intros pre undo p s. unfold paired_ref, body_ref.
    destruct (lp_split is_status pre (Send VNone :: s)) as [ms1 [[[t acc] rest]|]]; cbn [fst snd].
    - destruct t as [v|e|]; cbn [fst snd plain_end].
      + destruct (split resume no_store p (Send VNone :: rest)) as [ms2 [[[t2 u] rest2]|]]; cbn [retag fst snd].
        * rewrite map_app, <- app_assoc. f_equal. f_equal.
          destruct t2 as [v2|e2|]; cbn [plain_end]; try reflexivity.
          destruct (is_GeneratorExit e2); reflexivity.
        * now rewrite map_app, app_nil_r, app_nil_r.
      + destruct (is_GeneratorExit e); reflexivity.
      + reflexivity.
    - reflexivity.
  Qed.

  (* the body ended plainly and every undo message is answered: all of them are yielded, in order, and the wrapper
     ends the way the body ended *)
  Theorem paired_complete_undo :
    forall pre undo p s ms t acc vs rest c um w,
      body_ref resume is_status pre p (Send VNone :: s) = (ms, Some (t, acc, map Send vs ++ rest)) ->
      plain_end t = Some c ->
      undo acc = LPStart um w -> length vs = length um -> (w = None \/ existsb is_status vs = false) ->
      paired_ref resume is_status pre undo p s = map OYield ms ++ map OYield um ++ [compl_obs c].
  Proof.
    intros pre undo p s ms t acc vs rest c um w HB HE HU HL HW.
    rewrite paired_ref_body, HB. cbn [fst snd]. f_equal.
    destruct t as [v|e|]; [| |discriminate HE]; rewrite HE, HU; now apply undo_complete.
  Qed.

  Theorem paired_complete_undo_wait :
    forall pre undo p s ms t acc vs v' rest c um wm,
      body_ref resume is_status pre p (Send VNone :: s) = (ms, Some (t, acc, map Send vs ++ Send v' :: rest)) ->
      plain_end t = Some c ->
      undo acc = LPStart um (Some wm) -> length vs = length um -> existsb is_status vs = true ->
      paired_ref resume is_status pre undo p s = map OYield ms ++ map OYield (um ++ [wm]) ++ [compl_obs c].
  Proof.
    intros pre undo p s ms t acc vs v' rest c um wm HB HE HU HL HW.
    rewrite paired_ref_body, HB. cbn [fst snd]. f_equal.
    destruct t as [v|e|]; [| |discriminate HE]; rewrite HE, HU; now apply undo_complete_wait.
  Qed.

  (* a GeneratorExit kind out of the body (the plan raised one): no undo at all *)
  Theorem paired_no_undo_on_generator_exit :
    forall pre undo p s ms e acc rest,
      body_ref resume is_status pre p (Send VNone :: s) = (ms, Some (TExc e, acc, rest)) ->
      is_GeneratorExit e = true ->
      paired_ref resume is_status pre undo p s = map OYield ms ++ [ORaise e].
  Proof.
    intros pre undo p s ms e acc rest HB HG. rewrite paired_ref_body, HB. cbn [fst snd plain_end]. now rewrite HG.
  Qed.

  (* ---------------- run_wrapper: exactly one close_run, saying how the wrapped plan ended *)
  Notation rres := (r_resume resume is_status).

  Lemma close_plan_answered :
    forall v c v' rest,
      next_ref rres (close_plan mk v) c (Send VNone :: Send v' :: rest) = [OYield (mk v); compl_obs c].
  Proof. intros. reflexivity. Qed.

  Theorem run_wrapper_one_close :
    forall p uid rest ms t v' rest2,
      plain rest = true ->
      split resume no_store p (Send VNone :: rest) = (ms, Some (t, tt, Send v' :: rest2)) ->
      trace (rw_resume resume mk is_status) (run_wrapper_init p) (Send VNone :: Send uid :: rest)
      = OYield (mk VOpen) :: map OYield ms ++
        match t with
        | TRet _ => [OYield (mk (VClose None None)); OReturn uid]
        | TExc e =>
            if is_GeneratorExit e then [ORaise e]
            else if is_Exception e then [OYield (mk (close_view e)); ORaise e]
            else [ORaise e]
        | TFuel => [OFuel]
        end.
  Proof.
    intros p uid rest ms t v' rest2 Hp HS.
    rewrite run_wrapper_trace by exact Hp. f_equal. cbn [run_ref]. unfold s2_ref.
    rewrite (split_map _ _ _ resume rres RPlan no_store no_store); [|reflexivity|reflexivity].
    rewrite HS. rewrite map_app. f_equal; [apply map_map|].
    destruct t as [v|e|]; cbn [run_next].
    - rewrite close_plan_answered. reflexivity.
    - destruct (is_GeneratorExit e); [reflexivity|].
      destruct (is_Exception e); [|reflexivity]. rewrite close_plan_answered. reflexivity.
    - reflexivity.
  Qed.
End Corollaries.

(* ------------------------------------------------------------------ the statements of Props/C23.v *)
Lemma stage_unstages_all :
  forall (P : Type) (resume : P -> input -> outcome P) (mk : mview -> msg) (is_status : val -> bool)
         (roots : list dev) (p : P) (s : list input) ms t acc vs rest c,
    plain s = true ->
    body_ref resume is_status (stage_do mk roots) p (Send VNone :: s) = (ms, Some (t, acc, map Send vs ++ rest)) ->
    plain_end t = Some c ->
    length vs = length roots -> existsb is_status vs = false ->
    trace (stage_wrapper_resume resume mk is_status roots) (stage_wrapper_init mk roots p) (Send VNone :: s)
    = map OYield ms ++ map OYield (map (fun d => mk (VUnstage d G_UNSTAGE)) (rev roots)) ++ [compl_obs c].
Proof.
  intros P resume mk is_status roots p s ms t acc vs rest c Hp HB HE HL HW.
  rewrite (@stage_wrapper_trace P resume mk is_status roots p s Hp).
  apply (@paired_complete_undo P resume is_status _ (fun _ => stage_undo mk roots) p s ms t acc vs rest c
           (unstage_msgs mk roots) (Some (mk (VWait G_UNSTAGE))) HB HE eq_refl).
  - unfold unstage_msgs. now rewrite map_length, rev_length.
  - now right.
Qed.

Lemma stage_unstages_all_wait :
  forall (P : Type) (resume : P -> input -> outcome P) (mk : mview -> msg) (is_status : val -> bool)
         (roots : list dev) (p : P) (s : list input) ms t acc vs v' rest c,
    plain s = true ->
    body_ref resume is_status (stage_do mk roots) p (Send VNone :: s) = (ms, Some (t, acc, map Send vs ++ Send v' :: rest)) ->
    plain_end t = Some c ->
    length vs = length roots -> existsb is_status vs = true ->
    trace (stage_wrapper_resume resume mk is_status roots) (stage_wrapper_init mk roots p) (Send VNone :: s)
    = map OYield ms
      ++ map OYield (map (fun d => mk (VUnstage d G_UNSTAGE)) (rev roots) ++ [mk (VWait G_UNSTAGE)]) ++ [compl_obs c].
Proof.
  intros P resume mk is_status roots p s ms t acc vs v' rest c Hp HB HE HL HW.
  rewrite (@stage_wrapper_trace P resume mk is_status roots p s Hp).
  apply (@paired_complete_undo_wait P resume is_status _ (fun _ => stage_undo mk roots) p s ms t acc vs v' rest c
           (unstage_msgs mk roots) (mk (VWait G_UNSTAGE)) HB HE eq_refl); [|exact HW].
  unfold unstage_msgs. now rewrite map_length, rev_length.
Qed.

Lemma suspend_removes_all :
  forall (P : Type) (resume : P -> input -> outcome P) (mk : mview -> msg) (is_status : val -> bool)
         (susps : list nat) (p : P) (s : list input) ms t acc vs rest c,
    plain s = true ->
    body_ref resume is_status (LPStart (install_msgs mk susps) None) p (Send VNone :: s)
      = (ms, Some (t, acc, map Send vs ++ rest)) ->
    plain_end t = Some c -> length vs = length susps ->
    trace (suspend_wrapper_resume resume mk is_status susps) (suspend_wrapper_init mk susps p) (Send VNone :: s)
    = map OYield ms ++ map OYield (map (fun x => mk (VRemove x)) susps) ++ [compl_obs c].
Proof.
  intros P resume mk is_status susps p s ms t acc vs rest c Hp HB HE HL.
  rewrite (@suspend_wrapper_trace P resume mk is_status susps p s Hp).
  apply (@paired_complete_undo P resume is_status _ (fun _ => LPStart (remove_msgs mk susps) None) p s ms t acc vs rest c
           (remove_msgs mk susps) None HB HE eq_refl).
  - unfold remove_msgs. now rewrite map_length.
  - now left.
Qed.

Lemma subs_unsubscribes_tokens :
  forall (P : Type) (resume : P -> input -> outcome P) (mk : mview -> msg) (is_status : val -> bool)
         (set_iter : list val -> list val) (subs : list (nat * nat)) (p : P) (s : list input) ms t tokens vs rest c,
    plain s = true ->
    body_ref resume is_status (LPStart (subscribe_msgs mk subs) None) p (Send VNone :: s)
      = (ms, Some (t, tokens, map Send vs ++ rest)) ->
    plain_end t = Some c -> length vs = length (set_iter tokens) ->
    trace (subs_resume resume mk is_status set_iter) (subs_wrapper_init mk subs p) (Send VNone :: s)
    = map OYield ms ++ map OYield (map (fun tok => mk (VUnsubscribe tok)) (set_iter tokens)) ++ [compl_obs c].
Proof.
  intros P resume mk is_status set_iter subs p s ms t tokens vs rest c Hp HB HE HL.
  rewrite (@subs_wrapper_trace P resume mk is_status set_iter subs p s Hp).
  apply (@paired_complete_undo P resume is_status _ (unsubscribe_plan mk set_iter) p s ms t tokens vs rest c
           (map (fun tok => mk (VUnsubscribe tok)) (set_iter tokens)) None HB HE eq_refl).
  - now rewrite map_length.
  - now left.
Qed.

Lemma close_status_table :
  close_view ERequestAbort = VClose (Some "abort"%string) None /\
  close_view ERequestStop = VClose (Some "success"%string) None /\
  forall e, is_control e = false -> close_view e = VClose (Some "fail"%string) (Some e).
Proof. repeat split. intros e H. unfold close_view. now rewrite H. Qed.
