"""C18 - subscriptions live exactly as long as they were asked to."""
from harness.drivers import dispatch_cases as G
from harness.drivers import dispatch_driver as D
from harness.drivers import dispatch_oracle as O

ID = "C18"
PROP_FILE = "Props/C18.v"
THEOREMS = ["C18_live_subscriptions", "C18_a_refuted", "C18_spec_keeps_and_drops"]
COQ_IMPORTS = "From Coq Require Import String List. From BV Require Import Engine.Dispatcher."
PARALLEL = False      # ~6 ms per history; a process pool is slower than that
MODELLED = (
    "Modelled (Engine/Dispatcher.v), not verified: CallbackRegistry.connect/disconnect/process with _cid, callbacks and "
    "_func_cid_map (flat cid-ordered lists; equality of callables = an equality-class label, which is what "
    "_BoundMethodProxy.__eq__/__hash__ compute for functions, bound methods of one instance and callable objects with "
    "__eq__), Dispatcher.subscribe/unsubscribe/unsubscribe_all with _counter and _token_mapping, RunEngine.subscribe/"
    "unsubscribe/reset, __call__(plan, subs) with normalize_subs_input and _clear_call_cache's temporary tokens, the "
    "'subscribe'/'unsubscribe' message handlers (incl. the KeyError of set.remove), callbacks calling RE.unsubscribe/"
    "RE.subscribe during delivery (list() snapshot in process), and only as much of open_run/"
    "create-read-save/close_run/_run's finally as decides which documents a non-catching plan emits. Weak-reference "
    "death of a bound method's owner (_remove_proxy) and pause/resume inside a call are not modelled; asyncio, "
    "event_model and the bundler are trusted to emit the documents of those tiny plans."
)
RULE = (
    "exhaustive: every history of <=3 (quick) / <=4 (thorough) operations over a 12-symbol alphabet (subscribe f 'all'/'stop', "
    "unsubscribe literal/most-recent token, calls without/with per-call subs in callable and dict form, in-plan "
    "subscribe and subscribe+unsubscribe) followed by a probe call, over pools of three callables (function, bound "
    "method, callable object; and equal-but-distinct callable objects); plus seeded random histories of <=6 operations "
    "(random names incl. non-run kinds and invalid ones, dict/list/callable per-call subs incl. invalid keys, random "
    "plans with in-plan subscribe/unsubscribe by arg and kw, malformed message order, unknown tokens, unsubscribe_all, "
    "reset, both exception policies with raising callbacks; a quarter of them with callbacks that unsubscribe tokens or "
    "subscribe a fourth callable while a document is being delivered). Non-trivial = some document reached some callable."
)


def cases(rng, tier):
    out = []
    if tier == "quick":
        out += list(G.enumerate_histories(2, ["fmo"]))
        out += list(G.enumerate_histories(2, ["foo="]))
        e3 = list(G.enumerate_histories(3, ["fmo"]))
        e3 = [c for c in e3 if c["gen"] == "enum3"]
        out += rng.sample(e3, 300)
        nrand = 250
    else:
        out += list(G.enumerate_histories(3, ["fmo", "foo="]))
        e4 = [c for c in G.enumerate_histories(4, ["fmo"]) if c["gen"] == "enum4"]
        out += rng.sample(e4, 6000)
        nrand = 12000
    for i in range(nrand):
        c = G.rand_history(rng, maxops=6, p_raise=0.25 if i % 3 == 0 else 0.0, p_ignore=0.12 if i % 3 == 0 else 0.0)
        out.append(G.add_random_acts(rng, c, p=0.4) if i % 4 == 1 else c)
    return out


def impl(case):
    return D.run_history(case)


def coq_term(case, obs):
    o = D.obs_term(obs)
    if o is None:
        return "false"          # an observation outside the model's vocabulary is a disagreement
    h = D.history_term(case)
    t = "lobs_eqb (run_hist %s) %s && Bool.eqb (finding_C18_a %s) %s && counts_eqb (final_counts %s) (%d, %d)" % (
        h, o, h, D.cb(O.sharing(case, obs)), h, obs["counts"][0], obs["counts"][1])
    names = (tuple(obs["doc_names"]), tuple(obs["subs_names"]))
    if names not in _names_seen:        # the two literal tables the model hard-codes: compared once per distinct value
        _names_seen.add(names)
        t += " && lstr_eqb doc_names %s && lstr_eqb subs_names_str %s" % (D.cl(obs["doc_names"], D.cstr), D.cl(obs["subs_names"], D.cstr))
    return t


_names_seen = set()


def oracle(case, obs):
    """Every emitted document went to exactly the callables of the subscriptions that are live at that
    moment (permanent until their own token is unsubscribed; per-call and in-plan until the end of the
    call or their in-plan unsubscribe), one invocation per live subscription; tokens are distinct."""
    for ev in O.walk(case, obs):
        if ev[0] == "token":
            _, oi, exp, got = ev
            if exp != got:
                return "op %d: subscribe returned token %r, expected %r" % (oi, got, exp)
            continue
        _, oi, k, d, inv, live, ignore = ev
        want = sorted(s[1] for s in live)
        got = sorted(f for f, _ in inv)
        cut = (not ignore) and any(r for _, r in inv)
        if cut:
            # delivery was stopped by a raising callback (policy, C19): the ones reached must still be live ones
            w = list(want)
            for f in got:
                if f in w:
                    w.remove(f)
                else:
                    return "op %d, %s: callable %d invoked without a live subscription (live: %s)" % (oi, d, f, want)
        elif want != got:
            missing = [f for f in want if want.count(f) > got.count(f)]
            extra = [f for f in got if got.count(f) > want.count(f)]
            return ("op %d, %s: invoked callables %s, live subscriptions are for %s%s%s" % (
                oi, d, got, want,
                ("; silenced: %s" % sorted(set(missing))) if missing else "",
                ("; not subscribed: %s" % sorted(set(extra))) if extra else ""))
    return None


def finding(case, obs):
    return "a" if O.sharing(case, obs) else None


def nontrivial(case, obs):
    return any(isinstance(o, dict) and any(inv for _, inv in o.get("ems", [])) for o in obs["ops"])


def describe(case):
    ops = case["ops"]
    ncall = sum(1 for o in ops if o[0] == "call")
    inplan = sum(1 for o in ops if o[0] == "call" for m in o[2] if m[0] in ("sub", "unsub"))
    percall = sum(1 for o in ops if o[0] == "call" and o[1]["form"] != "none")
    return "%s pool=%s ops=%d calls=%d percall=%d inplan=%d" % (case.get("gen", "corpus"), case.get("pool", "?"),
                                                             len(ops), ncall, min(percall, 2), min(inplan, 3))


def model_search(rng, tier):
    """Proof or correspondence broke and no implementation-side failure was seen: look for a history on which the
    MODEL itself leaves the specification outside the finding class (boolean restatement of the theorem)."""
    from harness import core
    cs = [G.rand_history(rng, maxops=6) for _ in range(300 if tier == "quick" else 3000)]
    terms = ["finding_C18_a %s || lobs_eqb (run_hist %s) (spec_hist %s)" % ((D.history_term(c),) * 3) for c in cs]
    try:
        ok, bad, _ = core.eval_cases_in_coq(ID + "_search", COQ_IMPORTS, terms)
    except Exception:
        return None
    if ok and bad:
        c = min((cs[i] for i in bad), key=lambda c: len(c["ops"]))
        return {"case": c, "what": "model run differs from the live-subscription specification outside class C18-a"}
    return None
