(* C35 (b) over a whole run: proofs about Pure/NormalizerSpec.v *)
From Coq Require Import String List ZArith Bool Arith Lia Permutation.
From BV Require Import Base.Prelude Pure.Normalizer Pure.NormalizerSpec Proofs.Normalizer Proofs.NormalizerB.
Import ListNotations.
Open Scope string_scope.
Open Scope list_scope.

(* ================================================================== the specification does not see arrival times *)

Lemma flat_map_filter_nil : forall A B (f : A -> list B) (p : A -> bool) l,
  (forall x, p x = false -> f x = []) -> flat_map f (filter p l) = flat_map f l.
Proof.
  intros A B f p l H. induction l as [|x l IH]; simpl; [reflexivity|].
  destruct (p x) eqn:E; simpl; [now rewrite IH | now rewrite (H x E)].
Qed.

Lemma flat_map_filter_all_nil : forall A B (f : A -> list B) (p : A -> bool) l,
  (forall x, p x = true -> f x = []) -> flat_map f (filter p l) = [].
Proof.
  intros A B f p l H. induction l as [|x l IH]; simpl; [reflexivity|].
  destruct (p x) eqn:E; simpl; [now rewrite (H x E) | exact IH].
Qed.

Lemma split_at_first_event_app : forall docs, fst (split_at_first_event docs) ++ snd (split_at_first_event docs) = docs.
Proof.
  induction docs as [|nd r IH]; simpl; [reflexivity|].
  destruct (is_event_doc nd); simpl; [reflexivity|].
  destruct (split_at_first_event r) as [a b]. simpl in *. now rewrite IH.
Qed.

(* a function of the documents that ignores datum documents gives the same on the datums-first stream *)
Lemma flat_map_datums_first_others : forall B (f : string * val -> list B) docs,
  (forall x, is_datum_doc x = true -> f x = []) ->
  flat_map f (datums_first docs) = flat_map f docs.
Proof.
  intros B f docs H. unfold datums_first.
  assert (S := split_at_first_event_app docs). destruct (split_at_first_event docs) as [pre post]. simpl in S.
  rewrite !flat_map_app.
  rewrite (flat_map_filter_all_nil _ _ f is_datum_doc docs H). simpl.
  rewrite !(flat_map_filter_nil _ _ f (fun nd => negb (is_datum_doc nd))).
  - now rewrite <- flat_map_app, S.
  - intros x E. apply H. now destruct (is_datum_doc x).
  - intros x E. apply H. now destruct (is_datum_doc x).
Qed.

(* a function that only looks at datum documents gives the same list too (their relative order is kept) *)
Lemma flat_map_datums_first_datums : forall B (f : string * val -> list B) docs,
  (forall x, is_datum_doc x = false -> f x = []) ->
  flat_map f (datums_first docs) = flat_map f docs.
Proof.
  intros B f docs H. unfold datums_first. destruct (split_at_first_event docs) as [pre post].
  rewrite !flat_map_app.
  rewrite !(flat_map_filter_all_nil _ _ f (fun nd => negb (is_datum_doc nd))).
  - simpl. rewrite app_nil_r. apply flat_map_filter_nil. exact H.
  - intros x E. apply H. now destruct (is_datum_doc x).
  - intros x E. apply H. now destruct (is_datum_doc x).
Qed.

Ltac name_cases x :=
  destruct x as [name d]; unfold is_datum_doc; simpl;
  destruct (String.eqb name "datum") eqn:?; destruct (String.eqb name "datum_page") eqn:?;
  repeat match goal with H : String.eqb _ _ = true |- _ => apply String.eqb_eq in H; subst end;
  simpl; try reflexivity; try discriminate.

(* "whichever of Datum / Event arrives first": the required ranges are the same for the stream in which
   every Datum arrives before the first Event *)
Theorem spec_ranges_datums_first : forall docs, spec_ranges (datums_first docs) = spec_ranges docs.
Proof.
  intros docs. unfold spec_ranges.
  assert (E1 : expand_events (datums_first docs) = expand_events docs).
  { apply flat_map_datums_first_others. intros x. name_cases x; intros; reflexivity. }
  assert (E2 : descriptors (datums_first docs) = descriptors docs).
  { apply flat_map_datums_first_others. intros x. name_cases x; intros; reflexivity. }
  assert (E3 : descriptor_names (datums_first docs) = descriptor_names docs).
  { apply flat_map_datums_first_others. intros x. name_cases x; intros; reflexivity. }
  assert (E4 : datum_frames (datums_first docs) = datum_frames docs).
  { apply flat_map_datums_first_datums. intros x. name_cases x; intros; reflexivity. }
  now rewrite E1, E2, E3, E4.
Qed.

Theorem expected_refs_datums_first : forall docs, expected_refs (datums_first docs) = expected_refs docs.
Proof.
  intros docs. unfold expected_refs.
  assert (E1 : expand_events (datums_first docs) = expand_events docs).
  { apply flat_map_datums_first_others. intros x. name_cases x; intros; reflexivity. }
  assert (E2 : descriptors (datums_first docs) = descriptors docs).
  { apply flat_map_datums_first_others. intros x. name_cases x; intros; reflexivity. }
  now rewrite E1, E2.
Qed.

(* ================================================================== basics *)

Lemma atom_eqb_eq : forall a b, atom_eqb a b = true -> a = b.
Proof.
  intros [] []; simpl; intros E; try discriminate; try reflexivity.
  - apply Bool.eqb_prop in E. now subst.
  - apply Z.eqb_eq in E. now subst.
  - apply String.eqb_eq in E. now subst.
  - apply String.eqb_eq in E. now subst.
Qed.

Lemma atom_eqb_refl : forall a, is_atom a = true -> atom_eqb a a = true.
Proof.
  intros []; simpl; intros E; try discriminate; try reflexivity.
  - apply Bool.eqb_reflx. - apply Z.eqb_refl. - apply String.eqb_refl. - apply String.eqb_refl.
Qed.

Lemma atom_eqb_sym : forall a b, atom_eqb a b = atom_eqb b a.
Proof.
  intros [] []; simpl; try reflexivity.
  - destruct b, b0; reflexivity. - apply Z.eqb_sym. - apply String.eqb_sym. - apply String.eqb_sym.
Qed.

Lemma atom_eqb_is_atom : forall a b, atom_eqb a b = true -> is_atom a = true.
Proof. intros [] []; simpl; intros; try discriminate; reflexivity. Qed.

Lemma vget_vset_same : forall k v c, is_atom k = true -> vget k (vset k v c) = Some v.
Proof.
  induction c as [|[k' v'] c IH]; intros A; simpl.
  - now rewrite atom_eqb_refl.
  - destruct (atom_eqb k k') eqn:E; simpl; rewrite E; auto.
Qed.

Lemma vget_vset_other : forall k k' v c, atom_eqb k k' = false -> vget k (vset k' v c) = vget k c.
Proof.
  induction c as [|[k2 v2] c IH]; intros E; simpl.
  - now rewrite E.
  - destruct (atom_eqb k' k2) eqn:E2; simpl.
    + apply atom_eqb_eq in E2; subst. now rewrite E.
    + destruct (atom_eqb k k2); auto.
Qed.

Lemma vget_vdel_other : forall k k' c, atom_eqb k k' = false -> vget k (vdel k' c) = vget k c.
Proof.
  induction c as [|[k2 v2] c IH]; intros E; simpl; [reflexivity|].
  destruct (atom_eqb k' k2) eqn:E2; simpl.
  - apply atom_eqb_eq in E2; subst. now rewrite E.
  - destruct (atom_eqb k k2); auto.
Qed.

(* ================================================================== a run without errors is a chain of successful steps *)

Lemma run_from_errs_grow : forall mode docs i m errs m' errs',
  run_from mode i docs m errs = (m', errs') -> exists l, errs' = errs ++ l.
Proof.
  induction docs as [|[n d] docs IH]; intros i m errs m' errs' E; simpl in E.
  - inversion E; subst. exists []. now rewrite app_nil_r.
  - destruct (dispatch mode n d m) as [m1 [u|e]].
    + eauto.
    + apply IH in E as [l ->]. exists ((i, e) :: l). now rewrite <- app_assoc.
Qed.

Lemma run_from_ok_step : forall mode n d docs i m m',
  run_from mode i ((n, d) :: docs) m [] = (m', []) ->
  exists m1, dispatch mode n d m = (m1, inl tt) /\ run_from mode (S i) docs m1 [] = (m', []).
Proof.
  intros mode n d docs i m m' E. simpl in E. destruct (dispatch mode n d m) as [m1 [[]|e]] eqn:D.
  - eauto.
  - apply run_from_errs_grow in E as [l E]. destruct l; discriminate.
Qed.

(* ================================================================== what each handler does, when it succeeds *)

Definition reads (s : store) (ref t : val) : Prop := readback (fuel_of s) s ref = Some t.

Lemma shallow_then_emit : forall name ref t x x',
  reads (st x) ref t ->
  (d <- shallow ref ;; emit name d) x = (x', inl tt) ->
  x' = upd_out x (out x ++ [(name, t)]).
Proof.
  intros name ref t x x' R E. apply bind_inl in E as (y & ob & S & E).
  assert (y = x /\ readback (fuel_of (st x)) (st x) ob = Some t) as [-> Rb].
  { destruct ref; try (apply ret_inl in S as [-> ->]; split; [reflexivity | exact R]).
    unfold shallow in S. apply bind_inl in S as (z & s & G & S). apply get_st_inl in G as [-> ->].
    apply of_opt_inl in S as [-> S]. split; [reflexivity|].
    unfold reads, fuel_of in R. rewrite readback_ref, S in R.
    assert (M := readback_mono _ _ _ _ R (fuel_of (st x)) []). rewrite app_nil_r in M.
    apply M. unfold fuel_of. lia. }
  apply emit_inl in E as (snap & Rs & ->). rewrite Rb in Rs. now inversion Rs.
Qed.

Lemma h_start_ok : forall ref t x x', reads (st x) ref t -> h_start ref x = (x', inl tt) ->
  x' = upd_out x (out x ++ [("start", t)]).
Proof. intros. eapply shallow_then_emit; eauto. Qed.

Lemma h_stream_datum_ok : forall ref t x x', reads (st x) ref t -> h_stream_datum ref x = (x', inl tt) ->
  x' = upd_out x (out x ++ [("stream_datum", t)]).
Proof. intros. eapply shallow_then_emit; eauto. Qed.

Lemma convert_resource_quiet : forall d x x' d', allnoref d = true -> convert_resource d x = (x', inl d') -> x' = x.
Proof.
  intros d x x' d' A E. unfold convert_resource in E.
  apply bind_inl in E as (y & d1 & G & E). apply lift_inl in G as [-> G].
  assert (A1 := convert_legacy_noref _ _ A G).
  apply bind_inl in E as (y & mt & G2 & E). apply lift_inl in G2 as [-> G2].
  apply bind_inl in E as (y & d2 & G3 & E). apply ret_inl in E as [-> _].
  destruct (atom_eqb mt (VStr HDF5)); [|now apply ret_inl in G3].
  apply bind_inl in G3 as (z & p & G4 & G3). apply lift_inl in G4 as [-> G4].
  unfold egetitem, eopt in G4. destruct (dget "parameters" d1) as [pv|] eqn:Gp; [|discriminate]. inversion G4; subst pv.
  assert (Np := allnoref_dget _ _ _ A1 Gp).
  apply bind_inl in G3 as (z & p' & G5 & G3). destruct p; try discriminate; try (inversion G5; fail).
  apply mut_dict_inl in G5 as [-> _]. now apply ret_inl in G3.
Qed.

Lemma h_resource_ok : forall ref x x', h_resource Deep ref x = (x', inl tt) ->
  out x' = out x /\ st x' = st x /\ exists c, ns x' = with_sres_cache (ns x) c.
Proof.
  intros ref x x' E. unfold h_resource, copy_doc in E.
  apply bind_inl in E as (y & c & G & E). apply deepcopy_inl in G as [-> G].
  apply readback_noref in G.
  apply bind_inl in E as (y & d & G2 & E). apply lift_inl in G2 as [-> G2].
  assert (A := as_dict_noref _ _ G G2).
  apply bind_inl in E as (y & d' & G3 & E). apply convert_resource_quiet in G3; [subst y | exact A].
  apply bind_inl in E as (y & uid & G4 & E). apply lift_inl in G4 as [-> _].
  apply bind_inl in E as (y & n & G5 & E). apply get_ns_inl in G5 as [-> ->].
  apply put_ns_inl in E as ->. simpl. eauto.
Qed.

Lemma h_stream_resource_ok : forall ref x x', h_stream_resource Deep ref x = (x', inl tt) ->
  exists snap, x' = upd_out x (out x ++ [("stream_resource", snap)]).
Proof.
  intros ref x x' E. unfold h_stream_resource, copy_doc in E.
  apply bind_inl in E as (y & c & G & E). apply deepcopy_inl in G as [-> G].
  apply readback_noref in G.
  apply bind_inl in E as (y & d & G2 & E). apply lift_inl in G2 as [-> G2].
  assert (A := as_dict_noref _ _ G G2).
  apply bind_inl in E as (y & d' & G3 & E). apply convert_resource_quiet in G3; [subst y | exact A].
  apply emit_inl in E as (snap & _ & ->). eauto.
Qed.

Lemma h_datum_ok : forall ref t x x', reads (st x) ref t -> h_datum Deep ref x = (x', inl tt) ->
  exists kv id, t = VDict kv /\ dget "datum_id" kv = Some id /\ is_atom id = true /\
    x' = upd_ns x (with_datum_cache (ns x) (vset id t (datum_cache (ns x)))).
Proof.
  intros ref t x x' R E. unfold h_datum, copy_doc in E.
  apply bind_inl in E as (y & c & G & E). apply deepcopy_inl in G as [-> G].
  unfold reads in R. rewrite R in G. inversion G; subst c. unfold h_datum_owned in E.
  apply bind_inl in E as (y & d & G2 & E). apply lift_inl in G2 as [-> G2].
  destruct t; try discriminate. inversion G2; subst d.
  apply bind_inl in E as (y & id & G3 & E). apply lift_inl in G3 as [-> G3].
  unfold ebind, egetitem, eopt, hashable in G3. destruct (dget "datum_id" kv) as [v|] eqn:Gd; [|discriminate].
  destruct (is_atom v) eqn:Av; [|discriminate]. inversion G3; subst v.
  apply bind_inl in E as (y & n & G4 & E). apply get_ns_inl in G4 as [-> ->].
  apply put_ns_inl in E as ->. exists kv, id. auto.
Qed.

Lemma h_event_ok : forall ref t x x', reads (st x) ref t -> h_event ref x = (x', inl tt) ->
  h_event_tree t x = (x', inl tt).
Proof.
  intros ref t x x' R E. unfold h_event in E.
  apply bind_inl in E as (y & c & G & E). apply deepcopy_inl in G as [-> G].
  unfold reads in R. rewrite R in G. now inversion G; subst.
Qed.

(* ------------------------------------------------------------------ descriptor *)

Definition ext_same (a b : dict) : Prop :=
  Forall2 (fun p q : string * val => fst p = fst q /\ is_external (snd q) = is_external (snd p)) a b.

Lemma ext_same_refl : forall a, ext_same a a.
Proof. induction a; constructor; auto. Qed.

Lemma ext_same_trans : forall a b c, ext_same a b -> ext_same b c -> ext_same a c.
Proof.
  intros a b c H; revert c. induction H as [|p q a b [H1 H2] Hab IH]; intros c Hc; inversion Hc; subst; constructor.
  - destruct H3 as [H3 H4]. split; congruence.
  - now apply IH.
Qed.

Definition has_key_ext (want : bool) (k : string) (dks : dict) : bool :=
  existsb (fun kv => String.eqb k (fst kv) && Bool.eqb (is_external (snd kv)) want) dks.

Lemma ext_same_has_key : forall want k a b, ext_same a b -> has_key_ext want k a = has_key_ext want k b.
Proof.
  intros want k a b H. induction H as [|p q a b [H1 H2] Hab IH]; simpl; [reflexivity|].
  now rewrite H1, H2, IH.
Qed.

Lemma ext_same_keys : forall a b, ext_same a b -> map fst a = map fst b.
Proof. intros a b H. induction H as [|p q a b [H1 H2] Hab IH]; simpl; congruence. Qed.

Lemma dhas_dset_other : forall k k' v d, String.eqb k k' = false -> dhas k (dset k' v d) = dhas k d.
Proof. intros. unfold dhas. now rewrite dget_dset_other. Qed.
Lemma dhas_ddel_other : forall k k' d, String.eqb k k' = false -> dhas k (ddel k' d) = dhas k d.
Proof. intros. unfold dhas. now rewrite dget_ddel_other. Qed.

Lemma norm_spec_external : forall v v', norm_spec v = inl v' -> is_external v' = is_external v.
Proof.
  intros v v' E. unfold norm_spec in E. destruct v; try discriminate. cbn [as_dict ebind] in E.
  unfold dpop in E.
  set (s2 := ddel "dtype_str" (ddel "dtype_descr" kv)) in *.
  assert (X : dhas "external" s2 = dhas "external" kv).
  { subst s2. now rewrite !dhas_ddel_other by reflexivity. }
  assert (Y : forall s3, dhas "external" s3 = dhas "external" s2 -> is_external (VDict s3) = is_external (VDict kv)).
  { intros s3 H. unfold is_external. cbn [dict_of]. now rewrite H. }
  destruct (as_list _) as [ddl|]; cbn [ebind] in E; [|discriminate].
  destruct (negb (all_lists ddl)); [discriminate|].
  destruct (truthy _).
  { inversion E; subst. apply Y. now rewrite dhas_dset_other by reflexivity. }
  destruct (truthy _).
  { inversion E; subst. apply Y. now rewrite dhas_dset_other by reflexivity. }
  unfold ebind, egetitem, eopt, hashable in E. destruct (dget "dtype" s2) as [dt|]; [|discriminate].
  destruct (is_atom dt); [|discriminate].
  destruct dt; try (inversion E; subst; apply Y; reflexivity).
  destruct (slookup s JSON_TO_NUMPY_DTYPE); inversion E; subst; apply Y;
    [now rewrite dhas_dset_other by reflexivity | reflexivity].
Qed.

Lemma map_vals_forall2 : forall f d d', map_vals f d = inl d' ->
  Forall2 (fun p q : string * val => fst p = fst q /\ f (snd p) = inl (snd q)) d d'.
Proof.
  induction d as [|[k v] d IH]; intros d' E; simpl in E.
  - inversion E. constructor.
  - unfold ebind in E. destruct (f v) as [v'|] eqn:Ev; [|discriminate].
    destruct (map_vals f d) as [r|] eqn:Er; [|discriminate]. inversion E; subst. constructor; auto.
Qed.

Lemma map_vals_norm_ext_same : forall d d', map_vals norm_spec d = inl d' -> ext_same d d'.
Proof.
  intros d d' E. apply map_vals_forall2 in E. induction E as [|p q a b [H1 H2] Hab IH]; constructor; auto.
  split; [assumption | now apply norm_spec_external].
Qed.

Lemma desc_norm_specs_spec : forall d d' dks,
  desc_norm_specs d = inl d' -> dget "data_keys" d = Some (VDict dks) ->
  exists dks', dget "data_keys" d' = Some (VDict dks') /\ ext_same dks dks' /\
    (forall k, String.eqb k "data_keys" = false -> String.eqb k "configuration" = false -> dget k d' = dget k d).
Proof.
  intros d d' dks E G. unfold desc_norm_specs in E. unfold ebind, egetitem, eopt in E.
  destruct (dget "configuration" d) as [cv|]; [|discriminate]. simpl in E.
  destruct (as_dict cv) as [conf|]; [|discriminate]. simpl in E.
  destruct (conf_check conf); [|discriminate]. simpl in E.
  rewrite G in E. simpl in E.
  destruct (map_vals norm_spec dks) as [dks'|] eqn:M; [|discriminate]. simpl in E.
  match type of E with context [map_vals ?f conf] => destruct (map_vals f conf) as [conf'|]; [|discriminate] end.
  simpl in E. inversion E; subst d'. exists dks'. repeat split.
  - rewrite dget_dset_other by reflexivity. apply dget_dset_same.
  - now apply map_vals_norm_ext_same.
  - intros k K1 K2. now rewrite !dget_dset_other by assumption.
Qed.

Lemma dset_existing_ext_same : forall k sd x dks,
  dget k dks = Some (VDict sd) -> String.eqb "external" "object_name" = false ->
  ext_same dks (dset k (VDict (dset "object_name" x sd)) dks).
Proof.
  induction dks as [|[k' v'] dks IH]; intros G _; simpl in *; [discriminate|].
  destruct (String.eqb k k') eqn:E.
  - inversion G; subst v'. constructor; [|apply ext_same_refl]. split; [reflexivity|].
    unfold is_external. simpl. now rewrite dhas_dset_other by reflexivity.
  - constructor; [split; reflexivity | now apply IH].
Qed.

Lemma set_object_names_ext_same : forall obj keys dks dks',
  set_object_names obj keys dks = inl dks' -> ext_same dks dks'.
Proof.
  induction keys as [|k keys IH]; intros dks dks' E; simpl in E.
  - inversion E; subst. apply ext_same_refl.
  - unfold ebind, hashable in E. destruct (is_atom k); [|discriminate]. simpl in E.
    destruct k; try discriminate. unfold egetitem, eopt in E.
    destruct (dget s dks) as [spec|] eqn:G; [|discriminate]. simpl in E.
    destruct spec; try discriminate. simpl in E.
    eapply ext_same_trans; [|eapply IH; exact E]. now apply dset_existing_ext_same.
Qed.

Lemma desc_object_names_ext_same : forall ok dks dks',
  desc_object_names ok dks = inl dks' -> ext_same dks dks'.
Proof.
  induction ok as [|[obj lst] ok IH]; intros dks dks' E; simpl in E.
  - inversion E; subst. apply ext_same_refl.
  - unfold ebind in E. destruct (as_list lst) as [l|]; [|discriminate]. simpl in E.
    destruct (set_object_names obj l dks) as [d1|] eqn:S; [|discriminate]. simpl in E.
    eapply ext_same_trans; [eapply set_object_names_ext_same; exact S | eapply IH; exact E].
Qed.

Lemma mem_str_add : forall k x l, mem_str k (add_str x l) = String.eqb k x || mem_str k l.
Proof.
  intros k x l. unfold add_str. destruct (mem_str x l) eqn:M.
  - destruct (String.eqb k x) eqn:E; [apply String.eqb_eq in E; subst; now rewrite M | reflexivity].
  - induction l as [|y l IH]; simpl in *; [now rewrite orb_false_r|].
    apply orb_false_iff in M as [M1 M2]. rewrite (IH M2). destruct (String.eqb k y), (String.eqb k x); reflexivity.
Qed.

Lemma split_keys_spec : forall dks i e i' e', split_keys dks i e = inl (i', e') ->
  forall k, mem_str k e' = mem_str k e || has_key_ext true k dks
        /\ mem_str k i' = mem_str k i || has_key_ext false k dks.
Proof.
  induction dks as [|[k0 spec] dks IH]; intros i e i' e' E k; simpl in E.
  - inversion E; subst. simpl. now rewrite !orb_false_r.
  - unfold ebind in E. destruct (as_dict spec) as [sd|] eqn:A; [|discriminate]. simpl in E.
    assert (X : is_external spec = dhas "external" sd) by (destruct spec; try discriminate; inversion A; reflexivity).
    unfold has_key_ext in *. simpl. rewrite X. destruct (dhas "external" sd).
    + destruct (IH _ _ _ _ E k) as [H1 H2]. rewrite H1, H2, mem_str_add. simpl.
      split; [|now rewrite andb_false_r].
      rewrite andb_true_r. destruct (mem_str k e), (String.eqb k k0); reflexivity.
    + destruct (IH _ _ _ _ E k) as [H1 H2]. rewrite H1, H2, mem_str_add. simpl.
      split; [now rewrite andb_false_r|].
      rewrite andb_true_r. destruct (mem_str k i), (String.eqb k k0); reflexivity.
Qed.

Lemma desc_rename_one_free : forall name d dks, dget "data_keys" d = Some (VDict dks) -> dget name dks = None ->
  desc_rename_one name d = inl d.
Proof. intros name d dks G N. unfold desc_rename_one, ebind, egetitem, eopt. rewrite G. simpl. now rewrite N. Qed.

Lemma reserved_free_spec : forall d, reserved_free d = true ->
  dget "time" d = None /\ dget "seq_num" d = None /\ dget "_time" d = None /\ dget "_seq_num" d = None.
Proof.
  intros d H. unfold reserved_free, dhas in H.
  destruct (dget "time" d), (dget "seq_num" d), (dget "_time" d), (dget "_seq_num" d); simpl in H; try discriminate; auto.
Qed.

(* the descriptor handler, for a descriptor whose data keys avoid the reserved names *)
Lemma h_descriptor_ok : forall ref d0 dks0 x x',
  reads (st x) ref (VDict d0) -> dget "data_keys" d0 = Some (VDict dks0) -> reserved_free dks0 = true ->
  h_descriptor ref x = (x', inl tt) ->
  exists snap uid name,
    out x' = out x ++ [("descriptor", snap)] /\ st x' = st x /\
    dget "uid" d0 = Some uid /\ is_atom uid = true /\ dget "name" d0 = Some name /\
    desc_names (ns x') = vset uid name (desc_names (ns x)) /\
    (forall k, mem_str k (ext_keys (ns x')) = mem_str k (ext_keys (ns x)) || has_key_ext true k dks0) /\
    (forall k, mem_str k (int_keys (ns x')) = mem_str k (int_keys (ns x)) || has_key_ext false k dks0) /\
    datum_cache (ns x') = datum_cache (ns x) /\ ext_refs (ns x') = ext_refs (ns x) /\
    next_frame (ns x') = next_frame (ns x).
Proof.
  intros ref d0 dks0 x x' R G RF E. unfold h_descriptor in E.
  apply bind_inl in E as (y & c & D & E). apply deepcopy_inl in D as [-> D].
  unfold reads in R. rewrite R in D. inversion D; subst c; clear D.
  apply bind_inl in E as (y & d & D & E). apply lift_inl in D as [-> D]. inversion D; subst d; clear D.
  destruct (reserved_free_spec _ RF) as (F1 & F2 & _ & _).
  apply bind_inl in E as (y & d1 & D & E). apply lift_inl in D as [-> D].
  rewrite (desc_rename_one_free _ _ _ G F1) in D. inversion D; subst d1; clear D.
  apply bind_inl in E as (y & d1 & D & E). apply lift_inl in D as [-> D].
  rewrite (desc_rename_one_free _ _ _ G F2) in D. inversion D; subst d1; clear D.
  apply bind_inl in E as (y & d1 & D & E). apply lift_inl in D as [-> D].
  destruct (desc_norm_specs_spec _ _ _ D G) as (dks1 & G1 & S1 & O1).
  apply bind_inl in E as (y & ok & D2 & E). apply lift_inl in D2 as [-> D2].
  apply bind_inl in E as (y & dksx & D3 & E). apply lift_inl in D3 as [-> D3].
  unfold ebind, egetitem, eopt in D3. rewrite G1 in D3. simpl in D3. inversion D3; subst dksx; clear D3.
  apply bind_inl in E as (y & dks2 & D4 & E). apply lift_inl in D4 as [-> D4].
  assert (S2 := desc_object_names_ext_same _ _ _ D4).
  apply bind_inl in E as (y & n & D5 & E). apply get_ns_inl in D5 as [-> ->].
  apply bind_inl in E as (y & ie & D6 & E). apply lift_inl in D6 as [-> D6]. destruct ie as [i' e'].
  apply bind_inl in E as (y & u & D7 & E). apply put_ns_inl in D7 as ->.
  apply bind_inl in E as (y & dks3 & D8 & E). apply lift_inl in D8 as [-> _].
  apply bind_inl in E as (y & name & D9 & E). apply lift_inl in D9 as [-> D9].
  apply bind_inl in E as (y & uid & D10 & E). apply lift_inl in D10 as [-> D10].
  apply bind_inl in E as (y & n & D11 & E). apply get_ns_inl in D11 as [-> ->].
  apply bind_inl in E as (y & u2 & D12 & E). apply put_ns_inl in D12 as ->.
  apply emit_inl in E as (snap & _ & ->).
  unfold egetitem, eopt in D9. rewrite dget_dset_other in D9 by reflexivity. rewrite O1 in D9 by reflexivity.
  unfold ebind, egetitem, eopt, hashable in D10. rewrite dget_dset_other in D10 by reflexivity. rewrite O1 in D10 by reflexivity.
  destruct (dget "name" d0) as [nm|] eqn:Gn; [|discriminate]. inversion D9; subst nm.
  destruct (dget "uid" d0) as [uv|] eqn:Gu; [|discriminate]. simpl in D10.
  destruct (is_atom uv) eqn:Au; [|discriminate]. inversion D10; subst uv.
  assert (S := ext_same_trans _ _ _ S1 S2).
  exists snap, uid, name. cbn. repeat split; auto.
  - intros k. destruct (split_keys_spec _ _ _ _ _ D6 k) as [H _]. cbn in H. rewrite H. f_equal.
    symmetry. now apply ext_same_has_key.
  - intros k. destruct (split_keys_spec _ _ _ _ _ D6 k) as [_ H]. cbn in H. rewrite H. f_equal.
    symmetry. now apply ext_same_has_key.
Qed.

(* ------------------------------------------------------------------ event *)

Lemma event_rename_one_free : forall name d data fl,
  dget "data" d = Some (VDict data) -> dget "filled" d = Some (VDict fl) ->
  dget name data = None -> dget name fl = None -> event_rename_one name d = inl d.
Proof.
  intros name d data fl G1 G2 N1 N2. unfold event_rename_one, ebind, egetitem, eopt.
  rewrite G1. simpl. rewrite N1, G2. simpl. now rewrite N2.
Qed.

(* without reserved names the Event handler's split is a plain filter *)
Lemma event_split_free : forall i e d data fl ev ext du sq,
  dget "data" d = Some (VDict data) -> dget "filled" d = Some (VDict fl) ->
  reserved_free data = true -> reserved_free fl = true ->
  event_split i e d = inl (ev, ext, du, sq) ->
  ext = filter (fun kv : string * val => mem_str (fst kv) e && negb (in_event_keys i e fl (fst kv))) data /\
  du = get_or "descriptor" d VNone /\ sq = get_or "seq_num" d VNone /\
  dget "uid" ev = dget "uid" d.
Proof.
  intros i e d data fl ev ext du sq G1 G2 R1 R2 E.
  destruct (reserved_free_spec _ R1) as (A1 & A2 & _ & _). destruct (reserved_free_spec _ R2) as (B1 & B2 & _ & _).
  unfold event_split in E.
  rewrite (event_rename_one_free "time" d data fl G1 G2 A1 B1) in E. cbn [ebind] in E.
  rewrite (event_rename_one_free "seq_num" d data fl G1 G2 A2 B2) in E. cbn [ebind] in E.
  rewrite G2 in E. cbn [as_dict ebind] in E. unfold egetitem, eopt in E.
  rewrite dget_ddel_other in E by reflexivity. rewrite G1 in E. cbn [as_dict ebind] in E.
  rewrite dget_ddel_other in E by reflexivity.
  destruct (dget "timestamps" d) as [[]|]; try discriminate. cbn [as_dict ebind] in E.
  inversion E; subst. repeat split.
  - unfold get_or. now rewrite dget_ddel_other by reflexivity.
  - unfold get_or. now rewrite dget_ddel_other by reflexivity.
  - rewrite !dget_dset_other by reflexivity. now rewrite dget_ddel_other by reflexivity.
Qed.

Definition frame_val (kv : dict) : val := get_or "frame" (dict_of (get_or "datum_kwargs" kv (VDict []))) VNone.

(* the frame branch of the conversion *)
Lemma convert_datum_frame_spec : forall ddk data_key desc_uid seq_num x x' sres sdat f,
  noref (VDict ddk) = true -> frame_val ddk = VInt f ->
  convert_datum (VDict ddk) data_key desc_uid seq_num x = (x', inl (sres, sdat)) ->
  exists dn, vget desc_uid (desc_names (ns x)) = Some (VStr dn) /\
    ns x' = with_next_frame (ns x) (nf_set (dn, data_key) (fst (frame_step (nf_get (dn, data_key) (next_frame (ns x))) f)) (next_frame (ns x))) /\
    exists did suid,
      dget "datum_id" ddk = Some did /\
      sdat = VDict [("uid", did); ("stream_resource", VStr (suid +++ "-" +++ data_key)); ("descriptor", desc_uid);
                    ("indices", range_doc (fst (snd (frame_step (nf_get (dn, data_key) (next_frame (ns x))) f)))
                                          (snd (snd (frame_step (nf_get (dn, data_key) (next_frame (ns x))) f))));
                    ("seq_nums", range_doc (fst (snd (frame_step (nf_get (dn, data_key) (next_frame (ns x))) f)) + 1)
                                           (snd (snd (frame_step (nf_get (dn, data_key) (next_frame (ns x))) f)) + 1))].
Proof.
  intros ddk data_key desc_uid seq_num x x' sres sdat f N FV E. unfold convert_datum in E.
  apply bind_inl in E as (x1 & dd & E1 & E). apply load_dict_inl in E1 as [-> ->].
  rewrite noref_dict in N.
  unfold frame_val, get_or in FV.
  destruct (dget "datum_kwargs" ddk) as [kwv|] eqn:Gk; [|simpl in FV; discriminate].
  assert (Nk : noref kwv = true) by exact (allnoref_dget _ _ _ N Gk).
  destruct kwv as [| | | | |kw0| |]; try (simpl in FV; discriminate).
  cbn [dict_of] in FV. destruct (dget "frame" kw0) as [fv|] eqn:Gf; [|discriminate]. subst fv.
  apply bind_inl in E as (x1 & kw & E1 & E). apply load_dict_inl in E1 as [-> ->].
  apply bind_inl in E as (x1 & u & E1 & E). apply mut_dict_inl in E1 as [-> _].
  apply bind_inl in E as (x1 & rng & E1 & E). destruct rng as [i0 i1]. rewrite Gf in E1.
  apply bind_inl in E1 as (y1 & n & G1 & E1). apply get_ns_inl in G1 as [-> ->].
  apply bind_inl in E1 as (y1 & du & G1 & E1). apply lift_inl in G1 as [-> G1].
  unfold hashable in G1. destruct (is_atom desc_uid); [|discriminate]. inversion G1; subst du.
  apply bind_inl in E1 as (y1 & dn & G2 & E1). apply of_opt_inl in G2 as [-> G2].
  apply bind_inl in E1 as (y1 & dn' & G3 & E1). apply lift_inl in G3 as [-> G3].
  destruct dn; try discriminate. inversion G3; subst dn'.
  destruct (frame_step (nf_get (s, data_key) (next_frame (ns x))) f) as [ci' r] eqn:FS.
  apply bind_inl in E1 as (y1 & u' & G4 & E1). apply put_ns_inl in G4 as ->.
  apply ret_inl in E1 as [-> E1]. inversion E1; subst r.
  apply bind_inl in E as (x2 & sres_uid & E2 & E). apply lift_inl in E2 as [-> E2].
  apply bind_inl in E as (x2 & suid & E3 & E). apply lift_inl in E3 as [-> E3].
  apply bind_inl in E as (x2 & n & E4 & E). apply get_ns_inl in E4 as [-> ->].
  apply bind_inl in E as (x2 & sr & E5 & E).
  assert (X : x2 = upd_ns x (with_next_frame (ns x) (nf_set (s, data_key) ci' (next_frame (ns x))))).
  { cbn [ns upd_ns sres_cache with_next_frame emitted] in E5.
    destruct (vget sres_uid (sres_cache (ns x))); [|now apply ret_inl in E5].
    destruct (mem_str _ _); [now apply ret_inl in E5|].
    apply bind_inl in E5 as (y & c & G & E5). apply deepcopy_inl in G as [-> _].
    apply bind_inl in E5 as (y & cd & G & E5). apply lift_inl in G as [-> _].
    apply bind_inl in E5 as (y & p & G & E5). apply lift_inl in G as [-> _].
    apply bind_inl in E5 as (y & pd & G & E5). apply lift_inl in G as [-> _].
    now apply ret_inl in E5. }
  subst x2.
  apply bind_inl in E as (x2 & did & E6 & E). apply lift_inl in E6 as [-> E6].
  apply ret_inl in E as [-> E]. inversion E; subst sres sdat.
  exists s. rewrite FS. cbn [fst snd]. split; [exact G2|]. split; [reflexivity|].
  unfold egetitem, eopt in E2, E6. destruct (dget "resource" ddk) as [rv|]; [|discriminate].
  inversion E2; subst rv. destruct sres_uid; try discriminate. inversion E3; subst.
  destruct (dget "datum_id" ddk) as [dv|]; [|discriminate]. inversion E6; subst dv.
  exists did, suid. split; reflexivity.
Qed.

Lemma frame_val_no_frame : forall kv, frame_val kv = VNone -> no_frame kv.
Proof.
  intros kv H. unfold frame_val, get_or in H. unfold no_frame, datum_frame.
  destruct (dget "datum_kwargs" kv) as [[]|]; auto. cbn [dict_of] in H.
  destruct (dget "frame" kv0) as [v|]; auto. subst. auto.
Qed.

(* a conversion only succeeds for a missing / null / integer frame *)
Lemma convert_datum_frame_kind : forall ddk data_key desc_uid seq_num x x' r,
  noref (VDict ddk) = true ->
  convert_datum (VDict ddk) data_key desc_uid seq_num x = (x', inl r) ->
  frame_val ddk = VNone \/ exists f, frame_val ddk = VInt f.
Proof.
  intros ddk data_key desc_uid seq_num x x' r N E. unfold convert_datum in E.
  apply bind_inl in E as (x1 & dd & E1 & E). apply load_dict_inl in E1 as [-> ->].
  rewrite noref_dict in N. unfold frame_val, get_or.
  destruct (dget "datum_kwargs" ddk) as [kwv|] eqn:Gk; [|left; reflexivity].
  assert (Nk : noref kwv = true) by exact (allnoref_dget _ _ _ N Gk).
  apply bind_inl in E as (x1 & kw & E1 & E).
  destruct kwv as [| | | | |kw0| |]; try (inversion E1; fail); try discriminate.
  apply load_dict_inl in E1 as [-> ->]. cbn [dict_of].
  apply bind_inl in E as (x1 & u & E1 & E). apply mut_dict_inl in E1 as [-> _].
  apply bind_inl in E as (x1 & rng & E1 & E).
  destruct (dget "frame" kw0) as [[| |f| | | | |]|]; try (exfalso; exact (fail_inl _ _ _ _ _ E1)); eauto.
Qed.

Definition noframe_rg (sq : val) : Z * Z := match sq with VInt z => ((z - 1)%Z, z) | _ => (0%Z, 0%Z) end.

Lemma snap_of_sdat : forall f s did suid du (i0 i1 : Z) snap, noref did = true ->
  readback f s (VDict [("uid", did); ("stream_resource", VStr suid); ("descriptor", du);
                       ("indices", range_doc i0 i1); ("seq_nums", range_doc (i0 + 1) (i1 + 1))]) = Some snap ->
  exists kvs, snap = VDict kvs /\ dget "uid" kvs = Some did /\ dget "indices" kvs = Some (range_doc i0 i1) /\
              dget "seq_nums" kvs = Some (range_doc (i0 + 1) (i1 + 1)).
Proof.
  intros f s did suid du i0 i1 snap N R. rewrite readback_dict in R.
  destruct (rb_kvs _ _) as [kv'|] eqn:Rk; [|discriminate]. inversion R; subst snap.
  exists kv'. split; [reflexivity|]. repeat split; (eapply rb_kvs_get; [exact Rk | reflexivity | auto]).
Qed.

(* one external reference of an Event, with everything it does to the normalizer state *)
Lemma ext_item_full : forall d du sq k id x x',
  inv (ns x) ->
  (forall dd, vget id (datum_cache (ns x)) = Some dd -> exists kv, dd = VDict kv /\ dget "datum_id" kv = Some id) ->
  ext_item d du sq (k, id) x = (x', inl tt) ->
  is_atom id = true /\ st x' = st x /\
  ((exists ddk l kvs i0 i1 t e,
      vget id (datum_cache (ns x)) = Some (VDict ddk) /\
      ns x' = with_emitted (with_next_frame (with_datum_cache (ns x) (vdel id (datum_cache (ns x)))) t) e /\
      out x' = out x ++ l ++ [("stream_datum", VDict kvs)] /\
      (l = [] \/ exists s, l = [("stream_resource", s)]) /\
      dget "uid" kvs = Some id /\ dget "indices" kvs = Some (range_doc i0 i1) /\
      dget "seq_nums" kvs = Some (range_doc (i0 + 1) (i1 + 1)) /\
      ((frame_val ddk = VNone /\ t = next_frame (ns x) /\ (i0, i1) = noframe_rg sq)
       \/ (exists f dn, frame_val ddk = VInt f /\ vget du (desc_names (ns x)) = Some (VStr dn) /\
             t = nf_set (dn, k) (fst (frame_step (nf_get (dn, k) (next_frame (ns x))) f)) (next_frame (ns x)) /\
             (i0, i1) = snd (frame_step (nf_get (dn, k) (next_frame (ns x))) f))))
   \/ (vget id (datum_cache (ns x)) = None /\ out x' = out x /\
       ns x' = with_ext_refs (ns x) (ext_refs (ns x) ++ [(id, k, du, sq)]))).
Proof.
  intros d du sq k id x x' I CK E. unfold ext_item in E.
  apply bind_inl in E as (x1 & od & E1 & E).
  unfold pop_datum in E1.
  apply bind_inl in E1 as (y & kk & G & E1). apply lift_inl in G as [-> G].
  unfold hashable in G. destruct (is_atom id) eqn:Aid; [|discriminate]. inversion G; subst kk; clear G.
  apply bind_inl in E1 as (y & n & G & E1). apply get_ns_inl in G as [-> ->].
  split; [reflexivity|].
  apply bind_inl in E as (x2 & u & E2 & E).
  assert (x2 = x1) by (destruct (_ && _); [now apply ret_inl in E2 | exfalso; exact (fail_inl _ _ _ _ _ E2)]).
  subst x2. clear E2.
  destruct (vget id (datum_cache (ns x))) as [dd|] eqn:V.
  - apply bind_inl in E1 as (y & u1 & G & E1). apply put_ns_inl in G as ->.
    apply ret_inl in E1 as [-> ->].
    destruct (cache_vget _ _ _ I V) as [N Dd]. destruct (CK _ eq_refl) as (kv & -> & Gid).
    assert (T : truthy (VDict kv) = true) by (destruct kv; [discriminate | reflexivity]).
    rewrite T in E.
    apply bind_inl in E as (x2 & [sres sdat] & E3 & E).
    assert (K := convert_datum_frame_kind _ _ _ _ _ _ _ N E3).
    destruct K as [K | [f K]].
    + assert (E3' := E3).
      apply convert_datum_spec in E3 as (C1 & C2 & C3 & (t & C4) & did & suid & i0 & i1 & C5 & C6 & C7 & C8); [|assumption].
      destruct (C8 (frame_val_no_frame _ K)) as (C9 & q & -> & -> & ->).
      apply emit_converted_spec in E as (l & snap & F1 & F2 & F3 & F4 & F5 & (e & F6)).
      rewrite Gid in C5. inversion C5; subst did. subst sdat.
      rewrite noref_dict in N. assert (Nd : noref id = true) by exact (allnoref_dget _ _ _ N Gid).
      destruct (snap_of_sdat _ _ _ _ _ _ _ _ Nd F3) as (kvs & -> & S1 & S2 & S3).
      split; [cbn in *; congruence|]. left.
      exists kv, l, kvs, (q - 1)%Z, q, (next_frame (ns x)), e. repeat split; auto.
      * rewrite F6, C9. reflexivity.
      * rewrite F1, C2. reflexivity.
    + destruct (convert_datum_frame_spec _ _ _ _ _ _ _ _ _ N K E3) as (dn & D1 & D2 & did & suid & D3 & D4).
      apply convert_datum_spec in E3 as (C1 & C2 & C3 & _); [|assumption].
      apply emit_converted_spec in E as (l & snap & F1 & F2 & F3 & F4 & F5 & (e & F6)).
      rewrite Gid in D3. inversion D3; subst did. subst sdat.
      rewrite noref_dict in N. assert (Nd : noref id = true) by exact (allnoref_dget _ _ _ N Gid).
      destruct (snap_of_sdat _ _ _ _ _ _ _ _ Nd F3) as (kvs & -> & S1 & S2 & S3).
      split; [cbn in *; congruence|]. left. cbn [ns upd_ns desc_names next_frame with_datum_cache] in *.
      exists kv, l, kvs. eexists. eexists. eexists. exists e. repeat split; eauto.
      * rewrite F6, D2. reflexivity.
      * rewrite F1, C2. reflexivity.
      * right. exists f, dn. repeat split; auto. now destruct (frame_step _ _) as [? [? ?]].
  - apply ret_inl in E1 as [-> ->].
    apply bind_inl in E as (x2 & n & G & E). apply get_ns_inl in G as [-> ->].
    apply put_ns_inl in E as ->. split; [reflexivity|]. right. auto.
Qed.

(* ================================================================== emitted-document bookkeeping *)

Lemma out_uids_app : forall name a b, out_uids name (a ++ b) = out_uids name a ++ out_uids name b.
Proof. intros. unfold out_uids. apply flat_map_app. Qed.

Lemma out_uids_sres_only : forall name l, (l = [] \/ exists s, l = [("stream_resource", s)]) ->
  String.eqb "stream_resource" name = false -> out_uids name l = [].
Proof. intros name l [->|[s ->]] H; [reflexivity|]. unfold out_uids. cbn [flat_map fst]. now rewrite H. Qed.

Lemma sdat_ranges_app_some : forall id o l r, sdat_ranges id o = Some r -> sdat_ranges id (o ++ l) = Some r.
Proof.
  induction o as [|[n v] o IH]; intros l r H; simpl in *; [discriminate|].
  destruct v; auto. destruct (String.eqb n "stream_datum" && _); auto.
Qed.

Lemma sdat_ranges_app_none : forall id o l,
  (forall u, In u (out_uids "stream_datum" o) -> atom_eqb u id = false) ->
  sdat_ranges id (o ++ l) = sdat_ranges id l.
Proof.
  induction o as [|[n v] o IH]; intros l H; simpl; [reflexivity|].
  assert (H' : forall u, In u (out_uids "stream_datum" o) -> atom_eqb u id = false).
  { intros u Hu. apply H. unfold out_uids in *. simpl. apply in_or_app. now right. }
  destruct v; try (now apply IH).
  destruct (String.eqb n "stream_datum") eqn:En; simpl; [|now apply IH].
  destruct (dget "uid" kv) as [u|] eqn:Gu; [|now apply IH].
  assert (X : atom_eqb u id = false).
  { apply H. unfold out_uids. simpl. rewrite En. simpl. unfold get_or. rewrite Gu. now left. }
  rewrite X. now apply IH.
Qed.

Lemma sdat_ranges_new : forall id l kvs i0 i1, is_atom id = true ->
  (l = [] \/ exists s, l = [("stream_resource", s)]) ->
  dget "uid" kvs = Some id -> dget "indices" kvs = Some (range_doc i0 i1) ->
  dget "seq_nums" kvs = Some (range_doc (i0 + 1) (i1 + 1)) ->
  sdat_ranges id (l ++ [("stream_datum", VDict kvs)]) = Some ((i0, i1), ((i0 + 1)%Z, (i1 + 1)%Z)).
Proof.
  intros id l kvs i0 i1 A L U I S.
  assert (X : sdat_ranges id [("stream_datum", VDict kvs)] = Some ((i0, i1), ((i0 + 1)%Z, (i1 + 1)%Z))).
  { simpl. rewrite U, (atom_eqb_refl _ A), I, S. reflexivity. }
  destruct L as [->|[s ->]]; [exact X|]. simpl app. cbn [sdat_ranges]. destruct s; exact X.
Qed.

Lemma rget_app_some : forall id a b r, rget id a = Some r -> rget id (a ++ b) = Some r.
Proof.
  induction a as [|[k v] a IH]; intros b r H; simpl in *; [discriminate|]. destruct (atom_eqb id k); auto.
Qed.

Lemma rget_app_new : forall id a r, is_atom id = true ->
  (forall u, In u (map fst a) -> atom_eqb id u = false) -> rget id (a ++ [(id, r)]) = Some r.
Proof.
  induction a as [|[k v] a IH]; intros r A H; simpl.
  - now rewrite atom_eqb_refl.
  - rewrite (H k) by (simpl; auto). apply IH; auto. intros u Hu. apply H. simpl. auto.
Qed.

(* ================================================================== the run invariant (datum / stream-datum part) *)

Definition ref_id (r : val * string * val * val) : val := fst (fst (fst r)).

Definition cache_entry_ok (frames : list (val * val)) (p : val * val) : Prop :=
  exists kv, snd p = VDict kv /\ dget "datum_id" kv = Some (fst p) /\ vget (fst p) frames = Some (frame_val kv).

Record J (frames : list (val * val)) (x : mst) (nfS : list ((string * string) * (Z * Z)))
         (SP : list (val * (Z * Z))) (C PTP Darr : list val) : Prop := {
  j_inv : inv (ns x);
  j_nf : next_frame (ns x) = nfS;
  j_cache : Forall (cache_entry_ok frames) (datum_cache (ns x));
  j_sd : Permutation (out_uids "stream_datum" (out x)) (PTP ++ C);
  j_acct : Permutation (C ++ map ref_id (ext_refs (ns x))) (map fst SP);
  j_rng : forall id, In id C -> exists rg, rget id SP = Some rg /\
            sdat_ranges id (out x) = Some (rg, ((fst rg + 1)%Z, (snd rg + 1)%Z));
  j_pend : forall id k du sq, In (id, k, du, sq) (ext_refs (ns x)) ->
            rget id SP = Some (noframe_rg sq) /\
            (forall dd, vget id (datum_cache (ns x)) = Some dd -> exists kv, dd = VDict kv /\ frame_val kv = VNone);
  j_comp : forall id, In id Darr -> vget id (datum_cache (ns x)) <> None \/ In id C
}.

Lemma vget_in : forall k c v, vget k c = Some v -> exists k', In (k', v) c /\ k = k'.
Proof.
  induction c as [|[k1 v1] c IH]; simpl; intros v H; [discriminate|].
  destruct (atom_eqb k k1) eqn:E.
  - inversion H; subst. apply atom_eqb_eq in E. subst. eauto.
  - destruct (IH _ H) as (k' & I & ->). eauto.
Qed.

Lemma Forall_vdel : forall (P : val * val -> Prop) k c, Forall P c -> Forall P (vdel k c).
Proof.
  induction c as [|[k1 v1] c IH]; simpl; intros H; [constructor|]. inversion H; subst.
  destruct (atom_eqb k k1); [assumption | constructor; auto].
Qed.

Lemma Forall_vset : forall (P : val * val -> Prop) k v c, Forall P c -> P (k, v) ->
  (forall k' v', P (k', v') -> atom_eqb k k' = true -> P (k', v)) -> Forall P (vset k v c).
Proof.
  induction c as [|[k1 v1] c IH]; simpl; intros H Pk Hk; [constructor; auto|]. inversion H; subst.
  destruct (atom_eqb k k1) eqn:E; constructor; auto. apply atom_eqb_eq in E. now subst.
Qed.

Definition spec_item (frames : list (val * val)) (dn : string) (q : val)
           (nf : list ((string * string) * (Z * Z))) (kid : string * val)
  : list ((string * string) * (Z * Z)) * (Z * Z) :=
  match vget (snd kid) frames with
  | Some (VInt f) => (nf_set (dn, fst kid) (fst (frame_step (nf_get (dn, fst kid) nf) f)) nf,
                      snd (frame_step (nf_get (dn, fst kid) nf) f))
  | _ => (nf, noframe_rg q)
  end.

Lemma spec_items_cons : forall frames dn q nf k id r,
  spec_items frames dn q nf ((k, id) :: r) =
  (fst (spec_items frames dn q (fst (spec_item frames dn q nf (k, id))) r),
   (id, snd (spec_item frames dn q nf (k, id))) :: snd (spec_items frames dn q (fst (spec_item frames dn q nf (k, id))) r)).
Proof.
  intros. cbn [spec_items]. unfold spec_item, noframe_rg. cbn [fst snd].
  destruct (vget id frames) as [v|].
  - destruct v as [| |f| | | | |]; simpl fst; simpl snd;
      try (destruct (spec_items frames dn q nf r) as [aa bb]; reflexivity).
    destruct (frame_step (nf_get (dn, k) nf) f) as [ci' rg]. simpl fst; simpl snd.
    destruct (spec_items frames dn q (nf_set (dn, k) ci' nf) r) as [a b]. reflexivity.
  - simpl fst; simpl snd. destruct (spec_items frames dn q nf r) as [a b]. reflexivity.
Qed.

Lemma cache_vget_ok : forall frames c id dd, Forall (cache_entry_ok frames) c -> vget id c = Some dd ->
  exists kv, dd = VDict kv /\ dget "datum_id" kv = Some id /\ vget id frames = Some (frame_val kv).
Proof.
  intros frames c id dd F V. destruct (vget_in _ _ _ V) as (k' & I & ->).
  rewrite Forall_forall in F. destruct (F _ I) as (kv & A & B & C0). simpl in *. eauto.
Qed.

Lemma perm_app_swap_end : forall (a b : list val) x, Permutation ((a ++ [x]) ++ b) ((a ++ b) ++ [x]).
Proof.
  intros. rewrite <- !app_assoc. apply Permutation_app_head. simpl. apply Permutation_cons_append.
Qed.

(* one external reference of an Event advances the specification by one item *)
Lemma item_step : forall frames x nfS SP C PTP Darr d du sq k id dnS x',
  J frames x nfS SP C PTP Darr ->
  ext_item d du sq (k, id) x = (x', inl tt) ->
  (forall u, In u (map fst SP) -> atom_eqb id u = false) ->
  (forall u, In u PTP -> atom_eqb u id = false) ->
  (forall f, vget id frames = Some (VInt f) -> In id Darr) ->
  (forall dn, vget du (desc_names (ns x)) = Some (VStr dn) -> dnS = dn) ->
  exists C',
    J frames x' (fst (spec_item frames dnS sq nfS (k, id))) (SP ++ [(id, snd (spec_item frames dnS sq nfS (k, id)))]) C' PTP Darr /\
    st x' = st x /\ int_keys (ns x') = int_keys (ns x) /\ ext_keys (ns x') = ext_keys (ns x) /\
    desc_names (ns x') = desc_names (ns x) /\ out_uids "event" (out x') = out_uids "event" (out x).
Proof.
  intros frames x nfS SP C PTP Darr d du sq k id dnS x' Jx E Fresh HPT Late Hdn.
  destruct Jx as [Ji Jn Jc Js Ja Jr Jp Jm].
  assert (CK : forall dd, vget id (datum_cache (ns x)) = Some dd -> exists kv, dd = VDict kv /\ dget "datum_id" kv = Some id).
  { intros dd V. destruct (cache_vget_ok _ _ _ _ Jc V) as (kv & A & B & _). eauto. }
  destruct (keeps_ext_item d du sq (k, id) _ _ _ Ji E) as (_ & Ji' & _).
  destruct (ext_item_full _ _ _ _ _ _ _ Ji CK E) as (Aid & St & Cases).
  assert (CsubSP : forall u, In u C -> In u (map fst SP)).
  { intros u Hu. eapply Permutation_in; [exact Ja|]. apply in_or_app. now left. }
  assert (PsubSP : forall r, In r (ext_refs (ns x)) -> In (ref_id r) (map fst SP)).
  { intros r Hr. eapply Permutation_in; [exact Ja|]. apply in_or_app. right. now apply in_map. }
  destruct Cases as [(ddk & l & kvs & i0 & i1 & t & e & V & Nx & Ox & L & U1 & U2 & U3 & Kind) | (V & Ox & Nx)].
  - (* the Datum was there: one StreamDatum *)
    destruct (cache_vget_ok _ _ _ _ Jc V) as (kv & Ekv & _ & Tab). inversion Ekv; subst kv; clear Ekv.
    assert (SPI : spec_item frames dnS sq nfS (k, id) = (t, (i0, i1))).
    { unfold spec_item. cbn [fst snd]. rewrite Tab. destruct Kind as [(K1 & K2 & K3) | (f & dn & K1 & K2 & K3 & K4)].
      - rewrite K1. rewrite K2, K3, Jn. reflexivity.
      - rewrite K1. rewrite (Hdn _ K2). rewrite K3, K4, Jn. reflexivity. }
    rewrite SPI. cbn [fst snd].
    exists (C ++ [id]). rewrite Nx in Ji'. split; [|rewrite Nx; cbn; repeat split; auto].
    + constructor; rewrite ?Nx; cbn.
      * exact Ji'.
      * reflexivity.
      * now apply Forall_vdel.
      * rewrite Ox, !out_uids_app. rewrite (out_uids_sres_only _ _ L) by reflexivity.
        unfold out_uids at 2. cbn. unfold get_or. rewrite U1. cbn.
        rewrite app_assoc. apply Permutation_app_tail. exact Js.
      * rewrite map_app. cbn. eapply perm_trans; [apply perm_app_swap_end|]. now apply Permutation_app_tail.
      * intros id' Hin. apply in_app_or in Hin as [Hin | [<- | []]].
        -- destruct (Jr _ Hin) as (rg & R1 & R2). exists rg. split; [now apply rget_app_some|].
           rewrite Ox. now apply sdat_ranges_app_some.
        -- exists (i0, i1). split; [now apply rget_app_new|]. rewrite Ox.
           rewrite sdat_ranges_app_none; [now apply sdat_ranges_new|].
           intros u Hu. assert (Hu' := Permutation_in _ Js Hu). apply in_app_or in Hu' as [Hu' | Hu'].
           ++ now apply HPT.
           ++ rewrite atom_eqb_sym. apply Fresh. now apply CsubSP.
      * intros id' k' du' sq' Hin. destruct (Jp _ _ _ _ Hin) as [P1 P2]. split; [now apply rget_app_some|].
        intros dd Vd. apply P2. rewrite vget_vdel_other in Vd; [exact Vd|].
        rewrite atom_eqb_sym. apply Fresh. exact (PsubSP _ Hin).
      * intros id' Hin. destruct (atom_eqb id' id) eqn:Eq.
        -- apply atom_eqb_eq in Eq. subst. right. apply in_or_app. right. now left.
        -- rewrite vget_vdel_other by exact Eq. destruct (Jm _ Hin); [now left | right; apply in_or_app; now left].
    + rewrite Ox, !out_uids_app. rewrite (out_uids_sres_only _ _ L) by reflexivity. cbn. now rewrite app_nil_r.
  - (* the Datum has not arrived: the reference is cached *)
    assert (NotInt : forall f, vget id frames <> Some (VInt f)).
    { intros f Hf. destruct (Jm _ (Late _ Hf)) as [Hc | Hc]; [now apply Hc|].
      assert (X := Fresh _ (CsubSP _ Hc)). now rewrite atom_eqb_refl in X. }
    assert (SPI : spec_item frames dnS sq nfS (k, id) = (nfS, noframe_rg sq)).
    { unfold spec_item. cbn [fst snd]. destruct (vget id frames) as [[| |f| | | | |]|]; try reflexivity.
      exfalso. now apply (NotInt f). }
    rewrite SPI. cbn [fst snd]. exists C. rewrite Nx in Ji'. split; [|rewrite Nx, Ox; cbn; repeat split; auto].
    constructor; rewrite ?Nx; cbn; auto.
    + now rewrite Ox.
    + rewrite !map_app. cbn. rewrite app_assoc. now apply Permutation_app_tail.
    + intros id' Hin. destruct (Jr _ Hin) as (rg & R1 & R2). exists rg. split; [now apply rget_app_some | now rewrite Ox].
    + intros id' k' du' sq' Hin. apply in_app_or in Hin as [Hin | [Hin | []]].
      * destruct (Jp _ _ _ _ Hin) as [P1 P2]. split; [now apply rget_app_some | exact P2].
      * inversion Hin; subst. split; [now apply rget_app_new|]. intros dd Vd. rewrite V in Vd. discriminate.
Qed.

Lemma nodup_atoms_cons : forall x l, nodup_atoms (x :: l) = true ->
  is_atom x = true /\ (forall u, In u l -> atom_eqb x u = false) /\ nodup_atoms l = true.
Proof.
  intros x l H. simpl in H. apply andb_true_iff in H as [H H3]. apply andb_true_iff in H as [H1 H2].
  repeat split; auto. intros u Hu. apply negb_true_iff in H2.
  destruct (atom_eqb x u) eqn:E; [|reflexivity]. exfalso.
  assert (existsb (atom_eqb x) l = true) by (apply existsb_exists; eauto). congruence.
Qed.

(* all the external references of one Event advance the specification by [spec_items] *)
Lemma items_step : forall frames d du sq dnS Darr PTP ext x nfS SP C x',
  J frames x nfS SP C PTP Darr ->
  forM ext (ext_item d du sq) x = (x', inl tt) ->
  nodup_atoms (map snd ext) = true ->
  (forall kid u, In kid ext -> In u (map fst SP) -> atom_eqb (snd kid) u = false) ->
  (forall kid u, In kid ext -> In u PTP -> atom_eqb u (snd kid) = false) ->
  (forall kid f, In kid ext -> vget (snd kid) frames = Some (VInt f) -> In (snd kid) Darr) ->
  (forall dn, vget du (desc_names (ns x)) = Some (VStr dn) -> dnS = dn) ->
  exists C',
    J frames x' (fst (spec_items frames dnS sq nfS ext)) (SP ++ snd (spec_items frames dnS sq nfS ext)) C' PTP Darr /\
    st x' = st x /\ int_keys (ns x') = int_keys (ns x) /\ ext_keys (ns x') = ext_keys (ns x) /\
    desc_names (ns x') = desc_names (ns x) /\ out_uids "event" (out x') = out_uids "event" (out x).
Proof.
  intros frames d du sq dnS Darr PTP ext; induction ext as [|[k id] ext IH];
    intros x nfS SP C x' Jx E ND Fresh HPT Late Hdn.
  - simpl in E. apply ret_inl in E as [-> _]. exists C. simpl. rewrite app_nil_r. auto 10.
  - simpl in E. apply bind_inl in E as (x1 & u & E1 & E). destruct u.
    simpl map in ND. destruct (nodup_atoms_cons _ _ ND) as (Aid & Dist & ND').
    destruct (item_step frames x nfS SP C PTP Darr d du sq k id dnS x1 Jx E1) as (C1 & J1 & S1 & I1 & X1 & N1 & O1).
    + intros u Hu. apply (Fresh (k, id)); simpl; auto.
    + intros u Hu. apply (HPT (k, id)); simpl; auto.
    + intros f Hf. apply (Late (k, id) f); simpl; auto.
    + exact Hdn.
    + destruct (IH _ _ _ _ _ J1 E ND') as (C' & J' & S' & I' & X' & N' & O').
      * intros kid u Hk Hu. rewrite map_app in Hu. apply in_app_or in Hu as [Hu | [<- | []]].
        -- apply (Fresh kid); simpl; auto.
        -- simpl. rewrite atom_eqb_sym. apply Dist. now apply (in_map snd) in Hk.
      * intros kid u Hk Hu. apply (HPT kid); simpl; auto.
      * intros kid f Hk Hf. apply (Late kid f); simpl; auto.
      * rewrite N1. exact Hdn.
      * exists C'. rewrite spec_items_cons. cbn [fst snd]. rewrite <- app_assoc in J'. simpl in J'.
        split; [exact J'|]. repeat split; congruence.
Qed.

Lemma J_emit_other : forall frames x nfS SP C PTP Darr name snap,
  String.eqb name "stream_datum" = false ->
  J frames x nfS SP C PTP Darr -> J frames (upd_out x (out x ++ [(name, snap)])) nfS SP C PTP Darr.
Proof.
  intros frames x nfS SP C PTP Darr name snap Hn [Ji Jn Jc Js Ja Jr Jp Jm].
  constructor; cbn [ns out upd_out st]; auto.
  - rewrite out_uids_app. unfold out_uids at 2. cbn [flat_map fst]. rewrite Hn. now rewrite !app_nil_r.
  - intros id Hin. destruct (Jr _ Hin) as (rg & R1 & R2). exists rg. split; [exact R1 | now apply sdat_ranges_app_some].
Qed.
