"""C31 - installed suspenders gate plan start and removal releases waiters.

The real RunEngine runs on an event loop with a manual clock (harness/drivers/gate_driver.py) with real
SuspendBoolHigh / SuspendFloor / SuspendCeil instances on fake signals.  A history is a list of
install / remove (RE.remove_suspender) / remove_direct (suspender.remove()) / signal value / call (RE(plan) with k
null messages, from a helper thread) / timer (advance the clock to the next pending release).  After every
operation, once the loop is quiescent: the messages msg_hook saw, whether the call returned, the engine state,
per suspender (RE attached, tripped, pending event), the releases scheduled (event, delay) and the events that
became set.  Engine/SuspGate.v has to produce exactly these records."""
import itertools
from fractions import Fraction

ID = "C31"
PROP_FILE = "Props/C31.v"
THEOREMS = ["C31_tripped_suspender_gates_the_plan", "C31_plan_starts_only_behind_open_gate", "C31_gate_event_set_only_by_release",
            "C31_remove_releases_and_detaches", "C31_removed_ignores_signals", "C31_remove_idempotent",
            "C31_engine_remove_of_unknown_is_noop", "C31_reachable_settled", "C31_removed_is_detached"]
COQ_IMPORTS = ("From BV Require Import Pure.SuspCond Engine.SuspGate.\nFrom Coq Require Import QArith.\nClose Scope Q_scope.")
MODELLED = ("Modelled (Engine/SuspGate.v): RunEngine.install_suspender/remove_suspender (membership in RE._suspenders), the gate of "
            "RunEngine.__call__ (get_futures of every installed suspender, the wait_for pushed above the plan), SuspenderBase."
            "install/remove/__call__/get_futures/__set_event through the model of Pure/SuspCond.v (C30) with globally numbered events, "
            "the release delay as a timer on a clock only the history advances, what the engine shows meanwhile (waits until every "
            "gate event is set, then processes the plan's messages and returns) and a suspension requested while it waits at the gate "
            "(_start_suspender / rewindable / wait_for, then _resume_from_suspender / rewindable and the gate's wait_for replayed). "
            "Outside the model, explicit in the theorems (in_model): a second call while one is active, a further suspension while one is "
            "under way (C11/C13), pause/abort at the gate (engine sweep), plans that do more than `null`. Trusted: asyncio.Event/"
            "asyncio.wait, the manual-clock loop of the harness, threading (the signal callbacks come from the harness thread as "
            "ophyd's come from a CA thread), event creation never timing out.")
RULE = ("exhaustive: after each of three prefixes (nothing; both installed; both installed and tripped) every history of <=3 operations (thorough <=4; <=2/3 without prefix) over {install, remove, remove_direct, trip, release} x 2 "
        "suspenders + {call, timer} with exactly one call, for two sleep assignments (0/2 and 2/0 ticks); random: 5-9 operations, "
        "1-2 calls, suspender classes BoolHigh/Floor/Ceil with hysteresis, sleeps from {0,2,3}, biased towards installing and tripping "
        "before the call and releasing/removing after it. non-trivial = a call that had to wait at the gate and later returned")

CLS = ["SuspendBoolHigh", "SuspendFloor", "SuspendCeil"]


# ----------------------------------------------------------------------------- case generation

def _std_sus(sleeps):
    # suspender 0: BoolHigh (trip 1 / release 0); suspender 1: Floor 3 with resume at 4 (trip 1 / release 5, 3.5 indecisive)
    return [{"cls": "SuspendBoolHigh", "args": [], "kw": {}, "sleep": sleeps[0], "v0": 0},
            {"cls": "SuspendFloor", "args": [3], "kw": {"resume_thresh": 4}, "sleep": sleeps[1], "v0": 5}]


TRIP = {0: 1, 1: 1}
REL = {0: 0, 1: 5}


def _alphabet():
    a = []
    for s in (0, 1):
        a += [["install", s], ["remove", s], ["remove_direct", s], ["signal", s, TRIP[s]], ["signal", s, REL[s]]]
    return a + [["timer"]]


def _exhaustive(maxlen):
    out = []
    alpha = _alphabet()
    for sleeps in ((0, 2), (2, 0)):
        for prefix in ([], [["install", 0], ["install", 1]], [["install", 0], ["install", 1], ["signal", 0, 1], ["signal", 1, 1]]):
            for n in range(1, (maxlen if prefix else maxlen - 1) + 1):
                for pos in range(n):
                    for rest in itertools.product(alpha, repeat=n - 1):
                        ops = [list(o) for o in rest]
                        ops.insert(pos, ["call", 2])
                        out.append({"sus": _std_sus(sleeps), "ops": [list(o) for o in prefix] + ops})
    return out


def _rand_case(rng):
    sus = []
    for _ in range(2):
        cls = rng.choice(CLS)
        if cls == "SuspendBoolHigh":
            sus.append({"cls": cls, "args": [], "kw": {}, "sleep": rng.choice([0, 2, 3]), "v0": 0, "trip": [1, 2], "rel": [0], "mid": []})
        elif cls == "SuspendFloor":
            sus.append({"cls": cls, "args": [3], "kw": {"resume_thresh": rng.choice([None, 4])}, "sleep": rng.choice([0, 2, 3]),
                        "v0": 5, "trip": [1, 2.5], "rel": [5, 4], "mid": [3.5]})
        else:
            sus.append({"cls": cls, "args": [3], "kw": {"resume_thresh": rng.choice([None, 2])}, "sleep": rng.choice([0, 2, 3]),
                        "v0": 0, "trip": [5, 3.5], "rel": [0, 2], "mid": [2.5]})
    ops = []
    active = False
    calls = 0

    def sus_op(bias):
        s = rng.randrange(2)
        x = rng.random()
        u = sus[s]
        if x < bias[0]:
            return ["install", s]
        if x < bias[1]:
            return ["signal", s, rng.choice(u["trip"])]
        if x < bias[2]:
            return ["signal", s, rng.choice(u["rel"] + u["mid"])]
        if x < bias[3]:
            return ["remove", s]
        return ["remove_direct", s]

    for _ in range(rng.randint(1, 4)):
        ops.append(sus_op((0.45, 0.8, 0.9, 0.96)))
    ops.append(["call", rng.choice([1, 2, 3])])
    for _ in range(rng.randint(1, 5)):
        if rng.random() < 0.25:
            ops.append(["timer"])
        else:
            ops.append(sus_op((0.1, 0.25, 0.6, 0.85)))
    if rng.random() < 0.3:
        # make sure everything is released, then a second call
        ops += [["remove", 0], ["remove", 1], ["timer"], ["timer"]]
        for _ in range(rng.randint(0, 2)):
            ops.append(sus_op((0.5, 0.9, 0.95, 0.98)))
        ops.append(["call", 1])
        for _ in range(rng.randint(0, 3)):
            ops.append(["timer"] if rng.random() < 0.3 else sus_op((0.1, 0.2, 0.6, 0.85)))
    for u in sus:
        for k in ("trip", "rel", "mid"):
            u.pop(k)
    return {"sus": sus, "ops": ops}


def cases(rng, tier):
    out = _exhaustive(3 if tier == "quick" else 4)
    n = 500 if tier == "quick" else 6000
    for _ in range(n):
        out.append(_rand_case(rng))
    return out


# ----------------------------------------------------------------------------- implementation side

_GATE = {}


def _gate():
    from harness.drivers.gate_driver import Gate
    if "g" not in _GATE:
        _GATE["g"] = Gate()
    return _GATE["g"]


def _args(c):
    kw = {k: v for k, v in c.get("kw", {}).items()}
    return list(c["args"]), kw


def impl(case):
    g = _gate()
    c2 = {"sus": [], "ops": case["ops"]}
    for c in case["sus"]:
        a, kw = _args(c)
        c2["sus"].append({"cls": c["cls"], "args": a, "kw": kw, "sleep": c["sleep"], "v0": c["v0"]})
    obs = g.run_case(c2)
    if obs["errors"]:
        _GATE.pop("g", None)
    return obs


# ----------------------------------------------------------------------------- Coq terms

def q(v):
    f = Fraction(v)
    n, d = f.numerator, f.denominator
    if d == 1:
        return "(Qdy %s 0)" % (("(%d)" % n) if n < 0 else str(n))
    assert d & (d - 1) == 0, v
    e = -(d.bit_length() - 1)
    return "(Qdy %s (%d))" % (("(%d)" % n) if n < 0 else str(n), e)


def cb(b):
    return "true" if b else "false"


def cl(xs, f=str):
    return "[" + "; ".join(f(x) for x in xs) + "]"


def copt(x, f):
    return "None" if x is None else "(Some %s)" % f(x)


def _ccfg(c):
    cls = c["cls"]
    if cls == "SuspendBoolHigh":
        su = "(@SBoolHigh Q)"
    else:
        s = c["args"][0]
        r = c.get("kw", {}).get("resume_thresh")
        r = s if r is None else r
        su = "(@%s Q %s %s)" % ("SFloor" if cls == "SuspendFloor" else "SCeil", q(s), q(r))
    return "(%s, %d, %s)" % (su, c["sleep"], q(c["v0"]))


def _cop(op):
    k = op[0]
    if k == "install":
        return "@Install Q %d" % op[1]
    if k == "remove":
        return "@Remove Q %d" % op[1]
    if k == "remove_direct":
        return "@RemoveDirect Q %d" % op[1]
    if k == "signal":
        return "@Signal Q %d %s" % (op[1], q(op[2]))
    if k == "call":
        return "@Call Q %d" % op[1]
    return "@ReleaseTimer Q"


def _cmsg(m):
    if m.startswith("wait_for:"):
        return "MWaitFor %s" % m.split(":")[1]
    if m.startswith("null:"):
        return "MNull %s" % m.split(":")[1]
    return {"_start_suspender": "MStartSusp", "rewindable": "MRewindable", "_resume_from_suspender": "MResumeSusp"}[m]


def _crec(r):
    sus = cl(r["sus"], lambda s: "(%s, %s, %s)" % (cb(s[0]), cb(s[1]), copt(s[2], str)))
    sched = cl(r["sched"], lambda p: "(%d, %d)" % (p[0], int(p[1])))
    return "mkO %s %s %s %s %s %s" % (cl(r["msgs"], _cmsg), cb(r["outcome"] == "Returned"), cb(r["running"]), sus, sched,
                                      cl(r["set"]))


def _expressible(obs):
    for r in obs["recs"]:
        if r["outcome"] not in (None, "Returned"):
            return False
        for m in r["msgs"]:
            if not (m.startswith("wait_for:") or m.startswith("null:") or m in ("_start_suspender", "rewindable", "_resume_from_suspender")):
                return False
        for p in r["sched"]:
            if p[1] != int(p[1]):
                return False
    return True


def in_model(case, obs):
    """Python mirror of in_model_from: no call while a call is active, no suspension requested during a suspension."""
    active, susp = False, False
    for op, r in zip(case["ops"], obs["recs"]):
        if op[0] == "call" and active:
            return False
        if "_start_suspender" in r["msgs"]:
            if susp:
                return False
            susp = True
        if "_resume_from_suspender" in r["msgs"]:
            susp = False
        active = r["running"]
        if not active:
            susp = False
    return True


def coq_term(case, obs):
    if obs["errors"] or len(obs["recs"]) != len(case["ops"]):
        return "false"
    if not in_model(case, obs):
        return None
    if not _expressible(obs):
        return "false"
    return "case_ok %s %s %s" % (cl(case["sus"], _ccfg), cl(case["ops"], _cop), cl(obs["recs"], lambda r: "(" + _crec(r) + ")"))


# ----------------------------------------------------------------------------- oracle (the property, implementation side)

def _decisions(c):
    cls = c["cls"]
    if cls == "SuspendBoolHigh":
        return (lambda v: bool(v)), (lambda v: not bool(v))
    s = c["args"][0]
    r = c.get("kw", {}).get("resume_thresh")
    r = s if r is None else r
    if cls == "SuspendFloor":
        return (lambda v: v < s), (lambda v: v >= r)
    return (lambda v: v > s), (lambda v: v <= r)


def oracle(case, obs):
    if obs["errors"]:
        return "driver: " + obs["errors"][0]
    n = len(case["sus"])
    dec = [_decisions(c) for c in case["sus"]]
    attached = [False] * n       # what the property says about each suspender, from the operations alone
    member = [False] * n
    val = [c["v0"] for c in case["sus"]]
    gate = None                  # events the active call has to wait for
    set_events = set()
    released_by = {}             # event -> operation index that released it (resume value of its owner / removal)
    owner = {}
    prev_sus = [[False, False, None]] * n
    for i, (op, r) in enumerate(zip(case["ops"], obs["recs"])):
        k = op[0]
        where = "operation %d %r" % (i, op)
        for e in r["set"]:
            set_events.add(e)
        for s in range(n):
            e = r["sus"][s][2]
            if e is not None:
                owner.setdefault(e, s)
        # removal: releases what it holds, detaches, no longer tripped; removing again changes nothing
        if k in ("remove", "remove_direct"):
            s = op[1]
            before, after = prev_sus[s], r["sus"][s]
            applies = (k == "remove_direct") or member[s]
            if applies:
                if after[0] or after[1] or after[2] is not None:
                    return where + ": after removal the suspender is still attached/tripped/holding an event: %r" % (after,)
                if before[0] and before[2] is not None:
                    if [before[2], case["sus"][s]["sleep"]] not in [[p[0], int(p[1])] for p in r["sched"]]:
                        return where + ": the suspension it held (event %d) was not released" % before[2]
                    released_by[before[2]] = i
                if not before[0] and (r["sched"] or r["set"] or r["msgs"]):
                    return where + ": removing an already removed suspender did something: %r" % (r,)
                attached[s] = False
            elif r["sus"] != prev_sus or r["sched"] or r["msgs"]:
                return where + ": RE.remove_suspender of a suspender that is not installed changed something"
            if k == "remove":
                member[s] = False
        elif k == "install":
            attached[op[1]] = True
            member[op[1]] = True
        elif k == "signal":
            s = op[1]
            val[s] = op[2]
            if not attached[s]:
                if r["sus"] != prev_sus or r["sched"] or r["msgs"] or r["set"]:
                    return where + ": a removed suspender reacted to a signal change"
            elif dec[s][1](op[2]) and prev_sus[s][2] is not None:
                released_by[prev_sus[s][2]] = i
        for p in r["sched"]:
            if p[0] not in released_by or released_by[p[0]] != i:
                return where + ": release of event %d scheduled although neither its suspender's resume condition nor its removal happened" % p[0]
        for e in r["set"]:
            if e not in released_by:
                return where + ": event %d was set without a release" % e
        # the gate
        if k == "call":
            gate = [prev_sus[s][2] for s in range(n) if member[s] and prev_sus[s][1] and prev_sus[s][2] is not None]
            # a tripped installed suspender without an event gets one from get_futures
            for s in range(n):
                if member[s] and prev_sus[s][1] and prev_sus[s][2] is None and r["sus"][s][2] is not None:
                    gate.append(r["sus"][s][2])
        if any(m.startswith("null:") for m in r["msgs"]):
            if gate is None:
                return where + ": plan messages without a call"
            missing = [e for e in gate if e not in set_events]
            if missing:
                return where + ": plan messages %r processed while suspender event(s) %r of suspenders tripped at the start of the call are not released" % (
                    [m for m in r["msgs"] if m.startswith("null:")], missing)
        if r["outcome"] is not None and r["outcome"] != "Returned" and in_model(case, obs):
            return where + ": the call ended with " + r["outcome"]
        prev_sus = r["sus"]
    if len(obs["recs"]) != len(case["ops"]):
        return "history stopped after %d of %d operations" % (len(obs["recs"]), len(case["ops"]))
    return None


def finding(case, obs):
    return None


def nontrivial(case, obs):
    waited = any(any(m.startswith("wait_for") for m in r["msgs"]) for r in obs["recs"])
    return waited and any(r["outcome"] == "Returned" for r in obs["recs"])


def describe(case):
    n = len(case["ops"])
    kinds = sorted({o[0] for o in case["ops"]})
    calls = sum(1 for o in case["ops"] if o[0] == "call")
    return "ops=%s calls=%d %s" % ("1-3" if n <= 3 else "4-6" if n <= 6 else "7+", calls,
                                   "+".join(k[:4] for k in kinds if k not in ("call",)))


def model_search(rng, tier):
    from harness import core
    cs = [_rand_case(rng) for _ in range(200)]
    terms = ["gate_ok_from (Qinit %s) [] %s" % (cl(c["sus"], _ccfg), cl(c["ops"], _cop)) for c in cs]
    try:
        ok, bad, _ = core.eval_cases_in_coq(ID + "search", COQ_IMPORTS, terms)
    except Exception:  # noqa: BLE001
        return None
    if ok and bad:
        return {"model_case": cs[bad[0]], "restatement": terms[bad[0]]}
    return None
