"""C05 - seq_num and num_events account for every event exactly."""
from harness.props.engine_common import *  # noqa: F401,F403
from harness.props import docs_common as dc
from harness.props import engine_common as ec

ID = "C05"
PROP_FILE = "Props/C05.v"
THEOREMS = ["C05_numbering_partial", "C05_counts_exact_outside_b", "C05_interruptions_never_rolled_back",
            "C05_numbering_exact", "C05_successive_events", "C05_checkpoint_protects", "C05_counts_exact"]
COQ_IMPORTS = dc.COQ_IMPORTS + "\nFrom BV Require Engine.DocMon2."
RULE = dc.RULE + (" || C05: the model's trace of every case is also run through the refined monitor Engine/DocMon2.v "
                  "(checkpoint snapshot of the counters)")
cases = dc.cases


def coq_term(case, obs):
    """dc.coq_term (model == implementation, DocMon verdict == Python mirror) and the refined monitor accepts the trace"""
    if obs.get("errors") or case.get("oracle_only"):
        return None
    try:
        e = dc.engine_encode.Enc(case, obs).encode()
    except dc.engine_encode.Unsupported:
        return None
    behind = "true" if dc.mon(case, obs)["behind"] else "false"
    return ("(check_docs %s %s %s %s %s %s %s %s && DocMon2.docs_ok %s (model_steps %s %s %s %s %s %s))%%bool"
            % (e["tapes"], e["ledger"], e["paus"], e["stag"], e["rec"], e["evs"], e["obs"], behind,
               e["rec"], e["tapes"], e["ledger"], e["paus"], e["stag"], e["rec"], e["evs"]))


def oracle(case, obs):
    e = dc.driver_error(obs)
    if e:
        return e
    res = dc.mon(case, obs)
    # gaps / unexpected repeats / wrong counter first, then the statement itself: num_events = events emitted
    return dc.docs_monitor.first(res, ("number", "retake")) or dc.docs_monitor.first(res, ("count",))


def finding(case, obs):
    if obs.get("errors"):
        return None
    res = dc.mon(case, obs)
    if dc.docs_monitor.first(res, ("number", "retake")):
        return None
    if dc.docs_monitor.first(res, ("count",)) and res["behind"]:
        # a run stopped after a rewind point (resume / suspension) and before the replay had re-emitted
        # everything that was rolled back: num_events is the rolled-back counter
        return "b"
    return None


def nontrivial(case, obs):
    return any(o[0] == "doc" and o[1] == "event" for o in obs.get("obs", []))
