(* C38 -- proofs about Pure/Truncate.v *)
From BV Require Import Base.Prelude Pure.Truncate.
From BVgen Require Import TruncTables.
From Coq Require Import NArith Lia.
Local Open Scope Z_scope.

(* ---- what the literals in the source are ------------------------------------------------- *)

Lemma tables_int :
  trunc_int_test_lo = - JSON_MAX /\ trunc_int_test_hi = JSON_MAX /\
  trunc_int_clip_lo = - JSON_MAX /\ trunc_int_clip_hi = JSON_MAX.
Proof. vm_compute. repeat split; reflexivity. Qed.

(* the float limits are whole numbers beyond +-2^53 *)
Lemma tables_float :
  snd trunc_float_test_lo = 0%N /\ (fst trunc_float_test_lo <=? - 2 ^ 53) = true /\
  snd trunc_float_test_hi = 0%N /\ (2 ^ 53 <=? fst trunc_float_test_hi) = true.
Proof. vm_compute. repeat split; reflexivity. Qed.

Lemma json_max_val : JSON_MAX = 9007199254740991.
Proof. reflexivity. Qed.

(* ---- comparisons --------------------------------------------------------------------------- *)

Lemma p2_pos : forall k, 0 < p2 k.
Proof. intros k; unfold p2. apply Z.pow_pos_nonneg; lia. Qed.

Lemma p2_0 : p2 0 = 1.
Proof. reflexivity. Qed.

Lemma xlt_int : forall a b, xlt (xint a) (xint b) = (a <? b).
Proof. intros a b; unfold xint, xlt. rewrite p2_0, !Z.mul_1_r. reflexivity. Qed.

Lemma xle_int : forall a b, xle (xint a) (xint b) = (a <=? b).
Proof. intros a b; unfold xint, xle. rewrite p2_0, !Z.mul_1_r. reflexivity. Qed.

Lemma clip_cases :
  forall l x lo_l lo hi_l hi,
    clip l x lo_l lo hi_l hi = lo_l \/ clip l x lo_l lo hi_l hi = hi_l \/
    (clip l x lo_l lo hi_l hi = l /\ xlt x lo = false /\ xlt hi x = false).
Proof.
  intros l x lo_l lo hi_l hi; unfold clip.
  destruct (xlt x lo) eqn:A.
  - destruct (xlt hi lo); auto.
  - destruct (xlt hi x) eqn:B; auto.
Qed.

Lemma clip_lo_safe : leaf_json_safe (LInt trunc_int_clip_lo) = true.
Proof. vm_compute; reflexivity. Qed.

Lemma clip_hi_safe : leaf_json_safe (LInt trunc_int_clip_hi) = true.
Proof. vm_compute; reflexivity. Qed.

Lemma out_of_int_range_int :
  forall z, out_of_int_range (xint z) = negb ((- JSON_MAX <=? z) && (z <=? JSON_MAX)).
Proof.
  intros z; unfold out_of_int_range. destruct tables_int as (A & B & _ & _).
  rewrite A, B, !xle_int. reflexivity.
Qed.

Lemma out_of_int_range_spec : forall x, out_of_int_range x = negb (in_json_int_range x).
Proof.
  intros x; unfold out_of_int_range, in_json_int_range. destruct tables_int as (A & B & _ & _).
  now rewrite A, B.
Qed.

(* ---- leaves: integers ---------------------------------------------------------------------- *)

Lemma int_branch_safe :
  forall l z, int_like l = Some z ->
    leaf_json_safe (if out_of_int_range (xint z) then clip_int l (xint z) else l) = true.
Proof.
  intros l z H. rewrite out_of_int_range_int.
  assert (S : (- JSON_MAX <=? z) && (z <=? JSON_MAX) = true -> leaf_json_safe l = true).
  { intros R. destruct l; cbn in H; inversion H; subst; cbn; auto. }
  destruct ((- JSON_MAX <=? z) && (z <=? JSON_MAX)) eqn:R; cbn; [now apply S|].
  unfold clip_int.
  destruct (clip_cases l (xint z) (LInt trunc_int_clip_lo) (xint trunc_int_clip_lo)
              (LInt trunc_int_clip_hi) (xint trunc_int_clip_hi)) as [E|[E|(E & A & B)]]; rewrite E.
  - apply clip_lo_safe.
  - apply clip_hi_safe.
  - exfalso. destruct tables_int as (_ & _ & C & D). rewrite C, D, !xlt_int in *.
    apply andb_false_iff in R. rewrite json_max_val in *. lia.
Qed.

Lemma int_branch_unchanged :
  forall l z, int_like l = Some z -> leaf_in_range l = true ->
    (if out_of_int_range (xint z) then clip_int l (xint z) else l) = l.
Proof.
  intros l z H R. rewrite out_of_int_range_int.
  assert (Q : (- JSON_MAX <=? z) && (z <=? JSON_MAX) = true).
  { destruct l; cbn in H; inversion H; subst; cbn in R; auto. destruct b; reflexivity. }
  now rewrite Q.
Qed.

(* ---- leaves: floats ------------------------------------------------------------------------ *)

Lemma integral_finite : forall x, integral x = true -> finite_or_nan x = true.
Proof. intros [n k| | |]; cbn; intros H; auto; discriminate. Qed.

(* clipping to the float bounds: either one of the (finite) bounds, or data itself -- and then
   data is neither below the lower nor above the upper bound, so it is not an infinity *)
Lemma float_clip_safe :
  forall l x, float_like l = Some x -> leaf_json_safe (clip_float l x) = true.
Proof.
  intros l x H. unfold clip_float.
  destruct (clip_cases l x (LFloat (xpair trunc_float_clip_lo)) (xpair trunc_float_clip_lo)
              (LFloat (xpair trunc_float_clip_hi)) (xpair trunc_float_clip_hi)) as [E|[E|(E & A & B)]];
    rewrite E; try reflexivity.
  assert (F : finite_or_nan x = true).
  { destruct x as [n k| | |]; try reflexivity; unfold xpair in *; cbn in A, B; discriminate. }
  destruct l; cbn in H; inversion H; subst; exact F.
Qed.

Lemma not_out_of_float_range_finite :
  forall x, out_of_float_range x = false -> finite_or_nan x = true.
Proof.
  intros [n k| | |] H; auto; unfold out_of_float_range, xpair in H; cbn in H; discriminate.
Qed.

Lemma float_branch_safe :
  forall l x, float_like l = Some x ->
    leaf_json_safe (if integral x && out_of_int_range x then clip_int l x
                    else if out_of_float_range x then clip_float l x else l) = true.
Proof.
  intros l x H.
  assert (S : finite_or_nan x = true -> leaf_json_safe l = true).
  { intros F. destruct l; cbn in H; inversion H; subst; cbn; auto. }
  destruct (integral x) eqn:I; cbn [andb].
  - destruct (out_of_int_range x) eqn:O.
    + unfold clip_int.
      destruct (clip_cases l x (LInt trunc_int_clip_lo) (xint trunc_int_clip_lo)
                  (LInt trunc_int_clip_hi) (xint trunc_int_clip_hi)) as [E|[E|(E & _ & _)]]; rewrite E.
      * apply clip_lo_safe.
      * apply clip_hi_safe.
      * apply S, integral_finite, I.
    + destruct (out_of_float_range x) eqn:F.
      * now apply float_clip_safe.
      * apply S, integral_finite, I.
  - destruct (out_of_float_range x) eqn:F.
    + now apply float_clip_safe.
    + apply S. now apply not_out_of_float_range_finite.
Qed.

(* a finite float that is in range (whole-valued: within +-(2^53-1); otherwise a binary float,
   hence below 2^53) is within the float limits *)
Lemma in_range_within_float_limits :
  forall n k, (negb (integral (XFin n k)) || in_json_int_range (XFin n k)) = true ->
    (integral (XFin n k) || (Z.abs n <? 2 ^ 53 * p2 k)) = true ->
    out_of_float_range (XFin n k) = false.
Proof.
  intros n k R W. unfold out_of_float_range, xpair.
  destruct tables_float as (K1 & L1 & K2 & L2).
  destruct trunc_float_test_lo as [nlo klo], trunc_float_test_hi as [nhi khi]; cbn [fst snd] in *.
  subst klo khi. unfold xlt.
  unfold in_json_int_range, xint, xle in R.
  remember (integral (XFin n k)) as ig eqn:I.
  rewrite p2_0, !Z.mul_1_r in *.
  pose proof (p2_pos k) as P. set (p := p2 k) in *. clearbody p.
  apply Z.leb_le in L1, L2. rewrite json_max_val in *.
  change (2 ^ 53) with 9007199254740992 in *.
  assert (B : - 9007199254740992 * p < n < 9007199254740992 * p).
  { destruct ig; cbn [negb orb] in R, W.
    - apply andb_true_iff in R as [R1 R2]. apply Z.leb_le in R1, R2. lia.
    - apply Z.ltb_lt in W. lia. }
  apply orb_false_iff; split; apply Z.ltb_ge; nia.
Qed.

Lemma float_branch_unchanged :
  forall l x, float_like l = Some x -> leaf_in_range l = true -> leaf_is_binary_float l = true ->
    (if integral x && out_of_int_range x then clip_int l x
     else if out_of_float_range x then clip_float l x else l) = l.
Proof.
  intros l x H R W.
  assert (R' : finite_or_nan x && (negb (integral x) || in_json_int_range x) = true).
  { destruct l; cbn in H; inversion H; subst; exact R. }
  apply andb_true_iff in R' as [F R'].
  assert (A : integral x && out_of_int_range x = false).
  { rewrite out_of_int_range_spec. destruct (integral x); cbn in *; [now rewrite R'|reflexivity]. }
  rewrite A.
  assert (B : out_of_float_range x = false).
  { destruct x as [n k| | |]; try discriminate.
    - apply in_range_within_float_limits; [exact R'|].
      destruct l; cbn in H; inversion H; subst; exact W.
    - reflexivity. }
  now rewrite B.
Qed.

(* ---- the leaf function --------------------------------------------------------------------- *)

Lemma trunc_leaf_safe :
  forall l, leaf_finding_b l = false -> leaf_json_safe (trunc_leaf l) = true.
Proof.
  intros l NB. unfold trunc_leaf.
  destruct (int_like l) as [z|] eqn:I; [now apply int_branch_safe|].
  destruct (float_like l) as [x|] eqn:F; [now apply float_branch_safe|].
  destruct l; cbn in *; try discriminate; auto. now apply negb_false_iff in NB.
Qed.

Lemma trunc_leaf_unchanged :
  forall l, leaf_in_range l = true -> leaf_is_binary_float l = true -> trunc_leaf l = l.
Proof.
  intros l R W. unfold trunc_leaf.
  destruct (int_like l) as [z|] eqn:I; [now apply int_branch_unchanged|].
  destruct (float_like l) as [x|] eqn:F; [now apply float_branch_unchanged|reflexivity].
Qed.

(* ---- trees ----------------------------------------------------------------------------------- *)

Section ValInd.
  Variable P : val -> Prop.
  Hypothesis HL : forall l, P (VLeaf l).
  Hypothesis HA : forall l, P (VArr0 l).
  Hypothesis HS : forall k xs, Forall P xs -> P (VSeq k xs).
  Hypothesis HM : forall kvs, Forall (fun kv => P (snd kv)) kvs -> P (VMap kvs).

  Fixpoint val_ind' (v : val) : P v :=
    match v with
    | VLeaf l => HL l
    | VArr0 l => HA l
    | VSeq k xs =>
        HS k xs ((fix go (xs : list val) : Forall P xs :=
                    match xs with
                    | [] => Forall_nil P
                    | x :: xs' => Forall_cons x (val_ind' x) (go xs')
                    end) xs)
    | VMap kvs =>
        HM kvs ((fix go (kvs : list (Z * val)) : Forall (fun kv => P (snd kv)) kvs :=
                   match kvs with
                   | [] => Forall_nil _
                   | kv :: kvs' => Forall_cons kv (val_ind' (snd kv)) (go kvs')
                   end) kvs)
    end.
End ValInd.

(* whatever relates every leaf of the input to its image relates the trees, shape included *)
Lemma trunc_tree_rel :
  forall (R : leaf -> leaf -> Prop) v,
    (forall l, In l (leaves v) -> R l (trunc_leaf l)) -> tree_rel R v (trunc v).
Proof.
  intros R v; induction v as [l|l|k xs IH|kvs IH] using val_ind'; intros H; cbn.
  - constructor. apply H. now left.
  - constructor. apply H. now left.
  - constructor. cbn in H. induction xs as [|x xs IHxs]; cbn; constructor.
    + inversion IH; subst. apply H2. intros l Hl. apply H. cbn. apply in_or_app. now left.
    + inversion IH; subst. apply IHxs; [assumption|].
      intros l Hl. apply H. cbn. apply in_or_app. now right.
  - constructor. cbn in H. induction kvs as [|[key x] kvs IHkvs]; cbn; constructor.
    + split; [reflexivity|]. inversion IH; subst. cbn in *. apply H2.
      intros l Hl. apply H. apply in_or_app. now left.
    + inversion IH; subst. apply IHkvs; [assumption|].
      intros l Hl. apply H. cbn. apply in_or_app. now right.
Qed.

Lemma leaves_trunc : forall v, leaves (trunc v) = map trunc_leaf (leaves v).
Proof.
  intros v; induction v as [l|l|k xs IH|kvs IH] using val_ind'; cbn; auto.
  - induction xs as [|x xs IHxs]; cbn; [reflexivity|].
    inversion IH; subst. rewrite map_app, H1, IHxs by assumption. reflexivity.
  - induction kvs as [|[key x] kvs IHkvs]; cbn; [reflexivity|].
    inversion IH; subst. cbn in *. rewrite map_app, H1, IHkvs by assumption. reflexivity.
Qed.

Definition leaf_spec (l l' : leaf) : Prop :=
  (leaf_finding_b l = false -> leaf_json_safe l' = true) /\
  (leaf_in_range l = true -> leaf_is_binary_float l = true -> l' = l).

Lemma trunc_spec : forall v, tree_rel leaf_spec v (trunc v).
Proof.
  intros v. apply trunc_tree_rel. intros l _. split.
  - apply trunc_leaf_safe.
  - apply trunc_leaf_unchanged.
Qed.

Lemma not_finding_leaves :
  forall v, finding_C38_b v = false -> forall l, In l (leaves v) -> leaf_finding_b l = false.
Proof.
  intros v H l Hl. unfold finding_C38_b in H.
  destruct (leaf_finding_b l) eqn:E; [|reflexivity].
  assert (existsb leaf_finding_b (leaves v) = true) by (apply existsb_exists; eauto). congruence.
Qed.

Lemma trunc_spec_outside_finding :
  forall v, finding_C38_b v = false ->
    tree_rel (fun l l' => leaf_json_safe l' = true /\
                          (leaf_in_range l = true -> leaf_is_binary_float l = true -> l' = l))
             v (trunc v).
Proof.
  intros v NB. apply trunc_tree_rel. intros l Hl. split.
  - apply trunc_leaf_safe. eapply not_finding_leaves; eassumption.
  - apply trunc_leaf_unchanged.
Qed.

Lemma trunc_all_leaves_safe :
  forall v, finding_C38_b v = false -> forallb leaf_json_safe (leaves (trunc v)) = true.
Proof.
  intros v NB. rewrite leaves_trunc. apply forallb_forall. intros l' Hl'.
  apply in_map_iff in Hl' as (l & E & Hl). subst l'.
  apply trunc_leaf_safe. eapply not_finding_leaves; eassumption.
Qed.

Lemma trunc_outside_finding_class :
  forall v, finding_C38_b v = false ->
    tree_rel (fun l l' => leaf_json_safe l' = true /\
                          (leaf_in_range l = true -> leaf_is_binary_float l = true -> l' = l))
             v (trunc v)
    /\ forallb leaf_json_safe (leaves (trunc v)) = true.
Proof.
  intros v H; split; [exact (trunc_spec_outside_finding v H) | exact (trunc_all_leaves_safe v H)].
Qed.

Lemma trunc_in_range_identity_on_leaves :
  forall v, forallb (fun l => leaf_in_range l && leaf_is_binary_float l) (leaves v) = true ->
    leaves (trunc v) = leaves v.
Proof.
  intros v H. rewrite leaves_trunc. rewrite <- (map_id (leaves v)) at 2.
  apply map_ext_in. intros l Hl.
  assert (A := proj1 (forallb_forall _ _) H l Hl). apply andb_true_iff in A as [A B].
  now apply trunc_leaf_unchanged.
Qed.

(* ---- witnesses ------------------------------------------------------------------------------- *)

(* recorded finding C38-b: an np.float32 (float16, longdouble) infinity comes back unchanged *)
Lemma finding_b_refuted :
  exists v, finding_C38_b v = true /\ forallb leaf_json_safe (leaves (trunc v)) = false.
Proof. exists (VSeq KList [VLeaf (LNpFOther XPInf)]). split; reflexivity. Qed.

(* repaired defect C38-a: before the repair a numpy integer beyond 2^53 came back unchanged *)
Lemma old_numpy_int_unclipped :
  exists z, leaf_json_safe (trunc_leaf_old (LNpInt z)) = false /\ trunc_leaf (LNpInt z) = LInt JSON_MAX.
Proof. exists (2 ^ 60). split; vm_compute; reflexivity. Qed.

(* remark: +inf becomes the float limit 1.7976e308, itself a whole-valued float beyond 2^53 that
   a second pass would turn into 2^53-1 -- the function is not idempotent *)
Lemma inf_maps_to_float_limit :
  trunc_leaf (LFloat XPInf) = LFloat (xpair trunc_float_clip_hi) /\
  trunc_leaf (LFloat (xpair trunc_float_clip_hi)) = LInt JSON_MAX.
Proof. split; vm_compute; reflexivity. Qed.
