(* Executable model of the status-group bookkeeping of the RunEngine: `_add_status_to_group`,
   `_status_object_completed`, `_wait` (timeout=, error_on_timeout=, watch=), `_wait_for`, and the place at the top of
   the `_run` loop where the `_exception` slot / an exception response is thrown into the plan
   (src/bluesky/run_engine.py).  MODEL ONLY - proofs are in Proofs/WaitGroup*.v.

   One call, one plan on the stack; the plan is not modelled: a schedule is any list of [event]s, the messages the
   plan yields are events among the others (so every plan that keeps yielding after whatever it is sent or thrown
   is covered, and [EEnd] is the plan finishing at a yield instead).

   Statuses are numbered in creation order.  A status has three stages because the engine reads two different
   things: [SFin ok] = the status OBJECT is done (its `done`/`success` flags; what the `done = all(obj.done ...)`
   line of `_wait` reads), [SDone ok] = `_status_object_completed` has run on the loop for it (its asyncio future is
   resolved, a failure is in the `_exception` slot; what `asyncio.wait` sees).  Between the two lies the
   `call_soon_threadsafe` hop.

   A blocked wait is the two asyncio tasks `_wait` creates.  The status task (asyncio.wait(futs,
   return_when=FIRST_EXCEPTION, timeout=...)) is RELEASED when a future of the group fails, when all are resolved, or
   when the timer fires; some loop iterations later it WAKES ([EWakeS]): if a future is still unresolved it raises
   WaitForTimeoutError (also when no timeout was given: one failed while another is pending), otherwise it returns;
   one more iteration later `_wait` RESUMES ([EResume]): on WaitForTimeoutError the group is put back and, with
   error_on_timeout, the error is the response, else the response is `all(obj.done ...)`; without it the response is
   True.  The watch task is the same over the union of the watched groups (taken AFTER the group was popped, without
   popping them); when it wakes ([EWakeW]) with an empty set (ValueError), an unresolved future, or a failed one, its
   done-callback is armed, and when that runs ([ECancelCb]) while the status task has not finished, `_wait` ends with
   CancelledError WITHOUT putting the group back.  The watch task has its own timer, started after the status task's
   with the same delay: [ETimeout] releases both; in the real loop the status task then always wakes first and its
   result wins, the model also admits the other order (more schedules than the code has, none fewer).

   [EMsg m] is one turn of the `_run` loop: the previous response is delivered (the `_exception` slot first, and it
   is cleared; else the response: thrown if it is an exception, sent otherwise), the plan yields m, m is processed.
   Events that cannot happen in a state (a message while a wait is blocked, a wake-up of a task that is not
   released, a completion of a status that is not at that stage ...) leave the state unchanged and are marked
   [OSkip]. *)
From Coq Require Import List Bool Arith.
Import ListNotations.

Inductive sst := SPend | SFin (ok : bool) | SDone (ok : bool).
Inductive exn := XFailed (sid : nat) | XTimeout | XCancelled.
Inductive val := VNone | VBool (b : bool).
Inductive resp := RVal (v : val) | RExn (e : exn).
Inductive input := IVal (v : val) | IThrow (e : exn).
Inductive msg := MAdd (g : nat) | MWait (g : nat) (tmo eot : bool) (watch : list nat) | MOther.
Inductive event :=
| EMsg (m : msg) | EEnd
| EFinish (sid : nat) (ok : bool) | EDone (sid : nat)
| ETimeout | EWakeS | EResume | EWakeW | ECancelCb.
Inductive obs := OIn (i : input) | OSkip.

Inductive sphase := SWait (rel : bool) | SFinished (timedout : bool).
Inductive wphase := WNone | WWait (rel : bool) | WArmed | WQuiet.

Record wt := mkwt { w_g : nat; w_futs : list nat; w_tmo : bool; w_eot : bool; w_sp : sphase;
                    w_wf : list nat; w_wp : wphase }.

Record st := mkst { groups : list (nat * list nat);     (* _groups / _status_objs: group -> its statuses *)
                    stat : list sst;                    (* status table, index = status number *)
                    slot : option exn;                  (* _exception *)
                    rsp : option resp;                  (* response of the last message, not yet delivered *)
                    blk : option wt;                    (* the wait being awaited *)
                    ended : bool }.

Definition init : st := mkst [] [] None (Some (RVal VNone)) None false.

(* ---- groups *)
Fixpoint lookup (g : nat) (gs : list (nat * list nat)) : list nat :=
  match gs with
  | [] => []
  | (k, l) :: r => if Nat.eqb k g then l else lookup g r
  end.
Fixpoint remove (g : nat) (gs : list (nat * list nat)) : list (nat * list nat) :=
  match gs with
  | [] => []
  | (k, l) :: r => if Nat.eqb k g then remove g r else (k, l) :: remove g r
  end.
Definition put (g : nat) (l : list nat) (gs : list (nat * list nat)) := (g, l) :: remove g gs.

Fixpoint mem (x : nat) (l : list nat) : bool :=
  match l with [] => false | y :: r => Nat.eqb y x || mem x r end.
Fixpoint dedup (l : list nat) : list nat :=
  match l with [] => [] | x :: r => if mem x r then dedup r else x :: dedup r end.

(* ---- statuses *)
Definition sget (t : list sst) (sid : nat) : option sst := nth_error t sid.
Fixpoint sset (t : list sst) (sid : nat) (v : sst) : list sst :=
  match t, sid with
  | [], _ => []
  | _ :: r, 0 => v :: r
  | x :: r, S n => x :: sset r n v
  end.
Definition resolved (t : list sst) (sid : nat) : bool :=
  match sget t sid with Some (SDone _) => true | _ => false end.
Definition failed (t : list sst) (sid : nat) : bool :=
  match sget t sid with Some (SDone false) => true | _ => false end.
Definition objdone (t : list sst) (sid : nat) : bool :=
  match sget t sid with Some (SDone _) | Some (SFin _) => true | _ => false end.
(* asyncio.wait(..., FIRST_EXCEPTION) lets go: a future failed, or none is left unresolved *)
Definition released (t : list sst) (futs : list nat) : bool :=
  existsb (failed t) futs || forallb (resolved t) futs.
Definition unresolved (t : list sst) (futs : list nat) : bool := negb (forallb (resolved t) futs).

(* ---- top of the loop: what the plan's yield gets *)
Definition delivery (s : st) : option input :=
  match slot s with
  | Some e => Some (IThrow e)
  | None => match rsp s with
            | Some (RVal v) => Some (IVal v)
            | Some (RExn e) => Some (IThrow e)
            | None => None
            end
  end.
Definition ob_of (o : option input) : list obs := match o with Some i => [OIn i] | None => [] end.

Definition set_resp (s : st) (r : option resp) : st :=
  mkst (groups s) (stat s) (slot s) r (blk s) (ended s).

Definition process (s : st) (m : msg) : st :=
  (* s: slot cleared, response consumed *)
  match m with
  | MOther => mkst (groups s) (stat s) None (Some (RVal VNone)) None false
  | MAdd g => mkst (put g (lookup g (groups s) ++ [length (stat s)]) (groups s)) (stat s ++ [SPend]) None
                   (Some (RVal VNone)) None false
  | MWait g tmo eot watch =>
      match lookup g (groups s) with
      | [] => mkst (groups s) (stat s) None (Some (RVal (VBool true))) None false
      | futs =>
          let gs := remove g (groups s) in
          let wf := dedup (flat_map (fun w => lookup w gs) watch) in
          let wp := match watch with
                    | [] => WNone
                    | _ => WWait (match wf with [] => true | _ => released (stat s) wf end)
                    end in
          mkst gs (stat s) None None
               (Some (mkwt g futs tmo eot (SWait (released (stat s) futs)) wf wp)) false
      end
  end.

Definition with_blk (s : st) (w : option wt) : st := mkst (groups s) (stat s) (slot s) (rsp s) w (ended s).
Definition set_sp (w : wt) (p : sphase) : wt := mkwt (w_g w) (w_futs w) (w_tmo w) (w_eot w) p (w_wf w) (w_wp w).
Definition set_wp (w : wt) (p : wphase) : wt := mkwt (w_g w) (w_futs w) (w_tmo w) (w_eot w) (w_sp w) (w_wf w) p.

(* releases caused by the resolution of a future *)
Definition rerelease (t : list sst) (w : wt) : wt :=
  let w1 := match w_sp w with
            | SWait false => set_sp w (SWait (released t (w_futs w)))
            | _ => w
            end in
  match w_wp w1 with
  | WWait false => set_wp w1 (WWait (released t (w_wf w1)))
  | _ => w1
  end.

Definition skip (s : st) : st * list obs := (s, [OSkip]).

Definition step (s : st) (e : event) : st * list obs :=
  if ended s then skip s else
  match e with
  | EMsg m =>
      match blk s, delivery s with
      | None, Some i => (process s m, [OIn i])
      | _, _ => skip s
      end
  | EEnd =>
      match blk s, delivery s with
      | None, Some i => (mkst (groups s) (stat s) None None None true, [OIn i])
      | _, _ => skip s
      end
  | EFinish sid ok =>
      match sget (stat s) sid with
      | Some SPend => (mkst (groups s) (sset (stat s) sid (SFin ok)) (slot s) (rsp s) (blk s) false, [])
      | _ => skip s
      end
  | EDone sid =>
      match sget (stat s) sid with
      | Some (SFin ok) =>
          let t := sset (stat s) sid (SDone ok) in
          (mkst (groups s) t (if ok then slot s else Some (XFailed sid)) (rsp s)
                (option_map (rerelease t) (blk s)) false, [])
      | _ => skip s
      end
  | ETimeout =>
      match blk s with
      | Some w => match w_tmo w, w_sp w with
                  | true, SWait _ =>
                      let w1 := set_sp w (SWait true) in
                      (with_blk s (Some (match w_wp w1 with WWait _ => set_wp w1 (WWait true) | _ => w1 end)), [])
                  | _, _ => skip s
                  end
      | None => skip s
      end
  | EWakeS =>
      match blk s with
      | Some w => match w_sp w with
                  | SWait true => (with_blk s (Some (set_sp w (SFinished (unresolved (stat s) (w_futs w))))), [])
                  | _ => skip s
                  end
      | None => skip s
      end
  | EResume =>
      match blk s with
      | Some w =>
          match w_sp w with
          | SFinished false => (mkst (groups s) (stat s) (slot s) (Some (RVal (VBool true))) None false, [])
          | SFinished true =>
              (mkst (put (w_g w) (w_futs w) (groups s)) (stat s) (slot s)
                    (Some (if w_eot w then RExn XTimeout
                           else RVal (VBool (forallb (objdone (stat s)) (w_futs w))))) None false, [])
          | _ => skip s
          end
      | None => skip s
      end
  | EWakeW =>
      match blk s with
      | Some w =>
          match w_wp w with
          | WWait true =>
              let bad := match w_wf w with [] => true | _ => false end
                         || unresolved (stat s) (w_wf w) || existsb (failed (stat s)) (w_wf w) in
              (with_blk s (Some (set_wp w (if bad then WArmed else WQuiet))), [])
          | _ => skip s
          end
      | None => skip s
      end
  | ECancelCb =>
      match blk s with
      | Some w =>
          match w_wp w, w_sp w with
          | WArmed, SWait _ => (mkst (groups s) (stat s) (slot s) (Some (RExn XCancelled)) None false, [])
          | _, _ => skip s
          end
      | None => skip s
      end
  end.

(* the per-event trace: every event with what it made the plan see *)
Fixpoint run_tr (s : st) (evs : list event) : st * list (event * list obs) :=
  match evs with
  | [] => (s, [])
  | e :: r => let '(s1, o) := step s e in
              let '(s2, tr) := run_tr s1 r in (s2, (e, o) :: tr)
  end.
Definition run (s : st) (evs : list event) : st := fst (run_tr s evs).
Definition inputs_of (tr : list (event * list obs)) : list input :=
  flat_map (fun eo => flat_map (fun o => match o with OIn i => [i] | OSkip => [] end) (snd eo)) tr.
Definition has_skip (tr : list (event * list obs)) : bool :=
  existsb (fun eo => existsb (fun o => match o with OSkip => true | _ => false end) (snd eo)) tr.

(* ---- decidable equalities used by the correspondence terms and the monitors *)
Definition exn_eqb (a b : exn) : bool :=
  match a, b with
  | XFailed x, XFailed y => Nat.eqb x y
  | XTimeout, XTimeout | XCancelled, XCancelled => true
  | _, _ => false
  end.
Definition val_eqb (a b : val) : bool :=
  match a, b with VNone, VNone => true | VBool x, VBool y => Bool.eqb x y | _, _ => false end.
Definition input_eqb (a b : input) : bool :=
  match a, b with
  | IVal x, IVal y => val_eqb x y
  | IThrow x, IThrow y => exn_eqb x y
  | _, _ => false
  end.
Fixpoint list_eqb {A} (eq : A -> A -> bool) (a b : list A) : bool :=
  match a, b with
  | [], [] => true
  | x :: r, y :: q => eq x y && list_eqb eq r q
  | _, _ => false
  end.
Definition oexn_eqb (a b : option exn) : bool :=
  match a, b with Some x, Some y => exn_eqb x y | None, None => true | _, _ => false end.

(* the model reproduces an observed run: the inputs of the plan, no impossible event, the groups left behind (for
   every group number below [ng]) and the slot *)
Definition agrees (evs : list event) (ins : list input) (ng : nat) (gs : list (list nat)) (sl : option exn) : bool :=
  let '(s, tr) := run_tr init evs in
  list_eqb input_eqb (inputs_of tr) ins && negb (has_skip tr)
  && list_eqb (list_eqb Nat.eqb) (map (fun g => lookup g (groups s)) (seq 0 ng)) gs
  && oexn_eqb (slot s) sl.
