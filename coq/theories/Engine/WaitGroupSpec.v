(* Specification monitors for Engine/WaitGroup.v (C12, the part about status groups and `wait`).  MODEL-SIDE
   DEFINITIONS ONLY (executable, so that they also run on recorded traces); the theorems that every trace of the
   model is accepted are in Proofs/WaitGroup.v.

   A monitor reads the per-event trace [list (event * list obs)]: the EVENTS (what the plan and the devices did:
   messages, a status object finishing with ok / not ok, its completion reaching the loop, ...) and the INPUTS the
   plan received.  It keeps its own bookkeeping, from the events alone; it never looks at the model's state.  An event
   the model marked [OSkip] did not happen and is ignored. *)
From Coq Require Import List Bool Arith.
From BV Require Import Engine.WaitGroup.
Import ListNotations.

Fixpoint flook (sid : nat) (fin : list (nat * bool)) : option bool :=
  match fin with
  | [] => None
  | (k, ok) :: r => if Nat.eqb k sid then Some ok else flook sid r
  end.
Definition is_skip (o : list obs) : bool :=
  match o with [OSkip] => true | _ => false end.
Definition failed_throw (i : input) : bool :=
  match i with IThrow (XFailed _) => true | _ => false end.

(* ------------------------------------------------------------------------------------------------------------
   [mon_fail]: a failed status reaches the plan at the next yield, once.
     m_fin   how each status object finished (from [EFinish])
     m_comp  the statuses whose completion has reached the loop (from [EDone]); for a failed one this is the moment
             the failure is recorded
     m_prev  [m_comp] as it was at the previous yield
     m_pend  the last failure recorded since the previous yield
   At every input of the plan:
     - if a failure was recorded since the previous yield, the input is FailedStatus of the LAST status that failed
       in between (never a value, never another exception), and that status had not completed before the previous
       yield (so this is the first yield after its failure, and it is thrown there only);
     - otherwise the input is not a FailedStatus at all. *)
Record fst_ := mkf { m_fin : list (nat * bool); m_comp : list nat; m_prev : list nat; m_pend : option nat }.
Definition f0 : fst_ := mkf [] [] [] None.

Definition fail_ok (m : fst_) (i : input) : bool :=
  match m_pend m with
  | Some s => input_eqb i (IThrow (XFailed s)) && negb (mem s (m_prev m))
  | None => negb (failed_throw i)
  end.

Definition fail_step (m : fst_) (eo : event * list obs) : option fst_ :=
  let '(e, o) := eo in
  if is_skip o then Some m else
  match e, o with
  | (EMsg _ | EEnd), [OIn i] => if fail_ok m i then Some (mkf (m_fin m) (m_comp m) (m_comp m) None) else None
  | EFinish sid ok, [] => Some (mkf ((sid, ok) :: m_fin m) (m_comp m) (m_prev m) (m_pend m))
  | EDone sid, [] =>
      Some (mkf (m_fin m) (sid :: m_comp m) (m_prev m)
                (match flook sid (m_fin m) with Some false => Some sid | _ => m_pend m end))
  | (ETimeout | EWakeS | EResume | EWakeW | ECancelCb), [] => Some m
  | _, _ => None
  end.

Fixpoint fail_run (m : fst_) (tr : list (event * list obs)) : option fst_ :=
  match tr with
  | [] => Some m
  | eo :: r => match fail_step m eo with Some m1 => fail_run m1 r | None => None end
  end.
Definition mon_fail (tr : list (event * list obs)) : bool :=
  match fail_run f0 tr with Some _ => true | None => false end.

(* ------------------------------------------------------------------------------------------------------------
   [mon_wait]: what the answer True of a wait means.
     g_n     number of statuses created
     g_grp   (status, group) for every 'add' message
     g_fin / g_comp  as above
     g_last  the message being answered
     g_lost  the groups a wait on which was cancelled by its watch task (finding class F2: `_wait` does not put the
             group back on that path)
   When the plan is sent the value True in answer to a wait on group g with error_on_timeout = eot, then every status
   ever added to g
     - has completed (its completion reached the loop: asyncio future resolved, failure recorded), or
     - eot is false and the status OBJECT is done (finding class F1: `done = all(obj.done ...)` reads the objects,
       not the futures, after a WaitForTimeoutError), or
     - g is in g_lost (F2). *)
Record gst := mkg { g_n : nat; g_grp : list (nat * nat); g_fin : list (nat * bool); g_comp : list nat;
                    g_last : option msg; g_lost : list nat }.
Definition g0 : gst := mkg 0 [] [] [] None [].

Definition members (g : nat) (grp : list (nat * nat)) : list nat :=
  map fst (filter (fun p => Nat.eqb (snd p) g) grp).
Definition is_some {A} (o : option A) : bool := match o with Some _ => true | None => false end.

(* [strict]: no exemption for F1 / F2 - the statement one would like *)
Definition wait_ok (strict : bool) (m : gst) (i : input) : bool :=
  match i, g_last m with
  | IVal (VBool true), Some (MWait g _ eot _) =>
      (negb strict && mem g (g_lost m))
      || forallb (fun sid => mem sid (g_comp m) || (negb strict && negb eot && is_some (flook sid (g_fin m))))
                 (members g (g_grp m))
  | _, _ => true
  end.

Definition wait_step (strict : bool) (m : gst) (eo : event * list obs) : option gst :=
  let '(e, o) := eo in
  if is_skip o then Some m else
  match e, o with
  | EMsg ms, [OIn i] =>
      if wait_ok strict m i then
        Some (match ms with
              | MAdd g => mkg (S (g_n m)) ((g_n m, g) :: g_grp m) (g_fin m) (g_comp m) (Some ms) (g_lost m)
              | _ => mkg (g_n m) (g_grp m) (g_fin m) (g_comp m) (Some ms) (g_lost m)
              end)
      else None
  | EEnd, [OIn i] => if wait_ok strict m i then Some (mkg (g_n m) (g_grp m) (g_fin m) (g_comp m) None (g_lost m)) else None
  | EFinish sid ok, [] => Some (mkg (g_n m) (g_grp m) ((sid, ok) :: g_fin m) (g_comp m) (g_last m) (g_lost m))
  | EDone sid, [] => Some (mkg (g_n m) (g_grp m) (g_fin m) (sid :: g_comp m) (g_last m) (g_lost m))
  | ECancelCb, [] =>
      match g_last m with
      | Some (MWait g _ _ _) => Some (mkg (g_n m) (g_grp m) (g_fin m) (g_comp m) (g_last m) (g :: g_lost m))
      | _ => None
      end
  | (ETimeout | EWakeS | EResume | EWakeW), [] => Some m
  | _, _ => None
  end.

Fixpoint wait_run (strict : bool) (m : gst) (tr : list (event * list obs)) : option gst :=
  match tr with
  | [] => Some m
  | eo :: r => match wait_step strict m eo with Some m1 => wait_run strict m1 r | None => None end
  end.
Definition mon_wait (strict : bool) (tr : list (event * list obs)) : bool :=
  match wait_run strict g0 tr with Some _ => true | None => false end.

(* decidable finding classes of a trace (mirrored in harness/props/C12.py) *)
(* F2: a wait was cancelled by its watch task *)
Definition finding_F2 (tr : list (event * list obs)) : bool :=
  existsb (fun eo => match eo with (ECancelCb, []) => true | _ => false end) tr.
(* F1: a wait with error_on_timeout = False answered True ... is decided by comparing the two monitors *)
Definition finding_F1 (tr : list (event * list obs)) : bool :=
  negb (finding_F2 tr) && mon_wait false tr && negb (mon_wait true tr).
