(* C34 -- model of bluesky/callbacks/json_writer.py: JSONWriter and JSONLinesWriter.

   Text = list N (the files are ASCII: json.dump escapes everything else).  The file system is
   a map  file name -> content  with the two operations the code uses: open(.., "w") + write
   (create or truncate) and open(.., "a") + write (create or append).  The record encoder
   (json.dump of {"name": name, "doc": doc}) is an argument [enc].
   MODEL ONLY -- proofs are in Proofs/JsonW.v. *)
From BV Require Import Base.Prelude.
From Coq Require Import NArith.
Local Open Scope N_scope.

Definition str := list N.
Definition str_beq : str -> str -> bool := list_beq N.eqb.
Definition NL : N := 10.
Definition COMMA : N := 44.
Definition LB : N := 91.
Definition RB : N := 93.
Definition DASH : N := 45.
Definition dot_json : str := [46; 106; 115; 111; 110].
Definition dot_jsonl : str := [46; 106; 115; 111; 110; 108].

(* ---- file system ---------------------------------------------------------------- *)
Definition fs := list (str * str).

Fixpoint fs_get (f : fs) (name : str) : option str :=
  match f with
  | [] => None
  | (n, c) :: r => if str_beq n name then Some c else fs_get r name
  end.

(* mode "w": create or truncate, then write c *)
Fixpoint fs_write (f : fs) (name c : str) : fs :=
  match f with
  | [] => [(name, c)]
  | (n, c0) :: r => if str_beq n name then (n, c) :: r else (n, c0) :: fs_write r name c
  end.

(* mode "a": create or append *)
Fixpoint fs_append (f : fs) (name c : str) : fs :=
  match f with
  | [] => [(name, c)]
  | (n, c0) :: r => if str_beq n name then (n, c0 ++ c) :: r else (n, c0) :: fs_append r name c
  end.

(* ---- calls ---------------------------------------------------------------------- *)
Inductive kind := KStart | KStop | KOther.            (* name == "start" / "stop" / anything else *)
Inductive err := ETypeError | EKeyError | EIsADirectory.
Definition err_beq (a b : err) : bool :=
  match a, b with
  | ETypeError, ETypeError | EKeyError, EKeyError | EIsADirectory, EIsADirectory => true
  | _, _ => false
  end.

(* doc['uid'].split('-')[0] *)
Fixpoint uid_head (u : str) : str :=
  match u with
  | [] => []
  | c :: t => if N.eqb c DASH then [] else c :: uid_head t
  end.

(* Python truthiness of self.filename (None and "" are falsy) *)
Definition truthy (w : option str) : option str :=
  match w with
  | Some (c :: t) => Some (c :: t)
  | _ => None
  end.

Section Enc.
  Variable R : Type.
  Variable enc : R -> str.

  (* one __call__(name, doc): which branch, doc.get('uid'), and the record {"name","doc"} *)
  Record call := mk_call { c_kind : kind; c_uid : option str; c_rec : R }.

  (* ---- JSONWriter.  State: self.filename.  Result: new filename, new fs, exception. ---- *)
  Definition jw_path (w : option str) : str + err :=      (* self.dirname / self.filename, opened "a" *)
    match w with
    | None => inr ETypeError          (* Path / None *)
    | Some [] => inr EIsADirectory    (* Path / "" is the directory itself *)
    | Some f => inl f
    end.

  Definition jw_call (w : option str) (f : fs) (c : call) : option str * fs * option err :=
    match c_kind c with
    | KStart =>
        match truthy w with
        | Some name => (w, fs_write f name ([LB; NL] ++ enc (c_rec c) ++ [COMMA; NL]), None)
        | None =>
            match c_uid c with
            | None => (w, f, Some EKeyError)
            | Some u => let name := uid_head u ++ dot_json in
                        (Some name, fs_write f name ([LB; NL] ++ enc (c_rec c) ++ [COMMA; NL]), None)
            end
        end
    | KStop =>
        match jw_path w with
        | inr e => (w, f, Some e)
        | inl name => (w, fs_append f name (enc (c_rec c) ++ [NL; RB]), None)
        end
    | KOther =>
        match jw_path w with
        | inr e => (w, f, Some e)
        | inl name => (w, fs_append f name (enc (c_rec c) ++ [COMMA; NL]), None)
        end
    end.

  Fixpoint jw_run (w : option str) (f : fs) (cs : list call) : option str * fs * list (option err) :=
    match cs with
    | [] => (w, f, [])
    | c :: r => let '(w1, f1, e) := jw_call w f c in
                let '(w2, f2, es) := jw_run w1 f1 r in (w2, f2, e :: es)
    end.

  (* ---- JSONLinesWriter.  [today] = datetime.today().strftime('%Y-%m-%d'). ---- *)
  Definition jl_call (today : str) (w : option str) (f : fs) (c : call) : option str * fs * option err :=
    let named :=
      match truthy w with
      | Some name => inl name
      | None =>
          match c_kind c with
          | KStart => match c_uid c with
                      | None => inr EKeyError
                      | Some u => inl (uid_head u ++ dot_jsonl)
                      end
          | _ => inl (today ++ dot_jsonl)
          end
      end in
    match named with
    | inr e => (w, f, Some e)
    | inl name =>
        let line := enc (c_rec c) ++ [NL] in
        (Some name,
         match fs_get f name with
         | Some _ => fs_append f name line        (* mode "a" when the file exists *)
         | None => fs_write f name line           (* mode "w" otherwise *)
         end, None)
    end.

  Fixpoint jl_run (today : str) (w : option str) (f : fs) (cs : list call) : option str * fs * list (option err) :=
    match cs with
    | [] => (w, f, [])
    | c :: r => let '(w1, f1, e) := jl_call today w f c in
                let '(w2, f2, es) := jl_run today w1 f1 r in (w2, f2, e :: es)
    end.

  (* ---- the array text and the lines text ---- *)
  Fixpoint join (sep : str) (es : list str) : str :=
    match es with
    | [] => []
    | [e] => e
    | e :: r => e ++ sep ++ join sep r
    end.
  Definition render_array (es : list str) : str := [LB; NL] ++ join [COMMA; NL] es ++ [NL; RB].
  Definition render_lines (es : list str) : str := concat (map (fun e => e ++ [NL]) es).
End Enc.

Arguments mk_call {R}.
Arguments c_kind {R}.
Arguments c_uid {R}.
Arguments c_rec {R}.

(* ---- reading the files back: splitters for the two layouts --------------------------- *)

(* the segments between newlines (always at least one) *)
Fixpoint split_on_nl (s : str) : list str :=
  match s with
  | [] => [[]]
  | c :: t => if N.eqb c NL then [] :: split_on_nl t
              else match split_on_nl t with
                   | h :: r => (c :: h) :: r
                   | [] => [[c]]
                   end
  end.

(* remove exactly one trailing comma *)
Definition strip_comma (seg : str) : option str :=
  match rev seg with
  | c :: r => if N.eqb c COMMA then Some (rev r) else None
  | [] => None
  end.

(* segments of the array body  e0,  e1,  ...  en  ]  ->  [e0; ...; en] *)
Fixpoint elems (segs : list str) : option (list str) :=
  match segs with
  | [] => None
  | [_] => None
  | [e; close] => if str_beq close [RB] then Some [e] else None
  | seg :: rest =>
      match strip_comma seg, elems rest with
      | Some e, Some es => Some (e :: es)
      | _, _ => None
      end
  end.

Definition split_array (s : str) : option (list str) :=
  match s with
  | a :: b :: body => if N.eqb a LB && N.eqb b NL then elems (split_on_nl body) else None
  | _ => None
  end.

(* JSON Lines: every line newline-terminated *)
Definition lines_of (s : str) : option (list str) :=
  let segs := split_on_nl s in
  match last segs [NL] with
  | [] => Some (removelast segs)
  | _ => None
  end.

Fixpoint all_some {A} (l : list (option A)) : option (list A) :=
  match l with
  | [] => Some []
  | Some x :: r => match all_some r with Some xs => Some (x :: xs) | None => None end
  | None :: _ => None
  end.

Section Dec.
  Variable R : Type.
  Variable dec : str -> option R.
  Definition read_array (s : str) : option (list R) :=
    match split_array s with Some es => all_some (map dec es) | None => None end.
  Definition read_lines (s : str) : option (list R) :=
    match lines_of s with Some es => all_some (map dec es) | None => None end.
End Dec.

(* ---- instance used by the correspondence: a record is its own encoding ---------------- *)
(* same files with the same contents (the observed directory listing has no order) *)
Definition fs_beq (f g : fs) : bool :=
  Nat.eqb (length f) (length g)
  && forallb (fun e : str * str => option_beq str_beq (fs_get f (fst e)) (Some (snd e))) g.
Definition errs_beq : list (option err) -> list (option err) -> bool := list_beq (option_beq err_beq).
Definition ostr_beq : option str -> option str -> bool := option_beq str_beq.

Definition run_beq (r : option str * fs * list (option err)) (w : option str) (f : fs) (es : list (option err)) : bool :=
  let '(w', f', es') := r in ostr_beq w' w && fs_beq f' f && errs_beq es' es.

Definition idenc (s : str) : str := s.

(* observed file contents are written as pieces that refer to the records of the calls and to
   the pre-existing contents, so that the generated cases do not repeat those bytes; the harness
   checks in Python that the pieces concatenate to the bytes it read from the directory *)
Inductive piece := PLit (s : str) | PRec (i : nat) | PPre (i : nat).
Fixpoint flatten (recs pres : list str) (ps : list piece) : option str :=
  match ps with
  | [] => Some []
  | p :: r =>
      match (match p with PLit s => Some s | PRec i => nth_error recs i | PPre i => nth_error pres i end),
            flatten recs pres r with
      | Some a, Some b => Some (a ++ b)
      | _, _ => None
      end
  end.
Definition flatten_files (recs pres : list str) (fl : list (str * list piece)) : option fs :=
  all_some (map (fun e : str * list piece =>
                   match flatten recs pres (snd e) with Some c => Some (fst e, c) | None => None end) fl).

Definition jw_obs_beq (w : option str) (f : fs) (cs : list (call str)) w' (fl : list (str * list piece)) es' : bool :=
  match flatten_files (map c_rec cs) (map snd f) fl with
  | Some f' => run_beq (jw_run str idenc w f cs) w' f' es'
  | None => false
  end.
Definition jl_obs_beq (today : str) (w : option str) (f : fs) (cs : list (call str)) w' (fl : list (str * list piece)) es' : bool :=
  match flatten_files (map c_rec cs) (map snd f) fl with
  | Some f' => run_beq (jl_run str idenc today w f cs) w' f' es'
  | None => false
  end.
