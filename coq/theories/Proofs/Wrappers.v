(* Proofs about Gen/Wrappers.v: the wrapper programs refine the phase specification (C22). *)
From BV Require Import Base.Prelude Gen.Coalg Gen.PyGen Gen.Wrappers Proofs.Coalg.

Lemma nth_error_set_hole :
  forall (P : Type) (hs : list (hole_state P)) h x, h < length hs -> nth_error (set_hole h x hs) h = Some x.
Proof.
  induction hs as [|a hs IH]; intros [|h] x H; cbn in *; try lia; [reflexivity|]. apply IH. lia.
Qed.

Lemma length_set_hole :
  forall (P : Type) (hs : list (hole_state P)) h x, length (set_hole h x hs) = length hs.
Proof. induction hs as [|a hs IH]; intros [|h] x; cbn; auto. Qed.

Lemma run_S :
  forall (P : Type) (hres : P -> input -> outcome P) f c cur rest hs log,
    run hres (S f) c cur rest hs log =
    match step hres c cur rest hs with
    | SCont c' cur' rest' hs' calls => run hres f c' cur' rest' hs' (log ++ calls)
    | SOut o calls => (o, log ++ calls)
    end.
Proof. reflexivity. Qed.

(* symbolic execution of the machine: one [run] iteration at a time; every call into a hole
   (an abstract plan) and every class test on an abstract exception is split into its cases *)
Ltac class_consts :=
  repeat first
    [ progress change (is_GeneratorExit EGeneratorExit) with true
    | progress change (is_Exception EGeneratorExit) with false
    | progress change (is_GeneratorExit ERuntimeError) with false
    | progress change (is_Exception ERuntimeError) with true
    | progress change (is_GeneratorExit ETypeError) with false
    | progress change (is_Exception ETypeError) with true ].
Ltac sim_red :=
  class_consts;
  cbn -[run hole_outcome close_result is_GeneratorExit is_Exception Nat.add after_raise handle];
  class_consts;
  try (progress unfold after_raise, handle;
       cbn -[run hole_outcome close_result is_GeneratorExit is_Exception Nat.add after_raise handle]).
Ltac sim_step hres :=
  first
    [ progress (rewrite run_S)
    | match goal with |- context [hole_outcome (hres ?a ?b)] => destruct (hres a b) eqn:?; unfold hole_outcome end
    | match goal with |- context [close_result (hres ?a ?b)] => destruct (hres a b) eqn:?; unfold close_result end
    | match goal with |- context [cb ?b] => is_var b; destruct b end
    | match goal with |- context [if ?b then _ else _] => is_var b; destruct b end
    | match goal with |- context [is_GeneratorExit ?e] => destruct (is_GeneratorExit e) eqn:? end
    | match goal with |- context [is_Exception ?e] => destruct (is_Exception e) eqn:? end ];
  try match goal with
      | H : false = true |- _ => discriminate H
      | H : true = false |- _ => discriminate H
      end;
  sim_red.
Ltac sim hres := cbn [Nat.add]; unfold cw_lresume, close_delegate; sim_red; repeat (sim_step hres).

Section Contingency.
  Context {P : Type}.
  Variable hres : P -> input -> outcome P.
  Variable exc_plan : exn -> P.
  Variable else_plan fin_plan : P.
  Notation f1 := (fun oe : option exn => match oe with Some e => exc_plan e | None => fin_plan end).
  Notation f2 := (fun _ : option exn => else_plan).
  Notation f3 := (fun _ : option exn => fin_plan).
  Definition ret0 : stmt := SReturn (RVar 0).
  Definition env1 (v : val) : list val := [v; VInt 1].

  Definition spec (o : cw_opts) := cw_lresume hres true o false 1 2 3 exc_plan else_plan fin_plan.

  (* frames / locals of the wrapper while its final plan runs, for the pending completion c *)
  Inductive final_shape : completion -> list frame -> list val -> Prop :=
    | fs_exc e v : final_shape (CExc e) [KFin (CExc e); KSeq ret0] (env1 v)
    | fs_ret v w : final_shape (CRet v) [KFin (CRet v); KSeq ret0] (env1 w)
    | fs_else v : final_shape (CRet v) [KFin CNormal; KSeq ret0] (env1 v).

  Inductive final_holes (q : P) : list (hole_state P) -> Prop :=
    | fh_direct : final_holes q [HDead; HFun f1; HFun f2; HLive q]
    | fh_exc : final_holes q [HDead; HDead; HFun f2; HLive q]
    | fh_else : final_holes q [HDead; HFun f1; HDead; HLive q].

  Inductive R (o : cw_opts) : phase -> state P -> Prop :=
    | R_start p :
        R o (PhStart p) (pg_init (contingency_prog o) [HLive p; HFun f1; HFun f2; HFun f3])
    | R_body p :
        R o (PhBody p)
          (mkSt [mkAct [KHoleRecv (Some 0) 0;
                        KTry [(PGeneratorExit, SSeq (set_cleanup false) SReraise); (PException, cw_handler o)]
                             (cw_else o) (cw_finally o);
                        KSeq ret0] (env1 VNone) None]
                [HLive p; HFun f1; HFun f2; HFun f3])
    | R_pause e :
        is_Exception e = true ->
        R o (PhPause e)
          (mkSt [mkAct [KRecv (Some 0); KSeq ret0] [] None;
                 mkAct [KRecv (Some 0); KSeq ret0] [] None;
                 mkAct [KRecv None;
                        KSeq (SIf (cb (o_exc o))
                                  (SSeq (SYieldFromHole (Some 0) 1) (SIf (cb (o_auto o)) SReraise ret0)) SReraise);
                        KHandler e (cw_finally o); KSeq ret0] (env1 VNone) None]
                [HDead; HFun f1; HFun f2; HFun f3])
    | R_exc q e :
        R o (PhExcept q e)
          (mkSt [mkAct [KHoleRecv (Some 0) 1; KSeq (SIf (cb (o_auto o)) SReraise ret0);
                        KHandler e (cw_finally o); KSeq ret0] (env1 VNone) None]
                [HDead; HLive q; HFun f2; HFun f3])
    | R_else q v :
        R o (PhElse q v)
          (mkSt [mkAct [KHoleRecv None 2; KElse (cw_finally o); KSeq ret0] (env1 v) None]
                [HDead; HFun f1; HLive q; HFun f3])
    | R_final q c k env hs :
        final_shape c k env -> final_holes q hs ->
        R o (PhFinal q c) (mkSt [mkAct (KHoleRecv None 3 :: k) env None] hs).

  Definition Rr (o : cw_opts) (st : state P) (ph : phase) : Prop := R o ph st.

  Ltac fin_goal :=
    repeat split;
    try solve [ reflexivity
              | constructor; assumption
              | constructor
              | econstructor; constructor ].

  Lemma cw_sim :
    forall be bl bf ba bp ph st, R (mkOpts be bl bf ba bp) ph st -> forall i fuel,
      step_rel (Rr (mkOpts be bl bf ba bp)) (pg_lresume hres (60 + fuel) st i) (spec (mkOpts be bl bf ba bp) ph i).
  Proof.
    intros be bl bf ba bp ph st H i fuel. unfold step_rel, spec, pg_lresume.
    destruct H as [p|p|e0 HE|q e|q v|q c k env hs FS FH].
    - destruct i as [[|z]|e|]; sim hres; fin_goal.
    - destruct i as [w|e|]; sim hres; fin_goal.
    - destruct i as [w|e'|]; sim hres; fin_goal.
    - destruct i as [w|e'|]; sim hres; fin_goal.
    - destruct i as [w|e'|]; sim hres; fin_goal.
    - destruct FS, FH; destruct i as [x|e2|]; sim hres; fin_goal.
  Qed.
End Contingency.

(* ------------------------------------------------------------------ finalize_wrapper / finalize_decorator *)
Section Finalize.
  Context {P : Type}.
  Variable hres : P -> input -> outcome P.
  Variable fin_plan : P.

  Notation f3 := (fun _ : option exn => fin_plan).
  Notation ret0 := (SReturn (RVar 0)).
  Notation env1 v := [v; VInt 1].
  Notation fin_stmt := (SIf (CTruthy 1) (SYieldFromHole None 1) SPass).

  (* final_plan given as an instance, or as a callable (called before the try: nothing runs) *)
  Definition fin_hole (callable : bool) : hole_state P := if callable then HFun f3 else HLive fin_plan.

  Definition fspec (pfd : bool) := cw_lresume hres true (finalize_opts pfd) true 1 2 1 (fun _ => fin_plan) fin_plan fin_plan.

  Inductive ffinal_shape : completion -> list frame -> list val -> Prop :=
    | ffs_exc e v : ffinal_shape (CExc e) [KFin (CExc e); KSeq ret0] (env1 v)
    | ffs_else v : ffinal_shape (CRet v) [KFin CNormal; KSeq ret0] (env1 v).

  Definition fw_handlers (pfd : bool) : list (epat * stmt) :=
    [(PGeneratorExit, SSeq (set_cleanup false) SReraise);
     (PBase, SSeq (SIf (cb pfd) pause_call SPass) SReraise)].
  Definition fd_handlers : list (epat * stmt) := [(PGeneratorExit, SSeq (set_cleanup false) SReraise)].

  (* [prog] / [handlers]: finalize_wrapper_prog false with fw_handlers, or finalize_decorator_prog true
     with fd_handlers *)
  Inductive RF (prog : stmt) (handlers : list (epat * stmt)) (callable : bool) : phase -> state P -> Prop :=
    | RF_start p : RF prog handlers callable (PhStart p) (pg_init prog [HLive p; fin_hole callable])
    | RF_body p :
        RF prog handlers callable (PhBody p)
           (mkSt [mkAct [KHoleRecv (Some 0) 0; KTry handlers SPass fin_stmt; KSeq ret0] (env1 VNone) None]
                 [HLive p; fin_hole callable])
    | RF_pause e :
        RF prog handlers callable (PhPause e)
           (mkSt [mkAct [KRecv (Some 0); KSeq ret0] [] None;
                  mkAct [KRecv (Some 0); KSeq ret0] [] None;
                  mkAct [KRecv None; KSeq SReraise; KHandler e fin_stmt; KSeq ret0] (env1 VNone) None]
                 [HDead; fin_hole callable])
    | RF_final q c k env :
        ffinal_shape c k env ->
        RF prog handlers callable (PhFinal q c) (mkSt [mkAct (KHoleRecv None 1 :: k) env None] [HDead; HLive q]).

  Definition RFr prog handlers callable (st : state P) (ph : phase) : Prop := RF prog handlers callable ph st.

  Ltac fin_goal :=
    repeat split;
    try solve [ reflexivity | constructor; assumption | constructor | econstructor; constructor ].

  Lemma fw_sim :
    forall pfd callable ph st, RF (finalize_wrapper_prog pfd) (fw_handlers pfd) callable ph st -> forall i fuel,
      step_rel (RFr (finalize_wrapper_prog pfd) (fw_handlers pfd) callable)
               (pg_lresume hres (60 + fuel) st i) (fspec pfd ph i).
  Proof.
    intros pfd callable ph st H i fuel. unfold step_rel, fspec, pg_lresume, finalize_opts.
    destruct H as [p|p|e0|q c k env FS].
    - destruct callable, i as [[|z]|e|]; sim hres; fin_goal.
    - destruct callable, i as [w|e|]; sim hres; fin_goal.
    - destruct callable, i as [w|e|]; sim hres; fin_goal.
    - destruct FS; destruct i as [x|e2|]; sim hres; fin_goal.
  Qed.

  Lemma fd_sim :
    forall ph st, RF (finalize_decorator_prog true) fd_handlers true ph st -> forall i fuel,
      step_rel (RFr (finalize_decorator_prog true) fd_handlers true)
               (pg_lresume hres (60 + fuel) st i) (fspec false ph i).
  Proof.
    intros ph st H i fuel. unfold step_rel, fspec, pg_lresume, finalize_opts.
    destruct H as [p|p|e0|q c k env FS].
    - destruct i as [[|z]|e|]; sim hres; fin_goal.
    - destruct i as [w|e|]; sim hres; fin_goal.
    - destruct i as [w|e|]; sim hres; fin_goal.
    - destruct FS; destruct i as [x|e2|]; sim hres; fin_goal.
  Qed.
End Finalize.

(* ------------------------------------------------------------------ Python's own statement = spec with skip = false *)
Section PythonTry.
  Context {P : Type}.
  Variable hres : P -> input -> outcome P.
  Variable exc_plan : exn -> P.
  Variable else_plan fin_plan : P.

  Notation f1 := (fun oe : option exn => match oe with Some e => exc_plan e | None => fin_plan end).
  Notation f2 := (fun _ : option exn => else_plan).
  Notation f3 := (fun _ : option exn => fin_plan).
  Notation ret0 := (SReturn (RVar 0)).
  Notation pfin o := (SIf (cb (o_fin o)) (SYieldFromHole None 3) SPass).

  Definition pspec (o : cw_opts) := cw_lresume hres false o false 1 2 3 exc_plan else_plan fin_plan.

  Inductive pfinal_shape : completion -> list frame -> list val -> Prop :=
    | pfs_exc e env : pfinal_shape (CExc e) [KFin (CExc e); KSeq ret0] env
    | pfs_ret v env : pfinal_shape (CRet v) [KFin (CRet v); KSeq ret0] env
    | pfs_else v : pfinal_shape (CRet v) [KFin CNormal; KSeq ret0] [v].

  Inductive pfinal_holes (q : P) : list (hole_state P) -> Prop :=
    | pfh_direct : pfinal_holes q [HDead; HFun f1; HFun f2; HLive q]
    | pfh_exc : pfinal_holes q [HDead; HDead; HFun f2; HLive q]
    | pfh_else : pfinal_holes q [HDead; HFun f1; HDead; HLive q].

  Inductive RP (o : cw_opts) : phase -> state P -> Prop :=
    | RP_start p : RP o (PhStart p) (pg_init (python_try_prog o) [HLive p; HFun f1; HFun f2; HFun f3])
    | RP_body p :
        RP o (PhBody p)
           (mkSt [mkAct [KHoleRecv (Some 0) 0; KTry [(PException, cw_handler o)] (cw_else o) (pfin o); KSeq ret0]
                        [] None]
                 [HLive p; HFun f1; HFun f2; HFun f3])
    | RP_pause e :
        is_Exception e = true ->
        RP o (PhPause e)
           (mkSt [mkAct [KRecv (Some 0); KSeq ret0] [] None;
                  mkAct [KRecv (Some 0); KSeq ret0] [] None;
                  mkAct [KRecv None;
                         KSeq (SIf (cb (o_exc o))
                                   (SSeq (SYieldFromHole (Some 0) 1) (SIf (cb (o_auto o)) SReraise ret0)) SReraise);
                         KHandler e (pfin o); KSeq ret0] [] None]
                 [HDead; HFun f1; HFun f2; HFun f3])
    | RP_exc q e :
        RP o (PhExcept q e)
           (mkSt [mkAct [KHoleRecv (Some 0) 1; KSeq (SIf (cb (o_auto o)) SReraise ret0);
                         KHandler e (pfin o); KSeq ret0] [] None]
                 [HDead; HLive q; HFun f2; HFun f3])
    | RP_else q v :
        RP o (PhElse q v)
           (mkSt [mkAct [KHoleRecv None 2; KElse (pfin o); KSeq ret0] [v] None]
                 [HDead; HFun f1; HLive q; HFun f3])
    | RP_final q c k env hs :
        pfinal_shape c k env -> pfinal_holes q hs ->
        RP o (PhFinal q c) (mkSt [mkAct (KHoleRecv None 3 :: k) env None] hs).

  Definition RPr (o : cw_opts) (st : state P) (ph : phase) : Prop := RP o ph st.

  Ltac fin_goal :=
    repeat split;
    try solve [ reflexivity | constructor; assumption | constructor | econstructor; constructor ].

  Lemma py_sim :
    forall be bl bf ba bp ph st, RP (mkOpts be bl bf ba bp) ph st -> forall i fuel,
      step_rel (RPr (mkOpts be bl bf ba bp)) (pg_lresume hres (60 + fuel) st i)
               (pspec (mkOpts be bl bf ba bp) ph i).
  Proof.
    intros be bl bf ba bp ph st H i fuel. unfold step_rel, pspec, pg_lresume.
    destruct H as [p|p|e0 HE|q e|q v|q c k env hs FS FH].
    - destruct i as [[|z]|e|]; sim hres; fin_goal.
    - destruct i as [w|e|]; sim hres; fin_goal.
    - destruct i as [w|e'|]; sim hres; fin_goal.
    - destruct i as [w|e'|]; sim hres; fin_goal.
    - destruct i as [w|e'|]; sim hres; fin_goal.
    - destruct FS, FH; destruct i as [x|e2|]; sim hres; fin_goal.
  Qed.
End PythonTry.
