(* C41 - monitors report only while their run is open and running.
   Model: Engine/Monitors.v (RunBundler.monitor / unmonitor / suspend_monitors / restore_monitors /
   clear_monitors / close_run's clearing, and the places where RunEngine calls them: pause block, wake-up,
   _start_suspender, _resume_from_suspender, _close_run, the finally block; src/bluesky/bundlers.py and
   src/bluesky/run_engine.py with the repair fixes/C41-a.diff).
   A history is any list of: open_run / close_run / monitor / unmonitor messages under any run keys and for
   any objects (duplicates, unknown keys, objects not monitored included), the engine reaching its pause
   block / waking up, '_start_suspender' / '_resume_from_suspender' being processed (in ANY order and nesting:
   pauses inside suspensions, overlapping suspensions, unmatched resumes), the cleanup, and device updates.
   [mlog h] is what the model emits: every subscribe / clear_sub call on a device, every Event document,
   the outcome of every message.  [srun h] is the specification side: which runs are open, what each
   monitors, how many pauses/suspensions are under way - no device, no per-bundler counter.
   A 'monitor' message carries a subscription argument c (its kwargs for subscribe, e.g. event_type; 0 = none):
   the device calls a registration only for updates on the channel it was made for, and the ledger records the
   argument of every subscribe call.  [live_of log o r c] reads the ledger: live registrations of run r's callback
   on device o made for channel c (subscribe(cb, c) adds one for c, clear_sub(cb) removes those of every channel). *)
From BV Require Import Base.Prelude Base.KeyMap Engine.Monitors Proofs.Monitors.
From Coq Require Import NArith ZArith.

(* device semantics, tied to the ledger: an update makes, per open run, as many Event documents as that
   run's callback has live registrations according to the ledger *)
Theorem C41_update_calls_live_registrations :
  forall (h : list op) (o c : N) (v : Z),
    step (mstate h) (Update o c v)
    = (mstate h, flat_map (fun kb => repeat (EEvent (b_id (snd kb)) o v) (live_of (mlog h) o (b_id (snd kb)) c))
                          (runs (mstate h))).
Proof. exact update_calls_live_registrations. Qed.
Print Assumptions C41_update_calls_live_registrations.

(* every history: a run's callback is never registered twice on a device (no duplicated events) *)
Theorem C41_never_two_registrations :
  forall (h : list op) (o : N) (r : nat) (c : N), live_of (mlog h) o r c <= 1.
Proof. exact never_two_registrations. Qed.
Print Assumptions C41_never_two_registrations.

(* every history: when run r is not open or does not monitor o on channel c - in particular after unmonitor, after
   close_run, after the cleanup, and for every channel other than the requested one - the device has no
   registration of r's callback for c *)
Theorem C41_no_residual_subscription :
  forall (h : list op) (o : N) (r : nat) (c : N), monitored (srun h) r o c = false -> live_of (mlog h) o r c = 0.
Proof. exact no_residual_subscription. Qed.
Print Assumptions C41_no_residual_subscription.

(* outside class g: the callback is registered, for the REQUESTED channel and no other, exactly while its run is
   open, monitors the object and no pause or suspension is under way (so a pause/resume or a suspension
   re-instates the very subscription the 'monitor' message asked for) *)
Theorem C41_live_iff_running :
  forall (h : list op) (o : N) (r : nat) (c : N), finding_C41_g h = false ->
    live_of (mlog h) o r c = if Nat.eqb (depth (srun h)) 0 && monitored (srun h) r o c then 1 else 0.
Proof. exact live_iff_running. Qed.
Print Assumptions C41_live_iff_running.

(* the property: outside class g the Event documents of the whole history are, update by update, exactly
   one per open run monitoring the object on the updated channel while no pause/suspension is under way, and
   none otherwise *)
Theorem C41_events_iff_running :
  forall h : list op, finding_C41_g h = false -> filter is_event (mlog h) = spec_log h.
Proof. exact events_iff_running. Qed.
Print Assumptions C41_events_iff_running.

Definition C41_full : Prop := forall h : list op, filter is_event (mlog h) = spec_log h.

(* a pause inside a suspension, an overlapping second suspension, an unmatched resume, two runs monitoring
   the same object, unmonitor and close: outside class g, with events produced and suppressed *)
Definition h_nonvacuous : list op :=
  [OpenRun 1%N; Monitor 1%N 7%N 0%N; OpenRun 2%N; Monitor 2%N 7%N 3%N; Update 7%N 0%N 1%Z; Update 7%N 3%N 1%Z;
   SuspendStart; Update 7%N 0%N 2%Z; PauseBlock; Update 7%N 3%N 3%Z; ResumeWake; Update 7%N 0%N 4%Z;
   SuspendStart; SuspendResume; Update 7%N 3%N 5%Z; SuspendResume; Update 7%N 0%N 6%Z; Update 7%N 3%N 6%Z;
   Update 7%N 5%N 6%Z; ResumeWake;
   Unmonitor 1%N 7%N; Update 7%N 0%N 7%Z; Update 7%N 3%N 7%Z; CloseRun 2%N; Update 7%N 3%N 8%Z; Finalize].

Example C41_nonvacuous :
  finding_C41_g h_nonvacuous = false /\
  spec_log h_nonvacuous = [EEvent 0 7%N 1%Z; EEvent 1 7%N 1%Z; EEvent 0 7%N 6%Z; EEvent 1 7%N 6%Z; EEvent 1 7%N 7%Z] /\
  filter is_event (mlog h_nonvacuous) = spec_log h_nonvacuous /\
  filter (fun e => match e with ESub _ _ _ => true | _ => false end) (mlog h_nonvacuous)
  = [ESub 7%N 0 0%N; ESub 7%N 1 3%N; ESub 7%N 0 0%N; ESub 7%N 1 3%N].
Proof. vm_compute. repeat split. Qed.

(* C41-g: a run opened from a suspender's pre_plan monitors a signal: it reports during the suspension *)
Definition h_g : list op :=
  [OpenRun 1%N; SuspendStart; OpenRun 2%N; Monitor 2%N 7%N 0%N; Update 7%N 0%N 5%Z; SuspendResume; Finalize].

Theorem C41_g_refuted : exists h, finding_C41_g h = true /\ filter is_event (mlog h) <> spec_log h.
Proof. exists h_g. split; [reflexivity|]. vm_compute. discriminate. Qed.
Print Assumptions C41_g_refuted.
