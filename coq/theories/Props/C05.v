(* C05 - seq_num and num_events account for every event exactly.

   Model: Engine/RE.v with its minimal RunBundler (bundled streams + the 'interruptions' stream).
   The numbering discipline is the one of the document monitor Engine/DocMon.v, per run and stream:
   an event carries exactly the next seq_num when nothing was rolled back since the last event of
   the stream; after a rewind point (an accepted resume, a `_start_suspender`) it carries a number in
   1..next (a re-taken point), never a skipped one; the interruptions stream is never rolled back;
   RunStop.num_events is next-1 and lists every described stream.
   PARTIAL: monitor streams, collect/stream datums are not in the engine model (bundler side: C15,
   C16, C41, C45); C05_full below is the statement with exact counts at every RunStop, which the
   unchanged code violates inside class C05-b. *)
From Coq Require Import List ZArith Bool.
From BV Require Import Engine.RE Engine.REInst Engine.DocMon Proofs.RE_Docs Proofs.RE_DocsMon Proofs.RE_DocsCor.
Import ListNotations.

Theorem C05_numbering_partial :
  forall (P : Type) (presume : P -> input -> outcome P) (plan_of : nat -> P)
         (D : Type) (dev : D -> nat -> devmeth -> D * devres)
         (d : D) (paus stag : list nat) (rec : bool) (evs : list event),
    docs_ok rec (snd (run_steps P presume plan_of D dev (init P D d paus stag rec) evs)) = true.
Proof. exact run_docs_ok. Qed.
Print Assumptions C05_numbering_partial.

(* the statement of the property at every RunStop: num_events = largest seq_num emitted *)
Definition C05_full : Prop :=
  forall (P : Type) (presume : P -> input -> outcome P) (plan_of : nat -> P)
         (D : Type) (dev : D -> nat -> devmeth -> D * devres)
         (d : D) (paus stag : list nat) (rec : bool) (evs : list event),
    miscounted rec (snd (run_steps P presume plan_of D dev (init P D d paus stag rec) evs)) = false.

(* finding class C05-b: some run was stopped behind a rewind (after a resume/suspension rolled its
   counters back and before the replay had re-emitted everything).  Outside the class the counts are exact. *)
Definition finding_C05_b (rec : bool) (l : list (event * list obs)) : Prop := stopped_behind rec l = true.

Theorem C05_counts_exact_outside_b :
  forall (P : Type) (presume : P -> input -> outcome P) (plan_of : nat -> P)
         (D : Type) (dev : D -> nat -> devmeth -> D * devres)
         (d : D) (paus stag : list nat) (rec : bool) (evs : list event),
    miscounted rec (snd (run_steps P presume plan_of D dev (init P D d paus stag rec) evs)) = true ->
    stopped_behind rec (snd (run_steps P presume plan_of D dev (init P D d paus stag rec) evs)) = true.
Proof. exact counts_exact_outside_b. Qed.
Print Assumptions C05_counts_exact_outside_b.

Theorem C05_interruptions_never_rolled_back :
  forall (P : Type) (presume : P -> input -> outcome P) (plan_of : nat -> P)
         (D : Type) (dev : D -> nat -> devmeth -> D * devres)
         (d : D) (paus stag : list nat) (rec : bool) (evs : list event),
    exists m', mon_steps rec mon0 (snd (run_steps P presume plan_of D dev (init P D d paus stag rec) evs)) = Some m' /\
               Forall intr_exact (m_open m').
Proof. exact interruptions_exact. Qed.
Print Assumptions C05_interruptions_never_rolled_back.

(* witness of C05-b (recorded from the implementation): events 1, 2, 3, pause, resume (roll-back to the
   checkpoint), abort before anything is re-taken: the RunStop says num_events = 0 although seq_nums 1..3 were emitted *)
(* exb: {"plan": ["seq", ["m", "open_run", null, [], {}, null], ["m", "checkpoint", null, [], {}, null], ["m", "create", null, [], {"name": "primary"}, null], ["m", "read", 1, [], {}, null], ["m", "save", null, [], {}, null], ["m", "create", null, [], {"name": "primary"}, null], ["m", "read", 1, [], {}, null], ["m", "save", null, [], {}, null], ["m", "create", null, [], {"name": "primary"}, null], ["m", "read", 1, [], {}, null], ["m", "save", null, [], {}, null], ["m", "null", null, [], {}, null], ["m", "null", null, [], {}, null], ["m", "null", null, [], {}, null], ["m", "null", null, [], {}, null], ["m", "close_run", null, [], {}, null]], "devs": [["stage"], [], ["pause"], ["stage"]], "inject": [{"at": 14, "req": "pause"}, {"at": 17, "req": "abort"}], "script": ["resume"], "tag": "behind"} *)
Definition exb_tapes := [(0, [TY {| mid := (Some 0); mcmd := COpenRun; mobj := None; mrun := 0 |}; TY {| mid := (Some 1); mcmd := CCheckpoint; mobj := None; mrun := 0 |}; TY {| mid := (Some 2); mcmd := (CCreate 0); mobj := None; mrun := 0 |}; TY {| mid := (Some 3); mcmd := CRead; mobj := (Some 1); mrun := 0 |}; TY {| mid := (Some 4); mcmd := CSave; mobj := None; mrun := 0 |}; TY {| mid := (Some 5); mcmd := (CCreate 0); mobj := None; mrun := 0 |}; TY {| mid := (Some 6); mcmd := CRead; mobj := (Some 1); mrun := 0 |}; TY {| mid := (Some 7); mcmd := CSave; mobj := None; mrun := 0 |}; TY {| mid := (Some 8); mcmd := (CCreate 0); mobj := None; mrun := 0 |}; TY {| mid := (Some 9); mcmd := CRead; mobj := (Some 1); mrun := 0 |}; TY {| mid := (Some 10); mcmd := CSave; mobj := None; mrun := 0 |}; TY {| mid := (Some 11); mcmd := CNull; mobj := None; mrun := 0 |}; TE ERequestAbort])].
Definition exb_ledger := [DVal (0)%Z; DVal (1)%Z; DVal (2)%Z].
Definition exb_paus := [2].
Definition exb_stag := [0; 3].
Definition exb_rec := false.
Definition exb_evs := [EvMain (ACall 0); EvPermit; EvTask; EvTask; EvTask; EvTask; EvTask; EvCacheDone; EvTask; EvTask; EvTask; EvTask; EvTask; EvTask; EvTask; EvTask; EvTask; EvReqPause false; EvTask; EvMainDone (ACall 0); EvMain AResume; EvPermit; EvTask; EvTask; EvReqAbort (RsGiven 1); EvTask; EvTask; EvMainDone AResume].
Definition exb_obs : list obs := [(OState Idle Running); (OTask WSleep0); (OPlanIn 0 (Send VNone)); (OMsg {| mid := (Some 0); mcmd := COpenRun; mobj := None; mrun := 0 |}); (ODoc (DStart 0)); (OResp (RVal (VUid 0))); (OTask WSleep0); (OPlanIn 0 (Send (VUid 0))); (OMsg {| mid := (Some 1); mcmd := CCheckpoint; mobj := None; mrun := 0 |}); (OResp (RVal VNone)); (OTask WSleep0); (OPlanIn 0 (Send VNone)); (OMsg {| mid := (Some 2); mcmd := (CCreate 0); mobj := None; mrun := 0 |}); (OResp (RVal VNone)); (OTask WSleep0); (OPlanIn 0 (Send VNone)); (OMsg {| mid := (Some 3); mcmd := CRead; mobj := (Some 1); mrun := 0 |}); (ODev 1 MRead); (OTask WFuture); (OResp (RVal (VReading 1 (0)%Z))); (OTask WSleep0); (OPlanIn 0 (Send (VReading 1 (0)%Z))); (OMsg {| mid := (Some 4); mcmd := CSave; mobj := None; mrun := 0 |}); (ODoc (DDescr 0 0 [1])); (ODoc (DEvent 0 0 1 [(1, (0)%Z)])); (OResp (RVal VNone)); (OTask WSleep0); (OPlanIn 0 (Send VNone)); (OMsg {| mid := (Some 5); mcmd := (CCreate 0); mobj := None; mrun := 0 |}); (OResp (RVal VNone)); (OTask WSleep0); (OPlanIn 0 (Send VNone)); (OMsg {| mid := (Some 6); mcmd := CRead; mobj := (Some 1); mrun := 0 |}); (ODev 1 MRead); (OResp (RVal (VReading 1 (1)%Z))); (OTask WSleep0); (OPlanIn 0 (Send (VReading 1 (1)%Z))); (OMsg {| mid := (Some 7); mcmd := CSave; mobj := None; mrun := 0 |}); (ODoc (DEvent 0 0 2 [(1, (1)%Z)])); (OResp (RVal VNone)); (OTask WSleep0); (OPlanIn 0 (Send VNone)); (OMsg {| mid := (Some 8); mcmd := (CCreate 0); mobj := None; mrun := 0 |}); (OResp (RVal VNone)); (OTask WSleep0); (OPlanIn 0 (Send VNone)); (OMsg {| mid := (Some 9); mcmd := CRead; mobj := (Some 1); mrun := 0 |}); (ODev 1 MRead); (OResp (RVal (VReading 1 (2)%Z))); (OTask WSleep0); (OPlanIn 0 (Send (VReading 1 (2)%Z))); (OMsg {| mid := (Some 10); mcmd := CSave; mobj := None; mrun := 0 |}); (ODoc (DEvent 0 0 3 [(1, (2)%Z)])); (OResp (RVal VNone)); (OTask WSleep0); (OPlanIn 0 (Send VNone)); (OMsg {| mid := (Some 11); mcmd := CNull; mobj := None; mrun := 0 |}); (OResp (RVal VNone)); (OTask WSleep0); (OState Running Pausing); (OReq true); (OState Pausing Paused); (OTask WFuture); (OOut OutInterrupted Paused false true); (OState Paused Running); (OTask WSleep0); (OMsg {| mid := (Some 2); mcmd := (CCreate 0); mobj := None; mrun := 0 |}); (OResp (RVal VNone)); (OTask WSleep0); (OState Running Aborting); (OReq true); (OPlanIn 0 (Throw ERequestAbort)); (OTask WSleep0); (ODoc (DStop 0 XAbort (RsGiven 1) [(0, 0)])); (OState Aborting Idle); (OTask WReturn); (OOut OutInterrupted Idle false true)].
Example C05_b_refuted :
  let l := model_steps exb_tapes exb_ledger exb_paus exb_stag exb_rec exb_evs in
  check exb_tapes exb_ledger exb_paus exb_stag exb_rec exb_evs exb_obs = true /\
  finding_C05_b exb_rec l /\ miscounted exb_rec l = true /\
  docs_of (flat_map snd l) =
    [DStart 0; DDescr 0 0 [1]; DEvent 0 0 1 [(1, 0%Z)]; DEvent 0 0 2 [(1, 1%Z)]; DEvent 0 0 3 [(1, 2%Z)];
     DStop 0 XAbort (RsGiven 1) [(0, 0)]].
Proof. vm_compute. repeat split. Qed.

(* non-vacuity: a schedule with a roll-back that is replayed completely: counts exact, class not entered *)
(* exk: {"plan": ["seq", ["m", "open_run", null, [], {}, "a"], ["m", "checkpoint", null, [], {}, null], ["m", "create", null, [], {"name": "primary"}, "a"], ["m", "read", 1, [], {}, "a"], ["m", "save", null, [], {}, "a"], ["m", "open_run", null, [], {}, "b"], ["m", "create", null, [], {"name": "primary"}, "b"], ["m", "read", 1, [], {}, "b"], ["m", "save", null, [], {}, "b"], ["m", "close_run", null, [], {}, "b"], ["m", "create", null, [], {"name": "primary"}, "a"], ["m", "read", 1, [], {}, "a"], ["m", "save", null, [], {}, "a"], ["m", "close_run", null, [], {}, "a"]], "devs": [["stage"], [], ["pause"], ["stage"]], "inject": [{"at": 9, "req": "pause"}], "script": ["resume"], "record_interruptions": true, "tag": "ex keys"} *)
Definition exk_tapes := [(0, [TY {| mid := (Some 0); mcmd := COpenRun; mobj := None; mrun := 1 |}; TY {| mid := (Some 1); mcmd := CCheckpoint; mobj := None; mrun := 0 |}; TY {| mid := (Some 2); mcmd := (CCreate 0); mobj := None; mrun := 1 |}; TY {| mid := (Some 3); mcmd := CRead; mobj := (Some 1); mrun := 1 |}; TY {| mid := (Some 4); mcmd := CSave; mobj := None; mrun := 1 |}; TY {| mid := (Some 5); mcmd := COpenRun; mobj := None; mrun := 2 |}; TY {| mid := (Some 6); mcmd := (CCreate 0); mobj := None; mrun := 2 |}; TY {| mid := (Some 7); mcmd := CRead; mobj := (Some 1); mrun := 2 |}; TY {| mid := (Some 8); mcmd := CSave; mobj := None; mrun := 2 |}; TY {| mid := (Some 9); mcmd := (CCloseRun None RsEmpty); mobj := None; mrun := 2 |}; TY {| mid := (Some 10); mcmd := (CCreate 0); mobj := None; mrun := 1 |}; TY {| mid := (Some 11); mcmd := CRead; mobj := (Some 1); mrun := 1 |}; TY {| mid := (Some 12); mcmd := CSave; mobj := None; mrun := 1 |}; TY {| mid := (Some 13); mcmd := (CCloseRun None RsEmpty); mobj := None; mrun := 1 |}; TR (VUid 0)])].
Definition exk_ledger := [DVal (0)%Z; DVal (1)%Z; DVal (2)%Z; DVal (3)%Z].
Definition exk_paus := [2].
Definition exk_stag := [0; 3].
Definition exk_rec := true.
Definition exk_evs := [EvMain (ACall 0); EvPermit; EvTask; EvTask; EvTask; EvTask; EvTask; EvCacheDone; EvTask; EvTask; EvTask; EvTask; EvReqPause false; EvTask; EvMainDone (ACall 0); EvMain AResume; EvPermit; EvTask; EvTask; EvTask; EvTask; EvTask; EvTask; EvTask; EvCacheDone; EvTask; EvTask; EvTask; EvTask; EvTask; EvTask; EvTask; EvTask; EvTask; EvMainDone AResume].
Definition exk_obs : list obs := [(OState Idle Running); (OTask WSleep0); (OPlanIn 0 (Send VNone)); (OMsg {| mid := (Some 0); mcmd := COpenRun; mobj := None; mrun := 1 |}); (ODoc (DStart 0)); (ODoc (DDescr 0 1 [])); (OResp (RVal (VUid 0))); (OTask WSleep0); (OPlanIn 0 (Send (VUid 0))); (OMsg {| mid := (Some 1); mcmd := CCheckpoint; mobj := None; mrun := 0 |}); (OResp (RVal VNone)); (OTask WSleep0); (OPlanIn 0 (Send VNone)); (OMsg {| mid := (Some 2); mcmd := (CCreate 0); mobj := None; mrun := 1 |}); (OResp (RVal VNone)); (OTask WSleep0); (OPlanIn 0 (Send VNone)); (OMsg {| mid := (Some 3); mcmd := CRead; mobj := (Some 1); mrun := 1 |}); (ODev 1 MRead); (OTask WFuture); (OResp (RVal (VReading 1 (0)%Z))); (OTask WSleep0); (OPlanIn 0 (Send (VReading 1 (0)%Z))); (OMsg {| mid := (Some 4); mcmd := CSave; mobj := None; mrun := 1 |}); (ODoc (DDescr 0 0 [1])); (ODoc (DEvent 0 0 1 [(1, (0)%Z)])); (OResp (RVal VNone)); (OTask WSleep0); (OPlanIn 0 (Send VNone)); (OMsg {| mid := (Some 5); mcmd := COpenRun; mobj := None; mrun := 2 |}); (ODoc (DStart 1)); (ODoc (DDescr 1 1 [])); (OResp (RVal (VUid 1))); (OTask WSleep0); (OPlanIn 0 (Send (VUid 1))); (OMsg {| mid := (Some 6); mcmd := (CCreate 0); mobj := None; mrun := 2 |}); (OResp (RVal VNone)); (OTask WSleep0); (OState Running Pausing); (ODoc (DIntr 0 1)); (ODoc (DIntr 1 1)); (OReq true); (OState Pausing Paused); (OTask WFuture); (OOut OutInterrupted Paused false true); (ODoc (DIntr 0 2)); (ODoc (DIntr 1 2)); (OState Paused Running); (OTask WSleep0); (OMsg {| mid := (Some 2); mcmd := (CCreate 0); mobj := None; mrun := 1 |}); (OResp (RVal VNone)); (OTask WSleep0); (OMsg {| mid := (Some 3); mcmd := CRead; mobj := (Some 1); mrun := 1 |}); (ODev 1 MRead); (OResp (RVal (VReading 1 (1)%Z))); (OTask WSleep0); (OMsg {| mid := (Some 4); mcmd := CSave; mobj := None; mrun := 1 |}); (ODoc (DEvent 0 0 1 [(1, (1)%Z)])); (OResp (RVal VNone)); (OTask WSleep0); (OMsg {| mid := (Some 6); mcmd := (CCreate 0); mobj := None; mrun := 2 |}); (OResp (RVal VNone)); (OTask WSleep0); (OTask WSleep0); (OPlanIn 0 (Send VNone)); (OMsg {| mid := (Some 7); mcmd := CRead; mobj := (Some 1); mrun := 2 |}); (ODev 1 MRead); (OTask WFuture); (OResp (RVal (VReading 1 (2)%Z))); (OTask WSleep0); (OPlanIn 0 (Send (VReading 1 (2)%Z))); (OMsg {| mid := (Some 8); mcmd := CSave; mobj := None; mrun := 2 |}); (ODoc (DDescr 1 0 [1])); (ODoc (DEvent 1 0 1 [(1, (2)%Z)])); (OResp (RVal VNone)); (OTask WSleep0); (OPlanIn 0 (Send VNone)); (OMsg {| mid := (Some 9); mcmd := (CCloseRun None RsEmpty); mobj := None; mrun := 2 |}); (ODoc (DStop 1 XSuccess RsEmpty [(1, 2); (0, 1)])); (OResp (RVal (VUid 1))); (OTask WSleep0); (OPlanIn 0 (Send (VUid 1))); (OMsg {| mid := (Some 10); mcmd := (CCreate 0); mobj := None; mrun := 1 |}); (OResp (RVal VNone)); (OTask WSleep0); (OPlanIn 0 (Send VNone)); (OMsg {| mid := (Some 11); mcmd := CRead; mobj := (Some 1); mrun := 1 |}); (ODev 1 MRead); (OResp (RVal (VReading 1 (3)%Z))); (OTask WSleep0); (OPlanIn 0 (Send (VReading 1 (3)%Z))); (OMsg {| mid := (Some 12); mcmd := CSave; mobj := None; mrun := 1 |}); (ODoc (DEvent 0 0 2 [(1, (3)%Z)])); (OResp (RVal VNone)); (OTask WSleep0); (OPlanIn 0 (Send VNone)); (OMsg {| mid := (Some 13); mcmd := (CCloseRun None RsEmpty); mobj := None; mrun := 1 |}); (ODoc (DStop 0 XSuccess RsEmpty [(1, 2); (0, 2)])); (OResp (RVal (VUid 0))); (OTask WSleep0); (OPlanIn 0 (Send (VUid 0))); (OTask WSleep0); (OState Running Idle); (OTask WReturn); (OOut (OutReturn [0; 1]) Idle false true)].
Example C05_nonvacuous :
  let l := model_steps exk_tapes exk_ledger exk_paus exk_stag exk_rec exk_evs in
  docs_ok exk_rec l = true /\ stopped_behind exk_rec l = false /\ miscounted exk_rec l = false /\
  In (DEvent 0 0 1 [(1, 0%Z)]) (docs_of (flat_map snd l)) /\ In (DEvent 0 0 1 [(1, 1%Z)]) (docs_of (flat_map snd l)).
Proof. vm_compute. repeat split; auto 20. Qed.

(* the monitor rejects a gap, a repeat without a rewind point, and a wrong count *)
Example C05_monitor_rejects :
  docs_ok false [(EvTask, [ODoc (DStart 0); ODoc (DDescr 0 0 [1]); ODoc (DEvent 0 0 1 []); ODoc (DEvent 0 0 3 [])])] = false /\
  docs_ok false [(EvTask, [ODoc (DStart 0); ODoc (DDescr 0 0 [1]); ODoc (DEvent 0 0 1 []); ODoc (DEvent 0 0 1 [])])] = false /\
  docs_ok false [(EvTask, [ODoc (DStart 0); ODoc (DDescr 0 0 [1]); ODoc (DEvent 0 0 1 []); ODoc (DStop 0 XSuccess RsEmpty [(0, 2)])])] = false /\
  docs_ok false [(EvTask, [ODoc (DStart 0); ODoc (DDescr 0 0 [1]); ODoc (DEvent 0 0 1 []); ODoc (DStop 0 XSuccess RsEmpty [])])] = false.
Proof. vm_compute. repeat split. Qed.
