(* C29 - adaptive_scan and tune_centroid terminate and stay within their range.
   Model: Pure/Adaptive.v (one text over Base/NumOps.v operations).  Theorems are about the exact
   rational instance [Qops]; the binary64 instance [Fops] of the same text is what ./check C29
   compares bit-exactly with the real plans.  The statement for binary64 ([C29_full]) is false
   (rounding: C29_b_refuted, C29_c_refuted), hence the proved theorems are named _partial. *)
From Coq Require Import ZArith QArith List.
From Coq Require PrimFloat.
Notation float := PrimFloat.float (only parsing).
From BV Require Import Base.NumOps Pure.Adaptive Proofs.Adaptive.

(* the property for the arithmetic the code really uses *)
Definition C29_full : Prop :=
  (forall (p : aparams (F:=float)) det, exists fuel,
      match adaptive_scan Fops p det fuel with ARan _ fin => fin = true | AValueError => True end) /\
  (forall (p : tparams (F:=float)) det rb, exists fuel,
      match tune_centroid Fops p det rb fuel with TRan _ TOutOfFuel => False | _ => True end) /\
  (forall (p : tparams (F:=float)) det fuel x,
      (forall k, PrimFloat.leb (o_zero Fops) (det k) = true) ->
      park_of (tune_centroid Fops p det (fun _ y => y) fuel) = Some x ->
      PrimFloat.leb (t_low Fops p) x = true /\ PrimFloat.leb x (t_high Fops p) = true).

(* adaptive_scan, every detector response [det], every parameter set: either the arguments are
   refused (ValueError, exactly when not 0 < min_step < max_step or backstep with threshold >= 1),
   or the loop ends within the explicit bound [a_bound p] and every visited position x satisfies
   start <= x < stop (forward) resp. stop < x <= start (backward). *)
Theorem C29_adaptive_partial :
  forall (p : aparams (F:=Q)) (det : nat -> Q) (fuel : nat),
    (a_bound p <= fuel)%nat ->
    match adaptive_scan Qops p det fuel with
    | AValueError => a_valid Qops p = false
    | ARan vis fin => a_valid Qops p = true /\ fin = true /\ Forall (a_in_range p) vis
    end.
Proof. exact adaptive_terminates_in_range. Qed.
Print Assumptions C29_adaptive_partial.

(* tune_centroid, min_step > 0, step_factor > 1, num >= 2 (what the code accepts, minus num <= 1),
   every response and every read-back function: the loop ends within [t_bound p] readings, every
   visited position is within [min(start,stop), max(start,stop)], and for non-negative signals and
   read-backs within the limits so is the final parked position. *)
Theorem C29_tune_partial :
  forall (p : tparams (F:=Q)) (det : nat -> Q) (rb : nat -> Q -> Q) (fuel : nat),
    (0 < t_min p)%Q -> (1 < t_factor p)%Q -> (2 <= t_num p)%Z -> (t_bound p <= fuel)%nat ->
    exists vis e,
      tune_centroid Qops p det rb fuel = TRan vis e /\ e <> TOutOfFuel /\
      Forall (t_in_limits p) vis /\
      ((forall k, (0 <= det k)%Q) -> (forall k x, t_in_limits p x -> t_in_limits p (rb k x)) ->
       forall x, e = TParked (Some x) -> t_in_limits p x).
Proof. exact tune_terminates_in_limits. Qed.
Print Assumptions C29_tune_partial.

(* finding C29-b (binary64 absorption): a valid parameter set in the magnitude class [a_huge]
   on which the real arithmetic never leaves the loop *)
Theorem C29_b_refuted :
  exists (p : aparams (F:=float)) (det : nat -> float),
    a_valid Fops p = true /\ a_huge Fops p = true /\
    forall fuel, snd (a_loop Fops p det fuel (a_init Fops p)) = false.
Proof. exists wit_b, (fun _ => o_one Fops). exact wit_b_diverges. Qed.
Print Assumptions C29_b_refuted.

(* finding C29-c (binary64 rounding of the centroid): non-negative signal, echoing motor, and the
   final park is below the lower limit *)
Theorem C29_c_refuted :
  exists (p : tparams (F:=float)) (det : nat -> float) (fuel : nat) (x : float),
    (forall k, PrimFloat.leb (o_zero Fops) (det k) = true) /\
    finding_C29_c Fops p (tune_centroid Fops p det (fun _ y => y) fuel) = true /\
    park_of (tune_centroid Fops p det (fun _ y => y) fuel) = Some x /\
    PrimFloat.ltb x (t_low Fops p) = true.
Proof.
  destruct wit_c_parks_outside as (H1 & H2 & x & H3 & H4).
  exists wit_c, wit_c_det, 11%nat, x. auto.
Qed.
Print Assumptions C29_c_refuted.

Theorem C29_full_refuted : ~ C29_full.
Proof.
  intros (H & _). destruct (H wit_b (fun _ => o_one Fops)) as [fuel Hf].
  destruct wit_b_diverges as (V & _ & D).
  unfold adaptive_scan in Hf. rewrite V in Hf. cbv zeta in Hf. specialize (D fuel).
  change (snd (a_loop Fops wit_b (fun _ => o_one Fops) fuel (a_init Fops wit_b)) = false) in D.
  rewrite D in Hf. discriminate.
Qed.
Print Assumptions C29_full_refuted.

(* finding C29-a (repaired by fixes/C29-a.diff, which adds the threshold check modelled in
   [a_valid]): the loop itself, entered with backstep and threshold > 1.1, never ends on a flat
   signal whenever start + max_step < stop - for every such parameter set, over Q *)
Theorem C29_a_unvalidated_loop_diverges :
  forall (p : aparams (F:=Q)) (c : Q),
    (0 < a_min p)%Q -> (a_min p < a_max p)%Q -> a_backstep p = true -> (11#10 < a_thr p)%Q ->
    (a_start p + a_max p < a_stop p)%Q ->
    forall fuel, snd (a_loop Qops p (fun _ => c) fuel (a_init Qops p)) = false.
Proof. exact unvalidated_loop_diverges. Qed.
Print Assumptions C29_a_unvalidated_loop_diverges.

(* the hypotheses are met by ordinary inputs and the runs are not trivial *)
Example C29_adaptive_nonvacuous :
  let p := mkA 0%Q 2%Q (1#4)%Q 1%Q (1#10)%Q (8#10)%Q true in
  exists vis, adaptive_scan Qops p (fun k => inject_Z (Z.of_nat (k * k))) (a_bound p) = ARan vis true
              /\ (3 <= length vis)%nat.
Proof. cbv zeta. eexists. split; [vm_compute; reflexivity|]. vm_compute. repeat constructor. Qed.

Example C29_tune_nonvacuous :
  let p := mkT 0%Q 5%Q (1#2)%Q 4%Z 3%Q true in
  (0 < t_min p)%Q /\ (1 < t_factor p)%Q /\ (2 <= t_num p)%Z /\
  exists vis x, tune_centroid Qops p (fun k => inject_Z (Z.of_nat k)) (fun _ y => y) (t_bound p)
                = TRan vis (TParked (Some x)) /\ (5 <= length vis)%nat.
Proof.
  cbv zeta. split; [reflexivity|]. split; [reflexivity|]. split; [discriminate|].
  eexists _, _. split; [vm_compute; reflexivity|]. vm_compute. repeat constructor.
Qed.

Example C29_a_nonvacuous :
  let p := mkA 0%Q 5%Q (1#10)%Q 1%Q (1#10)%Q (3#2)%Q true in
  (0 < a_min p)%Q /\ (a_min p < a_max p)%Q /\ a_backstep p = true /\ (11#10 < a_thr p)%Q /\
  (a_start p + a_max p < a_stop p)%Q /\ a_valid Qops p = false.
Proof. cbv zeta. repeat split; reflexivity. Qed.
