"""C12 - device errors reach the plan at the message that caused them.

Two case families: the engine family (model Engine/RE.v, schedule replay) and - `"fam": "waitgroup"` - the
status-group / wait(timeout=, error_on_timeout=, watch=) family (model Engine/WaitGroup.v, driver
harness/drivers/wait_driver.py: plain RE(plan) on a virtual-time loop, fake statuses completed at scripted points,
the real order of completions / timer / task wake-ups recorded as the model's event list)."""
from harness.props.engine_common import *  # noqa: F401,F403  (impl_batch/nontrivial/describe/... shared by the engine family)
from harness.props import engine_common as ec
from harness.props import resp_trace as rt
from harness.drivers import engine_encode, engine_cases_resp
from harness.drivers import wait_cases as wc
from harness.drivers import deverr_driver as dd

ID = "C12"
PROP_FILE = "Props/C12.v"
THEOREMS = ["C12_errors_thrown_at_yield", "C12_exception_response_thrown", "C12_failed_status_prompt",
            "C12_failed_status_thrown", "C12_unhandled_exception_raised",
            "C12_wait_failures_reach_plan", "C12_wait_true_only_when_complete_partial",
            "C12_wait_true_only_when_complete", "C12_wait_result", "C12_wait_fail_while_pending", "C12_wait_frame",
            "C12_wait_strict_refuted_a", "C12_wait_strict_refuted_b"]
COQ_IMPORTS = ("From BV Require Import Engine.RE Engine.REInst Engine.RespMon.\nFrom Coq Require Import ZArith.\n"
               "From BV Require Engine.WaitGroup Engine.WaitGroupSpec.")
MODELLED = ec.MODELLED + (
    "  Status groups and wait(timeout=, error_on_timeout=, watch=): `_add_status_to_group`, `_status_object_completed`, "
    "`_wait`, `_wait_for` and the `_exception` slot at the top of the `_run` loop are modelled by hand in Engine/WaitGroup.v "
    "(one call, one plan, statuses in three stages: pending / object done / completion delivered to the loop; the two "
    "asyncio tasks of `_wait` as release / wake / resume / cancel-callback events); asyncio.wait itself, the waiting_hook "
    "and real threads are not modelled (the thread hop of a completion is the gap between the `finish` and `done` events).")
RULE = ec.RULE + (
    "  waitgroup family: ~50 written scenarios (a member failing while another is pending, timeouts with both values of "
    "error_on_timeout, object done before its completion is delivered, watch groups failing/succeeding/unknown/stale, "
    "empty and unknown groups, completions before/after the wait starts, failures never waited for; also with a plan that "
    "re-raises), a sample of the 19200-case small scope (2 statuses x 1 wait with every option x every placing, outcome "
    "and stage of the two completions), seeded random plans (3-10 messages over up to 3 groups, completions in the plan and "
    "while waits block) and a malformed stream (unknown status numbers, repeated completions).")


def is_wait(case):
    return case.get("fam") == "waitgroup"


def is_deverr(case):
    return case.get("fam") == "deverr"


def impl_batch(all_cases):
    from harness.drivers import wait_driver
    idx_w = [i for i, c in enumerate(all_cases) if is_wait(c)]
    idx_e = [i for i, c in enumerate(all_cases) if not is_wait(c) and not is_deverr(c)]
    out = [None] * len(all_cases)
    if idx_e:
        for i, o in zip(idx_e, ec.impl_batch([all_cases[i] for i in idx_e])):
            out[i] = o
    for i in idx_w:
        o = wait_driver.run_case(all_cases[i])
        if o.get("errors"):                      # a lost race with the machine's load is retried once
            o = wait_driver.run_case(all_cases[i])
        out[i] = o
    for i, c in enumerate(all_cases):
        if is_deverr(c):
            out[i] = dd.run_case(c)
    return out


def describe(case):
    if is_deverr(case):
        return "deverr %s%s" % (case["form"], " async" if case["async"] else "")
    if is_wait(case):
        w = [st["msg"] for st in case["plan"] if st["msg"][0] == "wait"]
        tag = "wait"
        if any(m[4] for m in w):
            tag += "+watch"
        if any(m[2] for m in w):
            tag += "+timeout"
        if any(not m[3] for m in w):
            tag += "+noerr"
        return tag
    return ec.describe(case)


def nontrivial(case, obs):
    if is_deverr(case):
        return bool(obs.get("raised"))
    if is_wait(case):
        return any(e[0] == "done" for e in obs.get("events", []))
    return ec.nontrivial(case, obs)


# ----------------------------------------------------------------------------- waitgroup family: the property on the real run

def wait_walk(obs):
    """Replays the recorded events next to the inputs the plan received; returns (problems, strict, cancelled):
    problems - departures from the property (list of str); strict - the waits that answered True although a status
    of their group had not completed (list of (group, error_on_timeout)); cancelled - a wait was cancelled by its
    watch task."""
    ev = obs["events"]
    ins = list(obs["inputs"])
    bad, strict = [], []
    fin, comp, prev = {}, [], set()
    fin_res = {}        # how the status objects stood when `_wait` resumed (what `all(obj.done ...)` read)
    pend = None
    grp = {}            # status -> group
    n = 0
    last = None
    cancelled = False
    fired = False
    k = 0
    for e in ev:
        if e[0] in ("msg", "end"):
            if k >= len(ins):
                bad.append("a message without a recorded input")
                break
            i = ins[k]
            k += 1
            if pend is not None:
                if i != ["throw", "failed", pend]:
                    bad.append("status %d failed but the next yield received %r" % (pend, i))
                elif pend in prev:
                    bad.append("FailedStatus of status %d thrown after an earlier yield had passed" % pend)
            elif i[0] == "throw" and i[1] == "failed":
                bad.append("FailedStatus %r thrown although no failure was recorded since the previous yield" % (i,))
            if last is not None and last[0] == "wait":
                g, tmo, eot = last[1], last[2], last[3]
                mem = [s for s, gg in grp.items() if gg == g]
                if i == ["val", True]:
                    if any(s not in comp for s in mem):
                        strict.append((g, eot))
                    if not cancelled and (eot or not all(s in fin_res for s in mem)) and any(s not in comp for s in mem):
                        bad.append("wait on group %d answered True although a status of the group has not completed" % g)
                if fired and pend is None and eot and i != ["throw", "timeout", -1]:
                    bad.append("the timeout fired during a wait with error_on_timeout but the yield received %r" % (i,))
                if fired and pend is None and not eot and i[0] != "val":
                    bad.append("the timeout fired during a wait without error_on_timeout but the yield received %r" % (i,))
                if i == ["val", False] and (eot or all(s in fin_res for s in mem)):
                    bad.append("wait answered False although error_on_timeout / every status object is done")
            prev = set(comp)
            pend = None
            fired = False
            if e[0] == "end":
                last = None
            else:
                last = e[1]
                if last[0] == "add":
                    grp[n] = last[1]
                    n += 1
        elif e[0] == "finish":
            fin[e[1]] = e[2]
        elif e[0] == "done":
            comp.append(e[1])
            if fin.get(e[1]) is False:
                pend = e[1]
        elif e[0] == "cancel":
            cancelled = True
        elif e[0] == "resume":
            fin_res = dict(fin)
        elif e[0] == "timeout":
            fired = True
    # what must not change: a group that was never waited for holds exactly the statuses added to it
    waited = {m[1][1] for m in ev if m[0] == "msg" and m[1][0] == "wait"}
    for g in set(grp.values()) - waited:
        want = sorted(s for s, gg in grp.items() if gg == g)
        if (obs.get("groups") or {}).get(str(g), []) != want:
            bad.append("group %d was never waited for but holds %r instead of %r" % (g, (obs.get("groups") or {}).get(str(g)), want))
    # an exception the plan does not handle ends the call with that exception
    thrown = [i for i in ins if i[0] == "throw"]
    if obs.get("outcome", ["return"])[0] == "raise":
        if not thrown or obs["outcome"][1:] != thrown[-1][1:]:
            bad.append("the call raised %r, the plan was last thrown %r" % (obs["outcome"], thrown[-1:] or None))
    return bad, strict, cancelled


def wait_finding(obs):
    bad, strict, cancelled = wait_walk(obs)
    if not strict:
        return None
    if cancelled:
        return "b"
    if all(not eot for _, eot in strict):
        return "a"
    return None


def cases(rng, tier):
    return ec.gen_cases(rng, tier) + engine_cases_resp.gen(rng, tier) + wc.gen(rng, tier) + dd.gen(rng, tier)


def problems(obs):
    """every way the real run departs from the property"""
    bad = [b for b in rt.check_responses(obs) if b[0] == "bad"]      # an input no response / engine exception explains
    bad += rt.check_fault_responses(obs)                              # (i) a device fault the command did not answer with
    bad += rt.check_status_failures(obs)                              # (ii) a failed status overtaken by a later message
    bad += rt.check_unhandled(obs)                                    # (iii) an exception leaving the plan that the call swallowed
    return bad


def oracle(case, obs):
    if is_deverr(case):
        return dd.oracle(case, obs)
    if obs.get("errors"):
        return "driver: " + str(obs["errors"][0])[:200]
    if is_wait(case):
        bad, strict, cancelled = wait_walk(obs)
        thrown = [i for i in obs["inputs"] if i[0] == "throw"]
        # (CancelledError is the engine's own abort signal: a plan that lets it through ends the call quietly with
        # exit_status 'abort'; a wait cancelled by its watch task with nothing in the slot throws it - recorded in
        # the manifest as behaviour outside the statement, which speaks of device errors and failed statuses)
        if case.get("stop_on_throw") and thrown and thrown[-1][1] != "cancelled" and obs["outcome"][0] != "raise":
            bad.append("the plan re-raised what it was thrown but the call returned")
        if strict and not bad:
            g, eot = strict[0]
            bad.append("wait on group %d answered True although a status of the group has not completed "
                       "(%s)" % (g, "after a wait cancelled by its watch task" if cancelled else "error_on_timeout=False"))
        return "; ".join(bad[:3])[:600] if bad else None
    bad = problems(obs)
    if bad:
        return "; ".join(m for _, m in bad[:3])[:600]
    return None


def finding(case, obs):
    if is_deverr(case):
        return None
    if is_wait(case):
        bad, strict, cancelled = wait_walk(obs)
        return None if bad else wait_finding(obs)     # only the strict reading of 'True' may fail, only in a class
    return None       # engine family: no recorded deviation, every departure is a violation


def coq_term(case, obs):
    """the model reproduces the observation, and both Coq monitors run on the model's trace agree with the
    implementation-side monitors run on the real trace (response discipline of every call's plan; status promptness)"""
    if is_deverr(case) or obs.get("errors") or case.get("no_model"):
        return None           # deverr: ORACLE ONLY (all device-calling commands of the real engine, most are not in the model)
    if is_wait(case):
        return wait_term(case, obs)
    try:
        e = engine_encode.Enc(case, obs).encode()
    except engine_encode.Unsupported:
        return None
    cb = engine_encode.cb
    ncalls = sum(1 for x in obs["obs"] if x[0] == "main" and x[1] == "call")
    agree = []
    for pid in range(min(ncalls, 3)):
        acc, a = rt.coq_agree_args(obs, pid)
        agree.append("resp_agree (chk %d mon0 tr) %s %s" % (pid, cb(acc), cb(a)))
    agree.append("Bool.eqb (chk_status false tr) %s" % cb(not rt.check_status_failures(obs)))
    conj = rt.coq_and(agree)
    return ("let tp := %s in let ld := %s in let ev := %s in let tr := model_tr tp ld %s %s %s ev in "
            "andb (check tp ld %s %s %s ev %s) (%s)"
            % (e["tapes"], e["ledger"], e["evs"], e["paus"], e["stag"], e["rec"],
               e["paus"], e["stag"], e["rec"], e["obs"], conj))


def wait_term(case, obs):
    """the model run on the recorded events gives the recorded inputs, no impossible event, the same groups and slot;
    both monitors accept the model's trace (as proved); the Coq finding classes agree with the Python mirror"""
    ng = wc.ngroups(case)
    gs = [(obs.get("groups") or {}).get(str(g), []) for g in range(ng)]
    sl = "None" if obs["slot"] is None else "Some (WaitGroup.%s)" % wc.enc_exn(*obs["slot"])
    evs = wc.enc_evs(obs)
    ins = wc.cl([wc.enc_input(i) for i in obs["inputs"]])
    fid = wait_finding(obs)
    _, strict, cancelled = wait_walk(obs)
    q = lambda t: _qualify(t)
    return ("let evs := %s in let tr := snd (WaitGroup.run_tr WaitGroup.init evs) in "
            "andb (WaitGroup.agrees evs %s %d %s (%s)) (andb (WaitGroupSpec.mon_fail tr) (andb (WaitGroupSpec.mon_wait false tr) "
            "(andb (Bool.eqb (WaitGroupSpec.finding_F2 tr) %s) (andb (Bool.eqb (negb (WaitGroupSpec.mon_wait true tr)) %s) "
            "(Bool.eqb (WaitGroupSpec.finding_F1 tr) %s)))))"
            % (q(evs), q(ins), ng, wc.cl([wc.cnl(g) for g in gs]), sl, wc.cb(cancelled), wc.cb(bool(strict)),
               wc.cb(fid == "a")))


def _qualify(t):
    import re
    return re.sub(r"\b(EMsg|EEnd|EFinish|EDone|ETimeout|EWakeS|EResume|EWakeW|ECancelCb|MAdd|MWait|MOther|IVal|IThrow|VNone|VBool|XFailed|XTimeout|XCancelled)\b",
                  lambda m: "WaitGroup." + m.group(1), t)
