"""Drives the real RunEngine (context_managers=[]) through sessions of several consecutive calls with flyers,
monitored signals, in-plan / per-call / permanent subscriptions (C06, model Engine/CleanupLedger.v).

case = {"kind": "cleanup", "faults": [n, ...], "calls": [call, ...], "tag": str}
  faults: positions (0-based, counted over the whole session) of the fake-device calls that raise
  call  = {"pre": [mainop...], "nsubs": n, "mode": "flat" | "swallow", "steps": [step...], "cleanup": [simple step...]}
  mainop = ["msub"] | ["munsub", token]                        (RE.subscribe / RE.unsubscribe from the main thread)
  simple step = ["open", k] ["close", k] ["kickoff", k, f] ["complete", f] ["collect", k, f] ["monitor", k, d]
                ["unmonitor", k, d] ["subscribe", valid] ["unsubscribe", token]        k in null/"A"/"B"
  step  = simple step | ["pause", [mainop...], "resume"|"abort"|"stop"|"halt"] | ["failed_pause"] | ["raise"]
  the plan is  try: steps  finally: cleanup ; "flat": the first message that raises ends the steps (cleanup still
  runs), "swallow": the plan catches the exception of each message and carries on.

ONE chronological log:
  inputs  ("in", <op>)  what the engine was made to do, in the order it did it: Start n (RE(plan, subs) is about to be
          called), the messages as msg_hook sees them (Open/Close/Kickoff/Complete/Collect/Monitor/Unmonitor/Subscribe/
          Unsubscribe), Pause (a 'pause' message on a resumable engine: the pause block comes next), Wake (the main
          thread is about to resume/abort/stop/halt the paused engine), MainSub / MainUnsub t, Finally (the call returned
          with the engine idle)
  outputs ("dev", dev, method, cb, ok) every call of a fake device, ("sub", origin, token) / ("unsub", origin, token)
          every Dispatcher.subscribe / unsubscribe (logging wrappers set on the RunEngine's own Dispatcher instance),
          ("disp0", tokens) the dispatcher's tokens when the first message of a call is processed,
          ("snap", {...}) the bookkeeping read when a call has returned (RE._run_bundlers is replaced by a dict subclass
          that remembers every RunBundler stored in it, so their _monitor_params / _uncollected can be read afterwards).
  outs[i] = did the i-th input op return (True) or raise (False) as seen by the plan (None: not observable)
Nothing is timing dependent (no sleeps, no timers); a fresh RunEngine per case, so tokens are deterministic.
"""
import contextlib
import io
import logging
import re

logging.getLogger("bluesky").setLevel(logging.CRITICAL + 1)

KEYS = {None: 0, "A": 1, "B": 2}
SIG0 = 10           # model id of signal d is SIG0 + d, of flyer f is f


class DevErr(Exception):
    pass


class PlanErr(Exception):
    pass


class _Status:
    done = True
    success = True

    def add_callback(self, cb):
        cb(self)

    def exception(self, timeout=None):
        return None

    def wait(self, timeout=None):
        return None


class Ctx:
    def __init__(self, faults):
        self.log = []
        self.ins = 0          # number of "in" entries
        self.outs = []
        self.faults = set(faults)
        self.ncalls = 0
        self.errors = []
        self.cur_cmd = None
        self.phase = "idle"   # "starting": inside RE.__call__ before the first message; "main": a main-thread call
        self.pending = []
        self.pause_idx = None
        self.first_msg = False
        self.bundlers = []    # RunBundler objects in creation order (whole session)
        self.call_first_bundler = 0
        self.nmon = 0
        self.cur_idx = None

    def op(self, *e):
        self.log.append(["in"] + list(e))
        self.outs.append(None)
        self.ins += 1
        return self.ins - 1

    def dcall(self, dev, meth, cb=None):
        n = self.ncalls
        self.ncalls += 1
        ok = n not in self.faults
        self.log.append(["dev", dev, meth, cb, ok])
        if not ok:
            raise DevErr("fault at device call %d" % n)


def cb_id(cb):
    """the number N of the 'monitor' message (name='monN') whose RunBundler.monitor made this callback"""
    for cell in (getattr(cb, "__closure__", None) or ()):
        try:
            c = cell.cell_contents
        except ValueError:
            continue
        if isinstance(c, str):
            m = re.match(r"^mon(\d+)$", c)
            if m:
                return int(m.group(1))
    return -1


class Flyer:
    parent = None

    def __init__(self, i, ctx):
        self.i = i
        self.name = "fly%d" % i
        self.ctx = ctx

    def __hash__(self):          # iteration order of RunBundler._uncollected (a set) = ascending index
        return self.i

    def __eq__(self, other):
        return self is other

    def kickoff(self):
        self.ctx.dcall(self.i, "kickoff")
        return _Status()

    def complete(self):
        self.ctx.dcall(self.i, "complete")
        return _Status()

    def describe_collect(self):
        self.ctx.dcall(self.i, "describe_collect")
        return {self.name + "_stream": {self.name + "_x": {"source": "fake", "dtype": "number", "shape": []}}}

    def collect(self):
        self.ctx.dcall(self.i, "collect")
        return [{"time": 0.0, "data": {self.name + "_x": 1.0}, "timestamps": {self.name + "_x": 0.0}}]


class Sig:
    parent = None

    def __init__(self, i, ctx):
        self.i = i
        self.name = "sig%d" % i
        self.ctx = ctx

    def read(self):
        return {self.name: {"value": 0, "timestamp": 0.0}}

    def describe(self):
        self.ctx.dcall(SIG0 + self.i, "describe")
        return {self.name: {"source": "fake", "dtype": "integer", "shape": []}}

    def subscribe(self, cb, **kw):
        self.ctx.dcall(SIG0 + self.i, "subscribe", cb_id(cb))

    def clear_sub(self, cb):
        self.ctx.dcall(SIG0 + self.i, "clear_sub", cb_id(cb))


def run_case(case):
    from bluesky import RunEngine
    from bluesky.utils import FailedPause, Msg, PlanHalt, RequestAbort, RequestStop, RunEngineInterrupted
    ctx = Ctx(case.get("faults", []))
    fly = [Flyer(i, ctx) for i in range(4)]
    sig = [Sig(i, ctx) for i in range(4)]
    sink = io.StringIO()
    with contextlib.redirect_stdout(sink):
        RE = RunEngine({}, context_managers=[])
    disp = RE.dispatcher
    real_sub, real_unsub = disp.subscribe, disp.unsubscribe

    def logged_sub(func, name="all"):
        tok = real_sub(func, name)
        if ctx.phase == "main":
            o = "main"
        elif ctx.phase == "starting":
            o = "percall"
        elif ctx.cur_cmd == "subscribe":
            o = "inplan"
        else:
            o = "other"
        ctx.log.append(["sub", o, tok])
        return tok

    def logged_unsub(token):
        if ctx.phase == "main":
            o = "main"
        elif ctx.phase == "starting":
            o = "clear"
        elif ctx.cur_cmd == "unsubscribe":
            o = "plan"
        else:
            o = "other"
        ctx.log.append(["unsub", o, token])
        return real_unsub(token)

    disp.subscribe = logged_sub
    disp.unsubscribe = logged_unsub

    class RecordingDict(dict):
        """RunEngine._run_bundlers with a note of every RunBundler ever stored (same dict semantics)"""
        def __setitem__(self, k, v):
            ctx.bundlers.append(v)
            dict.__setitem__(self, k, v)

    RE._run_bundlers = RecordingDict()

    def msg_hook(msg):
        c = msg.command
        if ctx.phase == "starting":
            ctx.phase = "running"
        if not ctx.first_msg:
            ctx.first_msg = True
            ctx.log.append(["disp0", sorted(disp._token_mapping)])
        ctx.cur_cmd = c
        k = KEYS.get(msg.run, 99)
        if c == "open_run":
            ctx.cur_idx = ctx.op("Open", k)
        elif c == "close_run":
            ctx.cur_idx = ctx.op("Close", k)
        elif c == "kickoff":
            ctx.cur_idx = ctx.op("Kickoff", k, msg.obj.i)
        elif c == "complete":
            ctx.cur_idx = ctx.op("Complete", msg.obj.i)
        elif c == "collect":
            ctx.cur_idx = ctx.op("Collect", k, msg.obj.i)
        elif c == "monitor":
            ctx.cur_idx = ctx.op("Monitor", k, SIG0 + msg.obj.i)
        elif c == "unmonitor":
            ctx.cur_idx = ctx.op("Unmonitor", k, SIG0 + msg.obj.i)
        elif c == "subscribe":
            ctx.cur_idx = ctx.op("Subscribe", msg.args[1] in ("all", "start", "stop", "event", "descriptor"))
        elif c == "unsubscribe":
            ctx.cur_idx = ctx.op("Unsubscribe", msg.kwargs["token"])
        elif c == "pause":
            if RE.resumable:
                ctx.pause_idx = ctx.op("Pause")
            ctx.cur_idx = None
        else:
            ctx.cur_idx = None

    def mk_msg(st):
        kind = st[0]
        if kind == "open":
            return Msg("open_run", run=st[1])
        if kind == "close":
            return Msg("close_run", run=st[1])
        if kind == "kickoff":
            return Msg("kickoff", fly[st[2]], run=st[1])
        if kind == "complete":
            return Msg("complete", fly[st[1]])
        if kind == "collect":
            return Msg("collect", fly[st[2]], run=st[1])
        if kind == "monitor":
            n = ctx.nmon
            ctx.nmon += 1
            return Msg("monitor", sig[st[2]], run=st[1], name="mon%d" % n)
        if kind == "unmonitor":
            return Msg("unmonitor", sig[st[2]], run=st[1])
        if kind == "subscribe":
            return Msg("subscribe", None, (lambda name, doc: None), "all" if st[1] else "no-such-document")
        if kind == "unsubscribe":
            return Msg("unsubscribe", token=st[1])
        raise ValueError(st)

    def one(st, swallow):
        """yield the message of a simple step and record what the plan sees"""
        msg = mk_msg(st)
        try:
            yield msg
        except Exception as e:  # noqa: BLE001
            i = ctx.cur_idx
            if isinstance(e, (RequestAbort, RequestStop, FailedPause)):
                ctx.errors.append("control exception %r at the yield of a message" % (e,))
                raise
            if i is None or ctx.outs[i] is not None:
                ctx.errors.append("exception %r not attributable to a message" % (e,))
                raise
            ctx.outs[i] = False
            if not swallow:
                raise
        else:
            i = ctx.cur_idx
            if i is None or ctx.outs[i] is not None:
                ctx.errors.append("response not attributable to a message (%r)" % (st,))
            else:
                ctx.outs[i] = True

    def plan(call):
        swallow = call.get("mode", "flat") == "swallow"
        closing = False
        try:
            for st in call["steps"]:
                kind = st[0]
                if kind == "pause":
                    yield Msg("checkpoint")
                    ctx.pending.append(st)
                    yield Msg("pause")
                elif kind == "failed_pause":
                    yield Msg("clear_checkpoint")
                    try:
                        yield Msg("pause")
                    except FailedPause:
                        # the refused pause also cancelled the task; the RequestAbort the engine makes of that
                        # cancellation arrives at the plan's next yield: absorb it with a 'null' so that it is not
                        # mistaken for the outcome of a cleanup message
                        try:
                            yield Msg("null")
                        except RequestAbort:
                            pass
                        raise
                elif kind == "raise":
                    raise PlanErr("plan")
                else:
                    yield from one(st, swallow)
        except GeneratorExit as e:
            # PlanHalt (thrown in by a halt) is a GeneratorExit too and lets the cleanup run; a plain close() of the
            # generator (the engine closes the plans left on its stack) must not yield any more
            closing = not isinstance(e, PlanHalt)
            raise
        finally:
            if not closing:
                for st in call.get("cleanup", []):
                    yield from one(st, True)

    def mainops(ops):
        for mo in ops:
            ctx.phase = "main"
            try:
                if mo[0] == "msub":
                    ctx.op("MainSub")
                    RE.subscribe(lambda name, doc: None)
                elif mo[0] == "munsub":
                    ctx.op("MainUnsub", mo[1])
                    RE.unsubscribe(mo[1])
                else:
                    raise ValueError(mo)
            finally:
                ctx.phase = "idle" if RE.state == "idle" else "running"

    def snapshot():
        dropped = []
        for n, b in enumerate(ctx.bundlers):
            if n >= ctx.call_first_bundler:
                dropped.append([n, [[SIG0 + o.i, cb_id(cbk[0])] for o, cbk in b._monitor_params.items()],
                                sorted(o.i for o in b._uncollected)])
        ctx.call_first_bundler = len(ctx.bundlers)
        ctx.log.append(["snap", {"disp": sorted(disp._token_mapping), "temp": sorted(RE._temp_callback_ids),
                                 "open": [KEYS.get(k, 99) for k in RE._run_bundlers], "dropped": dropped, "state": str(RE.state)}])

    RE.msg_hook = msg_hook
    try:
        with contextlib.redirect_stdout(sink):
            for call in case["calls"]:
                mainops(call.get("pre", []))
                subs = [(lambda name, doc: None) for _ in range(call.get("nsubs", 0))]
                ctx.op("Start", len(subs))
                ctx.phase = "starting"
                ctx.first_msg = False
                ctx.pending = []
                ctx.cur_cmd = None
                action = (lambda c=call, s=subs: RE(plan(c), s))
                ended = None
                for _ in range(12):
                    try:
                        action()
                        ended = "ok"
                    except RunEngineInterrupted:
                        ended = "interrupted"
                    except (DevErr, PlanErr, KeyError) as e:
                        ended = type(e).__name__
                    except Exception as e:  # noqa: BLE001
                        ended = type(e).__name__
                        if ended not in ("IllegalMessageSequence", "FailedPause", "RequestAbort"):
                            ctx.errors.append("%s: %s" % (type(e).__name__, e))
                    if ctx.phase == "starting":
                        ctx.phase = "running"
                    if ctx.pause_idx is not None:
                        ctx.outs[ctx.pause_idx] = (RE.state == "paused")
                        ctx.pause_idx = None
                    if RE.state != "paused":
                        break
                    if not ctx.pending:
                        ctx.errors.append("paused without a pending pause step")
                        RE.halt()
                        break
                    st = ctx.pending.pop(0)
                    mainops(st[1])
                    ctx.op("Wake")
                    action = {"resume": RE.resume, "abort": RE.abort, "stop": RE.stop, "halt": RE.halt}[st[2]]
                ctx.phase = "idle"
                if RE.state != "idle":
                    ctx.errors.append("engine left in state %s" % RE.state)
                    break
                ctx.op("Finally")
                ctx.outs[-1] = True
                snapshot()
    finally:
        RE.msg_hook = None
        disp.subscribe, disp.unsubscribe = real_sub, real_unsub
        try:
            RE.loop.call_soon_threadsafe(RE.loop.stop)
        except Exception:  # noqa: BLE001
            pass
    # Start / MainSub / MainUnsub always return
    for i, e in enumerate([e for e in ctx.log if e[0] == "in"]):
        if e[1] in ("Start", "MainSub", "MainUnsub") and ctx.outs[i] is None:
            ctx.outs[i] = True
    return {"log": ctx.log, "outs": ctx.outs, "errors": ctx.errors}
