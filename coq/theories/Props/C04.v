(* C04 - resuming replays exactly the work done since the last checkpoint.

   Model: Engine/RE.v (all plan coalgebras, all device oracles, all schedules).  The specification of "the work
   to be replayed" is the monitor [mon] of Proofs/RE_Ctl.v, a function of the TRACE only (schedule events +
   msg_hook / response / lifecycle observations): a message is appended when a checkpoint is in effect, the plan is
   rewindable and the command is not in RunEngine._UNCACHEABLE_COMMANDS (Tables, regenerated from the source);
   checkpoint, a stage/unstage that staged something, close_run, a rewindable toggle and the rewind done by
   resume()/_start_suspender empty it; clear_checkpoint removes it.

   C04_full (below) additionally says that the next |l| messages the engine executes after the resume are l.
   That does not hold for arbitrary schedules (another interruption, a failing replayed command); proved here:
   the cache IS the specification (all schedules), resume/_start_suspender turn exactly the cache into the plan on
   top of the stack, and that plan yields exactly those messages in order and then returns to the plan below.
   Not in the engine model: monitor/unmonitor/subscribe/unsubscribe (implicit checkpoints on the real engine:
   checked by the implementation-side oracle only).

   END TO END (second proof round, Proofs/RE_C04.v), over whole schedules:
   C04_resume_replays_end_to_end / C04_resume_replays_messages -- any schedule that leaves the engine paused with cache l
   and no stored exception, then resume(), then any window of task steps and non-interrupting events in which no command
   fails and the lifecycle only goes to running: the executed messages and plan inputs are a prefix of l, or exactly l
   followed by the interrupted frame being handed its pending response and (if it yields) its next message; once |l|
   messages have been executed they are exactly l whatever follows.  C04_full as first written (no hypothesis on a
   stored exception) is contradicted by the witness C04_needs_no_stored_exception.  C04_suspender_tail_replays: the same for the tail of the suspender
   helper plan.  C04_implicit_checkpoints_end_to_end: what the cache holds was executed after the last checkpointing
   item of the trace (checkpoint, clear_checkpoint, toggling rewindable, close_run, stage/unstage that did something). *)
From Coq Require Import List Arith.
From BV Require Import Engine.RE Engine.REInst Proofs.RE_Ctl Proofs.RE_Replay Proofs.RE_CtlExamples Proofs.RE_C04 Proofs.RE_C04Ex.
From BV Require Proofs.RE_C10.
Import ListNotations.

(* after ANY schedule the engine's message cache is what the trace specification says *)
Theorem C04_cache_is_trace_spec :
  forall (P : Type) (presume : P -> input -> outcome P) (plan_of : nat -> P) (D : Type) (dev : D -> nat -> devmeth -> D * devres)
         (d : D) (paus stag : list nat) (rec : bool) (evs : list event),
    cache P D (fst (run P presume plan_of D dev (init P D d paus stag rec) evs)) =
    mcache (mon_run mon0 (trace P presume plan_of D dev (init P D d paus stag rec) evs)).
Proof. exact cache_is_trace_spec. Qed.
Print Assumptions C04_cache_is_trace_spec.

(* resume(): exactly the cached messages become the plan on top of the stack; the cache is emptied *)
Theorem C04_resume_pushes_cache :
  forall (P : Type) (presume : P -> input -> outcome P) (plan_of : nat -> P) (D : Type) (dev : D -> nat -> devmeth -> D * devres)
         (s : st P D) (l : list msg) (s' : st P D) (o : list obs),
    state P D s = Paused -> cache P D s = Some l -> bintr_ok (bundlers P D s) = true ->
    step P presume plan_of D dev s (EvMain AResume) = (s', o) ->
    plans P D s' = FList l :: plans P D s /\ resps P D s' = RVal VNone :: resps P D s /\ cache P D s' = Some [] /\
    rewindable P D s' = rewindable P D s /\ state P D s' = Paused.
Proof. exact resume_pushes_cache. Qed.
Print Assumptions C04_resume_pushes_cache.

(* ... hence, end to end: after ANY schedule that leaves the engine paused, resume() pushes exactly the message list
   computed by the trace specification *)
Theorem C04_resume_replays_trace_spec :
  forall (P : Type) (presume : P -> input -> outcome P) (plan_of : nat -> P) (D : Type) (dev : D -> nat -> devmeth -> D * devres)
         (d : D) (paus stag : list nat) (rec : bool) (evs : list event) (l : list msg) (s' : st P D) (o : list obs),
    let s := fst (run P presume plan_of D dev (init P D d paus stag rec) evs) in
    state P D s = Paused ->
    mcache (mon_run mon0 (trace P presume plan_of D dev (init P D d paus stag rec) evs)) = Some l ->
    step P presume plan_of D dev s (EvMain AResume) = (s', o) ->
    plans P D s' = FList l :: plans P D s /\ resps P D s' = RVal VNone :: resps P D s /\ cache P D s' = Some [] /\
    rewindable P D s' = rewindable P D s /\ state P D s' = Paused.
Proof. exact resume_replays_trace_spec. Qed.
Print Assumptions C04_resume_replays_trace_spec.

(* _start_suspender: exactly the cached messages are captured by the helper plan *)
Theorem C04_suspender_pushes_cache :
  forall (P : Type) (plan_of : nat -> P) (D : Type) (dev : D -> nat -> devmeth -> D * devres)
         (s : st P D) (sid : nat) (pre post : bool) (s' : st P D) (o : list obs),
    exec_start_suspender P plan_of D dev s sid pre post = (s', Done (RVal VNone), o) ->
    exists l, cache P D s = Some l /\ cache P D s' = Some [] /\
      plans P D s' = FHelper {| hph := H0; hsid := sid;
                                hpre := if pre then Some (pid_pre sid, plan_of (pid_pre sid)) else None;
                                hpost := if post then Some (pid_post sid, plan_of (pid_post sid)) else None;
                                hwas := rewindable P D s; hrw := l |} :: plans P D s /\
      resps P D s' = RVal VNone :: resps P D s.
Proof. exact suspender_pushes_cache. Qed.
Print Assumptions C04_suspender_pushes_cache.

(* the rewind plan yields exactly those messages, in order, whatever it is sent, and then returns *)
Theorem C04_rewind_plan_replays_in_order :
  forall (P : Type) (presume : P -> input -> outcome P) (l : list msg) (vs : list val),
    length vs = length l ->
    drain P presume (FList l) vs = (l, Some (FList [])) /\
    forall v, frame_resume P presume (FList []) (Send v) = (Returned VNone, []).
Proof. exact rewind_plan_replays_in_order. Qed.
Print Assumptions C04_rewind_plan_replays_in_order.

(* so does the tail of the suspender helper plan *)
Theorem C04_helper_replays_in_order :
  forall (P : Type) (presume : P -> input -> outcome P) (h : helper P) (l : list msg) (vs : list val),
    hph h = HRwBack -> hrw h = l -> length vs = length l ->
    exists h', drain P presume (FHelper h) vs = (l, Some (FHelper h')) /\ (l <> [] -> hph h' = HRewind []) /\
               forall v, l <> [] -> frame_resume P presume (FHelper h') (Send v) = (Returned VNone, []).
Proof. exact helper_replays_in_order. Qed.
Print Assumptions C04_helper_replays_in_order.

(* the full statement (NOT proved; it needs "no further interruption and no failing command during the replay"):
   if a resume is accepted after a schedule, then running on with task steps only, the first |l| messages
   executed are the specification's cache l, in order *)
Definition C04_full : Prop :=
  forall (P : Type) (presume : P -> input -> outcome P) (plan_of : nat -> P) (D : Type) (dev : D -> nat -> devmeth -> D * devres)
         (d : D) (paus stag : list nat) (rec : bool) (evs : list event) (n : nat) (l : list msg),
    let s := fst (run P presume plan_of D dev (init P D d paus stag rec) evs) in
    state P D s = Paused ->
    mcache (mon_run mon0 (trace P presume plan_of D dev (init P D d paus stag rec) evs)) = Some l ->
    let o := snd (run P presume plan_of D dev s (EvMain AResume :: EvPermit :: repeat EvTask n)) in
    (forall x, In x o -> match x with OBad _ | OResp (RExn _) => False | _ => True end) ->
    length l <= length (filter (fun x => match x with OMsg _ => true | _ => false end) o) ->
    firstn (length l) (flat_map (fun x => match x with OMsg m => [m] | _ => [] end) o) = l.

Example C04_nonvacuous_cache :
  cache TP nat (fst (irun ex_pause_tapes ex_pause_ledger ex_pause_paus ex_pause_stag ex_pause_rec ex_pause_before_resume)) = Some [msg_null2] /\
  state TP nat (fst (irun ex_pause_tapes ex_pause_ledger ex_pause_paus ex_pause_stag ex_pause_rec ex_pause_before_resume)) = Paused /\
  mcache (mon_run mon0 (itrace ex_pause_tapes ex_pause_ledger ex_pause_paus ex_pause_stag ex_pause_rec ex_pause_before_resume)) = Some [msg_null2].
Proof. exact c04_cache_nonempty_at_pause. Qed.
Example C04_nonvacuous_resume :
  exists rest,
    plans TP nat (fst (irun ex_pause_tapes ex_pause_ledger ex_pause_paus ex_pause_stag ex_pause_rec (firstn 10 ex_pause_evs))) = FList [msg_null2] :: rest /\
    cache TP nat (fst (irun ex_pause_tapes ex_pause_ledger ex_pause_paus ex_pause_stag ex_pause_rec (firstn 10 ex_pause_evs))) = Some [].
Proof. exact c04_resume_pushes_rewind_plan. Qed.
Example C04_nonvacuous_reissued :
  exists a b, snd (irun ex_pause_tapes ex_pause_ledger ex_pause_paus ex_pause_stag ex_pause_rec ex_pause_evs)
              = a ++ [OState Paused Running; OTask WSleep0; OMsg msg_null2; OResp (RVal VNone)] ++ b.
Proof. exact c04_message_is_reissued. Qed.

(* ================================================================== end to end over whole schedules (Proofs/RE_C04.v) *)
(* only commands outside RunEngine._UNCACHEABLE_COMMANDS are ever in the cache *)
Theorem C04_cache_only_cacheable :
  forall (P : Type) (presume : P -> input -> outcome P) (plan_of : nat -> P) (D : Type) (dev : D -> nat -> devmeth -> D * devres)
         (d : D) (paus stag : list nat) (rec : bool) (evs : list event) (l : list msg),
    cache P D (fst (run P presume plan_of D dev (init P D d paus stag rec) evs)) = Some l ->
    Forall (fun x => cacheable (mcmd x) = true) l.
Proof. exact cache_cacheable. Qed.
Print Assumptions C04_cache_only_cacheable.

(* resume(): hypotheses are decidable conditions on the state reached by the prefix evs1 (paused, cache l, no stored
   exception), on the events of the window w (task steps, permit, releases, successful statuses, cache completions only:
   RE_C10.cont_ev) and on its observations (okobs: no failing response, no unknown command, lifecycle only -> running).
   [pm] keeps the msg_hook messages and the inputs handed to user plans; [cont_pm top r] is "frame top is handed the
   response r pending for it, and the message it yields (if any) is executed". *)
Theorem C04_resume_replays_end_to_end :
  forall (P : Type) (presume : P -> input -> outcome P) (plan_of : nat -> P) (D : Type) (dev : D -> nat -> devmeth -> D * devres)
         (d : D) (paus stag : list nat) (rec : bool) (evs1 w : list event) (l : list msg),
    let s0 := init P D d paus stag rec in
    let s1 := fst (run P presume plan_of D dev s0 evs1) in
    let s2 := fst (step P presume plan_of D dev s1 (EvMain AResume)) in
    let ow := snd (run P presume plan_of D dev s2 w) in
    ~ In (OBad 1) (snd (run P presume plan_of D dev s0 evs1)) ->
    state P D s1 = Paused -> cache P D s1 = Some l -> stashed P D s1 = None -> exc_slot P D s1 = None ->
    Forall (fun e => RE_C10.cont_ev e = true) w -> okobs ow ->
    pm (snd (step P presume plan_of D dev s1 (EvMain AResume))) = [] /\
    ((exists ms', map OMsg l = pm ow ++ map OMsg ms') \/
     (exists o', pm ow = map OMsg l ++ o' /\
        (o' = [] \/ exists top tl r rest o'',
                      plans P D s1 = top :: tl /\ resps P D s1 = r :: rest /\ o' = cont_pm P presume top r ++ o''))).
Proof. exact resume_replays_e2e. Qed.
Print Assumptions C04_resume_replays_end_to_end.

(* the same in the shape of C04_full: the executed messages of the window are a prefix of l; once |l| messages have been
   executed, the messages executed after the resume begin with exactly l, whatever the rest of the schedule does *)
Theorem C04_resume_replays_messages :
  forall (P : Type) (presume : P -> input -> outcome P) (plan_of : nat -> P) (D : Type) (dev : D -> nat -> devmeth -> D * devres)
         (d : D) (paus stag : list nat) (rec : bool) (evs1 w rest : list event) (l : list msg),
    let s0 := init P D d paus stag rec in
    let s1 := fst (run P presume plan_of D dev s0 evs1) in
    let s2 := fst (step P presume plan_of D dev s1 (EvMain AResume)) in
    let ow := snd (run P presume plan_of D dev s2 w) in
    ~ In (OBad 1) (snd (run P presume plan_of D dev s0 evs1)) ->
    state P D s1 = Paused -> cache P D s1 = Some l -> stashed P D s1 = None -> exc_slot P D s1 = None ->
    Forall (fun e => RE_C10.cont_ev e = true) w -> okobs ow ->
    firstn (length l) (msgs ow) = firstn (length (msgs ow)) l /\
    (length l <= length (msgs ow) ->
     firstn (length l) (msgs (snd (run P presume plan_of D dev s1 (EvMain AResume :: w ++ rest)))) = l).
Proof. exact resume_replays_msgs. Qed.
Print Assumptions C04_resume_replays_messages.

(* suspension: once the helper plan has run the post-plan and restored rewindable (phase HRwBack), the messages captured by
   _start_suspender (C04_suspender_pushes_cache: exactly the cache at that moment) are executed in order, then the
   interrupted frame continues; state-level (any state of that shape), same window conditions *)
Theorem C04_suspender_tail_replays :
  forall (P : Type) (presume : P -> input -> outcome P) (plan_of : nat -> P) (D : Type) (dev : D -> nat -> devmeth -> D * devres)
         (s : st P D) (h : helper P) (B : list (frame P)) (RB : list resp) (v : val) (w : list event),
    state P D s = Running -> permit P D s = true -> pc P D s = PcSleep0 -> plans P D s = FHelper h :: B -> hph h = HRwBack ->
    resps P D s = RVal v :: RB -> stashed P D s = None -> exc_slot P D s = None -> must_cancel P D s = false ->
    length RB = length B -> B <> [] ->
    Forall (fun x => cacheable (mcmd x) = true) (hrw h) ->
    Forall (fun e => RE_C10.cont_ev e = true) w ->
    okobs (snd (run P presume plan_of D dev s w)) ->
    (exists ms', map OMsg (hrw h) = pm (snd (run P presume plan_of D dev s w)) ++ map OMsg ms') \/
    (exists o', pm (snd (run P presume plan_of D dev s w)) = map OMsg (hrw h) ++ o' /\
       (o' = [] \/ exists top tl r rest o'', B = top :: tl /\ RB = r :: rest /\ o' = cont_pm P presume top r ++ o'')).
Proof. exact suspender_tail_replays. Qed.
Print Assumptions C04_suspender_tail_replays.

(* implicit checkpoints at trace level: [ckpt_item m it] says that trace item [it] completes, in specification state m, a
   checkpoint / clear_checkpoint / toggling rewindable / close_run / effective stage or unstage; whatever the cache holds at
   the end of the run was executed (msg_hook) after that item -- nothing executed only before it is ever replayed *)
Theorem C04_implicit_checkpoints_end_to_end :
  forall (P : Type) (presume : P -> input -> outcome P) (plan_of : nat -> P) (D : Type) (dev : D -> nat -> devmeth -> D * devres)
         (d : D) (paus stag : list nat) (rec : bool) (evs : list event) (t1 : list titem) (it : titem) (t2 : list titem) (l : list msg),
    trace P presume plan_of D dev (init P D d paus stag rec) evs = t1 ++ it :: t2 ->
    ckpt_item (mon_run mon0 t1) it = true ->
    cache P D (fst (run P presume plan_of D dev (init P D d paus stag rec) evs)) = Some l ->
    Forall (fun y => In (TObs (OMsg y)) t2) l.
Proof. exact implicit_checkpoint_e2e. Qed.
Print Assumptions C04_implicit_checkpoints_end_to_end.

(* C04_full as first written (no hypothesis about a stored exception) does not hold on the model: see the witness
   C04_needs_no_stored_exception below (a status failing while the engine is paused; facts about that run, in the exact
   shape of C04_full's hypotheses and with the opposite conclusion, are Proofs/RE_C04Ex.v [full_facts]); the corrected
   statement is C04_resume_replays_messages *)
(* non-vacuity: the recorded run ex_pause meets every hypothesis of the end-to-end theorems and shows the full conclusion *)
Example C04_end_to_end_nonvacuous :
  c04_evs1 ++ EvMain AResume :: c04_w ++ c04_rest = ex_pause_evs /\
  no_oof (snd (xrun ex_pause_tapes xinit c04_evs1)) = true /\
  state TP nat c04_s1 = Paused /\ cache TP nat c04_s1 = Some [msg_null2] /\ stashed TP nat c04_s1 = None /\ exc_slot TP nat c04_s1 = None /\
  plans TP nat c04_s1 = [FUser 0 (0, 3) true] /\ resps TP nat c04_s1 = [RVal VNone] /\
  forallb RE_C10.cont_ev c04_w = true /\ forallb okobb c04_ow = true /\
  pm c04_ow = map OMsg [msg_null2] ++ cont_pm TP (t_resume ex_pause_tapes) (FUser 0 (0, 3) true) (RVal VNone) ++ [] /\
  cont_pm TP (t_resume ex_pause_tapes) (FUser 0 (0, 3) true) (RVal VNone) = [OPlanIn 0 (Send VNone); OMsg msg_null3] /\
  firstn 1 (msgs (snd (xrun ex_pause_tapes c04_s1 (EvMain AResume :: c04_w ++ c04_rest)))) = [msg_null2].
Proof. exact c04_e2e_recorded. Qed.
(* the hypotheses cannot be dropped (model runs; all other hypotheses hold in each) *)
Example C04_needs_calm_window :
  forallb RE_C10.cont_ev c04_w_pause = false /\
  pm (snd (xrun ex_pause_tapes c04_s2 c04_w_pause)) = [OMsg msg_null2; OMsg msg_null2; OPlanIn 0 (Send VNone); OMsg msg_null3].
Proof. exact c04_needs_calm_window. Qed.
Example C04_needs_no_stored_exception :
  state TP nat c04_s1b = Paused /\ cache TP nat c04_s1b = Some [msg_null2] /\ stashed TP nat c04_s1b = None /\
  exc_slot TP nat c04_s1b = Some EFailedStatus /\
  forallb RE_C10.cont_ev c04_w = true /\ forallb okobb (snd (xrun ex_pause_tapes c04_s2b c04_w)) = true /\
  firstn 2 (pm (snd (xrun ex_pause_tapes c04_s2b c04_w))) = [OPlanIn 0 (Throw EFailedStatus); OMsg msg_null3].
Proof. exact c04_needs_no_pending_failure. Qed.
Example C04_needs_no_failing_command :
  (forall c, c = CSave \/ c = CUnknown ->
     no_oof (snd (xrun (fail_tapes c) xinit fail_evs1)) = true /\
     state TP nat (fail_s1 c) = Paused /\ cache TP nat (fail_s1 c) = Some [fail_msg c 1; fail_msg CNull 2] /\
     stashed TP nat (fail_s1 c) = None /\ exc_slot TP nat (fail_s1 c) = None /\ forallb RE_C10.cont_ev fail_w = true /\
     forallb okobb (snd (xrun (fail_tapes c) (fail_s2 c) fail_w)) = false /\
     firstn 2 (msgs (snd (xrun (fail_tapes c) (fail_s2 c) fail_w))) = [fail_msg c 1; fail_msg CNull 3]).
Proof. exact c04_needs_no_failing_command. Qed.
Example C04_implicit_checkpoint_nonvacuous :
  exists t1 it t2,
    itrace ex_pause_tapes ex_pause_ledger ex_pause_paus ex_pause_stag ex_pause_rec c04_evs1 = t1 ++ it :: t2 /\
    ckpt_item (mon_run mon0 t1) it = true /\ it = TObs (OResp (RVal VNone)) /\
    In (TObs (OMsg msg_null2)) t2 /\ ~ In (TObs (OMsg msg_null2)) t1.
Proof. exact c04_implicit_checkpoint_recorded. Qed.
