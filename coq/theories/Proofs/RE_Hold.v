(* C11 as a decidable statement on traces, and its two finding classes on schedules. *)
From Coq Require Import List String ZArith Bool Arith.
From BV Require Import Engine.RE Proofs.RE_Ctl.
Import ListNotations.

Record hold := { hactive : list nat; hreq : option nat; hlast : option nat; hgood : bool }.
Definition hold0 : hold := {| hactive := []; hreq := None; hlast := None; hgood := true |}.

Definition is_nil {A} (l : list A) : bool := match l with [] => true | _ => false end.

(* While at least one accepted suspension has not been released:
     - no plan other than a suspender's pre/post plan (pid >= 1000) is advanced (sent a value),
     - no message carrying a plan's identity is executed unless a pre/post plan just yielded it
       (so nothing is replayed either).
   A thrown exception / abort / stop / halt ends every suspension (the helper plans die). *)
Definition hold_item (h : hold) (t : titem) : hold :=
  match t with
  | TEv (EvReqSuspend sid _ _) => {| hactive := hactive h; hreq := Some sid; hlast := None; hgood := hgood h |}
  | TEv (EvRelease sid) => {| hactive := remove_nat sid (hactive h); hreq := None; hlast := None; hgood := hgood h |}
  | TEv (EvReqAbort _ | EvReqStop | EvReqHalt) => {| hactive := []; hreq := None; hlast := None; hgood := hgood h |}
  | TEv _ => {| hactive := hactive h; hreq := None; hlast := None; hgood := hgood h |}
  | TObs (OState Running Suspending) =>
      {| hactive := match hreq h with Some sid => sid :: hactive h | None => hactive h end; hreq := None; hlast := None; hgood := hgood h |}
  | TObs (OPlanIn pid (Send _)) =>
      {| hactive := hactive h; hreq := hreq h; hlast := Some pid;
         hgood := hgood h && (is_nil (hactive h) || Nat.leb 1000 pid) |}
  | TObs (OPlanIn _ _) => {| hactive := []; hreq := hreq h; hlast := None; hgood := hgood h |}
  | TObs (OMsg x) =>
      {| hactive := hactive h; hreq := hreq h; hlast := None;
         hgood := hgood h && (is_nil (hactive h) ||
                              match mid x with
                              | None => true
                              | Some _ => match hlast h with Some pid => Nat.leb 1000 pid | None => false end
                              end) |}
  | TObs _ => {| hactive := hactive h; hreq := hreq h; hlast := None; hgood := hgood h |}
  end.

Definition hold_ok (l : list titem) : bool := hgood (fold_left hold_item l hold0).

(* finding classes, on the schedule alone *)
Fixpoint overlap_from (active : list nat) (evs : list event) : bool :=
  match evs with
  | [] => false
  | EvReqSuspend sid _ _ :: evs' => negb (is_nil active) || overlap_from (sid :: active) evs'
  | EvRelease sid :: evs' => overlap_from (remove_nat sid active) evs'
  | _ :: evs' => overlap_from active evs'
  end.
(* C11-a: a suspension is requested while an earlier one has not been released *)
Definition finding_C11_a (evs : list event) : bool := overlap_from [] evs.

Fixpoint pause_inside_from (active : list nat) (evs : list event) : bool :=
  match evs with
  | [] => false
  | EvReqSuspend sid _ _ :: evs' => pause_inside_from (sid :: active) evs'
  | EvRelease sid :: evs' => pause_inside_from (remove_nat sid active) evs'
  | EvReqPause false :: evs' => negb (is_nil active) || pause_inside_from active evs'
  | _ :: evs' => pause_inside_from active evs'
  end.
(* C11-b: a hard pause is requested while a suspension has not been released *)
Definition finding_C11_b (evs : list event) : bool := pause_inside_from [] evs.

Definition no_bad (l : list obs) : bool := forallb (fun o => match o with OBad _ => false | _ => true end) l.

