"""Implementation-side document monitor shared by C01 / C05 / C14 / C40.

It is the Python mirror of coq/theories/Engine/DocMon.v, run on the observation list logged from the
REAL RunEngine (harness/drivers/engine_driver.py).  It restates the properties on the trace:

  grammar  (C01)  start uids fresh, every document inside its run's start..stop, at most one stop,
                  descriptor before its events, one descriptor per (run, stream)
  number   (C05)  per run and stream: an event carries the next seq_num; after a rewind point
                  (accepted resume, `_start_suspender`) a number in 1..next (a re-taken point), never a
                  skipped one; RunStop.num_events = next-1 and lists every described stream
  intr     (C40)  recording on: every accepted pause / suspension / resume is followed at once by exactly
                  one 'interruptions' event per open run, numbered by that run's own counter, never
                  rolled back; nowhere else; recording off: no such stream
  keys     (C14)  the documents emitted while a message with run key k is processed belong to the run
                  opened under k; open_run on an open key is refused and emits nothing

run(obs, rec) -> {"violations": [(category, text)], "behind": bool, "open": [...], ...}
`behind` = some run was stopped while one of its streams was behind a rewind (finding class C05-b).
"""

INTR = "interruptions"


class Stream:
    __slots__ = ("top", "c", "ex")

    def __init__(self):
        self.top, self.c, self.ex = 1, 1, True


class Run:
    def __init__(self, uid):
        self.uid = uid
        self.intr = False
        self.descs = []
        self.streams = {}
        self.nintr = 0
        self.bundling = False

    def s(self, name):
        if name not in self.streams:
            self.streams[name] = Stream()
        return self.streams[name]


def run(obs, rec):
    viol = []
    open_runs = []          # in start order
    closed = {}             # uid -> number of stops seen
    started = set()
    nxt = 0
    state = "idle"
    expect = []             # documents that must come next: ("descr", uid) | ("intr", uid, seq)
    behind = False
    keys = {}               # run key -> uid (from the open_run responses)
    cur_msg = None          # bundler-addressed message being processed
    cur_docs = []
    stops = []              # (uid, exit_status, reason, num_events)
    intr_points = 0

    def find(uid):
        for r in open_runs:
            if r.uid == uid:
                return r
        return None

    def v(cat, text):
        if len(viol) < 20:
            viol.append((cat, text))

    def weaken():
        for r in open_runs:
            r.bundling = None           # a rewind cancels the open bundle iff something is replayed: unknown
            for name, st in r.streams.items():
                if name != INTR:
                    st.ex = False

    def intr_expect():
        return [("intr", r.uid, r.s(INTR).c) for r in open_runs if r.intr]

    def event(r, name, n, cat):
        st = r.s(name)
        if st.ex:
            if n != st.c:
                v(cat, "run %s stream %r: event seq_num %s but the next number is %s" % (r.uid, name, n, st.c))
        elif not (1 <= n <= st.c):
            v(cat, "run %s stream %r: event seq_num %s outside 1..%s after a rewind" % (r.uid, name, n, st.c))
        st.top = max(st.top, n + 1)
        st.c = n + 1
        st.ex = True

    for o in obs:
        k = o[0]
        if expect and not (k == "doc"):
            v("intr" if expect[0][0] == "intr" else "grammar",
              "expected %s right here, got %r" % (expect[0], o[:3]))
            expect = []
        if k == "doc":
            kind = o[1]
            if cur_msg is not None:
                cur_docs.append(o)
            if kind == "start":
                u = o[2]
                if u != nxt or u in started:
                    v("grammar", "start document of run %s is not a fresh run (next fresh index %s)" % (u, nxt))
                started.add(u)
                nxt = max(nxt, u + 1)
                open_runs.append(Run(u))
                if expect:
                    v("intr", "start while %s expected" % (expect[0],))
                    expect = []
                if rec:
                    expect = [("descr", u)]
                continue
            u = o[2] if len(o) > 2 else None
            r = find(u)
            if kind in ("descriptor", "event", "stop") and r is None:
                v("grammar", "%s document for run %s which is not open (started=%s, stops=%s)" % (kind, u, u in started, closed.get(u, 0)))
                if kind == "stop":
                    closed[u] = closed.get(u, 0) + 1
                    stops.append((u, o[3], o[4], dict(o[5])))
                if expect:
                    expect = []
                continue
            if kind == "descriptor":
                name = o[3]
                if expect:
                    e = expect.pop(0)
                    if e != ("descr", u) or name != INTR:
                        v("intr", "expected the interruptions descriptor of run %s, got descriptor %r of run %s" % (e[1], name, u))
                    r.intr = True
                    continue
                if name == INTR and not o[4]:
                    v("intr", "unexpected engine-made interruptions descriptor in run %s (recording %s)" % (u, rec))
                    r.intr = True
                    continue
                if name in r.descs:
                    v("grammar", "second descriptor for stream %r in run %s" % (name, u))
                r.descs.append(name)
            elif kind == "event":
                name, n = o[3], o[4]
                if name == INTR and (r.intr or name not in r.descs):
                    if expect:
                        e = expect.pop(0)
                        if e != ("intr", u, n):
                            v("intr", "expected interruption record %s, got run %s seq_num %s" % (e, u, n))
                    else:
                        v("intr", "interruption record (run %s, seq_num %s) that no pause/suspension/resume accounts for" % (u, n))
                    if not r.intr:
                        v("intr", "interruption record in run %s which has no interruptions descriptor" % u)
                    r.nintr += 1
                    event(r, INTR, n, "intr")
                    continue
                if expect:
                    v("intr", "expected %s, got an event of stream %r" % (expect[0], name))
                    expect = []
                if name not in r.descs:
                    v("grammar", "event of stream %r in run %s before its descriptor" % (name, u))
                event(r, name, n, "number")
            elif kind == "stop":
                if expect:
                    v("intr", "expected %s, got the stop of run %s" % (expect[0], u))
                    expect = []
                num = dict(o[5])
                stops.append((u, o[3], o[4], num))
                for name, N in num.items():
                    st = r.s(name)
                    cat = "intr" if name == INTR else "number"
                    # what always holds: never more than the counter, exactly the counter when nothing was rolled back
                    if N + 1 > st.c or (st.ex and N + 1 != st.c):
                        v(cat, "run %s stream %r: num_events %s but the stream counter stands at %s" % (u, name, N, st.c))
                    # the property: exactly the events numbered 1..N were emitted
                    if N + 1 != st.top:
                        v("count", "run %s stream %r: num_events %s but seq_nums up to %s were emitted" % (u, name, N, st.top - 1))
                    if not (st.ex and st.c == st.top):
                        behind = True      # stopped behind a rewind (class C05-b)
                for name in ([INTR] if r.intr else []) + r.descs:
                    if name not in num:
                        v("number", "run %s: stream %r has a descriptor but no num_events entry" % (u, name))
                open_runs.remove(r)
                closed[u] = closed.get(u, 0) + 1
            else:
                v("grammar", "unexpected document kind %r" % (kind,))
        elif k == "state":
            if o[1] != state:
                v("grammar", "state hook reports %s -> %s but the engine was in %s" % (o[1], o[2], state))
            state = o[2]
            if state == "idle" and open_runs:
                v("grammar", "engine went idle with runs %s still open" % [r.uid for r in open_runs])
            if state == "pausing":
                intr_points += 1
                expect = intr_expect()
        elif k == "msg":
            m = o[2]
            cmd = m["cmd"]
            if cmd == "_start_suspender":
                intr_points += 1
                weaken()
                expect = intr_expect()
            if cmd in ("open_run", "close_run", "create", "read", "save", "drop"):
                cur_msg = m
                cur_docs = []
            else:
                cur_msg = None
        elif k == "resp":
            if cur_msg is not None:
                m, cmd, key = cur_msg, cur_msg["cmd"], cur_msg["run"]
                resp = o[1]
                is_exn = isinstance(resp, list) and resp and resp[0] == "exn"
                if cmd == "open_run":
                    if key in keys and find(keys[key]) is not None:
                        if not (is_exn and resp[1] == "IllegalMessageSequence"):
                            v("keys", "open_run on the open run key %r was not refused (response %r)" % (key, resp))
                        if cur_docs:
                            v("keys", "refused open_run on key %r emitted documents %r" % (key, cur_docs[:2]))
                    elif not is_exn:
                        if isinstance(resp, list) and resp and resp[0] == "uid":
                            keys[key] = resp[1]
                        for d in cur_docs:
                            if len(d) > 2 and keys.get(key) != d[2]:
                                v("keys", "open_run(key %r) emitted a document of run %s" % (key, d[2]))
                else:
                    u = keys.get(key)
                    tgt = find(u) if u is not None else None
                    # the message must meet the bundle state of ITS run: create opens a bundle, save/drop need one
                    ims = is_exn and resp[1] == "IllegalMessageSequence"
                    if tgt is not None and cmd in ("create", "save", "drop"):
                        want_ims = tgt.bundling if cmd == "create" else not tgt.bundling
                        if tgt.bundling is not None and ims != want_ims and not (is_exn and not ims):
                            v("keys", "%s with run key %r %s although run %s %s a bundle open" % (
                                cmd, key, "was refused" if ims else "was accepted", u, "has" if tgt.bundling else "has not"))
                        if not is_exn:
                            tgt.bundling = cmd == "create"
                        elif ims and tgt.bundling is None:
                            tgt.bundling = cmd == "create"      # refused create: a bundle is open; refused save/drop: none is
                        elif cmd == "save" and not ims:
                            tgt.bundling = False
                    for d in cur_docs:
                        if len(d) > 2 and d[2] != u:
                            v("keys", "%s with run key %r emitted a document of run %s (the key's run is %s)" % (cmd, key, d[2], u))
                    if (u is None or (tgt is None and cmd != "close_run")) and cmd in ("create", "save", "drop", "close_run") and not is_exn:
                        if not (cmd == "close_run" and u is not None):
                            v("keys", "%s with run key %r succeeded although no run is open under that key" % (cmd, key))
                    if cmd == "close_run" and not is_exn:
                        if isinstance(resp, list) and resp and resp[0] == "uid" and resp[1] != u:
                            v("keys", "close_run(key %r) returned run %s, the key's run is %s" % (key, resp[1], u))
                cur_msg = None
        elif k == "main":
            if o[1] == "resume" and state == "paused":
                intr_points += 1
                weaken()
                expect = intr_expect()
    if expect:
        v("intr", "trace ends while %s is still expected" % (expect[0],))
    return {"violations": viol, "behind": behind, "open": [r.uid for r in open_runs], "state": state,
            "stops": stops, "closed": closed, "started": sorted(started), "intr_points": intr_points}


def first(res, cats):
    for c, t in res["violations"]:
        if c in cats:
            return t
    return None
