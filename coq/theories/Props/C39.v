(* C39 - a LiveDispatcher's re-emitted stream is a valid run.
   Model: Pure/LiveDisp.v = src/bluesky/callbacks/stream.py with fixes/C39-a.diff applied.
   [rs] is any list of raw runs fed through one dispatcher object: any number of raw descriptors
   (streams), events and event pages in any interleaving, and for every raw event an arbitrary list
   of process_event calls (any data keys, stream_name, id_args, config) - i.e. any subclass;
   [pass = true] is the pass-through base class. *)
From BV Require Import Base.Prelude Base.ChainMap Pure.LiveDisp Proofs.LiveDisp.

(* per stream (= name of the referenced descriptor) the re-emitted events carry 1..N, and the
   re-emitted RunStop's num_events maps exactly the streams with events to their N *)
Theorem C39_reemitted_run_valid :
  forall (pass ret_none : bool) (rs : list rawrun) (outs : list edoc),
    In outs (do_runs pass ret_none st0 rs) -> valid_run outs.
Proof. exact reemitted_run_valid. Qed.
Print Assumptions C39_reemitted_run_valid.

(* every re-emitted event references a descriptor re-emitted earlier in the same run *)
Theorem C39_descriptor_precedes_events :
  forall (pass ret_none : bool) (rs : list rawrun) (outs : list edoc),
    In outs (do_runs pass ret_none st0 rs) -> described_before outs.
Proof. exact descriptor_precedes_events. Qed.
Print Assumptions C39_descriptor_precedes_events.

(* a run with two streams, three events interleaved (the input on which the unrepaired code
   numbers the events 1,2,3 across streams and reports {primary: 2}) *)
Definition C39_witness : list rawrun :=
  let d1 := {| rd_uid := 11; rd_name := Some primary; rd_keys := [(20, 3)] |}%N in
  let d2 := {| rd_uid := 12; rd_name := Some 5%N; rd_keys := [(21, 3)] |}%N in
  let e1 := {| re_desc := 11; re_data := [(20%N, KNum)]; re_reqs := [] |}%N in
  let e2 := {| re_desc := 12; re_data := [(21%N, KNum)]; re_reqs := [] |}%N in
  [{| rr_uid := 10%N; rr_md := []; rr_md_over := [];
      rr_items := [IDesc d1; IDesc d2; IEvent e1; IEvent e2; IEvent e1]; rr_stop := [] |}].

Definition C39_witness_out : list edoc := Eval vm_compute in hd [] (do_runs true false st0 C39_witness).

Example C39_nonvacuous :
  In C39_witness_out (do_runs true false st0 C39_witness) /\
  seqs_in C39_witness_out primary = [1; 2]%N /\ seqs_in C39_witness_out 5%N = [1%N] /\
  stop_of C39_witness_out = Some [(primary, 2%N); (5%N, 1%N)].
Proof. vm_compute. auto. Qed.
