"""Case generation shared by C18 and C19: operation histories over three callables.

Symbols are resolved into concrete ops by a tiny token counter (tokens are 0,1,2,... per successful
subscribe), so that "unsubscribe the token of the 2nd subscription made" can be written down statically.
"""
import itertools

from harness.drivers.dispatch_driver import SIGS

NAMES = ["all", "start", "descriptor", "event", "stop"]

# pools of three callables: functions / bound methods / callable objects, all distinct, and
# equal-but-distinct callable objects (fn 1 == fn 2 as Python objects)
POOLS = {
    "fmo": [("func", 0), ("method", 1), ("obj", 2)],
    "foo=": [("func", 0), ("obj", 5), ("obj", 5)],
    "mmo": [("method", 0), ("method", 1), ("obj", 2)],
    "o=o=o=": [("obj", 7), ("obj", 7), ("obj", 7)],
}


def mk_fns(pool, raises=None):
    raises = raises or [[], [], []]
    return [{"kind": k, "eq": e, "raises": [list(p) for p in r]} for (k, e), r in zip(POOLS[pool], raises)]


def no_subs():
    return {"form": "none", "items": []}


def call(items=None, msgs=None, form=None):
    if not items:
        spec = no_subs()
    else:
        spec = {"form": form or "dict", "items": [[n, list(fs)] for n, fs in items]}
    return ["call", spec, [list(m) for m in (msgs or [])]]


PROBE = [["open"], ["event"], ["close"]]


class Resolver:
    """Turns symbolic ops into concrete ones, tracking the public token counter.
    Symbolic tokens: ["unsub", "#k"] = token of the k-th successful subscription of the history (0-based,
    counted over permanent, per-call and in-plan ones); ["unsub", n] literal."""

    def __init__(self):
        self.n = 0

    def _sub(self, name):
        if name == "all" or name in SIGS:
            self.n += 1

    def tok(self, t):
        if isinstance(t, str) and t.startswith("#"):
            return int(t[1:])
        if isinstance(t, str) and t.startswith("+"):
            return self.n + int(t[1:])          # relative to the next token to be handed out
        if isinstance(t, str) and t.startswith("-"):
            return max(0, self.n - int(t[1:]))
        return int(t)

    def op(self, op):
        k = op[0]
        if k == "sub":
            self._sub(op[2])
            return list(op)
        if k == "unsub":
            return ["unsub", self.tok(op[1])]
        if k == "call":
            spec, msgs = op[1], op[2]
            from harness.drivers.dispatch_oracle import per_call_subs
            pcs = per_call_subs(spec)
            for n, _ in (pcs or []):        # pcs is None: KeyError before anything is subscribed
                self._sub(n)
            out = []
            for m in msgs:
                if m[0] == "sub":
                    out.append(list(m))
                    self._sub(m[2])      # counted even if the plan was aborted earlier: only used for symbols
                elif m[0] == "unsub":
                    out.append(["unsub", self.tok(m[1]), m[2] if len(m) > 2 else "arg"])
                else:
                    out.append(list(m))
            return ["call", spec, out]
        return list(op)


def resolve(ops):
    r = Resolver()
    return [r.op(o) for o in ops]


# ---------------------------------------------------------------- small-scope alphabet (C18)

def alphabet():
    return [
        ["sub", 0, "all"],
        ["sub", 1, "all"],
        ["sub", 2, "all"],
        ["sub", 0, "stop"],
        ["unsub", 0],
        ["unsub", 1],
        ["unsub", "-1"],                                        # the most recent token
        call(None, [["open"], ["close"]]),
        call([("all", [0])], [["open"], ["close"]], form="callable"),
        call([("stop", [1]), ("all", [2])], [["open"], ["close"]]),
        call(None, [["open"], ["sub", 0, "all"], ["event"], ["close"]]),
        call(None, [["sub", 1, "event"], ["open"], ["event"], ["unsub", "+0"], ["event"], ["close"]]),
    ]


def enumerate_histories(maxlen, pools):
    alpha = alphabet()
    for pool in pools:
        for n in range(1, maxlen + 1):
            for combo in itertools.product(range(len(alpha)), repeat=n):
                ops = [alpha[i] for i in combo] + [call(None, PROBE)]
                yield {"fns": mk_fns(pool), "ops": resolve(ops), "pool": pool, "gen": "enum%d" % n}


# ---------------------------------------------------------------- random histories

def rand_name(rng, bad=0.03):
    x = rng.random()
    if x < bad:
        return "bogus"
    if x < 0.5:
        return "all"
    if x < 0.9:
        return rng.choice(NAMES[1:])
    return rng.choice(SIGS)


def rand_plan(rng, maxlen=7, malformed=0.08):
    msgs = []
    is_open = False
    n = rng.randint(0, maxlen)
    for _ in range(n):
        x = rng.random()
        if x < malformed:
            msgs.append(rng.choice([["open"], ["close"], ["event"], ["unsub", str(rng.randint(0, 9)), "arg"]]))
            continue
        if not is_open and x < 0.45:
            msgs.append(["open"])
            is_open = True
        elif is_open and x < 0.4:
            msgs.append(["event"])
        elif is_open and x < 0.55:
            msgs.append(["close"])
            is_open = False
        elif x < 0.75:
            msgs.append(["sub", rng.randint(0, 2), rand_name(rng)])
        elif x < 0.9:
            msgs.append(["unsub", rng.choice(["-1", "-2", "-1", "#%d" % rng.randint(0, 6)]), rng.choice(["arg", "kw"])])
        else:
            msgs.append(["null"])
    if is_open and rng.random() < 0.8:
        msgs.append(["close"])
    return msgs


def rand_subs(rng):
    x = rng.random()
    if x < 0.35:
        return no_subs()
    if x < 0.5:
        return {"form": "callable", "items": [["all", [rng.randint(0, 2)]]]}
    if x < 0.65:
        return {"form": "list", "items": [["all", [rng.randint(0, 2) for _ in range(rng.randint(0, 3))]]]}
    keys = ["all", "start", "stop", "event", "descriptor"]
    rng.shuffle(keys)
    keys = keys[:rng.randint(1, 3)]
    if rng.random() < 0.04:
        keys.append(rng.choice(["bogus", "datum"]))
    return {"form": "dict", "items": [[k, [rng.randint(0, 2) for _ in range(rng.randint(1, 2))]] for k in keys]}


def rand_raises(rng, p):
    out = []
    for _ in range(3):
        r = []
        if rng.random() < p:
            for _ in range(rng.randint(1, 2)):
                s = rng.choice(["start", "descriptor", "event", "stop"])
                run = rng.choice([None, None, 0, 1])
                seq = rng.choice([None, 1, 2]) if s == "event" else None
                r.append([s, run, seq])
        out.append(r)
    return out


def rand_history(rng, maxops=6, p_raise=0.0, p_ignore=0.1, distinct_only=False):
    pool = rng.choice(["fmo", "mmo"] if distinct_only else list(POOLS))
    ops = []
    for _ in range(rng.randint(1, maxops)):
        x = rng.random()
        if x < 0.3:
            f = rng.randint(0, 2)
            ops.append(["sub", f, rand_name(rng)])
        elif x < 0.45:
            ops.append(["unsub", rng.choice(["-1", "-2", "#0", "#1", "#2", "#%d" % rng.randint(0, 8), "+0"])])
        elif x < 0.45 + p_ignore:
            ops.append(["ignore", rng.random() < 0.6])
        elif x < 0.93:
            ops.append(["call", rand_subs(rng), rand_plan(rng)])
        elif x < 0.97:
            ops.append(["unsub_all"])
        else:
            ops.append(["reset"])
    ops.append(call(None, PROBE))
    return {"fns": mk_fns(pool, rand_raises(rng, p_raise)), "ops": resolve(ops), "pool": pool, "gen": "random"}


# ---------------------------------------------------------------- C19: raising callbacks, both policies

RAISE_SMALL = [[], [["start", None, None]], [["event", None, 2]], [["stop", None, None]]]
RAISE_FULL = RAISE_SMALL + [[["descriptor", None, None]], [["event", None, None]],
                            [["start", None, None], ["descriptor", None, None], ["event", None, None], ["stop", None, None]]]
PLANS19 = [
    [["open"], ["event"], ["event"], ["close"]],
    [["open"], ["event"], ["close"], ["open"], ["event"], ["close"]],
    [["open"], ["event"]],                                  # run left open: closed by the engine
]


def enumerate_policy(raise_sets, orders):
    for order in orders:
        for rs in itertools.product(range(len(raise_sets)), repeat=3):
            for ign in (True, False):
                for pi, plan in enumerate(PLANS19):
                    raises = [raise_sets[i] for i in rs]
                    ops = [["ignore", ign]] + [["sub", f, "all"] for f in order] + [call(None, plan)]
                    yield {"fns": mk_fns("fmo", raises), "ops": resolve(ops), "pool": "fmo",
                           "gen": "policy ign=%d plan=%d" % (ign, pi)}


def rand_policy_history(rng):
    """Each of the three callables is subscribed at most once in the whole history (so no cid is ever
    shared): permanently, per call, or by an in-plan message; random kinds, raise patterns, policies."""
    pool = rng.choice(["fmo", "mmo", "fmo"])
    raises = rand_raises(rng, 0.6)
    roles = [rng.choice(["perm", "percall", "inplan", "perm", "none"]) for _ in range(3)]
    ncalls = rng.randint(1, 3)
    where = [rng.randrange(ncalls) for _ in range(3)]
    ops = []
    if rng.random() < 0.8:
        ops.append(["ignore", rng.random() < 0.5])
    for f in range(3):
        if roles[f] == "perm" and rng.random() < 0.7:
            ops.append(["sub", f, rand_name(rng, bad=0.0)])
            roles[f] = "done"
    for k in range(ncalls):
        items = {}
        for f in range(3):
            if roles[f] == "percall" and where[f] == k:
                items.setdefault(rng.choice(["all", "all", "start", "stop", "event", "descriptor"]), []).append(f)
        plan = []
        is_open = False
        for _ in range(rng.randint(2, 7)):
            x = rng.random()
            if not is_open:
                plan.append(["open"])
                is_open = True
            elif x < 0.55:
                plan.append(["event"])
            elif x < 0.8:
                plan.append(["close"])
                is_open = False
            else:
                plan.append(["null"])
        if is_open and rng.random() < 0.75:
            plan.append(["close"])
        for f in range(3):
            if roles[f] == "inplan" and where[f] == k:
                pos = rng.randint(0, len(plan))
                plan.insert(pos, ["sub", f, rand_name(rng, bad=0.0)])
                if rng.random() < 0.3:
                    plan.insert(rng.randint(pos + 1, len(plan)), ["unsub", "-1", rng.choice(["arg", "kw"])])
        spec = {"form": "dict", "items": [[n, fs] for n, fs in items.items()]} if items else no_subs()
        ops.append(["call", spec, plan])
        for f in range(3):
            if roles[f] == "perm" and rng.random() < 0.5:
                ops.append(["sub", f, rand_name(rng, bad=0.0)])
                roles[f] = "done"
        x = rng.random()
        if x < 0.2:
            ops.append(["ignore", rng.random() < 0.5])
        elif x < 0.35:
            ops.append(["unsub", rng.choice(["#0", "#1", "-1"])])
    return {"fns": mk_fns(pool, raises), "ops": resolve(ops), "pool": pool, "gen": "random-policy"}


# ---------------------------------------------------------------- callbacks that change the subscriptions while a
# document is being delivered (RE.unsubscribe / RE.subscribe called from inside the callback)

ACT_PATTERNS = [["start", None, None], ["event", None, 1], ["stop", None, None]]
PLAIN4 = {"kind": "func", "eq": 9, "raises": []}        # fn 3: only ever subscribed by a callback


def enumerate_mutating():
    """a, b, c subscribed to 'all' (tokens 0, 1, 2); exactly one of them, on one kind of document, unsubscribes a
    token (its own / each of the others) or subscribes the plain callable 3; both policies; two plans."""
    for actor in range(3):
        for pat in ACT_PATTERNS:
            for act in ([["unsub", t] for t in range(3)] + [["sub", 3, "all"], ["sub", 3, "event"]]):
                for ign in (True, False):
                    for pi, plan in enumerate(PLANS19[:2]):
                        fns = mk_fns("fmo") + [dict(PLAIN4)]
                        fns[actor]["acts"] = [[list(pat), list(act)]]
                        ops = [["ignore", ign]] + [["sub", f, "all"] for f in range(3)] + [call(None, plan)] + [call(None, PROBE)]
                        yield {"fns": fns, "ops": resolve(ops), "pool": "fmo",
                               "gen": "mutating %s ign=%d plan=%d" % (act[0], ign, pi)}


def rand_acts(rng, ntok=6):
    acts = []
    for _ in range(rng.randint(1, 2)):
        s = rng.choice(["start", "descriptor", "event", "stop"])
        pat = [s, rng.choice([None, None, 0, 1]), rng.choice([None, 1, 2]) if s == "event" else None]
        if rng.random() < 0.65:
            acts.append([pat, ["unsub", rng.randrange(ntok)]])
        else:
            acts.append([pat, ["sub", 3, rng.choice(["all", "all", "start", "event", "stop", "descriptor"])]])
    return acts


def add_random_acts(rng, case, p=0.5):
    """Give some of the (first three) callables of a generated case callback actions; adds plain callable 3."""
    case["fns"] = case["fns"][:3] + [dict(PLAIN4, raises=rand_raises(rng, 0.3)[0])]
    for f in case["fns"][:3]:
        if rng.random() < p:
            f["acts"] = rand_acts(rng)
    case["gen"] = case.get("gen", "") + "+acts"
    return case
