(* C38 -- truncate_json_overflow makes any numeric payload JSON-safe without changing safe values.

   Reading of the statement used here (spelled out in Pure/Truncate.v):
     result guarantee  leaf_json_safe : every integer (Python or numpy) within +-(2^53-1),
                                        every float (any binary width) finite or NaN;
     "already in range" leaf_in_range : integers within +-(2^53-1); floats finite or NaN and -- when
                                        whole-valued, which the function treats as integers --
                                        within +-(2^53-1);
     same shape         tree_rel      : mappings -> mappings with the same keys in the same order,
                                        0-d arrays -> the scalar they hold, every other iterable ->
                                        a list of the same length, position by position.
   The literals (2^53-1, 1.7976e308) are the ones in the source today (BVgen.TruncTables).
   Recorded finding C38-b: numpy floats that are not subclasses of float (float16/float32/
   longdouble) keep +-inf; the class is [leaf_finding_b]/[finding_C38_b]. *)
From BV Require Import Base.Prelude Pure.Truncate Proofs.Truncate.
From BVgen Require TruncTables.
Local Open Scope Z_scope.

(* for every value tree: same shape; every leaf outside the finding class comes out JSON-safe;
   every leaf already in range comes out unchanged (leaf by leaf, so the other leaves of a tree
   that contains a finding-class leaf are still covered) *)
Theorem C38_truncate_json_safe :
  forall v : val,
    tree_rel (fun l l' =>
                (leaf_finding_b l = false -> leaf_json_safe l' = true) /\
                (leaf_in_range l = true -> leaf_is_binary_float l = true -> l' = l))
             v (trunc v).
Proof. exact trunc_spec. Qed.
Print Assumptions C38_truncate_json_safe.

(* the same in the `~ finding -> P` form *)
Theorem C38_outside_finding_class :
  forall v : val, finding_C38_b v = false ->
    tree_rel (fun l l' => leaf_json_safe l' = true /\
                          (leaf_in_range l = true -> leaf_is_binary_float l = true -> l' = l))
             v (trunc v)
    /\ forallb leaf_json_safe (leaves (trunc v)) = true.
Proof. exact trunc_outside_finding_class. Qed.
Print Assumptions C38_outside_finding_class.

(* a tree whose leaves are all in range keeps all its leaves *)
Theorem C38_in_range_unchanged :
  forall v : val,
    forallb (fun l => leaf_in_range l && leaf_is_binary_float l) (leaves v) = true ->
    leaves (trunc v) = leaves v.
Proof. exact trunc_in_range_identity_on_leaves. Qed.
Print Assumptions C38_in_range_unchanged.

(* the bounds the theorems speak about are the ones written in the source *)
Theorem C38_source_literals :
  TruncTables.trunc_int_test_lo = - JSON_MAX /\ TruncTables.trunc_int_test_hi = JSON_MAX /\
  TruncTables.trunc_int_clip_lo = - JSON_MAX /\ TruncTables.trunc_int_clip_hi = JSON_MAX.
Proof. exact tables_int. Qed.
Print Assumptions C38_source_literals.

(* non-vacuity: a nested structure with out-of-range and in-range leaves of every numeric kind *)
Example C38_nonvacuous :
  let v := VMap [(1, VSeq KTuple [VLeaf (LInt (2 ^ 60)); VLeaf (LInt 42); VLeaf (LFloat XPInf)]);
                 (2, VSeq KArr [VLeaf (LNpInt (- 2 ^ 60)); VLeaf (LNpInt 7)]);
                 (3, VArr0 (LNpF64 (xdy 1 1000))); (4, VLeaf (LFloat (xdy 3 (-1))))] in
  finding_C38_b v = false
  /\ trunc v = VMap [(1, VSeq KList [VLeaf (LInt JSON_MAX); VLeaf (LInt 42);
                                     VLeaf (LFloat (xpair TruncTables.trunc_float_clip_hi))]);
                     (2, VSeq KList [VLeaf (LInt (- JSON_MAX)); VLeaf (LNpInt 7)]);
                     (3, VLeaf (LInt JSON_MAX)); (4, VLeaf (LFloat (xdy 3 (-1))))]
  /\ leaf_in_range (LFloat (xdy 3 (-1))) && leaf_is_binary_float (LFloat (xdy 3 (-1))) = true.
Proof. repeat split; vm_compute; reflexivity. Qed.

(* recorded finding C38-b *)
Example C38_b_refuted :
  exists v, finding_C38_b v = true /\ forallb leaf_json_safe (leaves (trunc v)) = false.
Proof. exact finding_b_refuted. Qed.

(* regression for the repaired defect C38-a (fixes/C38-a.diff) *)
Example C38_a_old_refuted :
  exists z, leaf_json_safe (trunc_leaf_old (LNpInt z)) = false /\ trunc_leaf (LNpInt z) = LInt JSON_MAX.
Proof. exact old_numpy_int_unclipped. Qed.

(* remark (not claimed as a violation under the reading above): +inf becomes the float limit,
   a whole-valued float beyond 2^53 that a second pass would clip to 2^53-1 *)
Example C38_remark_inf_then_not_idempotent :
  trunc_leaf (LFloat XPInf) = LFloat (xpair TruncTables.trunc_float_clip_hi) /\
  trunc_leaf (LFloat (xpair TruncTables.trunc_float_clip_hi)) = LInt JSON_MAX.
Proof. exact inf_maps_to_float_limit. Qed.
