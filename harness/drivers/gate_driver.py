"""Deterministic driver for C31: the real RunEngine on an event loop with a MANUAL clock.

  * ManualLoop.time() is a virtual clock that only the harness advances, so `loop.call_later(sleep, ev.set)`
    (the release delay of a suspender) fires exactly when the history says `ReleaseTimer`;
  * the harness thread performs every operation (install / remove / signal value / advance the clock) and after
    each one waits until the loop is quiescent (no ready handle, no due timer);
  * RE(plan) blocks its caller, so it runs in a helper thread; the harness waits until the engine is quiescent
    again (waiting at the gate, or finished).
Per operation the observation holds: messages seen by msg_hook since the previous operation, the outcome of a
call that finished, the engine state and, per suspender, (attached, tripped, pending event number or None)."""
import asyncio
import contextlib
import io
import logging
import threading

logging.getLogger("bluesky").setLevel(logging.CRITICAL + 1)


class ManualLoop(asyncio.SelectorEventLoop):
    def __init__(self):
        super().__init__()
        self.vt = 0.0
        self.idle = threading.Event()
        self.sched_log = []

    def time(self):
        return self.vt

    def call_later(self, delay, callback, *args, context=None):
        owner = getattr(callback, "__self__", None)
        if isinstance(owner, asyncio.Event) and getattr(callback, "__name__", "") == "set" and self.sched_log is not None:
            self.sched_log.append((owner, delay))
        return super().call_later(delay, callback, *args, context=context)

    def _due(self):
        return any((not h._cancelled) and h._when <= self.vt for h in self._scheduled)

    def _run_once(self):
        if not self._ready and not self._due():
            self.idle.set()
        super()._run_once()

    def next_deadline(self):
        ws = [h._when for h in self._scheduled if not h._cancelled]
        return min(ws) if ws else None


class FakeSignal:
    """ophyd-like signal: subscribe(cb, event_type=None, run=True) calls back at once with the current value"""
    name = "sig"

    def __init__(self, name, v):
        self.name = name
        self._v = v
        self.subs = []

    @property
    def value(self):
        return self._v

    def get(self):
        return self._v

    def subscribe(self, cb, event_type=None, run=True):
        self.subs.append(cb)
        if run:
            cb(value=self._v, old_value=self._v, timestamp=0.0, obj=self, sub_type="value")
        return len(self.subs)

    def clear_sub(self, cb, event_type=None):
        self.subs = [s for s in self.subs if s is not cb]

    def put(self, v):
        old, self._v = self._v, v
        for cb in list(self.subs):
            cb(value=v, old_value=old, timestamp=0.0, obj=self, sub_type="value")


class Gate:
    def __init__(self):
        from bluesky import RunEngine
        self.loop = ManualLoop()
        self.RE = RunEngine({}, loop=self.loop, context_managers=[])
        self.msgs = []
        self.RE.msg_hook = self._hook
        self.call_thread = None
        self.call_result = None
        self.events = []          # asyncio.Event objects in creation order (kept alive)

    def _hook(self, msg):
        if msg.command == "wait_for":
            self.msgs.append("wait_for:%d" % len(msg.args[0]))
        elif msg.command == "null":
            self.msgs.append("null:%s" % (msg.kwargs.get("tag"),))
        else:
            self.msgs.append(msg.command)

    def settle(self, timeout=5.0):
        """all callbacks posted so far have run and the loop has nothing left that is ready or due"""
        for _ in range(3):
            ev = threading.Event()
            self.loop.call_soon_threadsafe(ev.set)
            if not ev.wait(timeout):
                raise RuntimeError("loop not responsive")
            self.loop.idle.clear()
            self.loop.call_soon_threadsafe(lambda: None)
            if not self.loop.idle.wait(timeout):
                raise RuntimeError("loop never became idle")

    def ev_no(self, ev):
        if ev is None:
            return None
        for i, e in enumerate(self.events):
            if e is ev:
                return i
        self.events.append(ev)
        return len(self.events) - 1

    def start_call(self, plan):
        self.call_result = None

        def target():
            try:
                self.RE(plan)
                self.call_result = "Returned"
            except BaseException as e:  # noqa: BLE001
                self.call_result = "Raised:" + type(e).__name__
        self.call_thread = threading.Thread(target=target, daemon=True)
        self.call_thread.start()

    def call_done(self, wait=0.0):
        if self.call_thread is None:
            return True
        self.call_thread.join(wait)
        return not self.call_thread.is_alive()

    def advance_to_next_timer(self):
        box = {}
        ev = threading.Event()

        def do():
            d = self.loop.next_deadline()
            box["d"] = d
            if d is not None and d > self.loop.vt:
                self.loop.vt = d
            ev.set()
        self.loop.call_soon_threadsafe(do)
        ev.wait(5.0)
        return box.get("d")


    # ------------------------------------------------------------------ one scenario

    def run_case(self, case):
        """case: {"sus": [{"cls", "args", "sleep", "v0"}...], "ops": [...]} -> {"recs": [...], "errors": [...]}"""
        import time as _t
        from bluesky import suspenders as S
        from bluesky.utils import Msg
        RE = self.RE
        errors = []
        sigs, sus = [], []
        self.events = []
        self.msgs = []
        self.loop.sched_log = []
        self.call_thread, self.call_result = None, None
        sink = io.StringIO()
        recs = []
        sched_order = []      # events in the order their release was scheduled
        known_set = set()
        with contextlib.redirect_stdout(sink):
            for c in case["sus"]:
                sig = FakeSignal("sig%d" % len(sigs), c["v0"])
                sigs.append(sig)
                sus.append(getattr(S, c["cls"])(sig, *c["args"], sleep=c["sleep"], **c.get("kw", {})))
            try:
                for op in case["ops"]:
                    n_msgs, n_sched = len(self.msgs), len(self.loop.sched_log)
                    was_done = self.call_done()
                    k = op[0]
                    if k == "install":
                        RE.install_suspender(sus[op[1]])
                    elif k == "remove":
                        RE.remove_suspender(sus[op[1]])
                    elif k == "remove_direct":
                        sus[op[1]].remove()
                    elif k == "signal":
                        sigs[op[1]].put(op[2])
                    elif k == "timer":
                        self.advance_to_next_timer()
                    elif k == "call":
                        if not was_done:
                            errors.append("call while a call is active")
                            break
                        self.start_call([Msg("null", tag=i + 1) for i in range(op[1])])
                        was_done = False
                        t0 = _t.time()
                        while _t.time() - t0 < 5.0 and self.call_thread.is_alive() and RE.state == "idle":
                            _t.sleep(0.001)
                    self.settle()
                    if RE.state == "idle" and not self.call_done():
                        self.call_done(wait=3.0)
                        self.settle()
                    done_now = self.call_done()
                    outcome = None
                    if done_now and not was_done:
                        outcome = self.call_result
                    for s in sus:
                        self.ev_no(s._ev)
                    sched = []
                    for ev, delay in self.loop.sched_log[n_sched:]:
                        sched.append([self.ev_no(ev), delay])
                        sched_order.append(ev)
                    newly = [e for e in self.events if e.is_set() and id(e) not in known_set]
                    newly.sort(key=lambda e: [i for i, x in enumerate(sched_order) if x is e][:1] or [10 ** 6])
                    for e in newly:
                        known_set.add(id(e))
                    recs.append({"msgs": self.msgs[n_msgs:], "outcome": outcome, "running": RE.state != "idle",
                                 "sus": [[s.RE is not None, bool(s.tripped), self.ev_no(s._ev)] for s in sus],
                                 "sched": sched, "set": [self.ev_no(e) for e in newly]})
            except Exception as e:  # noqa: BLE001
                errors.append("%s: %s" % (type(e).__name__, e))
            # clean up: detach everything, let every timer fire, make sure the engine is idle again
            try:
                for s in sus:
                    RE.remove_suspender(s)
                    s.remove()
                for _ in range(4):
                    self.settle()
                    if self.advance_to_next_timer() is None:
                        break
                self.settle()
                if not self.call_done(wait=2.0) or RE.state != "idle":
                    errors.append("engine still %s after the clean-up" % RE.state)
            except Exception as e:  # noqa: BLE001
                errors.append("cleanup %s: %s" % (type(e).__name__, e))
        return {"recs": recs, "errors": errors}
