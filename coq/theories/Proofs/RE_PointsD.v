(* C03, layer D: the simulation invariant.  While an open-loop checkpointed plan is executed under an arbitrary
   well-formed schedule with pause requests, resume() calls, suspension requests and releases, the engine state is
   always "at a position of the plan": the messages since the last checkpoint-like message are the cache, the frames on
   the plan stack (replay lists, single-message plans of suspension requests, suspender plans on top of the user plan)
   will yield the rest of the plan in order, the bundler agrees with the
   abstract bundler of the reference semantics at that position, and the events emitted so far are events of the
   reference run and contain those of the part of the plan that is behind the position.  The invariant is generic in
   the engine's `rewindable` flag ([LinkR rw]): while a suspender plan keeps it off ([WinOK]: quiet frames on top of
   that suspender plan) the cache is empty, so requests that arrive there replay nothing. *)
From Coq Require Import List String ZArith Bool Arith Lia.
From BV Require Import Engine.RE Engine.PointSpec Proofs.RE_Inv Proofs.RE_PointsA Proofs.RE_PointsB Proofs.RE_PointsC.
Import ListNotations.
Local Open Scope nat_scope.

Lemma last_msg_app a : forall b cur, last_msg cur (a ++ b) = last_msg (last_msg cur a) b.
Proof. induction a as [|x a IH]; intros b cur; cbn; [reflexivity|]. destruct x; apply IH. Qed.
Lemma reads_ok_app rdm a : forall b cur, reads_ok rdm cur (a ++ b) = reads_ok rdm cur a && reads_ok rdm (last_msg cur a) b.
Proof.
  induction a as [|x a IH]; intros b cur; cbn; [reflexivity|].
  destruct x; try apply IH. destruct r; try apply IH. destruct v; try apply IH.
  rewrite IH, andb_assoc. reflexivity.
Qed.

Section D.
Variable P : Type.
Variable presume : P -> input -> outcome P.
Variable plan_of : nat -> P.
Variable D : Type.
Variable dev : D -> nat -> devmeth -> D * devres.
Variable rk : nat.
Variable rdm : msg -> Z.
Variable rv : val.
Variable pid : nat.
Variable L : list msg.
Variable afin : abs.
Variable SD : list doc.

Local Notation st := (RE.st P D).
Local Notation state := (RE.state P D).
Local Notation pc := (RE.pc P D).
Local Notation must_cancel := (RE.must_cancel P D).
Local Notation permit := (RE.permit P D).
Local Notation plans := (RE.plans P D).
Local Notation resps := (RE.resps P D).
Local Notation cache := (RE.cache P D).
Local Notation rewindable := (RE.rewindable P D).
Local Notation exc_slot := (RE.exc_slot P D).
Local Notation stashed := (RE.stashed P D).
Local Notation interrupted := (RE.interrupted P D).
Local Notation deferred := (RE.deferred P D).
Local Notation bundlers := (RE.bundlers P D).
Local Notation uid_supply := (RE.uid_supply P D).
Local Notation record_intr := (RE.record_intr P D).
Local Notation main_err := (RE.main_err P D).
Local Notation exec_cmd := (RE.exec_cmd P D dev).
Local Notation frame_resume := (RE.frame_resume P presume).
Local Notation task_step := (RE.task_step P presume plan_of D dev).
Local Notation step := (RE.step P presume plan_of D dev).
Local Notation run := (RE.run P presume plan_of D dev).
Local Notation keeps := (keeps P D).
Local Notation dsame := (dsame P D).
Local Notation astep := (astep rk rdm).
Local Notation arun := (arun rk rdm).
Local Notation BR := (BR rk).
Local Notation follows := (follows P presume rv).
Local Notation kmatch := (kmatch rk).

Hypothesis HL : arun a_init L = Some (afin, SD).
Hypothesis Hfin : a_run afin = None.
Hypothesis Hdev : dev_typed D dev.

(* ------------------------------------------------------------------ the engine-made frames on the plan stack *)
Inductive fd :=
  | FDL (l : list msg)                 (* the rewind plan made by resume() *)
  | FDS (sid : nat) (started : bool)   (* the single-message plan of a suspension request *)
  | FDH (h : helper P).                (* the suspender plan *)
Definition fd_frame (f : fd) : frame P :=
  match f with FDL l => FList l | FDS sid b => FSingle (smsg sid) b | FDH h => FHelper h end.
(* the messages of the user's plan it will still re-issue *)
Definition fd_msgs (f : fd) : list msg :=
  match f with FDL l => l | FDS _ _ => [] | FDH h => match hph h with HRewind ms => ms | _ => hrw h end end.
Definition fd_ok (f : fd) : bool :=
  match f with
  | FDH h => match hpre h, hpost h, hph h with
             | None, None, (H0 | HRwFalse | HWait | HResume | HRwBack | HRewind _) => true
             | _, _, _ => false
             end
  | _ => true
  end.
(* frames that can be on the stack while rewinding is switched on *)
Definition fd_on (f : fd) : bool :=
  match f with
  | FDH h => hwas h && match hph h with H0 | HRwBack | HRewind _ => true | _ => false end
  | _ => true
  end.
(* frames pushed while a suspension keeps rewinding switched off: they re-issue nothing *)
Definition quietw (f : fd) : bool :=
  match f with
  | FDL [] => true
  | FDL _ => false
  | FDS _ _ => true
  | FDH h => negb (hwas h) && match hrw h with [] => true | _ => false end && match hph h with HRewind (_ :: _) => false | _ => true end
  end.
(* not started yet: its first message (rewindable False) acts as a checkpoint *)
Definition fd_hold (f : fd) : bool := match f with FDH h => match hph h with H0 => true | _ => false end | _ => false end.
(* inside the section in which rewinding is switched off *)
Definition fd_win (f : fd) : bool :=
  match f with FDH h => match hph h with HRwFalse | HWait | HResume => true | _ => false end | _ => false end.
Definition fmsgs (fl : list fd) : list msg := List.concat (map fd_msgs fl).
(* the stack while rewinding is off: quiet frames, the suspender plan that switched it off, frames from before *)
Definition WinOK (fl : list fd) : Prop :=
  exists tops h rest, fl = tops ++ FDH h :: rest /\ forallb quietw tops = true /\ fd_win (FDH h) = true /\ hwas h = true /\
                      forallb fd_on rest = true.
Arguments fmsgs : simpl never.

Lemma fmsgs_cons f fl : fmsgs (f :: fl) = fd_msgs f ++ fmsgs fl.
Proof. reflexivity. Qed.
Lemma fmsgs_app a b : fmsgs (a ++ b) = fmsgs a ++ fmsgs b.
Proof. unfold fmsgs. rewrite map_app, concat_app. reflexivity. Qed.

(* ------------------------------------------------------------------ positions *)
Record pos := {
  p_pre : list msg;               (* processed, up to and including the last checkpoint-like message *)
  p_c : list msg;                 (* processed since then (= the cache, together with [p_infl]) *)
  p_infl : list msg;              (* the message whose command is waiting on a future, if any *)
  p_fl : list fd;                 (* the engine-made frames on the plan stack, top first *)
  p_u : list msg;                 (* what the user plan will still yield *)
  p_p : P; p_started : bool;
  p_a0 : abs; p_acur : abs; p_aend : abs;     (* reference state after [p_pre], now, at the end of this point *)
  p_d0 : list doc; p_dc : list doc }.         (* reference documents of [p_pre], of [p_c] *)

Definition pend (q : pos) : list msg := fmsgs (p_fl q) ++ p_u q.

(* below a suspender plan that has not started nothing of the user's plan is in progress *)
Definition HoldOK (c infl : list msg) (fl : list fd) : Prop :=
  forall tops h rest, fl = tops ++ FDH h :: rest -> hph h = H0 -> c = [] /\ infl = [] /\ fmsgs tops = [].

Definition PosOK (q : pos) : Prop :=
  L = p_pre q ++ p_c q ++ p_infl q ++ pend q /\
  follows (p_u q) (p_p q) /\
  arun a_init (p_pre q) = Some (p_a0 q, p_d0 q) /\
  arun (p_a0 q) (p_c q) = Some (p_acur q, p_dc q) /\
  (exists dseg, arun (p_a0 q) (p_c q ++ p_infl q ++ bodypre (pend q)) = Some (p_aend q, dseg)) /\
  forallb bodym (p_c q) = true /\ forallb bodym (p_infl q) = true /\
  (forallb bodym (fmsgs (p_fl q)) = true /\ forallb fd_ok (p_fl q) = true /\ HoldOK (p_c q) (p_infl q) (p_fl q)).

(* [rw]: is rewinding switched on *)
Definition LinkR (rw : bool) (q : pos) (s : st) : Prop :=
  cache s = Some (p_c q ++ p_infl q) /\
  plans s = map fd_frame (p_fl q) ++ [FUser pid (p_p q) (p_started q)] /\
  uid_supply s = a_next (p_acur q) /\
  BR (bundlers s) (p_a0 q) (p_acur q) (p_aend q) /\
  exc_slot s = None /\ stashed s = None /\
  (if rw then forallb fd_on (p_fl q) = true else p_c q = [] /\ p_infl q = [] /\ WinOK (p_fl q)) /\
  rewindable s = rw /\
  record_intr s = false /\ main_err s = None.
Definition Link := LinkR true.

Definition Docs (q : pos) (os : list obs) : Prop :=
  incl (final_events os) (doc_events SD) /\ incl (doc_events (p_d0 q ++ p_dc q)) (final_events os) /\
  rundocs os = doc_rundocs (p_d0 q) /\ no_raise os = true.

Definition DocsAll (os : list obs) : Prop :=
  incl (final_events os) (doc_events SD) /\ incl (doc_events SD) (final_events os) /\
  rundocs os = doc_rundocs SD /\ no_raise os = true.

(* a single-message plan that has not started is sent None (it was pushed with that response) *)
Fixpoint new_none (fl : list fd) (vs : list val) : Prop :=
  match fl, vs with
  | FDS _ false :: fl', v :: vs' => v = VNone /\ new_none fl' vs'
  | _ :: fl', _ :: vs' => new_none fl' vs'
  | _, _ => True
  end.
Definition not_new (fl : list fd) : Prop := match fl with FDS _ false :: _ => False | _ => True end.
Definition RespsOK (fl : list fd) (n : nat) (s : st) : Prop :=
  exists vs, resps s = map RVal vs /\ List.length vs = n /\ new_none fl vs.

Definition CoreR (rw : bool) (q : pos) (s : st) (os : list obs) : Prop := PosOK q /\ LinkR rw q s /\ Docs q os.
Definition Core := CoreR true.
Definition CoreW := CoreR false.
Definition FinCore (s : st) (os : list obs) : Prop :=
  forallb (is_single P) (plans s) = true /\ bundlers s = [] /\ stashed s = None /\ main_err s = None /\ DocsAll os.

(* nothing in flight, unless what is in flight is about to be rewound by a suspension request *)
Definition InflOK (q : pos) : Prop := p_infl q = [] \/ exists sid rest, p_fl q = FDS sid false :: rest.
Definition TopNew (q : pos) : Prop := exists sid rest, p_fl q = FDS sid false :: rest.

Inductive Inv (s : st) (os : list obs) : Prop :=
  | I_ns q : Core q s os -> state s = Idle -> (pc s = PcNotStarted \/ pc s = PcPermit0) -> must_cancel s = false ->
             p_infl q = [] -> RespsOK (p_fl q) (S (List.length (p_fl q))) s -> Inv s os
  | I_rs q : Core q s os -> state s = Running -> pc s = PcSleep0 -> must_cancel s = false -> permit s = true ->
             InflOK q -> RespsOK (p_fl q) (S (List.length (p_fl q))) s -> Inv s os
  | I_rc q k m : Core q s os -> state s = Running -> pc s = PcCmd k -> must_cancel s = false -> permit s = true ->
             p_infl q = [m] -> kmatch (p_acur q) k m -> RespsOK (List.tl (p_fl q)) (List.length (p_fl q)) s ->
             last_msg None os = Some m -> not_new (p_fl q) -> Inv s os
  | I_rk q : Core q s os -> state s = Running -> pc s = PcCmd KCkptSleep -> must_cancel s = false -> permit s = true ->
             p_infl q = [] -> RespsOK (List.tl (p_fl q)) (List.length (p_fl q)) s -> not_new (p_fl q) -> Inv s os
  | I_ps q rw : CoreR rw q s os -> state s = Pausing -> pc s = PcSleep0 -> must_cancel s = true -> interrupted s = true ->
             RespsOK (p_fl q) (S (List.length (p_fl q))) s -> Inv s os
  | I_pc q k rw : CoreR rw q s os -> state s = Pausing -> pc s = PcCmd k -> must_cancel s = true -> interrupted s = true ->
             RespsOK (List.tl (p_fl q)) (List.length (p_fl q)) s -> Inv s os
  | I_pd q rw : CoreR rw q s os -> state s = Paused -> pc s = PcPaused -> must_cancel s = false ->
             (interrupted s = true -> permit s = false) -> (interrupted s = false -> InflOK q) ->
             RespsOK (p_fl q) (S (List.length (p_fl q))) s -> Inv s os
  | I_ss q rw : CoreR rw q s os -> state s = Suspending -> pc s = PcSleep0 -> must_cancel s = true -> permit s = true ->
             TopNew q -> RespsOK (p_fl q) (S (List.length (p_fl q))) s -> Inv s os
  | I_sc q k rw : CoreR rw q s os -> state s = Suspending -> pc s = PcCmd k -> must_cancel s = true -> permit s = true ->
             (exists sid fl0 vs0, p_fl q = FDS sid false :: fl0 /\ resps s = map RVal (VNone :: vs0) /\
                                  List.length vs0 = List.length fl0 /\ not_new fl0 /\ new_none (List.tl fl0) vs0) -> Inv s os
  | I_w q : CoreW q s os -> state s = Running -> pc s = PcSleep0 -> must_cancel s = false -> permit s = true ->
             RespsOK (p_fl q) (S (List.length (p_fl q))) s -> Inv s os
  | I_wc q sid : CoreW q s os -> state s = Running -> pc s = PcCmd (KWaitFor [sid]) -> must_cancel s = false -> permit s = true ->
             (exists h rest, p_fl q = FDH h :: rest /\ hph h = HWait) -> RespsOK (List.tl (p_fl q)) (List.length (p_fl q)) s -> Inv s os
  | I_final : FinCore s os -> state s = Running -> pc s = PcFinalSleep (TReturn rv) -> must_cancel s = false ->
             (exists l, cache s = Some l) -> Inv s os
  | I_late : FinCore s os -> (state s = Pausing \/ state s = Suspending) -> pc s = PcFinalSleep (TReturn rv) ->
             must_cancel s = true -> (exists l, cache s = Some l) -> Inv s os
  | I_done r : DocsAll os -> state s = Idle -> pc s = PcDone r -> res_ok r = true -> main_err s = None ->
             (exists l, cache s = Some l) -> Inv s os.

Ltac inv_cases HI :=
  destruct HI as [q (HP & HLk & HD) Hst Hpc Hmc Hin Hrs
                 | q (HP & HLk & HD) Hst Hpc Hmc Hpm Hin Hrs
                 | q k m (HP & HLk & HD) Hst Hpc Hmc Hpm Hin Hkm Hrs Hlm Hnn
                 | q (HP & HLk & HD) Hst Hpc Hmc Hpm Hin Hrs Hnn
                 | q rw (HP & HLk & HD) Hst Hpc Hmc Hit Hrs
                 | q k rw (HP & HLk & HD) Hst Hpc Hmc Hit Hrs
                 | q rw (HP & HLk & HD) Hst Hpc Hmc Hip Hii Hrs
                 | q rw (HP & HLk & HD) Hst Hpc Hmc Hpm Htn Hrs
                 | q k rw (HP & HLk & HD) Hst Hpc Hmc Hpm Hsc
                 | q (HP & HLk & HD) Hst Hpc Hmc Hpm Hrs
                 | q sid (HP & HLk & HD) Hst Hpc Hmc Hpm Hhw Hrs
                 | (F1 & F2 & F3 & F4 & F5) Hst Hpc Hmc Hca
                 | (F1 & F2 & F3 & F4 & F5) Hst Hpc Hmc Hca
                 | r HDA Hst Hpc Hro Hme Hca].

(* ------------------------------------------------------------------ the fields the invariant reads *)
Definition lsame (s s' : st) : Prop :=
  cache s' = cache s /\ plans s' = plans s /\ uid_supply s' = uid_supply s /\ bundlers s' = bundlers s /\
  exc_slot s' = exc_slot s /\ stashed s' = stashed s /\ True /\ rewindable s' = rewindable s /\
  record_intr s' = record_intr s /\ main_err s' = main_err s.
Definition csame (s s' : st) : Prop :=
  lsame s s' /\ state s' = state s /\ pc s' = pc s /\ must_cancel s' = must_cancel s /\ permit s' = permit s /\
  interrupted s' = interrupted s /\ resps s' = resps s.

Lemma Link_ext rw q s s' : lsame s s' -> LinkR rw q s -> LinkR rw q s'.
Proof.
  intros (A1 & A2 & A3 & A4 & A5 & A6 & A7 & A8 & A9 & A10) (B1 & B2 & B3 & B4 & B5 & B6 & B7 & B8 & B9 & B10).
  unfold LinkR. rewrite A1, A2, A3, A4, A5, A6, A8, A9, A10. repeat split; assumption.
Qed.
Lemma dsame_lsame s s' : dsame s s' -> lsame s s'.
Proof.
  intros ((K1 & K2 & K3 & K4 & K5 & K6 & K7 & K8 & K9 & K10 & K11 & K12 & K13) & C1 & C2 & C3).
  unfold lsame. repeat split; assumption.
Qed.
Lemma RespsOK_ext fl n s s' : resps s' = resps s -> RespsOK fl n s -> RespsOK fl n s'.
Proof. intros E (vs & H1 & H2). exists vs. rewrite E. auto. Qed.

Ltac fin_csame :=
  try solve [ split; [eassumption | split; [eapply Link_ext; eassumption | eassumption]]
            | congruence
            | match goal with H : _ \/ _ |- _ \/ _ => destruct H; [left | right]; congruence end
            | eapply RespsOK_ext; eassumption | eassumption
            | match goal with C : permit _ = permit _, H : _ -> permit _ = false |- _ -> permit _ = false =>
                let Hi := fresh in intros Hi; rewrite C; apply H; congruence end
            | match goal with H : _ -> InflOK _ |- _ -> InflOK _ => let Hi := fresh in intros Hi; apply H; congruence end ].

Lemma Inv_main_err s os : Inv s os -> main_err s = None.
Proof. intros HI. inv_cases HI; try (apply HLk); assumption. Qed.

(* observations that carry no document, no message, no failure *)
Definition neutral (o : list obs) : Prop :=
  final_events o = [] /\ rundocs o = [] /\ no_raise o = true /\ forall cur, last_msg cur o = cur.

Lemma Docs_neutral q os o : neutral o -> Docs q os -> Docs q (os ++ o).
Proof.
  intros (N1 & N2 & N3 & N4) (D1 & D2 & D3 & D4). unfold Docs.
  rewrite final_events_app, rundocs_app, no_raise_app, N1, N2, N3, D4, !app_nil_r. auto.
Qed.
Lemma Docs_quiet q q' os o : p_d0 q' = p_d0 q -> p_dc q' = p_dc q ->
  final_events o = [] -> rundocs o = [] -> no_raise o = true -> Docs q os -> Docs q' (os ++ o).
Proof.
  intros E1 E2 N1 N2 N3 (D1 & D2 & D3 & D4). unfold Docs.
  rewrite E1, E2, final_events_app, rundocs_app, no_raise_app, N1, N2, N3, D4, !app_nil_r. auto.
Qed.
Lemma DocsAll_neutral os o : neutral o -> DocsAll os -> DocsAll (os ++ o).
Proof.
  intros (N1 & N2 & N3 & N4) (D1 & D2 & D3 & D4). unfold DocsAll.
  rewrite final_events_app, rundocs_app, no_raise_app, N1, N2, N3, D4, !app_nil_r. auto.
Qed.

Lemma Inv_neutral s os o : neutral o -> Inv s os -> Inv s (os ++ o).
Proof.
  intros HN HI. inv_cases HI.
  - eapply I_ns; try eassumption. split; [exact HP | split; [exact HLk | apply Docs_neutral; assumption]].
  - eapply I_rs; try eassumption. split; [exact HP | split; [exact HLk | apply Docs_neutral; assumption]].
  - eapply I_rc; try eassumption; [split; [exact HP | split; [exact HLk | apply Docs_neutral; assumption]]|].
    rewrite last_msg_app. destruct HN as (_ & _ & _ & N4). rewrite N4. assumption.
  - eapply I_rk; try eassumption. split; [exact HP | split; [exact HLk | apply Docs_neutral; assumption]].
  - eapply I_ps; try eassumption. split; [exact HP | split; [exact HLk | apply Docs_neutral; assumption]].
  - eapply I_pc; try eassumption. split; [exact HP | split; [exact HLk | apply Docs_neutral; assumption]].
  - eapply I_pd; try eassumption. split; [exact HP | split; [exact HLk | apply Docs_neutral; assumption]].
  - eapply I_ss; try eassumption. split; [exact HP | split; [exact HLk | apply Docs_neutral; assumption]].
  - eapply I_sc; try eassumption. split; [exact HP | split; [exact HLk | apply Docs_neutral; assumption]].
  - eapply I_w; try eassumption. split; [exact HP | split; [exact HLk | apply Docs_neutral; assumption]].
  - eapply I_wc; try eassumption. split; [exact HP | split; [exact HLk | apply Docs_neutral; assumption]].
  - eapply I_final; try eassumption. unfold FinCore. repeat (split; [assumption|]). apply DocsAll_neutral; assumption.
  - eapply I_late; try eassumption. unfold FinCore. repeat (split; [assumption|]). apply DocsAll_neutral; assumption.
  - eapply I_done; try eassumption. apply DocsAll_neutral; assumption.
Qed.

Lemma neutral_intro o : final_events o = [] -> rundocs o = [] -> no_raise o = true -> (forall cur, last_msg cur o = cur) -> neutral o.
Proof. intros. repeat split; assumption. Qed.

Lemma lsame_refl s : lsame s s.
Proof. unfold lsame. repeat split. Qed.
Lemma lsame_trans a b c : lsame a b -> lsame b c -> lsame a c.
Proof. unfold lsame. intros H1 H2. decompose [and] H1. decompose [and] H2. repeat split; congruence. Qed.
Ltac lsame_tac := unfold lsame; simp_st; repeat split; reflexivity.

Lemma task_step_inr (s : st) r : RE_Inv.tentry P presume D dev s = inr r -> task_step s = r.
Proof. intros H. rewrite task_step_tentry, H. reflexivity. Qed.

Definition nsame (s s' : st) : Prop :=
  cache s' = cache s /\ plans s' = plans s /\ uid_supply s' = uid_supply s /\
  exc_slot s' = exc_slot s /\ stashed s' = stashed s /\ True /\ rewindable s' = rewindable s /\
  record_intr s' = record_intr s /\ main_err s' = main_err s.
Ltac nsame_tac := unfold nsame; simp_st; repeat split; reflexivity.

Lemma dsame_nsame s s' : dsame s s' -> nsame s s'.
Proof.
  intros ((K1 & K2 & K3 & K4 & K5 & K6 & K7 & K8 & K9 & K10 & K11 & K12 & K13) & C1 & C2 & C3).
  unfold nsame. repeat split; assumption.
Qed.

Lemma Link_nsame rw q s s' : nsame s s' -> bundlers s' = bundlers s -> LinkR rw q s -> LinkR rw q s'.
Proof.
  intros (A1 & A2 & A3 & A5 & A6 & A7 & A8 & A9 & A10) A4. apply Link_ext. unfold lsame. repeat split; assumption.
Qed.

Lemma devonly_neutral o : forallb devonly o = true -> neutral o.
Proof.
  intros H. destruct (devonly_final_events _ H) as [F1 F2]. apply neutral_intro; try assumption.
  - apply devdoc_no_raise, devonly_devdoc, H.
  - apply devdoc_last_msg, devonly_devdoc, H.
Qed.

Lemma neutral_app a b : neutral a -> neutral b -> neutral (a ++ b).
Proof.
  intros (A1 & A2 & A3 & A4) (B1 & B2 & B3 & B4). apply neutral_intro.
  - rewrite final_events_app, A1, B1. reflexivity.
  - rewrite rundocs_app, A2, B2. reflexivity.
  - rewrite no_raise_app, A3, B3. reflexivity.
  - intros cur. rewrite last_msg_app, A4, B4. reflexivity.
Qed.

Lemma nobintr_BR bs a0 acur aend : BR bs a0 acur aend -> nobintr bs = true.
Proof.
  unfold RE_PointsB.BR. destruct (a_run acur).
  - intros (b & X & Y & r0 & rend & -> & _ & _ & _ & (_ & R2 & _) & _). cbn. rewrite R2. reflexivity.
  - intros ->. reflexivity.
Qed.

(* the invariant only reads these fields *)
Lemma LinkR_ext rw q s s' :
  nsame s s' -> (forall a0 acur aend, BR (bundlers s) a0 acur aend -> BR (bundlers s') a0 acur aend) ->
  LinkR rw q s -> LinkR rw q s'.
Proof.
  intros (A1 & A2 & A3 & A5 & A6 & A7 & A8 & A9 & A10) HB (B1 & B2 & B3 & B4 & B5 & B6 & B7 & B8 & B9 & B10).
  unfold LinkR. rewrite A1, A2, A3, A5, A6, A8, A9, A10. repeat split; try assumption. apply HB. exact B4.
Qed.

Lemma Inv_ext s s' os :
  nsame s s' -> state s' = state s -> pc s' = pc s -> must_cancel s' = must_cancel s -> interrupted s' = interrupted s ->
  resps s' = resps s ->
  (permit s' = permit s \/ (permit s' = true /\ (state s = Paused -> interrupted s = false))) ->
  (forall a0 acur aend, BR (bundlers s) a0 acur aend -> BR (bundlers s') a0 acur aend) -> (bundlers s = [] -> bundlers s' = []) ->
  Inv s os -> Inv s' os.
Proof.
  intros N C1 C2 C3 C5 C6 C4 HB HB0 HI. pose proof N as (A1 & A2 & A3 & A5 & A6 & A7 & A8 & A9 & A10).
  assert (HC : forall rw q, CoreR rw q s os -> CoreR rw q s' os).
  { intros rw q (X & Y & Z). split; [exact X | split; [eapply LinkR_ext; eassumption | exact Z]]. }
  assert (HR : forall fl n, RespsOK fl n s -> RespsOK fl n s') by (intros fl n; apply RespsOK_ext; exact C6).
  assert (HPt : permit s = true -> permit s' = true) by (intros Hp; destruct C4 as [C4 | [C4 _]]; congruence).
  inv_cases HI;
    [ eapply I_ns with (q := q) | eapply I_rs with (q := q) | eapply (I_rc _ _ q k m) | eapply I_rk with (q := q)
    | eapply (I_ps _ _ q rw) | eapply (I_pc _ _ q k rw) | eapply (I_pd _ _ q rw) | eapply (I_ss _ _ q rw)
    | eapply (I_sc _ _ q k rw) | eapply I_w with (q := q) | eapply (I_wc _ _ q sid) | eapply I_final | eapply I_late
    | eapply I_done with (r := r) ];
    try congruence; try assumption;
    try solve [apply HC; split; [assumption | split; assumption]];
    try solve [apply HR; assumption]; try solve [apply HPt; assumption];
    try solve [destruct Hpc; [left | right]; congruence];
    try solve [destruct Hst; [left | right]; congruence];
    try solve [unfold FinCore; rewrite A2, A6, A10, (HB0 F2); auto];
    try solve [destruct Hca as [l Hca]; exists l; congruence].
  - intros Hi. rewrite C5 in Hi. destruct C4 as [C4 | [_ C4]]; [rewrite C4; apply Hip; exact Hi | rewrite (C4 Hst) in Hi; discriminate Hi].
  - intros Hi. apply Hii. congruence.
  - destruct Hsc as (sid' & fl0 & vs0 & E1 & E2 & E3). exists sid', fl0, vs0. split; [exact E1|]. split; [congruence | exact E3].
Qed.

Lemma Inv_csame s s' os : csame s s' -> Inv s os -> Inv s' os.
Proof.
  intros ((A1 & A2 & A3 & A4 & A5 & A6 & A7 & A8 & A9 & A10) & C1 & C2 & C3 & C4 & C5 & C6).
  apply Inv_ext; try assumption; try (left; assumption).
  - unfold nsame. repeat split; assumption.
  - intros a0 acur aend H. rewrite A4. exact H.
  - intros H. rewrite A4. exact H.
Qed.

(* ------------------------------------------------------------------ moving the position *)
Ltac invp H := match type of H with Some (_, _) = Some (?a, ?b) => injection H; clear H; intros; subst a b end.
Lemma arun_det a l x y : arun a l = Some x -> arun a l = Some y -> x = y.
Proof. congruence. Qed.

Lemma pos_facts q : PosOK q ->
  wfa (p_a0 q) /\ wfa (p_acur q) /\ wfa (p_aend q) /\ run_rel (p_a0 q) (p_acur q) /\
  a_next (p_acur q) = a_next (p_a0 q) /\ doc_rundocs (p_dc q) = [] /\ (p_c q <> [] -> a_fresh (p_acur q) = false) /\
  exists drest, arun (p_acur q) (p_infl q ++ pend q) = Some (afin, drest) /\ SD = p_d0 q ++ p_dc q ++ drest.
Proof.
  intros (P1 & P2 & P3 & P4 & (dseg & P5) & P6 & P7 & P8).
  assert (W0 : wfa (p_a0 q)) by (eapply arun_wfa; [apply wfa_init | exact P3]).
  assert (Wc : wfa (p_acur q)) by (eapply arun_wfa; [exact W0 | exact P4]).
  assert (We : wfa (p_aend q)) by (eapply arun_wfa; [exact W0 | exact P5]).
  destruct (arun_body _ _ _ _ _ _ P6 P4) as (B1 & B2 & B3 & B4).
  repeat (split; [assumption|]).
  pose proof HL as HL'. rewrite P1 in HL'. apply arun_app in HL'. destruct HL' as (a1 & d1 & d2 & E1 & E2 & ->).
  rewrite P3 in E1. invp E1. apply arun_app in E2. destruct E2 as (a2 & d3 & d4 & E3 & E4 & ->).
  rewrite P4 in E3. invp E3. exists d4. split; [exact E4 | reflexivity].
Qed.

Lemma arun_cons a m l a2 d : arun a (m :: l) = Some (a2, d) ->
  exists a1 d1 d2, astep a m = Some (a1, d1) /\ arun a1 l = Some (a2, d2) /\ d = d1 ++ d2.
Proof.
  cbn. destruct (astep a m) as [[a1 d1]|]; [|discriminate]. destruct (arun a1 l) as [[a3 d3]|] eqn:E; [|discriminate].
  intros H; inv H. exists a1, d1, d3. auto.
Qed.

Lemma incl_mid {A} (a b c d : list A) : incl c (a ++ b ++ c ++ d).
Proof. intros x Hx. apply in_or_app; right. apply in_or_app; right. apply in_or_app; left. exact Hx. Qed.

Definition mkpos pre c infl fl u p stt a0 acur aend d0 dc : pos :=
  {| p_pre := pre; p_c := c; p_infl := infl; p_fl := fl; p_u := u; p_p := p; p_started := stt;
     p_a0 := a0; p_acur := acur; p_aend := aend; p_d0 := d0; p_dc := dc |}.

Lemma forallb_snoc {A} (f : A -> bool) l x : forallb f l = true -> f x = true -> forallb f (l ++ [x]) = true.
Proof. intros H1 H2. rewrite forallb_app, H1. cbn. rewrite H2. reflexivity. Qed.

Ltac pos_split := split; [|split; [|split; [|split; [|split; [|split; [|split; [|split; [|split]]]]]]]].

Definition NoHold (fl : list fd) : Prop := forallb (fun f => negb (fd_hold f)) fl = true.

Lemma HoldOK_nohold c infl fl : NoHold fl -> HoldOK c infl fl.
Proof.
  intros H tops h rest E Hh. exfalso. unfold NoHold in H. rewrite E, forallb_app in H. apply andb_true_iff in H. destruct H as [_ H].
  cbn in H. rewrite Hh in H. discriminate H.
Qed.
Lemma HoldOK_infl c m fl c' infl' : HoldOK c [m] fl -> HoldOK c' infl' fl.
Proof. intros H tops h rest E Hh. destruct (H tops h rest E Hh) as (_ & Hi & _). discriminate Hi. Qed.
Lemma HoldOK_nil c infl : HoldOK c infl [].
Proof. intros tops h rest E. destruct tops; discriminate E. Qed.
(* a frame that yields a message of the user's plan has no unstarted suspender plan below it *)
Lemma HoldOK_yield c infl f fl : HoldOK c infl (f :: fl) -> fd_msgs f <> [] -> NoHold fl.
Proof.
  intros H Hne. unfold NoHold. apply forallb_forall. intros x Hx. destruct (fd_hold x) eqn:Ex; [|reflexivity]. exfalso.
  destruct x as [| |h]; try discriminate Ex. cbn in Ex. destruct (hph h) eqn:Eh; try discriminate Ex.
  apply in_split in Hx. destruct Hx as (l1 & l2 & ->).
  destruct (H (f :: l1) h l2 eq_refl Eh) as (_ & _ & Hm). rewrite fmsgs_cons in Hm. apply app_eq_nil in Hm. apply Hne, Hm.
Qed.
Lemma HoldOK_cons_quiet c infl f fl : HoldOK c infl fl -> fd_msgs f = [] -> fd_hold f = false -> HoldOK c infl (f :: fl).
Proof.
  intros H Hq Hh tops h rest E Hph. destruct tops as [|t tops]; cbn in E.
  - injection E as -> _. cbn in Hh. rewrite Hph in Hh. discriminate Hh.
  - injection E as -> E. destruct (H tops h rest E Hph) as (A & B & C). rewrite fmsgs_cons, Hq, C. auto.
Qed.
Lemma HoldOK_tail c infl f fl : HoldOK c infl (f :: fl) -> fd_msgs f = [] -> HoldOK c infl fl.
Proof.
  intros H Hq tops h rest E Hph. destruct (H (f :: tops) h rest) as (A & B & C); [rewrite E; reflexivity | exact Hph |].
  rewrite fmsgs_cons, Hq in C. auto.
Qed.

Lemma WinOK_push f fl : quietw f = true -> WinOK fl -> WinOK (f :: fl).
Proof.
  intros Hq (tops & h & rest & E & H1 & H2 & H3 & H4). exists (f :: tops), h, rest. rewrite E. cbn [forallb app]. rewrite Hq, H1. auto.
Qed.
Lemma WinOK_outer h fl : fd_win (FDH h) = true -> hwas h = true -> forallb fd_on fl = true -> WinOK (FDH h :: fl).
Proof. intros H1 H2 H3. exists [], h, fl. auto. Qed.
Lemma WinOK_cases f fl : WinOK (f :: fl) ->
  (quietw f = true /\ WinOK fl) \/ (exists h, f = FDH h /\ fd_win (FDH h) = true /\ hwas h = true /\ forallb fd_on fl = true).
Proof.
  intros (tops & h & rest & E & H1 & H2 & H3 & H4). destruct tops as [|t tops]; cbn [app] in E; injection E as -> ->.
  - right. exists h. auto.
  - left. cbn [forallb] in H1. apply andb_true_iff in H1. destruct H1 as [Ht H1]. split; [exact Ht|]. exists tops, h, rest. auto.
Qed.
Lemma quietw_msgs f : quietw f = true -> fd_msgs f = [].
Proof.
  destruct f as [[|m l]|sid b|h]; cbn; try discriminate; try reflexivity.
  intros H. apply andb_true_iff in H. destruct H as [H H3]. apply andb_true_iff in H. destruct H as [_ H2].
  destruct (hrw h); [|discriminate H2]. destruct (hph h) as [| |p0| | |p0| |[|m ms]]; try reflexivity. discriminate H3.
Qed.

(* a body message comes off the front of what the stack will yield *)
Lemma PosOK_body q fl' u' p' stt m :
  PosOK q -> p_infl q = [] -> pend q = m :: (fmsgs fl' ++ u') -> bodym m = true ->
  follows u' p' -> forallb bodym (fmsgs fl') = true -> forallb fd_ok fl' = true -> NoHold fl' ->
  exists acur' dm,
    astep (p_acur q) m = Some (acur', dm) /\ run_rel acur' (p_aend q) /\ incl (doc_events dm) (doc_events SD) /\
    PosOK (mkpos (p_pre q) (p_c q ++ [m]) [] fl' u' p' stt (p_a0 q) acur' (p_aend q) (p_d0 q) (p_dc q ++ dm)) /\
    PosOK (mkpos (p_pre q) (p_c q) [m] fl' u' p' stt (p_a0 q) (p_acur q) (p_aend q) (p_d0 q) (p_dc q)).
Proof.
  intros HP Hin Hpe Hbm Hfo Hfb Hok Hnh. pose proof (pos_facts q HP) as (W0 & Wc & We & Hrr & Hn & Hds & Hfr & drest & Hrest & HSD).
  destruct HP as (P1 & P2 & P3 & P4 & (dseg & P5) & P6 & P7 & P8).
  rewrite Hin, Hpe in *. cbn [app] in *.
  destruct (arun_cons _ _ _ _ _ Hrest) as (acur' & dm & dr & Hst & Hr' & ->).
  cbn [bodypre] in P5. rewrite Hbm in P5.
  apply arun_app in P5. destruct P5 as (a1 & d1 & d2 & E1 & E2 & ->). rewrite P4 in E1. invp E1.
  destruct (arun_cons _ _ _ _ _ E2) as (a1 & d1 & d3 & E3 & E4 & ->). rewrite Hst in E3. invp E3.
  destruct (arun_body _ _ _ _ _ _ (bodypre_all _) E4) as (_ & _ & _ & Hrel).
  exists acur', dm. split; [exact Hst|]. split; [exact Hrel|]. split; [rewrite HSD, !doc_events_app; apply incl_mid|].
  assert (Hc1 : arun (p_a0 q) (p_c q ++ [m]) = Some (acur', p_dc q ++ dm)).
  { apply arun_app. exists (p_acur q), (p_dc q), dm. split; [exact P4|]. split; [|reflexivity].
    rewrite arun_one, Hst, app_nil_r. reflexivity. }
  split.
  - unfold PosOK, mkpos, pend; cbn. pos_split; try assumption; try reflexivity.
    + rewrite P1, <- !app_assoc. reflexivity.
    + eexists. rewrite <- app_assoc. cbn. apply arun_app. exists (p_acur q), (p_dc q), (dm ++ d3). split; [exact P4|]. split; [|reflexivity].
      cbn. rewrite Hst, E4. reflexivity.
    + apply forallb_snoc; assumption.
    + apply HoldOK_nohold. exact Hnh.
  - unfold PosOK, mkpos, pend; cbn. pos_split; try assumption; try reflexivity.
    + eexists. apply arun_app. exists (p_acur q), (p_dc q), (dm ++ d3). split; [exact P4|]. split; [|reflexivity].
      cbn. rewrite Hst, E4. reflexivity.
    + rewrite Hbm. reflexivity.
    + apply HoldOK_nohold. exact Hnh.
Qed.

(* the command that was waiting on a future completes *)
Lemma PosOK_cmd q m :
  PosOK q -> p_infl q = [m] ->
  exists acur' dm,
    astep (p_acur q) m = Some (acur', dm) /\ run_rel acur' (p_aend q) /\ incl (doc_events dm) (doc_events SD) /\
    PosOK (mkpos (p_pre q) (p_c q ++ [m]) [] (p_fl q) (p_u q) (p_p q) (p_started q) (p_a0 q) acur' (p_aend q) (p_d0 q) (p_dc q ++ dm)).
Proof.
  intros HP Hin. pose proof (pos_facts q HP) as (W0 & Wc & We & Hrr & Hn & Hds & Hfr & drest & Hrest & HSD).
  destruct HP as (P1 & P2 & P3 & P4 & (dseg & P5) & P6 & P7 & P8a & P8b & P8c).
  rewrite Hin in *. cbn [app] in *.
  destruct (arun_cons _ _ _ _ _ Hrest) as (acur' & dm & dr & Hst & Hr' & ->).
  apply arun_app in P5. destruct P5 as (a1 & d1 & d2 & E1 & E2 & ->). rewrite P4 in E1. invp E1.
  destruct (arun_cons _ _ _ _ _ E2) as (a1 & d1 & d3 & E3 & E4 & ->). rewrite Hst in E3. invp E3.
  destruct (arun_body _ _ _ _ _ _ (bodypre_all _) E4) as (_ & _ & _ & Hrel).
  exists acur', dm. split; [exact Hst|]. split; [exact Hrel|]. split; [rewrite HSD, !doc_events_app; apply incl_mid|].
  unfold PosOK, mkpos, pend; cbn. fold (pend q). pos_split; try assumption; try reflexivity.
  - rewrite P1, <- !app_assoc. reflexivity.
  - apply arun_app. exists (p_acur q), (p_dc q), dm. split; [exact P4|]. split; [|reflexivity].
    rewrite arun_one, Hst, app_nil_r. reflexivity.
  - eexists. rewrite <- app_assoc. cbn. apply arun_app. exists (p_acur q), (p_dc q), (dm ++ d3). split; [exact P4|]. split; [|reflexivity].
    cbn. rewrite Hst, E4. reflexivity.
  - cbn in P7. apply andb_true_iff in P7. apply forallb_snoc; [assumption | apply P7].
  - eapply HoldOK_infl. exact P8c.
Qed.

(* a head message comes from the user plan *)
Lemma PosOK_head q u' p' stt m :
  PosOK q -> p_infl q = [] -> p_fl q = [] -> p_u q = m :: u' -> is_head (mcmd m) = true -> follows u' p' ->
  p_aend q = p_acur q /\
  exists acur' dm aend',
    astep (p_acur q) m = Some (acur', dm) /\ run_rel acur' aend' /\ incl (doc_events dm) (doc_events SD) /\
    (needs_fresh (mcmd m) = true -> p_c q = []) /\
    PosOK (mkpos (p_pre q ++ p_c q ++ [m]) [] [] [] u' p' stt acur' acur' aend' (p_d0 q ++ p_dc q ++ dm) []).
Proof.
  intros HP Hin Hfl Hu Hh Hfo. pose proof (pos_facts q HP) as (W0 & Wc & We & Hrr & Hn & Hds & Hfr & drest & Hrest & HSD).
  destruct HP as (P1 & P2 & P3 & P4 & (dseg & P5) & P6 & P7 & P8).
  unfold pend in *. rewrite Hin, Hfl, Hu in *. change (fmsgs (@nil fd)) with (@nil msg) in *. cbn [app] in *.
  destruct (arun_cons _ _ _ _ _ Hrest) as (acur' & dm & dr & Hst & Hr' & ->).
  assert (Hnb : bodym m = false) by (apply head_not_body; exact Hh).
  cbn [bodypre] in P5. rewrite Hnb, app_nil_r in P5. rewrite P4 in P5. injection P5 as Hae Hds'.
  split; [symmetry; exact Hae|].
  destruct (bodypre_split u') as [r Hr]. pose proof Hr' as Hr''. rewrite Hr in Hr''.
  apply arun_app in Hr''. destruct Hr'' as (aend' & d1 & d2 & E1 & E2 & ->).
  destruct (arun_body _ _ _ _ _ _ (bodypre_all _) E1) as (_ & _ & _ & Hrel).
  exists acur', dm, aend'. split; [exact Hst|]. split; [exact Hrel|]. split; [rewrite HSD, !doc_events_app; apply incl_mid|].
  split.
  { intros Ec. destruct (p_c q) as [|m0 c0] eqn:Ecq; [reflexivity|]. exfalso.
    assert (Hf : a_fresh (p_acur q) = false) by (apply Hfr; discriminate).
    pose proof (astep_mrun _ _ _ _ _ _ Hst) as Hrun.
    unfold PointSpec.astep in Hst. rewrite Hrun, Nat.eqb_refl, Hf in Hst. cbn [negb] in Hst.
    destruct (mcmd m); try discriminate Ec; destruct (a_run (p_acur q)); discriminate. }
  unfold PosOK, mkpos, pend; cbn. pos_split; try assumption; try reflexivity.
  - rewrite P1, <- !app_assoc. reflexivity.
  - apply arun_app. exists (p_a0 q), (p_d0 q), (p_dc q ++ dm). split; [exact P3|]. split; [|reflexivity].
    apply arun_app. exists (p_acur q), (p_dc q), dm. split; [exact P4|]. split; [|reflexivity].
    rewrite arun_one, Hst, app_nil_r. reflexivity.
  - eexists. exact E1.
  - apply HoldOK_nil.
Qed.

(* a rewind (resume(), `_start_suspender`): everything done since the last checkpoint-like message is to be done
   again, by the new frames [top] pushed on the stack ([fd_msgs] of them = what was done) *)
Lemma PosOK_rewound q tops rest :
  PosOK q -> fmsgs tops ++ fmsgs rest = (p_c q ++ p_infl q) ++ fmsgs (p_fl q) ->
  forallb fd_ok (tops ++ rest) = true -> HoldOK [] [] (tops ++ rest) ->
  PosOK (mkpos (p_pre q) [] [] (tops ++ rest) (p_u q) (p_p q) (p_started q)
               (p_a0 q) (p_a0 q) (p_aend q) (p_d0 q) []).
Proof.
  intros (P1 & P2 & P3 & P4 & (dseg & P5) & P6 & P7 & P8a & P8b & P8c) Hm Hok Hho.
  unfold PosOK, mkpos, pend; cbn. pos_split; try assumption; try reflexivity.
  - rewrite P1. unfold pend. rewrite fmsgs_app, Hm, <- !app_assoc. reflexivity.
  - exists dseg. rewrite fmsgs_app, Hm, <- !app_assoc.
    rewrite bodypre_app_body by exact P6. rewrite bodypre_app_body by exact P7. unfold pend in P5. exact P5.
  - rewrite fmsgs_app, Hm, !forallb_app, P6, P7, P8a. reflexivity.
Qed.

Lemma PosOK_rewind q :
  PosOK q ->
  PosOK (mkpos (p_pre q) [] [] (FDL (p_c q ++ p_infl q) :: p_fl q) (p_u q) (p_p q) (p_started q)
               (p_a0 q) (p_a0 q) (p_aend q) (p_d0 q) []).
Proof.
  intros HP. pose proof HP as (_ & _ & _ & _ & _ & _ & _ & P8a & P8b & P8c).
  apply (PosOK_rewound q [FDL (p_c q ++ p_infl q)] (p_fl q) HP).
  - unfold fmsgs. cbn. rewrite app_nil_r. reflexivity.
  - cbn. exact P8b.
  - intros tops h rest E Hph. destruct tops as [|t tops]; cbn in E; [discriminate E|]. injection E as <- E.
    destruct (P8c tops h rest E Hph) as (A & B & C). rewrite fmsgs_cons, C. cbn. rewrite A, B. auto.
Qed.

(* `_start_suspender` ran: the suspender plan (not started) carries what is to be done again *)
Lemma PosOK_susp q sid rest :
  PosOK q -> p_fl q = FDS sid false :: rest ->
  PosOK (mkpos (p_pre q) [] [] (FDH (mkhelper P H0 sid true (p_c q ++ p_infl q)) :: FDS sid true :: rest) (p_u q) (p_p q) (p_started q)
               (p_a0 q) (p_a0 q) (p_aend q) (p_d0 q) []).
Proof.
  intros HP Hfl. pose proof HP as (_ & _ & _ & _ & _ & _ & _ & P8a & P8b & P8c). rewrite Hfl in *.
  apply (PosOK_rewound q [FDH (mkhelper P H0 sid true (p_c q ++ p_infl q)); FDS sid true] rest HP).
  - rewrite Hfl. unfold fmsgs. cbn. rewrite app_nil_r. reflexivity.
  - cbn. cbn in P8b. exact P8b.
  - intros tops h rest' E Hph. destruct tops as [|t tops]; cbn in E.
    + auto.
    + injection E as <- E. destruct tops as [|t2 tops]; cbn in E; [discriminate E|]. injection E as <- E.
      destruct (P8c (FDS sid false :: tops) h rest') as (A & B & C); [rewrite E; reflexivity | exact Hph |].
      rewrite !fmsgs_cons in *. cbn in *. rewrite A, B, C. auto.
Qed.

(* a suspension request pushes its single-message plan *)
Lemma PosOK_push q sid :
  PosOK q ->
  PosOK (mkpos (p_pre q) (p_c q) (p_infl q) (FDS sid false :: p_fl q) (p_u q) (p_p q) (p_started q)
               (p_a0 q) (p_acur q) (p_aend q) (p_d0 q) (p_dc q)).
Proof.
  intros (P1 & P2 & P3 & P4 & (dseg & P5) & P6 & P7 & P8a & P8b & P8c).
  unfold PosOK, mkpos, pend in *; cbn. pos_split; try assumption; try reflexivity.
  - exists dseg. exact P5.
  - apply HoldOK_cons_quiet; [exact P8c | reflexivity | reflexivity].
Qed.

(* the frame on top changes but will re-issue the same messages *)
Lemma PosOK_retop q f f' rest :
  PosOK q -> p_fl q = f :: rest -> fd_msgs f' = fd_msgs f -> fd_ok f' = true -> (fd_hold f' = true -> fd_hold f = true) ->
  PosOK (mkpos (p_pre q) (p_c q) (p_infl q) (f' :: rest) (p_u q) (p_p q) (p_started q)
               (p_a0 q) (p_acur q) (p_aend q) (p_d0 q) (p_dc q)).
Proof.
  intros (P1 & P2 & P3 & P4 & (dseg & P5) & P6 & P7 & P8a & P8b & P8c) Hfl Hm Hok Hh.
  unfold PosOK, mkpos, pend in *; cbn. rewrite Hfl in *. rewrite !fmsgs_cons in *. rewrite Hm. pos_split; try assumption; try reflexivity.
  - exists dseg. exact P5.
  - cbn in P8b. apply andb_true_iff in P8b. cbn. rewrite Hok. apply P8b.
  - intros tops h rest' E Hph. destruct tops as [|t tops]; cbn in E.
    + injection E as -> _. assert (Hf : fd_hold f = true) by (apply Hh; cbn; rewrite Hph; reflexivity).
      destruct f as [| |h0]; try discriminate Hf. cbn in Hf. destruct (hph h0) eqn:E0; try discriminate Hf.
      destruct (P8c [] h0 rest eq_refl E0) as (A & B & _). auto.
    + injection E as <- E. destruct (P8c (f :: tops) h rest') as (A & B & C); [rewrite E; reflexivity | exact Hph |].
      rewrite fmsgs_cons in *. rewrite Hm. auto.
Qed.

(* a frame that has nothing left returns and is popped *)
Lemma PosOK_pop q f fl' :
  PosOK q -> p_fl q = f :: fl' -> fd_msgs f = [] ->
  PosOK (mkpos (p_pre q) (p_c q) (p_infl q) fl' (p_u q) (p_p q) (p_started q) (p_a0 q) (p_acur q) (p_aend q) (p_d0 q) (p_dc q)).
Proof.
  intros (P1 & P2 & P3 & P4 & (dseg & P5) & P6 & P7 & P8a & P8b & P8c) Hfl Hq.
  unfold PosOK, mkpos, pend in *; cbn. rewrite Hfl in *. rewrite !fmsgs_cons, Hq in *. cbn [app] in *. pos_split; try assumption; try reflexivity.
  - exists dseg. exact P5.
  - cbn in P8b. apply andb_true_iff in P8b. apply P8b.
  - eapply HoldOK_tail; eassumption.
Qed.

(* the plan is exhausted *)
Lemma PosOK_end q :
  PosOK q -> p_infl q = [] -> p_fl q = [] -> p_u q = [] ->
  p_acur q = afin /\ SD = p_d0 q ++ p_dc q /\ doc_rundocs (p_dc q) = [].
Proof.
  intros HP Hin Hfl Hu. pose proof (pos_facts q HP) as (W0 & Wc & We & Hrr & Hn & Hds & Hfr & drest & Hrest & HSD).
  unfold pend in Hrest. rewrite Hin, Hfl, Hu in Hrest. cbn in Hrest. injection Hrest as Ha Hd. subst drest. rewrite !app_nil_r in HSD. auto.
Qed.

(* ------------------------------------------------------------------ documents *)
Lemma Docs_body d0 dc dm os o (q q' : pos) :
  p_d0 q = d0 -> p_dc q = dc -> p_d0 q' = d0 -> p_dc q' = dc ++ dm ->
  Docs q os -> final_events o = doc_events dm -> rundocs o = [] -> no_raise o = true ->
  incl (doc_events dm) (doc_events SD) -> Docs q' (os ++ o).
Proof.
  intros E1 E2 E3 E4 (D1 & D2 & D3 & D4) F1 F2 F3 Hi. unfold Docs. rewrite E1, E2 in *. rewrite E3, E4.
  rewrite final_events_app, rundocs_app, no_raise_app, F1, F2, F3, D4, app_nil_r. repeat split; try assumption.
  - apply incl_app; assumption.
  - rewrite app_assoc, doc_events_app. apply incl_app; [apply incl_appl; exact D2 | apply incl_appr; apply incl_refl].
Qed.

Lemma Docs_head d0 dc dm os o (q q' : pos) :
  p_d0 q = d0 -> p_dc q = dc -> p_d0 q' = d0 ++ dc ++ dm -> p_dc q' = [] -> doc_rundocs dc = [] ->
  Docs q os -> final_events o = doc_events dm -> rundocs o = doc_rundocs dm -> no_raise o = true ->
  incl (doc_events dm) (doc_events SD) -> Docs q' (os ++ o).
Proof.
  intros E1 E2 E3 E4 Hs (D1 & D2 & D3 & D4) F1 F2 F3 Hi. unfold Docs. rewrite E1, E2 in *. rewrite E3, E4.
  rewrite final_events_app, rundocs_app, no_raise_app, F1, F2, F3, D3, D4, !app_nil_r. repeat split; try assumption.
  - apply incl_app; assumption.
  - rewrite app_assoc, doc_events_app. apply incl_app; [apply incl_appl; exact D2 | apply incl_appr; apply incl_refl].
  - rewrite !doc_rundocs_app, Hs. reflexivity.
Qed.

Lemma Docs_rewind os (q q' : pos) : p_d0 q' = p_d0 q -> p_dc q' = [] -> Docs q os -> Docs q' os.
Proof.
  intros E1 E2 (D1 & D2 & D3 & D4). unfold Docs. rewrite E1, E2, app_nil_r. repeat split; try assumption.
  intros x Hx. apply D2. rewrite doc_events_app. apply in_or_app. left. exact Hx.
Qed.

(* the observations of a task step that processed one message *)
Definition po_ok (po : list obs) : Prop := po = [] \/ exists i, po = [OPlanIn pid (Send i)].

Lemma out_done po m o3 v' : po_ok po -> forallb devdoc o3 = true ->
  let o := ((([] ++ po) ++ [OMsg m] ++ o3 ++ [OResp (RVal v')]) ++ []) ++ [OTask WSleep0] in
  final_events o = final_events o3 /\ rundocs o = rundocs o3 /\ no_raise o = true /\
  (forall cur, reads_ok rdm cur o = true -> forall d z, v' = VReading d z -> z = rdm m).
Proof.
  intros Hpo Hq. cbv zeta.
  assert (Hnr : no_raise o3 = true) by (apply devdoc_no_raise; exact Hq).
  rewrite !final_events_app, !rundocs_app, !no_raise_app, Hnr.
  destruct Hpo as [-> | [i ->]]; cbn; rewrite !app_nil_r.
  all: repeat split.
  all: intros cur Hr d z ->; cbn in Hr.
  all: rewrite <- !app_assoc, reads_ok_app, (devdoc_last_msg _ Hq) in Hr; apply andb_true_iff in Hr; destruct Hr as [_ Hr];
       cbn in Hr; apply andb_true_iff in Hr; destruct Hr as [Hr _]; apply Z.eqb_eq; exact Hr.
Qed.

Lemma out_susp po m o3 : po_ok po -> forallb devdoc o3 = true ->
  let o := ([] ++ po) ++ [OMsg m] ++ o3 ++ [OTask WFuture] in
  final_events o = final_events o3 /\ rundocs o = rundocs o3 /\ no_raise o = true /\ (forall cur, last_msg cur o = Some m).
Proof.
  intros Hpo Hq. cbv zeta.
  assert (Hnr : no_raise o3 = true) by (apply devdoc_no_raise; exact Hq).
  rewrite !final_events_app, !rundocs_app, !no_raise_app, Hnr.
  destruct Hpo as [-> | [i ->]]; cbn; rewrite !app_nil_r; repeat split; intros cur;
    rewrite last_msg_app, (devdoc_last_msg _ Hq); reflexivity.
Qed.


(* ------------------------------------------------------------------ a message is yielded and processed *)
Lemma astep_susp_docs acur k m acur' dm : astep acur m = Some (acur', dm) -> kmatch acur k m -> dm = [].
Proof.
  intros Hst Hk. pose proof (astep_mrun _ _ _ _ _ _ Hst) as Hrun.
  unfold PointSpec.astep in Hst. rewrite Hrun, Nat.eqb_refl in Hst. cbn [negb] in Hst.
  destruct k; cbn in Hk; try contradiction.
  - rewrite Hk in Hst. inv Hst. reflexivity.
  - destruct Hk as [g Hk]. rewrite Hk in Hst. inv Hst. reflexivity.
  - destruct Hk as (_ & Hc & Ho & r & nb & Er & Eb). rewrite Hc, Ho, Er, Eb in Hst. destruct nb as [[n o] rd].
    destruct (mem_nat d o); inv Hst. reflexivity.
Qed.

Ltac kdestr :=
  repeat match goal with
         | H : RE_PointsB.keeps _ _ _ _ |- _ =>
             let K1 := fresh "K" in let K2 := fresh "K" in let K3 := fresh "K" in let K4 := fresh "K" in
             let K5 := fresh "K" in let K6 := fresh "K" in let K7 := fresh "K" in let K8 := fresh "K" in
             let K9 := fresh "K" in let K10 := fresh "K" in let K11 := fresh "K" in let K12 := fresh "K" in
             let K13 := fresh "K" in
             destruct H as (K1 & K2 & K3 & K4 & K5 & K6 & K7 & K8 & K9 & K10 & K11 & K12 & K13)
         end.

Lemma new_none_cons fl v vs : not_new fl -> new_none (List.tl fl) vs -> new_none fl (v :: vs).
Proof. destruct fl as [|[l|sid [|]|h] fl]; cbn; intros H1 H2; try exact H2; try exact I. contradiction. Qed.

Lemma process_msg (s : st) os q v rest vs top tl m f' po fl' u' p' stt :
  Core q s os -> state s = Running -> pc s = PcSleep0 -> must_cancel s = false -> permit s = true -> p_infl q = [] ->
  resps s = RVal v :: rest -> rest = map RVal vs -> List.length vs = List.length fl' ->
  plans s = top :: tl -> map fd_frame fl' ++ [FUser pid p' stt] = f' :: tl ->
  frame_resume top (Send v) = (Yielded m f', po) -> po_ok po ->
  pend q = m :: (fmsgs fl' ++ u') -> follows u' p' -> forallb bodym (fmsgs fl') = true -> forallb fd_ok fl' = true ->
  NoHold fl' -> forallb fd_on fl' = true -> not_new fl' -> new_none (List.tl fl') vs ->
  (bodym m = true \/ (is_head (mcmd m) = true /\ p_fl q = [] /\ fl' = [] /\ p_u q = m :: u')) ->
  exists s' o, task_step s = (s', o) /\ (reads_ok rdm (last_msg None os) o = true -> Inv s' (os ++ o)).
Proof.
  intros (HP & HLk & HD) Hst Hpc Hmc Hpm Hin Hrs Hrest Hlen Hpl Hfr' Hfr Hpo Hpe Hfo Hfb Hfok Hnh Hnw Hnot Hnn Hkind.
  destruct HLk as (L1 & L2 & L3 & L4 & L5 & L6 & L7 & L8 & L9 & L10).
  rewrite Hin, app_nil_r in L1.
  set (sA := RE.replace_top P D (RE.set_resps P D (RE.set_must_cancel P D s false) rest) f').
  assert (HlenT : List.length rest = List.length tl).
  { apply (f_equal (@List.length _)) in Hfr'. rewrite app_length, map_length in Hfr'. cbn in Hfr'.
    rewrite Hrest, map_length. lia. }
  assert (HcA : cache sA = Some (p_c q)) by (subst sA; simp_st; exact L1).
  assert (HrA : rewindable sA = true) by (subst sA; simp_st; exact L8).
  destruct (pre_exec_spec P D sA m (p_c q) HcA HrA) as (KB & BB & UB & CB).
  assert (HbA : bundlers sA = bundlers s) by (subst sA; reflexivity).
  assert (HuA : uid_supply sA = uid_supply s) by (subst sA; reflexivity).
  assert (Hcl : in_class m = true).
  { unfold in_class. destruct Hkind as [Hb | (Hh & _)]; [rewrite Hb; apply orb_true_r | rewrite Hh; reflexivity]. }
  pose proof (pos_facts q HP) as (W0 & Wc & We & Hrr & Hn & Hds & Hfresh & _).
  destruct Hkind as [Hbm | (Hh & Hfl & Hfl' & Hu)].
  - (* a body message *)
    destruct (PosOK_body q fl' u' p' stt m HP Hin Hpe Hbm Hfo Hfb Hfok Hnh) as (acur' & dm & Hstep & Hrel & Hincl & HP1 & HP2).
    edestruct exec_body with (s := pre_exec P D sA m) (m := m) (a0 := p_a0 q) (acur := p_acur q) (aend := p_aend q)
                             (acur' := acur') (dm := dm) as
        (s3 & cr & o3 & Hex & K3 & C3 & U3 & Q3 & F3 & S3 & Hcr); try eassumption.
    { rewrite BB, HbA. exact L4. }
    destruct (astep_body _ _ _ _ _ _ Hbm Hstep) as (N1 & _ & _ & _).
    rewrite (body_cacheable _ Hbm) in CB.
    destruct cr as [[v'|e]|k]; [| contradiction |].
    + (* the command completed *)
      eexists. eexists. split.
      { eapply task_msg_done; try eassumption; [apply in_class_plain; exact Hcl | apply keeps_keeps5; eapply keeps_trans; eassumption]. }
      intros Hreads.
      destruct (out_done po m o3 v' Hpo Q3) as (O1 & O2 & O3 & O4).
      specialize (Hcr (O4 _ Hreads)).
      kdestr. subst sA. simp_st. rewrite Hpl in *. cbn [List.tl] in *.
      eapply I_rs with (q := mkpos (p_pre q) (p_c q ++ [m]) [] fl' u' p' stt (p_a0 q) acur' (p_aend q) (p_d0 q) (p_dc q ++ dm));
        simp_st; try congruence.
      * split; [exact HP1|]. split.
        -- unfold Link, LinkR, mkpos; cbn [p_c p_infl p_fl p_p p_started p_acur p_a0 p_aend]. simp_st. rewrite app_nil_r.
           repeat split; try congruence; try assumption.
        -- eapply Docs_body with (q := q) (dm := dm); try reflexivity; try eassumption.
           ++ rewrite O1. exact F3.
           ++ rewrite O2. exact S3.
      * left; reflexivity.
      * exists (v' :: vs). cbn [map List.length]. split; [simp_st; congruence|]. split; [cbn [p_fl mkpos]; lia|].
        cbn [p_fl mkpos]. apply new_none_cons; assumption.
    + (* the command waits on a future *)
      destruct Hcr as (Hkm & Hbs).
      eexists. eexists. split.
      { eapply task_msg_susp; try eassumption. apply in_class_plain; exact Hcl. }
      intros _.
      destruct (out_susp po m o3 Hpo Q3) as (O1 & O2 & O3 & O4).
      kdestr. subst sA. simp_st. rewrite Hpl in *. cbn [List.tl] in *.
      eapply I_rc with (q := mkpos (p_pre q) (p_c q) [m] fl' u' p' stt (p_a0 q) (p_acur q) (p_aend q) (p_d0 q) (p_dc q)) (k := k) (m := m);
        simp_st; try congruence.
      * split; [exact HP2|]. split.
        -- unfold Link, LinkR, mkpos; cbn [p_c p_infl p_fl p_p p_started p_acur p_a0 p_aend]. simp_st.
           repeat split; try congruence; try assumption.
        -- eapply Docs_body with (q := q) (dm := []); try reflexivity; try eassumption.
           ++ cbn [mkpos p_dc]. rewrite app_nil_r. reflexivity.
           ++ rewrite O1, F3, (astep_susp_docs _ _ _ _ _ Hstep Hkm). reflexivity.
           ++ rewrite O2. exact S3.
           ++ intros x [].
      * reflexivity.
      * exact Hkm.
      * exists vs. split; [simp_st; congruence|]. split; [cbn [p_fl mkpos]; lia | exact Hnn].
      * rewrite last_msg_app. apply O4.
      * exact Hnot.
  - (* a head message *)
    subst fl'. change (fmsgs (@nil fd)) with (@nil msg) in *. cbn [app map] in *.
    destruct (PosOK_head q u' p' stt m HP Hin Hfl Hu Hh Hfo) as (Hae & acur' & dm & aend' & Hstep & Hrel & Hincl & Hopen & HP3).
    rewrite Hae in L4.
    edestruct exec_head with (s := pre_exec P D sA m) (m := m) (a0 := p_a0 q) (acur := p_acur q) (acur' := acur')
                             (aend' := aend') (dm := dm) (cc := if cacheable (mcmd m) then p_c q ++ [m] else p_c q) as
        (s3 & o3 & cr & Hex & Hcr & K3 & C3 & U3 & Q3 & F3 & S3 & HBR3); try eassumption.
    { rewrite BB, HbA. exact L4. }
    { rewrite UB, HuA. exact L3. }
    { destruct KB as (_ & _ & _ & _ & _ & _ & _ & _ & _ & _ & _ & KB12 & _). rewrite KB12. subst sA. simp_st. exact L9. }
    { intros Hnf. specialize (Hopen Hnf). destruct HP as (_ & _ & _ & P4 & _). rewrite Hopen in P4. cbn in P4. injection P4 as Ea _. exact Ea. }
    assert (Hc3 : cache s3 = Some []).
    { destruct C3 as [C3 | [Hnf C3]]; [exact C3|]. rewrite C3, CB, (Hopen Hnf).
      destruct (mcmd m); try discriminate Hnf; reflexivity. }
    set (q3 := mkpos (p_pre q ++ p_c q ++ [m]) [] [] [] u' p' stt acur' acur' aend' (p_d0 q ++ p_dc q ++ dm) []).
    destruct Hcr as [(v' & ->) | (-> & Hck)].
    + eexists. eexists. split.
      { eapply task_msg_done; try eassumption; [apply in_class_plain; exact Hcl | apply keeps_keeps5; eapply keeps_trans; eassumption]. }
      intros Hreads.
      destruct (out_done po m o3 v' Hpo Q3) as (O1 & O2 & O3 & O4).
      kdestr. subst sA. simp_st. rewrite Hpl in *. cbn [List.tl] in *.
      eapply I_rs with (q := q3); simp_st; try congruence.
      * split; [exact HP3|]. split.
        -- unfold Link, LinkR, q3, mkpos; cbn [p_c p_infl p_fl p_p p_started p_acur p_a0 p_aend]. simp_st.
           cbn [map app] in *. repeat split; try congruence; try reflexivity.
        -- eapply Docs_head with (q := q) (dm := dm); try reflexivity; try eassumption.
           ++ rewrite O1. exact F3.
           ++ rewrite O2. exact S3.
      * left; reflexivity.
      * exists (v' :: vs). cbn [map List.length]. split; [simp_st; congruence|]. split; [cbn [p_fl q3 mkpos List.length] in *; lia | exact I].
    + (* a checkpoint reached while a deferred pause is pending: the grace sleep *)
      eexists. eexists. split.
      { eapply task_msg_susp; try eassumption. apply in_class_plain; exact Hcl. }
      intros _.
      destruct (out_susp po m o3 Hpo Q3) as (O1 & O2 & O3 & O4).
      kdestr. subst sA. simp_st. rewrite Hpl in *. cbn [List.tl] in *.
      eapply I_rk with (q := q3); simp_st; try congruence.
      * split; [exact HP3|]. split.
        -- unfold Link, LinkR, q3, mkpos; cbn [p_c p_infl p_fl p_p p_started p_acur p_a0 p_aend]. simp_st.
           cbn [map app] in *. repeat split; try congruence; try reflexivity.
        -- eapply Docs_head with (q := q) (dm := dm); try reflexivity; try eassumption.
           ++ rewrite O1. exact F3.
           ++ rewrite O2. exact S3.
      * reflexivity.
      * exists vs. split; [simp_st; congruence|]. split; [cbn [p_fl q3 mkpos List.length] in *; lia | destruct vs; exact I].
      * exact I.
Qed.


(* ------------------------------------------------------------------ the task runs (no cancellation pending) *)
Hypothesis Hfol : follows L (plan_of pid).

Definition StepOK (s : st) (os : list obs) (r : st * list obs) : Prop :=
  reads_ok rdm (last_msg None os) (snd r) = true -> Inv (fst r) (os ++ snd r).


Lemma stack_shape (fl : list fd) (f : frame P) :
  exists f2 tl, map fd_frame fl ++ [f] = f2 :: tl /\ List.length tl = List.length fl.
Proof.
  destruct fl as [|l fl]; cbn.
  - exists f, []. auto.
  - exists (fd_frame l), (map fd_frame fl ++ [f]). split; [reflexivity|]. rewrite app_length, map_length. cbn. lia.
Qed.

Lemma nowin_tl {A} (g : A -> bool) f fl : forallb g (f :: fl) = true -> forallb g fl = true.
Proof. cbn. intros H. apply andb_true_iff in H. apply H. Qed.

(* a frame with nothing left to re-issue returns and is popped *)
Lemma step_rs_pop (s : st) os q f fl1 v vs v' :
  Core q s os -> state s = Running -> pc s = PcSleep0 -> must_cancel s = false -> permit s = true ->
  p_infl q = [] -> p_fl q = f :: fl1 -> fd_msgs f = [] -> frame_resume (fd_frame f) (Send v) = (Returned v', []) ->
  resps s = map RVal (v :: vs) -> List.length vs = S (List.length fl1) -> new_none fl1 vs ->
  StepOK s os (task_step s).
Proof.
  intros (HP & HLk & HD) Hst Hpc Hmc Hpm Hin Efl Hq Hfr Hrs Hlen Hnn.
  pose proof HLk as (L1 & L2 & L3 & L4 & L5 & L6 & L7 & L8 & L9 & L10). rewrite Efl in L2, L7. cbn [map app] in L2.
  destruct (stack_shape fl1 (FUser pid (p_p q) (p_started q))) as (f2 & tl & Hsh & Hlt). rewrite Hsh in L2.
  unfold StepOK.
  rewrite (task_pop P presume plan_of D dev s v (map RVal vs) (fd_frame f) f2 tl v' Hpc Hmc Hst Hpm L6 L5 Hrs L2 Hfr)
    by (rewrite map_length; lia).
  cbn [fst snd]. intros _.
  apply Inv_neutral; [apply neutral_intro; reflexivity|].
  eapply I_rs with (q := mkpos (p_pre q) (p_c q) (p_infl q) fl1 (p_u q) (p_p q) (p_started q) (p_a0 q) (p_acur q) (p_aend q) (p_d0 q) (p_dc q));
    simp_st; try congruence.
  - split; [eapply PosOK_pop; eassumption|]. split; [|exact HD].
    unfold Link, LinkR, mkpos; cbn [p_c p_infl p_fl p_p p_started p_acur p_a0 p_aend]. simp_st. rewrite L2, Hsh. cbn [List.tl].
    repeat split; try assumption. eapply nowin_tl; exact L7.
  - left. exact Hin.
  - exists vs. split; [reflexivity|]. split; [cbn [p_fl mkpos]; lia | exact Hnn].
Qed.

(* observations of one processed engine-made message: no documents, nothing raised *)
Lemma ctl_out_quiet (m : msg) o (r : val) tail :
  forallb devonly o = true -> (tail = [OTask WSleep0] \/ tail = [OTask WFuture]) ->
  let oo := ((([] ++ []) ++ [OMsg m] ++ ([] ++ o) ++ [OResp (RVal r)]) ++ []) ++ tail in
  final_events oo = [] /\ rundocs oo = [] /\ no_raise oo = true.
Proof.
  intros Q Ht. cbv zeta. cbn [app]. rewrite !app_nil_r.
  destruct (devonly_final_events _ Q) as [F1 F2]. pose proof (devdoc_no_raise _ (devonly_devdoc _ Q)) as F3.
  rewrite <- !app_assoc. cbn [app].
  change (OMsg m :: o ++ OResp (RVal r) :: tail) with ([OMsg m] ++ o ++ OResp (RVal r) :: tail).
  rewrite !final_events_app, !rundocs_app, !no_raise_app, F1, F2, F3.
  destruct Ht as [-> | ->]; repeat split; reflexivity.
Qed.

(* the suspender's single-message plan starts: `_start_suspender` *)
Lemma step_rs_start (s : st) os q sid fl1 vs :
  Core q s os -> state s = Running -> pc s = PcSleep0 -> must_cancel s = false -> permit s = true ->
  p_fl q = FDS sid false :: fl1 ->
  resps s = map RVal (VNone :: vs) -> List.length vs = S (List.length fl1) -> new_none fl1 vs ->
  StepOK s os (task_step s).
Proof.
  intros (HP & HLk & HD) Hst Hpc Hmc Hpm Efl Hrs Hlen Hnn.
  pose proof HLk as (L1 & L2 & L3 & L4 & L5 & L6 & L7 & L8 & L9 & L10). rewrite Efl in L2, L7. cbn [map app fd_frame] in L2.
  pose proof (pos_facts q HP) as (W0 & Wc & We & Hrr & Hn & Hds & Hfresh & _).
  destruct (task_start_suspender P presume plan_of D dev Hdev s (map RVal vs) (map fd_frame fl1 ++ [FUser pid (p_p q) (p_started q)])
              sid (p_c q ++ p_infl q) Hpc Hmc Hst Hpm L6 L5 Hrs L2) as (s3 & o & E & S3 & Q3);
    [rewrite map_length, app_length, map_length; cbn; lia | eapply nobintr_BR; exact L4 | exact L1 |].
  cbv zeta in E. unfold StepOK. rewrite E. cbn [fst snd]. intros _.
  destruct (ctl_out_quiet (smsg sid) o VNone [OTask WSleep0] Q3 (or_introl eq_refl)) as (O1 & O2 & O3). cbv zeta in O1, O2, O3.
  pose proof (dsame_nsame _ _ S3) as N3. destruct S3 as ((K1 & K2 & K3 & K4 & K5 & K6 & K7 & K8 & K9 & K10 & K11 & K12 & K13) & C1 & C2 & C3).
  destruct N3 as (A1 & A2 & A3 & A5 & A6 & A7 & A8 & A9 & A10). simp_st. rewrite L2 in *. cbn [List.tl] in *.
  set (q' := mkpos (p_pre q) [] [] (FDH (mkhelper P H0 sid true (p_c q ++ p_infl q)) :: FDS sid true :: fl1) (p_u q) (p_p q) (p_started q)
                   (p_a0 q) (p_a0 q) (p_aend q) (p_d0 q) []).
  assert (HBR : BR (bundlers (if Nat.eqb (List.length (p_c q ++ p_infl q)) 0 then RE.set_cache P D s3 (Some [])
                              else RE.map_bundlers P D b_rewind (RE.set_cache P D s3 (Some [])))) (p_a0 q) (p_a0 q) (p_aend q)).
  { destruct (Nat.eqb (List.length (p_c q ++ p_infl q)) 0) eqn:El; simp_st; rewrite C2.
    - apply Nat.eqb_eq in El. destruct (p_c q) eqn:Ec; [|discriminate El].
      destruct HP as (_ & _ & _ & P4 & _). rewrite Ec in P4. cbn in P4. injection P4 as Ea _. rewrite <- Ea in L4. exact L4.
    - eapply rewind_BR; eassumption. }
  eapply I_rs with (q := q'); simp_st.
  - split; [apply PosOK_susp; assumption|]. split; [|eapply Docs_quiet with (q := q'); try reflexivity; try eassumption; eapply Docs_rewind with (q := q); try reflexivity; exact HD].
    unfold Link, LinkR, q', mkpos; cbn [p_c p_infl p_fl p_p p_started p_acur p_a0 p_aend map app fd_frame].
    destruct (Nat.eqb (List.length (p_c q ++ p_infl q)) 0); simp_st; rewrite L8; repeat split; try congruence;
      cbn [forallb fd_win mkhelper hph negb andb]; eapply nowin_tl; exact L7.
  - destruct (Nat.eqb (List.length (p_c q ++ p_infl q)) 0); simp_st; congruence.
  - reflexivity.
  - destruct (Nat.eqb (List.length (p_c q ++ p_infl q)) 0); simp_st; congruence.
  - destruct (Nat.eqb (List.length (p_c q ++ p_infl q)) 0); simp_st; congruence.
  - left. reflexivity.
  - exists (VNone :: VNone :: vs). cbn [map List.length p_fl q' mkpos]. split; [destruct (Nat.eqb (List.length (p_c q ++ p_infl q)) 0); simp_st; congruence|].
    split; [lia | exact Hnn].
Qed.



Lemma rewindable_cacheable v : cacheable (CRewindable v) = true.
Proof. vm_compute. reflexivity. Qed.

Definition rwmsg (b : bool) : msg := RE.mk (CRewindable (Some b)).

(* the suspender plan starts: rewindable(False) -- a checkpoint-like message; the section in which rewinding is off begins *)
Lemma step_rs_helper0 (s : st) os q h rest v vs :
  Core q s os -> state s = Running -> pc s = PcSleep0 -> must_cancel s = false -> permit s = true ->
  p_fl q = FDH h :: rest -> hph h = H0 ->
  resps s = map RVal (v :: vs) -> List.length vs = S (List.length rest) -> new_none rest vs ->
  StepOK s os (task_step s).
Proof.
  intros (HP & HLk & HD) Hst Hpc Hmc Hpm Efl Hph Hrs Hlen Hnn.
  pose proof HLk as (L1 & L2 & L3 & L4 & L5 & L6 & L7 & L8 & L9 & L10). rewrite Efl in L2, L7. cbn [map app fd_frame] in L2.
  pose proof (pos_facts q HP) as (W0 & Wc & We & Hrr & Hn & Hds & Hfresh & _).
  pose proof HP as (P1 & P2 & P3 & P4 & P5 & P6 & P7 & P8a & P8b & P8c).
  destruct (P8c [] h rest Efl Hph) as (Ec & Ei & _). rewrite Ec, Ei in *. cbn [app] in L1.
  cbn in P4. injection P4 as Ea Ed. rewrite <- Ea in *.
  rewrite Efl in P8b. cbn [forallb fd_ok] in P8b. apply andb_true_iff in P8b. destruct P8b as [Hok Hokr].
  destruct h as [ph sid pre post was rw]. cbn [hph hpre hpost hwas] in *. subst ph.
  destruct pre; [discriminate Hok|]. destruct post; [discriminate Hok|].
  cbn [forallb fd_on hwas hph] in L7. apply andb_true_iff in L7. destruct L7 as [Hw L7]. rewrite andb_true_r in Hw. subst was.
  set (h' := mkhelper P HRwFalse sid true rw).
  set (sA := RE.replace_top P D (RE.set_resps P D (RE.set_must_cancel P D s false) (map RVal vs)) (FHelper h')).
  set (s3 := RE.map_bundlers P D b_snapshot (RE.set_cache P D (RE.set_rewindable P D (RE.set_cache P D sA (Some ([] ++ [rwmsg false]))) false) (Some []))).
  assert (Hex : exec_cmd (pre_exec P D sA (rwmsg false)) (rwmsg false) = (s3, Done (RVal (VBool false)), [])).
  { unfold pre_exec. cbn [mobj rwmsg RE.mk mcmd]. subst s3 sA. simp_st. rewrite L1, L8, rewindable_cacheable. cbn [andb].
    unfold RE.exec_cmd. cbn [mcmd]. simp_st. rewrite L8. cbn [Bool.eqb negb andb]. unfold RE.reset_checkpoint. simp_st. reflexivity. }
  unfold StepOK.
  rewrite (task_msg_done P presume plan_of D dev s v (map RVal vs) (FHelper (mkhelper P H0 sid true rw))
             (map fd_frame rest ++ [FUser pid (p_p q) (p_started q)]) (rwmsg false) (FHelper h') [] s3 (RVal (VBool false)) [] Hpc Hmc Hst Hpm L6 L5 Hrs L2);
    [| rewrite map_length, app_length, map_length; cbn; lia | reflexivity | reflexivity | exact Hex | subst s3 sA; unfold keeps5; simp_st; repeat split; reflexivity].
  cbn [fst snd]. intros _.
  destruct (ctl_out_quiet (rwmsg false) [] (VBool false) [OTask WSleep0] eq_refl (or_introl eq_refl)) as (O1 & O2 & O3). cbv zeta in O1, O2, O3.
  cbn [app] in O1, O2, O3. cbn [app].
  set (q' := mkpos (p_pre q) [] [] (FDH h' :: rest) (p_u q) (p_p q) (p_started q) (p_a0 q) (p_a0 q) (p_aend q) (p_d0 q) (p_dc q)).
  subst s3 sA. simp_st.
  eapply I_w with (q := q'); simp_st; rewrite ?L2; cbn [List.tl]; try congruence.
  - split; [|split].
    + assert (HP' := PosOK_retop q (FDH (mkhelper P H0 sid true rw)) (FDH h') rest HP Efl eq_refl eq_refl).
      rewrite Ec, Ei, <- Ea in HP'. apply HP'. intros Hf. discriminate Hf.
    + unfold LinkR, q', mkpos; cbn [p_c p_infl p_fl p_p p_started p_acur p_a0 p_aend map app fd_frame]. simp_st. rewrite L2. cbn [List.tl].
      repeat split; try assumption; try reflexivity.
      * apply snapshot_BR; assumption.
      * exists [], h', rest. repeat split; try reflexivity. exact L7.
    + eapply Docs_quiet with (q := q); try reflexivity; eassumption.
  - exists (VBool false :: vs). cbn [map List.length p_fl q' mkpos]. split; [reflexivity|]. split; [lia | exact Hnn].
Qed.

(* the suspender plan re-issues a message / has nothing left *)
Lemma helper_replay_frame sid rw ms (h : helper P) v :
  hpre h = None -> hpost h = None -> hsid h = sid -> hrw h = rw -> hwas h = true ->
  (hph h = HRwBack /\ ms = rw \/ hph h = HRewind ms) ->
  frame_resume (FHelper h) (Send v) =
  match ms with
  | [] => (Returned VNone, [])
  | m :: ms' => (Yielded m (FHelper (mkhelper P (HRewind ms') sid true rw)), [])
  end.
Proof.
  intros H1 H2 H3 H4 H5 H6. destruct h as [ph sid0 pre post was rw0]. cbn [hph hpre hpost hsid hrw hwas] in *.
  subst pre post sid0 rw0 was.
  cbn [RE.frame_resume]. unfold RE.helper_resume. cbn [hph].
  destruct H6 as [[Hp Hm] | Hp]; rewrite Hp; cbn [hrw RE.helper_rewind_next].
  - subst ms. destruct rw; reflexivity.
  - destruct ms; reflexivity.
Qed.

Lemma nohold_cons f fl : fd_hold f = false -> NoHold fl -> NoHold (f :: fl).
Proof. unfold NoHold. cbn. intros -> H. exact H. Qed.

(* the task runs: whatever is on top of the plan stack is resumed *)
Lemma step_task_rs (s : st) os q :
  Core q s os -> state s = Running -> pc s = PcSleep0 -> must_cancel s = false -> permit s = true -> InflOK q ->
  RespsOK (p_fl q) (S (List.length (p_fl q))) s -> StepOK s os (task_step s).
Proof.
  intros HC Hst Hpc Hmc Hpm Hio (vs & Hrs & Hlen & Hnn). pose proof HC as (HP & HLk & HD). unfold InflOK in Hio.
  pose proof HLk as (L1 & L2 & L3 & L4 & L5 & L6 & L7 & L8 & L9 & L10).
  destruct vs as [|v vs]; [discriminate Hlen|]. cbn [List.length] in Hlen.
  pose proof (pos_facts q HP) as (W0 & Wc & We & Hrr & Hn & Hds & Hfresh & drest & Hrest & HSD).
  pose proof HP as (P1 & P2 & P3 & P4 & P5 & P6 & P7 & P8a & P8b & P8c).
  destruct (p_fl q) as [|f fl1] eqn:Efl; rewrite ?Efl in *.
  - (* the user's plan *)
    assert (Hin : p_infl q = []) by (destruct Hio as [H | (sid & rest & H)]; [exact H | discriminate H]).
    cbn [map app] in L2. unfold StepOK. destruct (p_u q) as [|m u'] eqn:Eu.
    + cbn [PointSpec.follows] in P2. destruct vs; [|discriminate Hlen]. cbn [map] in Hrs.
      rewrite (task_return P presume plan_of D dev s v pid (p_p q) (p_started q) rv Hpc Hmc L6 L5 Hrs L2 (P2 v)).
      cbn [fst snd]. intros _.
      destruct (PosOK_end q HP Hin Efl Eu) as (Ha & HSD' & Hds').
      apply I_final; simp_st; try congruence; [|exists (p_c q ++ p_infl q); exact L1].
      unfold FinCore. simp_st. rewrite L2. cbn [List.tl forallb].
      split; [reflexivity|]. split; [|split; [exact L6 | split; [exact L10|]]].
      * unfold RE_PointsB.BR in L4. rewrite Ha, Hfin in L4. exact L4.
      * apply DocsAll_neutral; [apply neutral_intro; reflexivity|].
        destruct HD as (D1 & D2 & D3 & D4). unfold DocsAll. split; [exact D1|]. split; [rewrite HSD'; exact D2|].
        split; [rewrite HSD', doc_rundocs_app, Hds', app_nil_r; exact D3 | exact D4].
    + cbn [PointSpec.follows] in P2. destruct (P2 v) as (p' & Hy & Hf').
      assert (Hk : bodym m = true \/ (is_head (mcmd m) = true /\ @nil fd = [] /\ @nil fd = [] /\ p_u q = m :: u')).
      { unfold pend in Hrest. rewrite Hin, Efl, Eu in Hrest. change (fmsgs (@nil fd)) with (@nil msg) in Hrest. cbn in Hrest.
        destruct (astep (p_acur q) m) as [[a1 d1]|] eqn:Ea; [|discriminate].
        destruct (astep_kind _ _ _ _ _ _ Ea) as [Hh|Hb]; [right | left; exact Hb]. auto. }
      destruct (process_msg s os q v (map RVal vs) vs (FUser pid (p_p q) (p_started q)) [] m (FUser pid p' true)
                  [OPlanIn pid (Send v)] [] u' p' true) as (s' & o & E & HI); try assumption; try reflexivity.
      * destruct vs; [reflexivity | discriminate Hlen].
      * cbn [RE.frame_resume]. rewrite Hy. destruct (p_started q); reflexivity.
      * right. eexists. reflexivity.
      * unfold pend. rewrite Efl, Eu. reflexivity.
      * rewrite Efl. exact Hk.
      * rewrite E. exact HI.
  - cbn [map app] in L2. destruct f as [l|sid started|h].
    + (* a rewind plan *)
      assert (Hin : p_infl q = []) by (destruct Hio as [H | (sid & rest & H)]; [exact H | discriminate H]).
      destruct l as [|m l1].
      * eapply (step_rs_pop s os q (FDL []) fl1 v vs VNone); try eassumption; try reflexivity; try (cbn [List.length] in *; lia); try (cbn [new_none] in Hnn; exact Hnn).
      * rewrite fmsgs_cons in P8a. cbn [fd_msgs] in P8a. cbn [forallb app] in P8a. apply andb_true_iff in P8a. destruct P8a as [Hbm Hbl].
        cbn [forallb fd_ok] in P8b.
        assert (Hnh1 : NoHold fl1) by (eapply HoldOK_yield; [exact P8c | discriminate]).
        unfold StepOK.
        destruct (process_msg s os q v (map RVal vs) vs (FList (m :: l1)) (map fd_frame fl1 ++ [FUser pid (p_p q) (p_started q)]) m
                    (FList l1) [] (FDL l1 :: fl1) (p_u q) (p_p q) (p_started q)) as (s' & o & E & HI); try assumption; try reflexivity.
        -- cbn [List.length] in *. lia.
        -- left. reflexivity.
        -- unfold pend. rewrite Efl, !fmsgs_cons. cbn [fd_msgs]. rewrite <- !app_assoc. reflexivity.
        -- left. exact Hbm.
        -- rewrite E. exact HI.
    + (* the single-message plan of a suspension request *)
      destruct started.
      * assert (Hin : p_infl q = []) by (destruct Hio as [H | (sid' & rest & H)]; [exact H | discriminate H]).
        eapply (step_rs_pop s os q (FDS sid true) fl1 v vs v); try eassumption; try reflexivity; try (cbn [List.length] in *; lia); try (cbn [new_none] in Hnn; exact Hnn).
      * cbn [new_none] in Hnn. destruct Hnn as [-> Hnn].
        eapply (step_rs_start s os q sid fl1 vs); try eassumption; try (cbn [List.length] in *; lia).
    + (* the suspender plan *)
      assert (Hin : p_infl q = []) by (destruct Hio as [H | (sid & rest & H)]; [exact H | discriminate H]).
      pose proof P8b as P8b'. cbn [forallb fd_ok] in P8b'. apply andb_true_iff in P8b'. destruct P8b' as [Hok Hokr].
      cbn [forallb fd_on] in L7. apply andb_true_iff in L7. destruct L7 as [Hon L7]. apply andb_true_iff in Hon. destruct Hon as [Hwas Hnw].
      destruct (hpre h) eqn:Epre; [discriminate Hok|]. destruct (hpost h) eqn:Epost; [discriminate Hok|].
      destruct (hph h) as [| |p0| | |p0| |ms] eqn:Eph; try discriminate Hok; try discriminate Hnw.
      * (* not started *)
        eapply (step_rs_helper0 s os q h fl1 v vs); try eassumption; try (cbn [List.length] in *; lia); try (cbn [new_none] in Hnn; exact Hnn).
      * (* about to replay *)
        pose proof (helper_replay_frame (hsid h) (hrw h) (hrw h) h v Epre Epost eq_refl eq_refl Hwas (or_introl (conj Eph eq_refl))) as Hfr.
        destruct (hrw h) as [|m ms'] eqn:Erw.
        -- eapply (step_rs_pop s os q (FDH h) fl1 v vs VNone); try eassumption; try reflexivity; try (cbn [List.length] in *; lia); try (cbn [new_none] in Hnn; exact Hnn).
           cbn [fd_msgs]. rewrite Eph. exact Erw.
        -- rewrite fmsgs_cons in P8a. cbn [fd_msgs] in P8a. rewrite Eph, Erw in P8a. cbn [forallb app] in P8a.
           apply andb_true_iff in P8a. destruct P8a as [Hbm Hbl].
           assert (Hnh1 : NoHold fl1) by (eapply HoldOK_yield; [exact P8c | cbn [fd_msgs]; rewrite Eph, Erw; discriminate]).
           unfold StepOK.
           destruct (process_msg s os q v (map RVal vs) vs (FHelper h) (map fd_frame fl1 ++ [FUser pid (p_p q) (p_started q)]) m
                       (FHelper (mkhelper P (HRewind ms') (hsid h) true (m :: ms'))) []
                       (FDH (mkhelper P (HRewind ms') (hsid h) true (m :: ms')) :: fl1) (p_u q) (p_p q) (p_started q)) as (s' & o & E & HI);
             try assumption; try reflexivity.
           ++ cbn [List.length] in *. lia.
           ++ left. reflexivity.
           ++ unfold pend. rewrite Efl, !fmsgs_cons. cbn [fd_msgs mkhelper hph]. rewrite Eph, Erw, <- !app_assoc. reflexivity.
           ++ left. exact Hbm.
           ++ rewrite E. exact HI.
      * (* replaying *)
        pose proof (helper_replay_frame (hsid h) (hrw h) ms h v Epre Epost eq_refl eq_refl Hwas (or_intror Eph)) as Hfr.
        destruct ms as [|m ms'].
        -- eapply (step_rs_pop s os q (FDH h) fl1 v vs VNone); try eassumption; try reflexivity; try (cbn [List.length] in *; lia); try (cbn [new_none] in Hnn; exact Hnn).
           cbn [fd_msgs]. rewrite Eph. reflexivity.
        -- rewrite fmsgs_cons in P8a. cbn [fd_msgs] in P8a. rewrite Eph in P8a. cbn [forallb app] in P8a.
           apply andb_true_iff in P8a. destruct P8a as [Hbm Hbl].
           assert (Hnh1 : NoHold fl1) by (eapply HoldOK_yield; [exact P8c | cbn [fd_msgs]; rewrite Eph; discriminate]).
           unfold StepOK.
           destruct (process_msg s os q v (map RVal vs) vs (FHelper h) (map fd_frame fl1 ++ [FUser pid (p_p q) (p_started q)]) m
                       (FHelper (mkhelper P (HRewind ms') (hsid h) true (hrw h))) []
                       (FDH (mkhelper P (HRewind ms') (hsid h) true (hrw h)) :: fl1) (p_u q) (p_p q) (p_started q)) as (s' & o & E & HI);
             try assumption; try reflexivity.
           ++ cbn [List.length] in *. lia.
           ++ left. reflexivity.
           ++ unfold pend. rewrite Efl, !fmsgs_cons. cbn [fd_msgs mkhelper hph]. rewrite Eph, <- !app_assoc. reflexivity.
           ++ left. exact Hbm.
           ++ rewrite E. exact HI.
Qed.

(* a command that was waiting on a future completes *)

Lemma step_task_rc (s : st) os q k m :
  Core q s os -> state s = Running -> pc s = PcCmd k -> must_cancel s = false -> permit s = true ->
  p_infl q = [m] -> kmatch (p_acur q) k m -> RespsOK (List.tl (p_fl q)) (List.length (p_fl q)) s -> last_msg None os = Some m ->
  not_new (p_fl q) -> StepOK s os (task_step s).
Proof.
  intros (HP & HLk & HD) Hst Hpc Hmc Hpm Hin Hkm (vs & Hrs & Hlen & Hnn) Hlm Hnot.
  pose proof HLk as (L1 & L2 & L3 & L4 & L5 & L6 & L7 & L8 & L9 & L10).
  destruct (PosOK_cmd q m HP Hin) as (acur' & dm & Hstep & Hrel & Hincl & HP').
  pose proof (astep_susp_docs _ _ _ _ _ Hstep Hkm) as Hdm. subst dm. rewrite app_nil_r in HP'.
  assert (Hbm : bodym m = true).
  { destruct HP as (_ & _ & _ & _ & _ & _ & P7 & _). rewrite Hin in P7. cbn in P7. apply andb_true_iff in P7. apply P7. }
  destruct (astep_body _ _ _ _ _ _ Hbm Hstep) as (N1 & _).
  assert (Hlp : S (List.length (resps s)) = List.length (plans s)).
  { rewrite Hrs, L2, map_length, app_length, map_length. cbn. lia. }
  set (q' := mkpos (p_pre q) (p_c q ++ [m]) [] (p_fl q) (p_u q) (p_p q) (p_started q) (p_a0 q) acur' (p_aend q) (p_d0 q) (p_dc q)) in *.
  assert (Hfin1 : forall (s1 : st) r o1,
             nsame s s1 -> BR (bundlers s1) (p_a0 q) acur' (p_aend q) ->
             resps s1 = resps s -> state s1 = Running -> permit s1 = true -> must_cancel s1 = false ->
             RE_Inv.tentry P presume D dev s = inl (s1, CContinue true (RVal r), o1) ->
             neutral o1 ->
             Inv (fst (task_step s)) (os ++ snd (task_step s))).
  { intros s1 r o1 (A1 & A2 & A3 & A5 & A6 & A7 & A8 & A9 & A10) HB1 Hr1 Hs1 Hp1 Hmc1 Ht Hn1.
    rewrite (task_cmd_done P presume plan_of D dev s s1 (RVal r) o1 Hs1 Hp1) by congruence.
    cbn [fst snd].
    replace ((o1 ++ []) ++ [OTask WSleep0]) with (o1 ++ [OTask WSleep0]) by (rewrite app_nil_r; reflexivity).
    rewrite app_assoc. apply Inv_neutral; [apply neutral_intro; reflexivity|].
    apply Inv_neutral; [exact Hn1|].
    eapply I_rs with (q := q'); simp_st; try congruence.
    - split; [exact HP'|]. split; [|exact HD].
      unfold Link, LinkR, q', mkpos; cbn [p_c p_infl p_fl p_p p_started p_acur p_a0 p_aend]. simp_st. rewrite app_nil_r.
      rewrite Hin in L1. repeat split; try congruence; try assumption.
    - left. reflexivity.
    - exists (r :: vs). cbn [map List.length]. split; [simp_st; congruence|]. split; [cbn [p_fl q' mkpos]; lia|].
      cbn [p_fl q' mkpos]. apply new_none_cons; assumption. }
  unfold StepOK. intros Hreads.
  pose proof (astep_mrun _ _ _ _ _ _ Hstep) as Hrun.
  destruct k as [| |sids|fs|run d z]; cbn [RE_PointsB.kmatch] in Hkm; try contradiction.
  - (* sleep *)
    apply (Hfin1 (RE.set_must_cancel P D s false) VNone [OResp (RVal VNone)]); simp_st; try assumption; try reflexivity.
    + nsame_tac.
    + eapply BR_run; [|exact L4]. unfold PointSpec.astep in Hstep. rewrite Hrun, Nat.eqb_refl, Hkm in Hstep. cbn in Hstep. inv Hstep. reflexivity.
    + unfold RE_Inv.tentry. cbv zeta. rewrite Hpc, Hmc. reflexivity.
    + apply neutral_intro; reflexivity.
  - (* wait *)
    destruct Hkm as [g Hkm].
    apply (Hfin1 (RE.set_must_cancel P D s false) (VBool true)
             ((if RE.all_resolved P D (RE.set_must_cancel P D s false) sids then [] else [OBad 6]) ++ [OResp (RVal (VBool true))]));
      simp_st; try assumption; try reflexivity.
    + nsame_tac.
    + eapply BR_run; [|exact L4]. unfold PointSpec.astep in Hstep. rewrite Hrun, Nat.eqb_refl, Hkm in Hstep. cbn in Hstep. inv Hstep. reflexivity.
    + unfold RE_Inv.tentry. cbv zeta. rewrite Hpc, Hmc. reflexivity.
    + destruct (RE.all_resolved P D (RE.set_must_cancel P D s false) sids); apply neutral_intro; reflexivity.
  - (* read *)
    pose proof Hkm as (-> & Hc & Ho & _).
    edestruct resume_read with (s := RE.set_must_cancel P D s false) (m := m) (a0 := p_a0 q) (acur := p_acur q) (aend := p_aend q)
                              (acur' := acur') (d := d) (z := z) as (s1 & Hfr & K1 & C1 & U1 & _ & HB1); try eassumption.
    destruct K1 as (K1 & K2 & K3 & K4 & K5 & K6 & K7 & K8 & K9 & K10 & K11 & K12 & K13). simp_st.
    assert (Hte : RE_Inv.tentry P presume D dev s = inl (s1, CContinue true (RVal (VReading d z)), [] ++ [OResp (RVal (VReading d z))])).
    { unfold RE_Inv.tentry. cbv zeta. rewrite Hpc, Hmc, Hfr. reflexivity. }
    assert (Hz : z = rdm m).
    { rewrite (task_cmd_done P presume plan_of D dev s s1 (RVal (VReading d z)) ([] ++ [OResp (RVal (VReading d z))])) in Hreads;
        try congruence.
      cbn [snd] in Hreads. rewrite Hlm in Hreads. cbn in Hreads. apply andb_true_iff in Hreads. destruct Hreads as [Hreads _].
      apply Z.eqb_eq. exact Hreads. }
    apply (Hfin1 s1 (VReading d z) ([] ++ [OResp (RVal (VReading d z))])); try congruence.
    + unfold nsame. repeat split; congruence.
    + apply HB1. exact Hz.
    + apply neutral_intro; reflexivity.
Qed.





(* a cancelled task parks *)
Lemma new_none_push_none fl vs : new_none (List.tl fl) vs -> new_none fl (VNone :: vs).
Proof. destruct fl as [|[l|sid [|]|h] fl]; cbn; auto. Qed.

Lemma step_task_pause (s : st) os q rw :
  CoreR rw q s os -> state s = Pausing -> (pc s = PcSleep0 /\ RespsOK (p_fl q) (S (List.length (p_fl q))) s \/
                                       exists k, pc s = PcCmd k /\ RespsOK (List.tl (p_fl q)) (List.length (p_fl q)) s) ->
  must_cancel s = true -> interrupted s = true ->
  StepOK s os (task_step s).
Proof.
  intros (HP & HLk & HD) Hst Hcase Hmc Hit.
  pose proof HLk as (L1 & L2 & L3 & L4 & L5 & L6 & L7 & L8 & L9 & L10).
  destruct (task_pause P presume plan_of D dev Hdev s (p_c q ++ p_infl q)) as (s3 & o23 & E & S3 & Q3); try assumption.
  { destruct Hcase as [(Hpc & _) | (k & Hpc & _)]; [left; exact Hpc | right; exists k; exact Hpc]. }
  rewrite E. unfold StepOK. cbn [fst snd]. intros _.
  apply Inv_neutral.
  { cbn [app]. apply neutral_app; [apply devonly_neutral; exact Q3 | apply neutral_intro; reflexivity]. }
  pose proof (dsame_nsame _ _ S3) as N3. destruct S3 as ((K1 & K2 & K3 & K4 & K5 & K6 & K7 & K8 & K9 & K10 & K11 & K12 & K13) & C1 & C2 & C3).
  destruct Hcase as [(Hpc & (vs & Hrs & Hlen & Hnn)) | (k & Hpc & (vs & Hrs & Hlen & Hnn))]; rewrite Hpc in *; simp_st.
  - eapply (I_pd _ _ q rw); simp_st; try congruence.
    + split; [exact HP|]. split; [|exact HD].
      eapply Link_nsame; [| |exact HLk]; [unfold nsame in *; simp_st; decompose [and] N3; repeat split; congruence | simp_st; congruence].
    + exists vs. split; [simp_st; congruence|]. split; [exact Hlen | exact Hnn].
  - eapply (I_pd _ _ q rw); simp_st; try congruence.
    + split; [exact HP|]. split; [|exact HD].
      eapply Link_nsame; [| |exact HLk]; [unfold nsame in *; simp_st; decompose [and] N3; repeat split; congruence | simp_st; congruence].
    + exists (VNone :: vs). cbn [map List.length]. split; [simp_st; congruence|]. split; [lia | apply new_none_push_none; exact Hnn].
Qed.


(* the grace sleep after a checkpoint reached with a deferred pause pending is over *)
Lemma step_task_rk (s : st) os q :
  Core q s os -> state s = Running -> pc s = PcCmd KCkptSleep -> must_cancel s = false -> permit s = true ->
  p_infl q = [] -> RespsOK (List.tl (p_fl q)) (List.length (p_fl q)) s -> StepOK s os (task_step s).
Proof.
  intros (HP & HLk & HD) Hst Hpc Hmc Hpm Hin (vs & Hrs & Hlen & Hnn).
  pose proof HLk as (L1 & L2 & L3 & L4 & L5 & L6 & L7 & L8 & L9 & L10).
  rewrite (task_ckpt_sleep P presume plan_of D dev s (p_c q ++ p_infl q) Hpc Hmc Hst Hpm L6 L1 (nobintr_BR _ _ _ _ L4))
    by (rewrite Hrs, L2, map_length, app_length, map_length; cbn; lia).
  unfold StepOK. cbn [fst snd]. intros _.
  apply Inv_neutral; [apply neutral_intro; reflexivity|].
  unfold RE.cancel_task. simp_st. rewrite Hpc. simp_st.
  eapply I_ps with (q := q); simp_st; try congruence; try reflexivity.
  - split; [exact HP|]. split; [|exact HD]. eapply Link_nsame; [nsame_tac | reflexivity | exact HLk].
  - exists (VNone :: vs). cbn [map List.length]. split; [simp_st; congruence|]. split; [lia | apply new_none_push_none; exact Hnn].
Qed.

(* the parked task is scheduled *)
Lemma step_task_pd (s : st) os q rw :
  CoreR rw q s os -> state s = Paused -> pc s = PcPaused -> must_cancel s = false ->
  (interrupted s = true -> permit s = false) -> (interrupted s = false -> InflOK q) ->
  RespsOK (p_fl q) (S (List.length (p_fl q))) s ->
  StepOK s os (task_step s).
Proof.
  intros (HP & HLk & HD) Hst Hpc Hmc Hip Hii (vs & Hrs & Hlen & Hnn).
  pose proof HLk as (L1 & L2 & L3 & L4 & L5 & L6 & L7 & L8 & L9 & L10).
  unfold StepOK. destruct (permit s) eqn:Hpm.
  - assert (Hi : interrupted s = false) by (destruct (interrupted s); [specialize (Hip eq_refl); discriminate | reflexivity]).
    rewrite (task_unpark P presume plan_of D dev s Hpc Hmc Hpm Hst L6)
      by (rewrite Hrs, L2, map_length, app_length, map_length; cbn; lia).
    cbn [fst snd]. intros _. apply Inv_neutral; [apply neutral_intro; reflexivity|].
    destruct rw.
    + eapply I_rs with (q := q); simp_st; try congruence.
      * split; [exact HP|]. split; [|exact HD]. eapply Link_nsame; [nsame_tac | reflexivity | exact HLk].
      * apply Hii. exact Hi.
      * exists vs. split; [simp_st; exact Hrs|]. split; [exact Hlen | exact Hnn].
    + eapply I_w with (q := q); simp_st; try congruence.
      * split; [exact HP|]. split; [|exact HD]. eapply Link_nsame; [nsame_tac | reflexivity | exact HLk].
      * exists vs. split; [simp_st; exact Hrs|]. split; [exact Hlen | exact Hnn].
  - rewrite (task_step_inr s (s, [OBad 5])).
    + cbn [fst snd]. intros _. apply Inv_neutral; [apply neutral_intro; reflexivity|].
      eapply (I_pd _ _ q rw); try assumption; [split; [exact HP | split; [exact HLk | exact HD]] | intros _; exact Hpm | exists vs; auto].
    + unfold RE_Inv.tentry. cbv zeta. rewrite Hpc, Hmc. simp_st. rewrite Hpm. reflexivity.
Qed.

(* the task is scheduled for the first time *)
Lemma step_task_ns (s : st) os q :
  Core q s os -> state s = Idle -> (pc s = PcNotStarted \/ pc s = PcPermit0) -> must_cancel s = false ->
  p_infl q = [] -> RespsOK (p_fl q) (S (List.length (p_fl q))) s -> (pc s = PcPermit0 -> permit s = true) ->
  StepOK s os (task_step s).
Proof.
  intros (HP & HLk & HD) Hst Hpc Hmc Hin (vs & Hrs & Hlen & Hnn) Hg.
  pose proof HLk as (L1 & L2 & L3 & L4 & L5 & L6 & L7 & L8 & L9 & L10).
  unfold StepOK. destruct (permit s) eqn:Hpm.
  - rewrite (task_start P presume plan_of D dev s Hpc Hmc Hpm Hst)
      by (rewrite Hrs, L2, map_length, app_length, map_length; cbn; lia).
    cbn [fst snd]. intros _. apply Inv_neutral; [apply neutral_intro; reflexivity|].
    eapply I_rs with (q := q); simp_st; try congruence.
    + split; [exact HP|]. split; [|exact HD]. unfold Link, LinkR in *. simp_st. repeat split; assumption.
    + left. exact Hin.
    + exists vs. split; [simp_st; exact Hrs|]. split; [exact Hlen | exact Hnn].
  - destruct Hpc as [Hpc | Hpc]; [|specialize (Hg Hpc); discriminate Hg].
    rewrite (task_step_inr s (RE.set_pc P D (RE.set_must_cancel P D s false) PcPermit0, [OTask WFuture])).
    + cbn [fst snd]. intros _. apply Inv_neutral; [apply neutral_intro; reflexivity|].
      eapply I_ns with (q := q); simp_st; try congruence.
      * split; [exact HP|]. split; [|exact HD]. eapply Link_nsame; [nsame_tac | reflexivity | exact HLk].
      * right. reflexivity.
      * exists vs. split; [simp_st; exact Hrs|]. split; [exact Hlen | exact Hnn].
    + unfold RE_Inv.tentry. cbv zeta. rewrite Hpc, Hmc. simp_st. rewrite Hpm. reflexivity.
Qed.

(* the end of the task *)
Lemma DocsAll_ext os o : final_events o = [] -> rundocs o = [] -> no_raise o = true -> DocsAll os -> DocsAll (os ++ o).
Proof.
  intros N1 N2 N3 (D1 & D2 & D3 & D4). unfold DocsAll.
  rewrite final_events_app, rundocs_app, no_raise_app, N1, N2, N3, D4, !app_nil_r. auto.
Qed.

Lemma step_task_final (s : st) os :
  FinCore s os -> (state s = Running /\ must_cancel s = false \/ (state s = Pausing \/ state s = Suspending) /\ must_cancel s = true) ->
  pc s = PcFinalSleep (TReturn rv) -> (exists l, cache s = Some l) ->
  StepOK s os (task_step s).
Proof.
  intros (F1 & F2 & F3 & F4 & F5) Hcase Hpc (lc & Hca). unfold StepOK.
  destruct Hcase as [(Hst & Hmc) | (Hst & Hmc)].
  - edestruct finalize_done with (s := RE.set_must_cancel P D s false) (r := TReturn rv) (pend := @None exn) as (s' & o & E & E1 & E2 & (E3 & E3') & E4 & E5 & E6);
      simp_st; try assumption; [rewrite Hst; apply allowed_running_idle|].
    rewrite (task_step_inr s (s', o)) by (unfold RE_Inv.tentry; cbv zeta; rewrite Hpc, Hmc; rewrite E; reflexivity).
    cbn [fst snd]. intros _. eapply I_done with (r := TReturn rv); try assumption; try reflexivity.
    + apply DocsAll_ext; assumption.
    + simp_st. congruence.
    + exists lc. simp_st. congruence.
  - edestruct finalize_done with (s := RE.set_must_cancel P D s false) (r := TReturn rv) (pend := Some ECancelled) as (s' & o & E & E1 & E2 & (E3 & E3') & E4 & E5 & E6);
      simp_st; try assumption; [destruct Hst as [Hst|Hst]; rewrite Hst; [apply allowed_pausing_idle | apply allowed_suspending_idle]|].
    rewrite (task_step_inr s (s', o)) by (unfold RE_Inv.tentry; cbv zeta; rewrite Hpc, Hmc; rewrite E; reflexivity).
    cbn [fst snd]. intros _. eapply I_done with (r := TRaise ECancelled); try assumption; try reflexivity.
    + apply DocsAll_ext; assumption.
    + simp_st. congruence.
    + exists lc. simp_st. congruence.
Qed.

Lemma step_task_done (s : st) os r :
  DocsAll os -> state s = Idle -> pc s = PcDone r -> res_ok r = true -> main_err s = None -> (exists l, cache s = Some l) ->
  StepOK s os (task_step s).
Proof.
  intros HD Hst Hpc Hr Hme Hca. unfold StepOK.
  rewrite (task_step_inr s (s, [OBad 3])) by (unfold RE_Inv.tentry; cbv zeta; rewrite Hpc; reflexivity).
  cbn [fst snd]. intros _. eapply I_done; try eassumption. apply DocsAll_ext; try reflexivity. exact HD.
Qed.

(* ------------------------------------------------------------------ the other events *)
(* the run permit is released (by __call__, or by resume() after it cleared the interruption mark) *)
Lemma Inv_permit (s : st) os :
  Inv s os -> (state s = Paused -> interrupted s = false) ->
  Inv (RE.set_blocking P D (RE.set_permit P D s true) false) os.
Proof.
  intros HI Hg. eapply Inv_ext; [| | | | | | | | | exact HI]; simp_st; try reflexivity.
  - nsame_tac.
  - right. split; [reflexivity | exact Hg].
  - auto.
  - auto.
Qed.

(* the caching tasks of a bundled read finish *)
Lemma mark_cached_same (s : st) run d :
  nsame s (RE.mark_cached P D s run d) /\ state (RE.mark_cached P D s run d) = state s /\ pc (RE.mark_cached P D s run d) = pc s /\
  must_cancel (RE.mark_cached P D s run d) = must_cancel s /\ permit (RE.mark_cached P D s run d) = permit s /\
  interrupted (RE.mark_cached P D s run d) = interrupted s /\ resps (RE.mark_cached P D s run d) = resps s /\
  (bundlers s = [] -> bundlers (RE.mark_cached P D s run d) = []).
Proof.
  unfold RE.mark_cached, RE.get_bundler. destruct (alookup run (bundlers s)) eqn:E.
  - unfold RE.put_bundler. simp_st. split; [nsame_tac|]. repeat split. intros H. rewrite H in E. discriminate E.
  - split; [unfold nsame; repeat split|]. repeat split. auto.
Qed.

Lemma Inv_mark_cached (s : st) os run d : Inv s os -> Inv (RE.mark_cached P D s run d) os.
Proof.
  intros HI. destruct (mark_cached_same s run d) as (N & M1 & M2 & M3 & M4 & M5 & M6 & M7).
  eapply Inv_ext; try eassumption; [left; exact M4 | intros a0 acur aend; apply mark_cached_BR].
Qed.

(* no task exception is pending when the invariant holds *)
Lemma Inv_no_task_exn (s : st) os : Inv s os ->
  match pc s with PcDone (TRaise ECancelled) => None | PcDone (TRaise e) => Some e | _ => @None exn end = None.
Proof.
  intros HI. inv_cases HI; try (destruct Hpc as [Hpc | Hpc]); rewrite Hpc; try reflexivity.
  destruct r as [v | e]; [reflexivity | destruct e; try discriminate Hro; reflexivity].
Qed.


Lemma Inv_nobintr (s : st) os : Inv s os -> state s <> Idle -> nobintr (bundlers s) = true.
Proof.
  intros HI Hn. inv_cases HI; try (eapply nobintr_BR; apply HLk); try (rewrite F2; reflexivity); contradiction.
Qed.

(* a hard pause request *)
Ltac csame_tac := unfold csame, lsame; simp_st; repeat split; reflexivity.

Lemma req_result_csame (s : st) e : csame s (fst (RE.req_result P D s e)) /\ neutral (snd (RE.req_result P D s e)).
Proof.
  unfold RE.req_result. cbn [fst snd]. split; [destruct (RE.mreq P D s); csame_tac|].
  destruct e; apply neutral_intro; reflexivity.
Qed.

Lemma step_reqpause (s : st) os d :
  Inv s os -> Inv (fst (step s (EvReqPause d))) (os ++ snd (step s (EvReqPause d))).
Proof.
  intros HI. cbn [RE.step].
  assert (Href : allowed (state s) Pausing = false ->
                 Inv (fst (let '(s1, e, o) := RE.request_pause P D s d in
                           let '(s2, o2) := RE.req_result P D s1 e in (s2, o ++ o2)))
                     (os ++ snd (let '(s1, e, o) := RE.request_pause P D s d in
                                 let '(s2, o2) := RE.req_result P D s1 e in (s2, o ++ o2)))).
  { intros Ha. unfold RE.request_pause. rewrite Ha. cbn [negb].
    destruct (req_result_csame s (Some ETransition)) as [Hc Hn].
    destruct (RE.req_result P D s (Some ETransition)) as [s2 o2]. cbn [fst snd app] in *.
    apply Inv_neutral; [exact Hn|]. eapply Inv_csame; eassumption. }
  destruct d.
  { (* deferred: only the flag *)
    destruct (allowed (state s) Pausing) eqn:Ha; [|apply Href; reflexivity].
    unfold RE.request_pause. rewrite Ha. cbn [negb].
    destruct (req_result_csame (RE.set_deferred P D s true) None) as [Hc Hn].
    destruct (RE.req_result P D (RE.set_deferred P D s true) None) as [s2 o2]. cbn [fst snd app] in *.
    apply Inv_neutral; [exact Hn|]. eapply Inv_csame; [exact Hc|]. eapply Inv_csame; [|exact HI]. csame_tac. }
  assert (Hacc : state s = Running ->
                 (forall s1, state s1 = Pausing -> must_cancel s1 = true -> interrupted s1 = true -> pc s1 = pc s ->
                             permit s1 = permit s -> resps s1 = resps s -> nsame s s1 -> bundlers s1 = bundlers s -> Inv s1 os) ->
                 match pc s with PcSleep0 | PcCmd _ | PcFinalSleep _ => True | _ => False end ->
                 Inv (fst (let '(s1, e, o) := RE.request_pause P D s false in
                           let '(s2, o2) := RE.req_result P D s1 e in (s2, o ++ o2)))
                     (os ++ snd (let '(s1, e, o) := RE.request_pause P D s false in
                                 let '(s2, o2) := RE.req_result P D s1 e in (s2, o ++ o2)))).
  { intros Hst Hk Hpcs.
    assert (Hnb : nobintr (bundlers s) = true) by (eapply Inv_nobintr; [exact HI | rewrite Hst; discriminate]).
    rewrite (request_pause_hard P D s Hst Hnb).
    match goal with |- context [RE.req_result P D ?x None] =>
      destruct (req_result_csame x None) as [Hc Hn]; destruct (RE.req_result P D x None) as [s2 o2] end.
    cbn [fst snd] in *. rewrite app_assoc. apply Inv_neutral; [exact Hn|].
    apply Inv_neutral; [apply neutral_intro; reflexivity|].
    eapply Inv_csame; [exact Hc|]. unfold RE.cancel_task.
    destruct (pc s) eqn:Epc; try contradiction; simp_st; rewrite Epc; apply Hk; simp_st; try reflexivity; try assumption;
      nsame_tac. }
  inv_cases HI.
  - apply Href. rewrite Hst. apply allowed_idle_pausing.
  - apply Hacc; try assumption; [|rewrite Hpc; exact I].
    intros s1 E1 E2 E3 E4 E5 E6 E7 E8.
    eapply (I_ps _ _ q true); try congruence.
    + split; [exact HP | split; [eapply Link_nsame; eassumption | exact HD]].
    + eapply RespsOK_ext; eassumption.
  - apply Hacc; try assumption; [|rewrite Hpc; exact I].
    intros s1 E1 E2 E3 E4 E5 E6 E7 E8.
    eapply (I_pc _ _ q k true); try congruence.
    + split; [exact HP | split; [eapply Link_nsame; eassumption | exact HD]].
    + eapply RespsOK_ext; eassumption.
  - apply Hacc; try assumption; [|rewrite Hpc; exact I].
    intros s1 E1 E2 E3 E4 E5 E6 E7 E8.
    eapply (I_pc _ _ q KCkptSleep true); try congruence.
    + split; [exact HP | split; [eapply Link_nsame; eassumption | exact HD]].
    + eapply RespsOK_ext; eassumption.
  - apply Href. rewrite Hst. apply allowed_pausing_pausing.
  - apply Href. rewrite Hst. apply allowed_pausing_pausing.
  - apply Href. rewrite Hst. apply allowed_paused_pausing.
  - apply Href. rewrite Hst. apply allowed_suspending_pausing.
  - apply Href. rewrite Hst. apply allowed_suspending_pausing.
  - apply Hacc; try assumption; [|rewrite Hpc; exact I].
    intros s1 E1 E2 E3 E4 E5 E6 E7 E8.
    eapply (I_ps _ _ q false); try congruence.
    + split; [exact HP | split; [eapply Link_nsame; eassumption | exact HD]].
    + eapply RespsOK_ext; eassumption.
  - apply Hacc; try assumption; [|rewrite Hpc; exact I].
    intros s1 E1 E2 E3 E4 E5 E6 E7 E8.
    eapply (I_pc _ _ q (KWaitFor [sid]) false); try congruence.
    + split; [exact HP | split; [eapply Link_nsame; eassumption | exact HD]].
    + eapply RespsOK_ext; eassumption.
  - apply Hacc; try assumption; [|rewrite Hpc; exact I].
    intros s1 E1 E2 E3 E4 E5 E6 (A1 & A2 & A3 & A5 & A6 & A7 & A8 & A9 & A10) A4.
    eapply I_late; try congruence; [unfold FinCore; rewrite A2, A4, A6, A10; auto | left; exact E1 | destruct Hca as [l Hca]; exists l; congruence].
  - apply Href. destruct Hst as [Hst | Hst]; rewrite Hst; [apply allowed_pausing_pausing | apply allowed_suspending_pausing].
  - apply Href. rewrite Hst. apply allowed_idle_pausing.
Qed.

(* resume() *)
Lemma step_resume (s : st) os :
  Inv s os -> state s = Paused ->
  Inv (fst (step s (EvMain AResume))) (os ++ snd (step s (EvMain AResume))).
Proof.
  intros HI Hpau. pose proof (Inv_nobintr s os HI) as Hnb.
  inv_cases HI; try (rewrite Hst in Hpau; discriminate Hpau); try (destruct Hst as [Hst|Hst]; rewrite Hst in Hpau; discriminate Hpau).
  pose proof HLk as (L1 & L2 & L3 & L4 & L5 & L6 & L7 & L8 & L9 & L10).
  destruct (resume_step P presume plan_of D dev Hdev s (p_c q ++ p_infl q) Hst) as (s5 & o5 & E & S5 & Q5);
    [apply Hnb; rewrite Hst; discriminate | exact L1 |].
  rewrite E. cbn [fst snd app].
  apply Inv_neutral; [apply devonly_neutral; exact Q5|].
  pose proof (pos_facts q HP) as (W0 & Wc & We & Hrr & Hn & Hds & Hfresh & _).
  pose proof (dsame_nsame _ _ S5) as N5. destruct S5 as ((K1 & K2 & K3 & K4 & K5 & K6 & K7 & K8 & K9 & K10 & K11 & K12 & K13) & C1 & C2 & C3).
  destruct Hrs as (vs & Hrs & Hlen & Hnn).
  set (q' := mkpos (p_pre q) [] [] (FDL (p_c q ++ p_infl q) :: p_fl q) (p_u q) (p_p q) (p_started q)
                   (p_a0 q) (p_a0 q) (p_aend q) (p_d0 q) []).
  assert (HBR : BR (bundlers s5) (p_a0 q) (p_a0 q) (p_aend q)).
  { rewrite C2. destruct (Nat.eqb (List.length (p_c q ++ p_infl q)) 0) eqn:El; simp_st.
    - apply Nat.eqb_eq in El. destruct (p_c q) eqn:Ec; [|discriminate El].
      destruct HP as (_ & _ & _ & P4 & _). rewrite Ec in P4. cbn in P4. injection P4 as Ea _. rewrite <- Ea in L4. exact L4.
    - eapply rewind_BR; eassumption. }
  assert (H7 : if rw then forallb fd_on (FDL (p_c q ++ p_infl q) :: p_fl q) = true
               else @nil msg = [] /\ @nil msg = [] /\ WinOK (FDL (p_c q ++ p_infl q) :: p_fl q)).
  { destruct rw; [exact L7|]. destruct L7 as (Ec & Ei & Hw). split; [reflexivity|]. split; [reflexivity|].
    rewrite Ec, Ei. apply WinOK_push; [reflexivity | exact Hw]. }
  destruct N5 as (A1 & A2 & A3 & A5 & A6 & A7 & A8 & A9 & A10).
  destruct (Nat.eqb (List.length (p_c q ++ p_infl q)) 0) eqn:El; simp_st.
  all: eapply (I_pd _ _ q' rw); simp_st; try congruence;
    [ split; [apply PosOK_rewind; exact HP|]; split; [|eapply Docs_rewind with (q := q); try reflexivity; exact HD];
      unfold LinkR, q', mkpos; cbn [p_c p_infl p_fl p_p p_started p_acur p_a0 p_aend map app fd_frame]; simp_st;
      repeat (split; [first [congruence | exact H7]|]); congruence
    | intros _; left; reflexivity
    | exists (VNone :: vs); cbn [map List.length p_fl q' mkpos]; split; [simp_st; congruence|]; split; [lia | exact Hnn] ].
Qed.

(* a status object completes successfully / the caller returns *)
Lemma step_status (s : st) os sid :
  Inv s os -> Inv (fst (step s (EvStatus sid true))) (os ++ snd (step s (EvStatus sid true))).
Proof.
  intros HI. cbn [RE.step negb andb fst snd]. rewrite app_nil_r. eapply Inv_csame; [|exact HI]. csame_tac.
Qed.

Lemma step_maindone (s : st) os a :
  Inv s os -> (match a with ACall _ | AResume => True | _ => False end) ->
  Inv (fst (step s (EvMainDone a))) (os ++ snd (step s (EvMainDone a))).
Proof.
  intros HI Ha. cbn [RE.step fst snd]. rewrite (Inv_main_err s os HI), (Inv_no_task_exn s os HI).
  apply Inv_neutral.
  - destruct a; try contradiction; destruct (interrupted s); apply neutral_intro; reflexivity.
  - eapply Inv_csame; [|exact HI]. unfold csame, lsame. simp_st. rewrite (Inv_main_err s os HI). repeat split; reflexivity.
Qed.

(* ------------------------------------------------------------------ suspension *)
(* the cancelled task of a "suspending" engine goes back to running; the request's plan is on top *)
Lemma step_task_ss (s : st) os q rw :
  CoreR rw q s os -> state s = Suspending -> pc s = PcSleep0 -> must_cancel s = true -> permit s = true ->
  TopNew q -> RespsOK (p_fl q) (S (List.length (p_fl q))) s -> StepOK s os (task_step s).
Proof.
  intros (HP & HLk & HD) Hst Hpc Hmc Hpm Htn (vs & Hrs & Hlen & Hnn).
  pose proof HLk as (L1 & L2 & L3 & L4 & L5 & L6 & L7 & L8 & L9 & L10).
  pose proof (task_susp_cancel P presume plan_of D dev s (p_c q ++ p_infl q) Hmc Hst L1 Hpm L6) as E. cbv zeta in E. rewrite Hpc in E.
  unfold StepOK. rewrite E by (left; split; [reflexivity | rewrite Hrs, L2, map_length, app_length, map_length; cbn; lia]).
  cbn [fst snd]. intros _. apply Inv_neutral; [apply neutral_intro; reflexivity|].
  destruct rw.
  - eapply I_rs with (q := q); simp_st; try congruence.
    + split; [exact HP|]. split; [|exact HD]. eapply Link_nsame; [nsame_tac | reflexivity | exact HLk].
    + right. exact Htn.
    + exists vs. split; [simp_st; exact Hrs|]. split; [exact Hlen | exact Hnn].
  - eapply I_w with (q := q); simp_st; try congruence.
    + split; [exact HP|]. split; [|exact HD]. eapply Link_nsame; [nsame_tac | reflexivity | exact HLk].
    + exists vs. split; [simp_st; exact Hrs|]. split; [exact Hlen | exact Hnn].
Qed.

Lemma step_task_sc (s : st) os q k rw :
  CoreR rw q s os -> state s = Suspending -> pc s = PcCmd k -> must_cancel s = true -> permit s = true ->
  (exists sid fl0 vs0, p_fl q = FDS sid false :: fl0 /\ resps s = map RVal (VNone :: vs0) /\
                       List.length vs0 = List.length fl0 /\ not_new fl0 /\ new_none (List.tl fl0) vs0) ->
  StepOK s os (task_step s).
Proof.
  intros (HP & HLk & HD) Hst Hpc Hmc Hpm (sid & fl0 & vs0 & Efl & Hrs & Hlen & Hnot & Hnn).
  pose proof HLk as (L1 & L2 & L3 & L4 & L5 & L6 & L7 & L8 & L9 & L10).
  pose proof (task_susp_cancel P presume plan_of D dev s (p_c q ++ p_infl q) Hmc Hst L1 Hpm L6) as E. cbv zeta in E. rewrite Hpc in E.
  unfold StepOK. rewrite E by (right; exists k; split; [reflexivity | rewrite Hrs, L2, Efl, map_length, app_length, map_length; cbn; lia]).
  cbn [fst snd]. intros _. apply Inv_neutral; [apply neutral_intro; reflexivity|].
  assert (HR : RespsOK (p_fl q) (S (List.length (p_fl q))) (RE.set_pc P D (RE.set_state_raw P D (RE.set_resps P D (RE.set_must_cancel P D s false) (RVal VNone :: resps (RE.set_must_cancel P D s false))) Running) PcSleep0)).
  { exists (VNone :: VNone :: vs0). split; [simp_st; rewrite Hrs; reflexivity|]. rewrite Efl. cbn [List.length new_none]. split; [lia|].
    split; [reflexivity | apply new_none_cons; assumption]. }
  destruct rw.
  - eapply I_rs with (q := q); simp_st; try congruence.
    + split; [exact HP|]. split; [|exact HD]. eapply Link_nsame; [nsame_tac | reflexivity | exact HLk].
    + right. exists sid, fl0. exact Efl.
  - eapply I_w with (q := q); simp_st; try congruence.
    split; [exact HP|]. split; [|exact HD]. eapply Link_nsame; [nsame_tac | reflexivity | exact HLk].
Qed.

Definition wfmsg (sid : nat) : msg := RE.mk (CWaitFor [sid]).
Definition rsmsg : msg := RE.mk CResumeFromSuspender.

(* what every step inside the window needs *)
Lemma win_facts (s : st) os q :
  CoreW q s os ->
  p_c q = [] /\ p_infl q = [] /\ p_acur q = p_a0 q /\ WinOK (p_fl q) /\ cache s = Some [] /\ rewindable s = false.
Proof.
  intros (HP & HLk & HD). destruct HLk as (L1 & L2 & L3 & L4 & L5 & L6 & (Ec & Ei & Hw) & L8 & L9 & L10).
  destruct HP as (_ & _ & _ & P4 & _). rewrite Ec in P4. cbn in P4. injection P4 as Ea _.
  rewrite Ec, Ei in L1. auto 10.
Qed.

(* a message of the suspender plan is processed inside the window and its command completes;
   [s3]: the state after the command, which leaves everything the invariant reads alone *)
Lemma step_w_ctl_done (s : st) os q h h' fl1 v vs m r o s3 :
  CoreW q s os -> state s = Running -> pc s = PcSleep0 -> must_cancel s = false -> permit s = true ->
  p_fl q = FDH h :: fl1 -> fd_msgs (FDH h') = fd_msgs (FDH h) -> fd_ok (FDH h') = true -> hph h' <> H0 ->
  WinOK (FDH h' :: fl1) ->
  resps s = map RVal (v :: vs) -> List.length vs = S (List.length fl1) -> new_none fl1 vs ->
  frame_resume (FHelper h) (Send v) = (Yielded m (FHelper h'), []) -> plain m = true ->
  (let sA := RE.replace_top P D (RE.set_resps P D (RE.set_must_cancel P D s false) (map RVal vs)) (FHelper h') in
   exec_cmd (pre_exec P D sA m) m = (s3, Done (RVal r), o) /\ dsame sA s3) ->
  forallb devonly o = true ->
  StepOK s os (task_step s).
Proof.
  intros HC Hst Hpc Hmc Hpm Efl Hm Hok Hnh Hw' Hrs Hlen Hnn Hfr Hpl (Hex & S3) Q3.
  destruct (win_facts s os q HC) as (Ec & Ei & Ea & Hw & Hca & Hrw).
  destruct HC as (HP & HLk & HD).
  pose proof HLk as (L1 & L2 & L3 & L4 & L5 & L6 & L7 & L8 & L9 & L10). rewrite Efl in L2. cbn [map app fd_frame] in L2.
  pose proof (dsame_nsame _ _ S3) as N3. destruct S3 as ((K1 & K2 & K3 & K4 & K5 & K6 & K7 & K8 & K9 & K10 & K11 & K12 & K13) & C1 & C2 & C3).
  unfold StepOK.
  rewrite (task_msg_done P presume plan_of D dev s v (map RVal vs) (FHelper h)
             (map fd_frame fl1 ++ [FUser pid (p_p q) (p_started q)]) m (FHelper h') [] s3 (RVal r) o Hpc Hmc Hst Hpm L6 L5 Hrs L2);
    [| rewrite map_length, app_length, map_length; cbn; lia | exact Hfr | exact Hpl | exact Hex | unfold keeps5; auto].
  cbn [fst snd]. intros _.
  destruct (ctl_out_quiet m o r [OTask WSleep0] Q3 (or_introl eq_refl)) as (O1 & O2 & O3). cbv zeta in O1, O2, O3.
  set (q' := mkpos (p_pre q) (p_c q) (p_infl q) (FDH h' :: fl1) (p_u q) (p_p q) (p_started q) (p_a0 q) (p_acur q) (p_aend q) (p_d0 q) (p_dc q)).
  destruct N3 as (A1 & A2 & A3 & A5 & A6 & A7 & A8 & A9 & A10). simp_st. rewrite L2 in *. cbn [List.tl] in *.
  eapply I_w with (q := q'); simp_st; try congruence.
  - split; [|split].
    + apply (PosOK_retop q (FDH h) (FDH h') fl1 HP Efl Hm Hok). intros Hf. exfalso. cbn in Hf. destruct (hph h'); try discriminate Hf. apply Hnh. reflexivity.
    + unfold LinkR, q', mkpos; cbn [p_c p_infl p_fl p_p p_started p_acur p_a0 p_aend map app fd_frame]. simp_st.
      repeat (split; [first [congruence | split; [exact Ec | split; [exact Ei | exact Hw']]]|]); congruence.
    + eapply Docs_quiet with (q := q); try reflexivity; eassumption.
  - exists (r :: vs). cbn [map List.length p_fl q' mkpos new_none]. split; [simp_st; congruence|]. split; [lia | exact Hnn].
Qed.

(* wait_for: the task waits for the release *)
Lemma step_w_wait (s : st) os q sid was rw fl1 v vs :
  CoreW q s os -> state s = Running -> pc s = PcSleep0 -> must_cancel s = false -> permit s = true ->
  p_fl q = FDH (mkhelper P HRwFalse sid was rw) :: fl1 -> WinOK (FDH (mkhelper P HWait sid was rw) :: fl1) ->
  resps s = map RVal (v :: vs) -> List.length vs = S (List.length fl1) -> new_none fl1 vs ->
  StepOK s os (task_step s).
Proof.
  intros HC Hst Hpc Hmc Hpm Efl Hw' Hrs Hlen Hnn.
  destruct (win_facts s os q HC) as (Ec & Ei & Ea & Hw & Hca & Hrw).
  destruct HC as (HP & HLk & HD).
  pose proof HLk as (L1 & L2 & L3 & L4 & L5 & L6 & L7 & L8 & L9 & L10). rewrite Efl in L2. cbn [map app fd_frame] in L2.
  set (h' := mkhelper P HWait sid was rw).
  set (sA := RE.replace_top P D (RE.set_resps P D (RE.set_must_cancel P D s false) (map RVal vs)) (FHelper h')).
  assert (Hex : exec_cmd (pre_exec P D sA (wfmsg sid)) (wfmsg sid) = (sA, Susp (KWaitFor [sid]), [])).
  { unfold pre_exec. cbn [mobj wfmsg RE.mk mcmd]. subst sA. simp_st. rewrite Hca, Hrw. cbn [andb]. reflexivity. }
  unfold StepOK.
  rewrite (task_msg_susp P presume plan_of D dev s v (map RVal vs) (FHelper (mkhelper P HRwFalse sid was rw))
             (map fd_frame fl1 ++ [FUser pid (p_p q) (p_started q)]) (wfmsg sid) (FHelper h') [] sA (KWaitFor [sid]) [] Hpc Hmc L6 L5 Hrs L2);
    [| reflexivity | reflexivity | exact Hex].
  cbn [fst snd app]. intros _.
  set (q' := mkpos (p_pre q) (p_c q) (p_infl q) (FDH h' :: fl1) (p_u q) (p_p q) (p_started q) (p_a0 q) (p_acur q) (p_aend q) (p_d0 q) (p_dc q)).
  subst sA. simp_st.
  eapply (I_wc _ _ q' sid); simp_st; rewrite ?L2; cbn [List.tl]; try congruence.
  - split; [|split].
    + apply (PosOK_retop q (FDH (mkhelper P HRwFalse sid was rw)) (FDH h') fl1 HP Efl eq_refl).
      * reflexivity.
      * intros Hf. discriminate Hf.
    + unfold LinkR, q', mkpos; cbn [p_c p_infl p_fl p_p p_started p_acur p_a0 p_aend map app fd_frame]. simp_st. rewrite L2. cbn [List.tl].
      repeat (split; [first [assumption | reflexivity | split; [exact Ec | split; [exact Ei | exact Hw']]]|]); assumption.
    + eapply Docs_quiet with (q := q); try reflexivity; try eassumption; reflexivity.
  - exists h', fl1. split; reflexivity.
  - exists vs. cbn [p_fl q' mkpos List.tl List.length]. split; [reflexivity|]. split; [lia | exact Hnn].
Qed.

(* rewindable(True) by the suspender plan that switched rewinding off: the window ends; a checkpoint-like message *)
Lemma step_w_rw_on (s : st) os q sid rw fl1 v vs :
  CoreW q s os -> state s = Running -> pc s = PcSleep0 -> must_cancel s = false -> permit s = true ->
  p_fl q = FDH (mkhelper P HResume sid true rw) :: fl1 -> forallb fd_on fl1 = true ->
  resps s = map RVal (v :: vs) -> List.length vs = S (List.length fl1) -> new_none fl1 vs ->
  StepOK s os (task_step s).
Proof.
  intros HC Hst Hpc Hmc Hpm Efl Hon Hrs Hlen Hnn.
  destruct (win_facts s os q HC) as (Ec & Ei & Ea & Hw & Hca & Hrw).
  destruct HC as (HP & HLk & HD).
  pose proof HLk as (L1 & L2 & L3 & L4 & L5 & L6 & L7 & L8 & L9 & L10). rewrite Efl in L2. cbn [map app fd_frame] in L2.
  pose proof (pos_facts q HP) as (W0 & Wc & We & Hrr & Hn & Hds & Hfresh & _). rewrite Ea in *.
  set (h' := mkhelper P HRwBack sid true rw).
  set (sA := RE.replace_top P D (RE.set_resps P D (RE.set_must_cancel P D s false) (map RVal vs)) (FHelper h')).
  set (s3 := RE.map_bundlers P D b_snapshot (RE.set_cache P D (RE.set_rewindable P D sA true) (Some []))).
  assert (Hex : exec_cmd (pre_exec P D sA (rwmsg true)) (rwmsg true) = (s3, Done (RVal (VBool true)), [])).
  { unfold pre_exec. cbn [mobj rwmsg RE.mk mcmd]. subst s3 sA. simp_st. rewrite Hca, Hrw. cbn [andb].
    unfold RE.exec_cmd. cbn [mcmd rwmsg RE.mk]. simp_st. rewrite Hrw. cbn [Bool.eqb negb andb]. unfold RE.resumable, RE.reset_checkpoint. simp_st. rewrite Hca. reflexivity. }
  unfold StepOK.
  rewrite (task_msg_done P presume plan_of D dev s v (map RVal vs) (FHelper (mkhelper P HResume sid true rw))
             (map fd_frame fl1 ++ [FUser pid (p_p q) (p_started q)]) (rwmsg true) (FHelper h') [] s3 (RVal (VBool true)) [] Hpc Hmc Hst Hpm L6 L5 Hrs L2);
    [| rewrite map_length, app_length, map_length; cbn; lia | reflexivity | reflexivity | exact Hex | subst s3 sA; unfold keeps5; simp_st; repeat split; reflexivity].
  cbn [fst snd]. intros _.
  destruct (ctl_out_quiet (rwmsg true) [] (VBool true) [OTask WSleep0] eq_refl (or_introl eq_refl)) as (O1 & O2 & O3). cbv zeta in O1, O2, O3.
  cbn [app] in O1, O2, O3 |- *.
  set (q' := mkpos (p_pre q) (p_c q) (p_infl q) (FDH h' :: fl1) (p_u q) (p_p q) (p_started q) (p_a0 q) (p_acur q) (p_aend q) (p_d0 q) (p_dc q)).
  subst s3 sA. simp_st.
  eapply I_rs with (q := q'); simp_st; rewrite ?L2; cbn [List.tl]; try congruence.
  - split; [|split].
    + apply (PosOK_retop q (FDH (mkhelper P HResume sid true rw)) (FDH h') fl1 HP Efl eq_refl).
      * reflexivity.
      * intros Hf. discriminate Hf.
    + unfold Link, LinkR, q', mkpos; cbn [p_c p_infl p_fl p_p p_started p_acur p_a0 p_aend map app fd_frame]. simp_st. rewrite L2. cbn [List.tl].
      rewrite Ec, Ei, Ea. cbn [app].
      repeat (split; [first [assumption | reflexivity]|]).
      split; [apply snapshot_BR; assumption|]. split; [assumption|]. split; [assumption|].
      split; [cbn [forallb fd_on h' mkhelper hwas hph andb]; exact Hon|]. repeat split; assumption.
    + eapply Docs_quiet with (q := q); try reflexivity; try eassumption; reflexivity.
  - left. exact Ei.
  - exists (VBool true :: vs). cbn [map List.length p_fl q' mkpos new_none]. split; [reflexivity|]. split; [lia | exact Hnn].
Qed.

(* a quiet frame on top returns and is popped *)
Lemma step_w_pop (s : st) os q f fl1 v vs v' :
  CoreW q s os -> state s = Running -> pc s = PcSleep0 -> must_cancel s = false -> permit s = true ->
  p_fl q = f :: fl1 -> quietw f = true -> WinOK fl1 -> frame_resume (fd_frame f) (Send v) = (Returned v', []) ->
  resps s = map RVal (v :: vs) -> List.length vs = S (List.length fl1) -> new_none fl1 vs ->
  StepOK s os (task_step s).
Proof.
  intros HC Hst Hpc Hmc Hpm Efl Hq Hw1 Hfr Hrs Hlen Hnn.
  destruct (win_facts s os q HC) as (Ec & Ei & Ea & Hw & Hca & Hrw).
  destruct HC as (HP & HLk & HD).
  pose proof HLk as (L1 & L2 & L3 & L4 & L5 & L6 & L7 & L8 & L9 & L10). rewrite Efl in L2. cbn [map app] in L2.
  destruct (stack_shape fl1 (FUser pid (p_p q) (p_started q))) as (f2 & tl & Hsh & Hlt). rewrite Hsh in L2.
  unfold StepOK.
  rewrite (task_pop P presume plan_of D dev s v (map RVal vs) (fd_frame f) f2 tl v' Hpc Hmc Hst Hpm L6 L5 Hrs L2 Hfr)
    by (rewrite map_length; lia).
  cbn [fst snd]. intros _.
  apply Inv_neutral; [apply neutral_intro; reflexivity|].
  eapply I_w with (q := mkpos (p_pre q) (p_c q) (p_infl q) fl1 (p_u q) (p_p q) (p_started q) (p_a0 q) (p_acur q) (p_aend q) (p_d0 q) (p_dc q));
    simp_st; try congruence.
  - split; [eapply PosOK_pop; [exact HP | exact Efl | apply quietw_msgs; exact Hq]|]. split; [|exact HD].
    unfold LinkR, mkpos; cbn [p_c p_infl p_fl p_p p_started p_acur p_a0 p_aend]. simp_st. rewrite L2, Hsh. cbn [List.tl].
    repeat (split; [first [assumption | reflexivity | split; [exact Ec | split; [exact Ei | exact Hw1]]]|]); assumption.
  - exists vs. split; [reflexivity|]. split; [cbn [p_fl mkpos]; lia | exact Hnn].
Qed.

(* a suspension request's plan starts while rewinding is off: nothing to rewind, the new suspender plan is quiet *)
Lemma step_w_start (s : st) os q sid fl1 vs :
  CoreW q s os -> state s = Running -> pc s = PcSleep0 -> must_cancel s = false -> permit s = true ->
  p_fl q = FDS sid false :: fl1 -> WinOK fl1 ->
  resps s = map RVal (VNone :: vs) -> List.length vs = S (List.length fl1) -> new_none fl1 vs ->
  StepOK s os (task_step s).
Proof.
  intros HC Hst Hpc Hmc Hpm Efl Hw1 Hrs Hlen Hnn.
  destruct (win_facts s os q HC) as (Ec & Ei & Ea & Hw & Hca & Hrw).
  destruct HC as (HP & HLk & HD).
  pose proof HLk as (L1 & L2 & L3 & L4 & L5 & L6 & L7 & L8 & L9 & L10). rewrite Efl in L2. cbn [map app fd_frame] in L2.
  destruct (task_start_suspender P presume plan_of D dev Hdev s (map RVal vs) (map fd_frame fl1 ++ [FUser pid (p_p q) (p_started q)])
              sid [] Hpc Hmc Hst Hpm L6 L5 Hrs L2) as (s3 & o & E & S3 & Q3);
    [rewrite map_length, app_length, map_length; cbn; lia | eapply nobintr_BR; exact L4 | exact Hca |].
  cbv zeta in E. unfold StepOK. rewrite E. cbn [fst snd]. intros _.
  destruct (ctl_out_quiet (smsg sid) o VNone [OTask WSleep0] Q3 (or_introl eq_refl)) as (O1 & O2 & O3). cbv zeta in O1, O2, O3.
  pose proof (dsame_nsame _ _ S3) as N3. destruct S3 as ((K1 & K2 & K3 & K4 & K5 & K6 & K7 & K8 & K9 & K10 & K11 & K12 & K13) & C1 & C2 & C3).
  destruct N3 as (A1 & A2 & A3 & A5 & A6 & A7 & A8 & A9 & A10). cbn [List.length Nat.eqb] in *. simp_st. rewrite L2 in *. cbn [List.tl] in *.
  set (q' := mkpos (p_pre q) (p_c q) (p_infl q) (FDH (mkhelper P H0 sid false []) :: FDS sid true :: fl1) (p_u q) (p_p q) (p_started q)
                   (p_a0 q) (p_acur q) (p_aend q) (p_d0 q) (p_dc q)).
  assert (HP' : PosOK q').
  { assert (H1 := PosOK_retop q (FDS sid false) (FDS sid true) fl1 HP Efl eq_refl eq_refl (fun H => H)).
    set (q1 := mkpos (p_pre q) (p_c q) (p_infl q) (FDS sid true :: fl1) (p_u q) (p_p q) (p_started q) (p_a0 q) (p_acur q) (p_aend q) (p_d0 q) (p_dc q)) in H1.
    destruct H1 as (P1 & P2 & P3 & P4 & (dseg & P5) & P6 & P7 & P8a & P8b & P8c).
    unfold PosOK, q', mkpos, pend in *; cbn in *. rewrite fmsgs_cons in *. cbn [fd_msgs mkhelper hph hrw app] in *.
    pos_split; try assumption; [exists dseg; exact P5|].
    intros tops h rest E0 Hph. destruct tops as [|t tops]; cbn in E0.
    - rewrite Ec, Ei. auto.
    - injection E0 as <- E0. destruct (P8c tops h rest E0 Hph) as (X1 & X2 & X3). rewrite fmsgs_cons. cbn. auto. }
  eapply I_w with (q := q'); simp_st; rewrite ?Hrw; try congruence.
  - split; [exact HP'|]. split; [|eapply Docs_quiet with (q := q); try reflexivity; eassumption].
    unfold LinkR, q', mkpos; cbn [p_c p_infl p_fl p_p p_started p_acur p_a0 p_aend map app fd_frame]. simp_st. rewrite Ec, Ei. cbn [app].
    repeat (split; [first [congruence | reflexivity | split; [reflexivity | split; [reflexivity | apply WinOK_push; [reflexivity | apply WinOK_push; [reflexivity | exact Hw1]]]]]|]); congruence.
  - exists (VNone :: VNone :: vs). cbn [map List.length p_fl q' mkpos new_none]. split; [simp_st; congruence|]. split; [lia | exact Hnn].
Qed.

(* the task runs inside the window *)
Lemma step_task_w (s : st) os q :
  CoreW q s os -> state s = Running -> pc s = PcSleep0 -> must_cancel s = false -> permit s = true ->
  RespsOK (p_fl q) (S (List.length (p_fl q))) s -> StepOK s os (task_step s).
Proof.
  intros HC Hst Hpc Hmc Hpm (vs & Hrs & Hlen & Hnn).
  destruct (win_facts s os q HC) as (Ec & Ei & Ea & Hw & Hca & Hrw).
  pose proof HC as (HP & HLk & HD).
  pose proof HP as (_ & _ & _ & _ & _ & _ & _ & _ & P8b & _).
  destruct (p_fl q) as [|f fl1] eqn:Efl; [destruct Hw as (tops & h & rest & E & _); destruct tops; discriminate E|].
  destruct vs as [|v vs]; [discriminate Hlen|]. cbn [List.length] in Hlen.
  cbn [forallb] in P8b. apply andb_true_iff in P8b. destruct P8b as [Hok Hokr].
  assert (Hlen' : List.length vs = S (List.length fl1)) by lia.
  destruct (WinOK_cases f fl1 Hw) as [(Hq & Hw1) | (h & -> & Hwin & Hwas & Hon)].
  - (* a quiet frame *)
    destruct f as [[|m0 l0]|sid [|]|h]; try discriminate Hq.
    + cbn [new_none] in Hnn. eapply (step_w_pop s os q (FDL []) fl1 v vs VNone); try eassumption; reflexivity.
    + cbn [new_none] in Hnn. eapply (step_w_pop s os q (FDS sid true) fl1 v vs v); try eassumption; reflexivity.
    + cbn [new_none] in Hnn. destruct Hnn as [-> Hnn]. eapply (step_w_start s os q sid fl1 vs); eassumption.
    + (* a suspender plan started inside the window *)
      cbn [new_none] in Hnn. destruct h as [ph sid pre post was rw]. cbn [quietw hwas hrw hph fd_ok hpre hpost] in Hq, Hok.
      destruct pre; [destruct post; discriminate Hok|]. destruct post; [discriminate Hok|].
      apply andb_true_iff in Hq. destruct Hq as [Hq Hq3]. apply andb_true_iff in Hq. destruct Hq as [Hq1 Hq2].
      destruct was; [discriminate Hq1|]. destruct rw; [|discriminate Hq2].
      destruct ph as [| |p0| | |p0| |ms]; try discriminate Hok.
      * (* rewindable(False): already off *)
        eapply (step_w_ctl_done s os q (mkhelper P H0 sid false []) (mkhelper P HRwFalse sid false []) fl1 v vs (rwmsg false) (VBool false) []);
          try eassumption; try reflexivity; try discriminate.
        -- apply WinOK_push; [reflexivity | exact Hw1].
        -- cbv zeta. split.
           ++ unfold pre_exec. cbn [mobj rwmsg RE.mk mcmd]. simp_st. rewrite Hca, Hrw. cbn [andb].
              unfold RE.exec_cmd. cbn [mcmd rwmsg RE.mk]. simp_st. rewrite Hrw. cbn [Bool.eqb negb andb]. rewrite andb_false_r. simp_st. rewrite ?Hrw. reflexivity.
           ++ unfold RE_PointsC.dsame, RE_PointsB.keeps. simp_st. rewrite ?Hrw. repeat split; reflexivity.
      * eapply (step_w_wait s os q sid false [] fl1 v vs); try eassumption. apply WinOK_push; [reflexivity | exact Hw1].
      * (* _resume_from_suspender *)
        destruct (call_pausables_ok P D dev Hdev (RE.replace_top P D (RE.set_resps P D (RE.set_must_cancel P D s false) (map RVal vs)) (FHelper (mkhelper P HResume sid false []))) MResume (or_intror eq_refl)) as (s3 & o & E3 & S3 & Q3).
        eapply (step_w_ctl_done s os q (mkhelper P HWait sid false []) (mkhelper P HResume sid false []) fl1 v vs rsmsg VNone o s3);
          try eassumption; try reflexivity; try discriminate.
        -- apply WinOK_push; [reflexivity | exact Hw1].
        -- cbv zeta. split; [|exact S3].
           unfold pre_exec. cbn [mobj rsmsg RE.mk mcmd]. simp_st. rewrite Hca, Hrw. cbn [andb].
           unfold RE.exec_cmd. cbn [mcmd rsmsg RE.mk]. rewrite E3. reflexivity.
      * (* rewindable(False) again: the suspender plan puts back what it found *)
        eapply (step_w_ctl_done s os q (mkhelper P HResume sid false []) (mkhelper P HRwBack sid false []) fl1 v vs (rwmsg false) (VBool false) []);
          try eassumption; try reflexivity; try discriminate.
        -- apply WinOK_push; [reflexivity | exact Hw1].
        -- cbv zeta. split.
           ++ unfold pre_exec. cbn [mobj rwmsg RE.mk mcmd]. simp_st. rewrite Hca, Hrw. cbn [andb].
              unfold RE.exec_cmd. cbn [mcmd rwmsg RE.mk]. simp_st. rewrite Hrw. cbn [Bool.eqb negb andb]. rewrite andb_false_r. simp_st. rewrite ?Hrw. reflexivity.
           ++ unfold RE_PointsC.dsame, RE_PointsB.keeps. simp_st. rewrite ?Hrw. repeat split; reflexivity.
      * eapply (step_w_pop s os q (FDH (mkhelper P HRwBack sid false [])) fl1 v vs VNone); try eassumption; reflexivity.
      * destruct ms; [|discriminate Hq3].
        eapply (step_w_pop s os q (FDH (mkhelper P (HRewind []) sid false [])) fl1 v vs VNone); try eassumption; reflexivity.
  - (* the suspender plan that switched rewinding off *)
    cbn [new_none] in Hnn. destruct h as [ph sid pre post was rw]. cbn [fd_win hwas hph fd_ok hpre hpost] in Hwin, Hwas, Hok. subst was.
    destruct pre; [destruct post; discriminate Hok|]. destruct post; [discriminate Hok|].
    destruct ph as [| |p0| | |p0| |ms]; try discriminate Hwin.
    + eapply (step_w_wait s os q sid true rw fl1 v vs); try eassumption. apply WinOK_outer; [reflexivity | reflexivity | exact Hon].
    + destruct (call_pausables_ok P D dev Hdev (RE.replace_top P D (RE.set_resps P D (RE.set_must_cancel P D s false) (map RVal vs)) (FHelper (mkhelper P HResume sid true rw))) MResume (or_intror eq_refl)) as (s3 & o & E3 & S3 & Q3).
      eapply (step_w_ctl_done s os q (mkhelper P HWait sid true rw) (mkhelper P HResume sid true rw) fl1 v vs rsmsg VNone o s3);
        try eassumption; try reflexivity; try discriminate.
      * apply WinOK_outer; [reflexivity | reflexivity | exact Hon].
      * cbv zeta. split; [|exact S3].
        unfold pre_exec. cbn [mobj rsmsg RE.mk mcmd]. simp_st. rewrite Hca, Hrw. cbn [andb].
        unfold RE.exec_cmd. cbn [mcmd rsmsg RE.mk]. rewrite E3. reflexivity.
    + eapply (step_w_rw_on s os q sid rw fl1 v vs); eassumption.
Qed.

(* the wait_for of a suspender plan is over (the suspension was released, or a new request interrupted the wait) *)
Lemma step_task_wc (s : st) os q sid :
  CoreW q s os -> state s = Running -> pc s = PcCmd (KWaitFor [sid]) -> must_cancel s = false -> permit s = true ->
  (exists h rest, p_fl q = FDH h :: rest /\ hph h = HWait) -> RespsOK (List.tl (p_fl q)) (List.length (p_fl q)) s ->
  StepOK s os (task_step s).
Proof.
  intros (HP & HLk & HD) Hst Hpc Hmc Hpm (h & rest & Efl & Hph) (vs & Hrs & Hlen & Hnn).
  pose proof HLk as (L1 & L2 & L3 & L4 & L5 & L6 & L7 & L8 & L9 & L10).
  set (o1 := (if RE.all_released P D (RE.set_must_cancel P D s false) [sid] then [] else [OBad 7]) ++ [OResp (RVal (VFuts 1))]).
  unfold StepOK.
  rewrite (task_cmd_done P presume plan_of D dev s (RE.set_must_cancel P D s false) (RVal (VFuts 1)) o1); simp_st; try assumption.
  - cbn [fst snd]. intros _.
    replace ((o1 ++ []) ++ [OTask WSleep0]) with (o1 ++ [OTask WSleep0]) by (rewrite app_nil_r; reflexivity).
    rewrite app_assoc. apply Inv_neutral; [apply neutral_intro; reflexivity|].
    apply Inv_neutral; [subst o1; destruct (RE.all_released P D (RE.set_must_cancel P D s false) [sid]); apply neutral_intro; reflexivity|].
    eapply I_w with (q := q); simp_st; try congruence.
    + split; [exact HP|]. split; [|exact HD]. eapply Link_nsame; [nsame_tac | reflexivity | exact HLk].
    + exists (VFuts 1 :: vs). cbn [map List.length]. split; [simp_st; congruence|]. rewrite Efl in *. cbn [List.length List.tl new_none] in *. split; [lia | exact Hnn].
  - rewrite Hrs, L2, map_length, app_length, map_length. cbn. lia.
  - unfold RE_Inv.tentry. cbv zeta. rewrite Hpc, Hmc. reflexivity.
Qed.

(* a suspension request (no pre/post plans) *)
Lemma Inv_cache (s : st) os : Inv s os -> exists l, cache s = Some l.
Proof. intros HI. inv_cases HI; try assumption; eexists; apply HLk. Qed.

Ltac link_push HLk :=
  let L1 := fresh "L" in let L2 := fresh "L" in let L3 := fresh "L" in let L4 := fresh "L" in let L5 := fresh "L" in
  let L6 := fresh "L" in let L7 := fresh "L" in let L8 := fresh "L" in let L9 := fresh "L" in let L10 := fresh "L" in
  destruct HLk as (L1 & L2 & L3 & L4 & L5 & L6 & L7 & L8 & L9 & L10);
  unfold Link, LinkR, mkpos; cbn [p_c p_infl p_fl p_p p_started p_acur p_a0 p_aend map app fd_frame]; simp_st;
  split; [assumption|]; split; [rewrite L2; reflexivity|]; split; [assumption|]; split; [assumption|];
  split; [assumption|]; split; [assumption|];
  split; [ lazymatch goal with
           | |- forallb _ _ = true => exact L7
           | |- _ /\ _ => destruct L7 as (? & ? & ?); split; [assumption | split; [assumption | apply WinOK_push; [reflexivity | assumption]]]
           | |- if ?rw then _ else _ =>
               destruct rw; [exact L7 | destruct L7 as (? & ? & ?); split; [assumption | split; [assumption | apply WinOK_push; [reflexivity | assumption]]]]
           end |];
  repeat split; assumption.

Lemma step_reqsuspend (s : st) os sd :
  Inv s os ->
  Inv (fst (step s (EvReqSuspend sd false false))) (os ++ snd (step s (EvReqSuspend sd false false))).
Proof.
  intros HI. destruct (Inv_cache s os HI) as [lc Hcache].
  cbn [RE.step]. unfold RE.resumable. simp_st. rewrite Hcache. cbn [negb].
  set (s0 := RE.set_futs P D s (if amem sd (RE.futs P D s) then RE.futs P D s else aset sd false (RE.futs P D s))).
  assert (Hcs0 : csame s s0) by (subst s0; csame_tac).
  pose proof (Inv_csame _ _ _ Hcs0 HI) as HI0.
  assert (Hst0 : state s0 = state s) by reflexivity.
  destruct (rstate_eqb (state s0) Paused) eqn:Epa.
  - (* paused: only the frame is pushed *)
    apply rstate_eqb_eq in Epa.
    match goal with |- context [RE.req_result P D ?x None] =>
      destruct (req_result_csame x None) as [Hc Hn]; destruct (RE.req_result P D x None) as [s2 o2] end. cbn [fst snd app] in *.
    apply Inv_neutral; [exact Hn|]. eapply Inv_csame; [exact Hc|].
    clear HI. inv_cases HI0; try (rewrite Hst in Epa; discriminate Epa); try (destruct Hst as [Hst|Hst]; rewrite Hst in Epa; discriminate Epa).
    destruct Hrs as (vs & Hrs & Hlen & Hnn).
    eapply (I_pd _ _ (mkpos (p_pre q) (p_c q) (p_infl q) (FDS sd false :: p_fl q) (p_u q) (p_p q) (p_started q)
                            (p_a0 q) (p_acur q) (p_aend q) (p_d0 q) (p_dc q)) rw); simp_st; try assumption.
    + split; [apply PosOK_push; exact HP|]. split; [|exact HD]. link_push HLk.
    + intros Hi. right. exists sd, (p_fl q). reflexivity.
    + exists (VNone :: vs). cbn [map List.length p_fl mkpos new_none]. split; [simp_st; rewrite Hrs; reflexivity|]. split; [lia | auto].
  - apply rstate_eqb_neq in Epa. unfold RE.set_state.
    destruct (allowed (state s0) Suspending) eqn:Eal.
    + (* running: the engine goes "suspending", the frame is pushed, the task is cancelled *)
      assert (Hrun : state s0 = Running).
      { destruct (state s0) eqn:Es; try reflexivity; rewrite allowed_to_suspending in Eal by discriminate; discriminate Eal. }
      match goal with |- context [RE.req_result P D ?x None] =>
        destruct (req_result_csame x None) as [Hc Hn]; destruct (RE.req_result P D x None) as [s2 o2] end.
      cbn [fst snd] in *. rewrite Hrun. rewrite app_assoc. apply Inv_neutral; [exact Hn|].
      apply Inv_neutral; [apply neutral_intro; reflexivity|].
      eapply Inv_csame; [exact Hc|]. unfold RE.cancel_task. simp_st.
      clear HI. inv_cases HI0; try (rewrite Hst in Hrun; discriminate Hrun); try (destruct Hst as [Hst|Hst]; rewrite Hst in Hrun; discriminate Hrun);
        rewrite Hpc; simp_st.
      * (* sleep0 *)
        destruct Hrs as (vs & Hrs & Hlen & Hnn).
        eapply (I_ss _ _ (mkpos (p_pre q) (p_c q) (p_infl q) (FDS sd false :: p_fl q) (p_u q) (p_p q) (p_started q)
                                (p_a0 q) (p_acur q) (p_aend q) (p_d0 q) (p_dc q)) true); simp_st; try assumption; try reflexivity.
        -- split; [apply PosOK_push; exact HP|]. split; [|exact HD]. link_push HLk.
        -- exists sd, (p_fl q). reflexivity.
        -- exists (VNone :: vs). cbn [map List.length p_fl mkpos new_none]. split; [simp_st; rewrite Hrs; reflexivity|]. split; [lia | auto].
      * (* a command is waiting on a future *)
        destruct Hrs as (vs & Hrs & Hlen & Hnn').
        eapply (I_sc _ _ (mkpos (p_pre q) (p_c q) (p_infl q) (FDS sd false :: p_fl q) (p_u q) (p_p q) (p_started q)
                                (p_a0 q) (p_acur q) (p_aend q) (p_d0 q) (p_dc q)) k true); simp_st; try assumption; try reflexivity.
        -- split; [apply PosOK_push; exact HP|]. split; [|exact HD]. link_push HLk.
        -- exists sd, (p_fl q), vs. cbn [p_fl mkpos]. repeat split; try assumption. simp_st. rewrite Hrs. reflexivity.
      * (* the grace sleep of a checkpoint *)
        destruct Hrs as (vs & Hrs & Hlen & Hnn').
        eapply (I_sc _ _ (mkpos (p_pre q) (p_c q) (p_infl q) (FDS sd false :: p_fl q) (p_u q) (p_p q) (p_started q)
                                (p_a0 q) (p_acur q) (p_aend q) (p_d0 q) (p_dc q)) KCkptSleep true); simp_st; try assumption; try reflexivity.
        -- split; [apply PosOK_push; exact HP|]. split; [|exact HD]. link_push HLk.
        -- exists sd, (p_fl q), vs. cbn [p_fl mkpos]. repeat split; try assumption. simp_st. rewrite Hrs. reflexivity.
      * (* inside a window, between two messages *)
        destruct Hrs as (vs & Hrs & Hlen & Hnn).
        eapply (I_ss _ _ (mkpos (p_pre q) (p_c q) (p_infl q) (FDS sd false :: p_fl q) (p_u q) (p_p q) (p_started q)
                                (p_a0 q) (p_acur q) (p_aend q) (p_d0 q) (p_dc q)) false); simp_st; try assumption; try reflexivity.
        -- split; [apply PosOK_push; exact HP|]. split; [|exact HD]. link_push HLk.
        -- exists sd, (p_fl q). reflexivity.
        -- exists (VNone :: vs). cbn [map List.length p_fl mkpos new_none]. split; [simp_st; rewrite Hrs; reflexivity|]. split; [lia | auto].
      * (* inside a window, in the wait_for of the suspender plan *)
        destruct Hrs as (vs & Hrs & Hlen & Hnn').
        eapply (I_sc _ _ (mkpos (p_pre q) (p_c q) (p_infl q) (FDS sd false :: p_fl q) (p_u q) (p_p q) (p_started q)
                                (p_a0 q) (p_acur q) (p_aend q) (p_d0 q) (p_dc q)) (KWaitFor [sid]) false); simp_st; try assumption; try reflexivity.
        -- split; [apply PosOK_push; exact HP|]. split; [|exact HD]. link_push HLk.
        -- exists sd, (p_fl q), vs. cbn [p_fl mkpos]. destruct Hhw as (h & rest & Efl & _).
           repeat split; try assumption; [simp_st; rewrite Hrs; reflexivity | rewrite Efl; exact I].
      * (* the final sleep *)
        eapply I_late; simp_st; try assumption; try reflexivity; [|right; reflexivity].
        destruct F5 as (D1 & D2 & D3 & D4). unfold FinCore, DocsAll. simp_st. cbn [forallb is_single andb]. repeat split; assumption.
    + (* refused as a whole *)
      destruct (req_result_csame s0 (Some ETransition)) as [Hc Hn].
      destruct (RE.req_result P D s0 (Some ETransition)) as [s2 o2]. cbn [fst snd app] in *.
      apply Inv_neutral; [exact Hn|]. eapply Inv_csame; eassumption.
Qed.

Lemma step_release (s : st) os sid :
  Inv s os -> Inv (fst (step s (EvRelease sid))) (os ++ snd (step s (EvRelease sid))).
Proof. intros HI. cbn [RE.step fst snd]. rewrite app_nil_r. eapply Inv_csame; [|exact HI]. csame_tac. Qed.

(* ------------------------------------------------------------------ every event of a well-formed schedule *)
Theorem step_inv (s : st) os e :
  Inv s os -> ev_ok P D s e = true -> reads_ok rdm (last_msg None os) (snd (step s e)) = true ->
  Inv (fst (step s e)) (os ++ snd (step s e)).
Proof.
  intros HI Hok Hreads. destruct e as [a | a | | | d | | | | sid pre post | sid | sid ok | |]; cbn [ev_ok] in Hok; try discriminate Hok.
  - (* resume() *)
    destruct a; try discriminate Hok. apply step_resume; [exact HI | apply rstate_eqb_eq; exact Hok].
  - (* the caller returns *)
    apply step_maindone; [exact HI | destruct a; try discriminate Hok; exact I].
  - (* the run permit *)
    cbn [RE.step fst snd]. rewrite app_nil_r. apply Inv_permit; [exact HI|].
    intros Hp. rewrite Hp in Hok. cbn in Hok. destruct (interrupted s); [discriminate Hok | reflexivity].
  - (* the task *)
    change (step s EvTask) with (task_step s) in *.
    assert (G : StepOK s os (task_step s)); [|exact (G Hreads)].
    clear Hreads. inv_cases HI.
    + apply (step_task_ns s os q); try assumption; [split; [exact HP | split; [exact HLk | exact HD]]|].
      intros Hp. rewrite Hp in Hok. exact Hok.
    + apply (step_task_rs s os q); try assumption. split; [exact HP | split; [exact HLk | exact HD]].
    + apply (step_task_rc s os q k m); try assumption. split; [exact HP | split; [exact HLk | exact HD]].
    + apply (step_task_rk s os q); try assumption. split; [exact HP | split; [exact HLk | exact HD]].
    + apply (step_task_pause s os q rw); try assumption; [split; [exact HP | split; [exact HLk | exact HD]]|]. left. auto.
    + apply (step_task_pause s os q rw); try assumption; [split; [exact HP | split; [exact HLk | exact HD]]|]. right. exists k. auto.
    + apply (step_task_pd s os q rw); try assumption. split; [exact HP | split; [exact HLk | exact HD]].
    + apply (step_task_ss s os q rw); try assumption. split; [exact HP | split; [exact HLk | exact HD]].
    + apply (step_task_sc s os q k rw); try assumption. split; [exact HP | split; [exact HLk | exact HD]].
    + apply (step_task_w s os q); try assumption. split; [exact HP | split; [exact HLk | exact HD]].
    + apply (step_task_wc s os q sid); try assumption. split; [exact HP | split; [exact HLk | exact HD]].
    + apply step_task_final; [unfold FinCore; auto | left; auto | exact Hpc | exact Hca].
    + apply step_task_final; [unfold FinCore; auto | right; auto | exact Hpc | exact Hca].
    + eapply step_task_done; eassumption.
  - (* pause request *)
    apply step_reqpause. exact HI.
  - (* suspension request *)
    destruct pre; [discriminate Hok|]. destruct post; [discriminate Hok|].
    apply step_reqsuspend. exact HI.
  - (* release *)
    apply step_release. exact HI.
  - (* status *)
    destruct ok; [|discriminate Hok]. apply step_status. exact HI.
  - (* caching tasks done *)
    cbn [RE.step fst snd]. rewrite app_nil_r. destruct (pc s) as [| | | | |[| | | |run d z]| |]; try exact HI.
    apply Inv_mark_cached. exact HI.
Qed.


Lemma run_inv evs : forall (s : st) os,
  Inv s os -> PointSpec.sched_ok P presume plan_of D dev s evs = true ->
  reads_ok rdm (last_msg None os) (snd (run s evs)) = true ->
  Inv (fst (run s evs)) (os ++ snd (run s evs)).
Proof.
  induction evs as [|e evs IH]; intros s os HI Hs Hr; cbn [RE.run fst snd] in *.
  - rewrite app_nil_r. exact HI.
  - cbn [PointSpec.sched_ok] in Hs. apply andb_true_iff in Hs. destruct Hs as [Hs1 Hs2].
    pose proof (step_inv s os e HI Hs1) as Hstep. specialize (IH (fst (step s e)) (os ++ snd (step s e))).
    destruct (step s e) as [s1 o1]. cbn [fst snd] in *.
    destruct (run s1 evs) as [s2 o2]. cbn [fst snd] in *.
    rewrite reads_ok_app in Hr. apply andb_true_iff in Hr. destruct Hr as [Hr1 Hr2].
    rewrite app_assoc. apply IH; [apply Hstep; exact Hr1 | exact Hs2 | rewrite last_msg_app; exact Hr2].
Qed.

(* __call__(plan) on a fresh engine *)
Lemma init_inv d paus stag :
  Inv (fst (step (RE.init P D d paus stag false) (EvMain (ACall pid)))) (snd (step (RE.init P D d paus stag false) (EvMain (ACall pid)))).
Proof.
  cbn [RE.step RE.init RE.state]. ev_st. cbn [fst snd].
  destruct (bodypre_split L) as [r Hr]. pose proof HL as HL'. rewrite Hr in HL'.
  apply arun_app in HL'. destruct HL' as (aend0 & d1 & d2 & E1 & _ & _).
  eapply I_ns with (q := mkpos [] [] [] [] L (plan_of pid) false a_init a_init aend0 [] []); simp_st; try reflexivity.
  - split; [|split].
    + unfold PosOK, mkpos, pend; cbn. change (fmsgs (@nil fd)) with (@nil msg). cbn [app].
      pos_split; try reflexivity; try assumption; [exists d1; exact E1 | apply HoldOK_nil].
    + unfold Link, LinkR, mkpos; cbn [p_c p_infl p_fl p_p p_started p_acur p_a0 p_aend map app]. unfold RE.clear_call. simp_st.
      repeat split; reflexivity.
    + unfold Docs. cbn. repeat split; intros x [].
  - left. reflexivity.
  - exists [VNone]. repeat split; reflexivity.
Qed.

(* ------------------------------------------------------------------ what a finished call has recorded *)
Definition call_run d paus stag evs := run (RE.init P D d paus stag false) (EvMain (ACall pid) :: evs).
Definition call_sched_ok d paus stag evs : bool :=
  PointSpec.sched_ok P presume plan_of D dev (fst (step (RE.init P D d paus stag false) (EvMain (ACall pid)))) evs.

Lemma call_inv d paus stag evs :
  call_sched_ok d paus stag evs = true -> reads_ok rdm None (snd (call_run d paus stag evs)) = true ->
  Inv (fst (call_run d paus stag evs)) (snd (call_run d paus stag evs)).
Proof.
  unfold call_sched_ok, call_run. intros Hs Hr. cbn [RE.run].
  pose proof (init_inv d paus stag) as H0.
  assert (E0 : snd (step (RE.init P D d paus stag false) (EvMain (ACall pid))) = []).
  { cbn [RE.step RE.init RE.state]. ev_st. reflexivity. }
  destruct (step (RE.init P D d paus stag false) (EvMain (ACall pid))) as [s1 o1] eqn:E. cbn [fst snd] in *. subst o1.
  cbn [RE.run] in Hr. rewrite E in Hr.
  pose proof (run_inv evs s1 [] H0 Hs) as H1.
  destruct (run s1 evs) as [s2 o2]. cbn [fst snd app] in *. apply H1. exact Hr.
Qed.

(* at every moment: only events of the reference run, and nothing has failed *)
Theorem call_safe d paus stag evs :
  call_sched_ok d paus stag evs = true -> reads_ok rdm None (snd (call_run d paus stag evs)) = true ->
  incl (final_events (snd (call_run d paus stag evs))) (doc_events SD) /\ no_raise (snd (call_run d paus stag evs)) = true.
Proof.
  intros Hs Hr. pose proof (call_inv d paus stag evs Hs Hr) as HI.
  inv_cases HI; try (destruct HD as (D1 & _ & _ & D4); split; assumption);
    try (destruct F5 as (D1 & _ & _ & D4); split; assumption).
  destruct HDA as (D1 & _ & _ & D4). split; assumption.
Qed.

(* when the call is over: exactly the events and the RunStops of the reference run *)
Theorem call_complete d paus stag evs :
  call_sched_ok d paus stag evs = true -> reads_ok rdm None (snd (call_run d paus stag evs)) = true ->
  finished P D (fst (call_run d paus stag evs)) = true ->
  DocsAll (snd (call_run d paus stag evs)).
Proof.
  intros Hs Hr Hf. pose proof (call_inv d paus stag evs Hs Hr) as HI. unfold finished in Hf.
  inv_cases HI; try (destruct Hpc as [Hpc|Hpc]); try (rewrite Hpc in Hf; discriminate Hf). exact HDA.
Qed.

End D.
