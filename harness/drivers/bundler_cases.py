"""Case generators for the RunBundler correspondence (shared by C15, C16, C45, later C05/C40/C41).

A case is {"strict", "record", "devs", "ops"} (see bundler_driver).  Generators are *mostly valid*: a light
tracker (run open? bundle open? which objects were read? what is monitored / declared?) biases the random
walk towards sequences the bundler accepts, with a tunable rate of arbitrary (possibly illegal) ops and a
separate malformed stream (bad readings, bad asset documents, wrong protocols, ops before open_run ...).
All randomness comes from the `rng` handed in.
"""
import itertools

# ---- a fixed universe of devices (ids < 8 so that set / frozenset iteration is ascending by id)
DEVS = [
    {"id": 1, "caps": ["readable", "configurable", "subscribable"], "describe": [[1, "none"]]},
    {"id": 2, "caps": ["readable", "configurable"], "describe": [[2, "none"], [3, "other"]]},
    {"id": 3, "caps": ["readable", "subscribable"], "describe": [[3, "none"]]},                      # key 3 overlaps dev 2
    {"id": 4, "caps": ["readable", "configurable", "subscribable"], "describe": [[1, "none"]]},      # same keys as dev 1
    {"id": 5, "caps": ["readable", "configurable", "collectable", "flyable", "wsa"],
     "describe": [[5, "stream"], [6, "none"]], "describe_collect": [[5, "stream"]]},
    {"id": 6, "caps": ["configurable", "collectable", "flyable", "wsa"], "describe_collect": [[7, "stream"]]},
    {"id": 7, "caps": ["collectable", "flyable", "wea"], "describe_collect": [[8, "stream"]]},      # not WritesStreamAssets
]
READABLE = [1, 2, 3, 4, 5]
SUBSCRIBABLE = [1, 3, 4]
DETECTORS = [5, 6, 7]
STREAM_KEY = {5: 5, 6: 7, 7: 8}


def dev_by_id(devs):
    return {d["id"]: d for d in devs}


def good_reading(rng, dev):
    return [[k, rng.randint(-50, 50)] for k, e in dev.get("describe", []) if e != "stream"]


def rand_devs(rng):
    """A random device universe: random protocols and (possibly overlapping) keys."""
    n = rng.randint(2, 5)
    devs = []
    for i in range(1, n + 1):
        caps = [c for c in ["readable", "configurable", "subscribable", "collectable", "flyable"] if rng.random() < 0.7]
        if "collectable" in caps:
            r = rng.random()
            if r < 0.6:
                caps.append("wsa")
            elif r < 0.75:
                caps.append("wea")
        nk = rng.randint(0, 3)
        keys = sorted(rng.sample(range(1, 7), nk))
        desc = [[k, rng.choice(["none", "none", "none", "other", "stream"])] for k in keys]
        dc = [[k, "stream"] for k in sorted(rng.sample(range(5, 10), rng.randint(0, 2)))]
        devs.append({"id": i, "caps": caps, "describe": desc, "describe_collect": dc})
    return devs


class Tracker:
    """Python-side guess of the bundler state, used only to bias generation."""

    def __init__(self, devs):
        self.devs = dev_by_id(devs)
        self.open = False
        self.bundling = False
        self.read = []
        self.monitored = {}
        self.declared = []        # (objs tuple, name, collect)
        self.streams = {}         # name -> tuple of objs (bundled streams seen)
        self.kicked = set()
        self.det_idx = {}         # detector -> last index emitted
        self.det_sres = {}        # (detector, stream name) -> stream resource uid
        self.next_dev_uid = 0

    def uid(self):
        self.next_dev_uid += 1
        return self.next_dev_uid


def std_assets(t, o, stream, new_index):
    """What a well-behaved WritesStreamAssets detector yields when asked to collect up to `new_index`."""
    out = []
    last = t.det_idx.get((o, stream), 0)
    if new_index > last:
        dev = t.devs[o]
        skeys = [k for k, e in dev.get("describe_collect", []) if e == "stream"]
        for k in skeys:
            if (o, stream, k) not in t.det_sres:
                t.det_sres[(o, stream, k)] = t.uid()
                out.append(["sres", t.det_sres[(o, stream, k)], k])
            out.append(["sdatum", t.uid(), t.det_sres[(o, stream, k)], False, True, last, new_index])
        t.det_idx[(o, stream)] = new_index
    return out


def gen_ops(rng, devs, n, profile, wild=0.08):
    """Random walk of n ops.  profile in bundle|configure|collect|mixed weights the op kinds."""
    t = Tracker(devs)
    ids = [d["id"] for d in devs]
    readable = [d["id"] for d in devs if "readable" in d["caps"]] or ids
    subs = [d["id"] for d in devs if "subscribable" in d["caps"] and "readable" in d["caps"]] or ids
    dets = [d["id"] for d in devs if "collectable" in d["caps"] and "wsa" in d["caps"]]
    names = [1, 2, 3]
    ops = []
    W = {"bundle": dict(bundle=10, configure=1, monitor=1, collect=0.5, ckpt=1, misc=0.5),
         "configure": dict(bundle=5, configure=4, monitor=3, collect=1, ckpt=1, misc=0.5),
         "collect": dict(bundle=1.5, configure=1, monitor=0.5, collect=8, ckpt=1, misc=0.5),
         "mixed": dict(bundle=4, configure=2, monitor=2, collect=3, ckpt=2, misc=2)}[profile]
    kinds, weights = zip(*W.items())

    def emit(op):
        ops.append(op)

    while len(ops) < n:
        if not t.open and rng.random() > wild:
            emit(["open_run"])
            t.open = True
            continue
        if rng.random() < wild:
            emit(wild_op(rng, t, ids, names))
            continue
        kind = rng.choices(kinds, weights)[0]
        if kind == "bundle":
            if not t.bundling:
                nm = rng.choice(names)
                if rng.random() < 0.5:
                    emit(["create", nm, []])
                else:
                    emit(["create", None, [nm]])
                t.bundling, t.read, t.cur = True, [], nm
            else:
                r = rng.random()
                want = t.streams.get(t.cur)
                if r < 0.6 and (want is None or len(t.read) < len(want)):
                    rest = [x for x in (want or ()) if x not in t.read]
                    if rest and rng.random() < 0.9:
                        o = rest[0]
                    else:
                        o = rng.choice(readable)
                    assets = []
                    emit(["read", o, good_reading(rng, t.devs[o]), assets])
                    t.read.append(o)
                elif r < 0.9:
                    emit(["save"])
                    if t.read and t.cur not in t.streams:
                        t.streams[t.cur] = tuple(t.read)
                    t.bundling = False
                else:
                    emit(["drop"])
                    t.bundling = False
        elif kind == "configure":
            if t.bundling and rng.random() < 0.85:
                continue
            emit(["configure", rng.choice(ids), rng.randint(1, 99)])
        elif kind == "monitor":
            r = rng.random()
            if rng.random() < 0.15:      # pauses / suspensions silencing the monitors, possibly overlapping
                emit(rng.choice([["suspend_monitors"], ["suspend_monitors"], ["restore_monitors"], ["restore_monitors"],
                                 ["restore_monitors"]]))
            elif r < 0.35 or not t.monitored:
                o = rng.choice(subs)
                nm = rng.choice([4, 5, 6] + ([rng.choice(names)] if rng.random() < 0.1 else []))
                emit(["monitor", o, nm, False])
                t.monitored.setdefault(o, nm)
            elif r < 0.85:
                o = rng.choice(sorted(t.monitored))
                emit(["mon_event", o, good_reading(rng, t.devs[o])])
            else:
                o = rng.choice(sorted(t.monitored))
                emit(["unmonitor", o])
                t.monitored.pop(o, None)
        elif kind == "collect":
            if not dets:
                continue
            r = rng.random()
            if r < 0.3 or not t.declared:
                k = rng.randint(1, min(3, len(dets)))
                objs = sorted(rng.sample(dets, k))
                nm = rng.choice([7, 8, 9])
                emit(["declare", objs, nm, True])
                t.declared.append((tuple(objs), nm))
            elif r < 0.4:
                emit(["kickoff", rng.choice(dets)])
            else:
                objs, nm = rng.choice(t.declared)
                idxs = [t.det_idx.get((o, nm), 0) + rng.choice([0, 1, 1, 2, 3, 5]) for o in objs]
                m = min(idxs) if len(objs) > 1 else idxs[0]
                triples = [[o, i, std_assets(t, o, nm, m)] for o, i in zip(objs, idxs)]
                emit(["collect", triples, nm if rng.random() < 0.8 else None, False])
        elif kind == "ckpt":
            if t.bundling and rng.random() < 0.85:
                continue
            emit(rng.choice([["checkpoint"], ["checkpoint"], ["reset_checkpoint"], ["rewind"], ["clear_checkpoint"]]))
            if ops[-1][0] == "rewind":
                t.bundling = False
        else:
            r = rng.random()
            if r < 0.3:
                emit(["interrupt", rng.randint(1, 9)])
            elif r < 0.5:
                emit(["close_run", rng.choice([None, "success", "abort", "fail"]), rng.randint(0, 2)])
                t.open = False
                t.monitored = {}
            elif r < 0.7:
                emit(rng.choice([["suspend_monitors"], ["restore_monitors"], ["clear_monitors"]]))
            elif r < 0.8:
                emit(["backstop", []])
            else:
                emit(["interrupt", rng.randint(1, 9)])
    return ops


def wild_op(rng, t, ids, names):
    """An arbitrary op: mostly well-formed syntax, no regard for the bundler's state."""
    o = rng.choice(ids)
    dev = t.devs[o]
    nm = rng.choice(names + [4, 7, 0])
    c = rng.randrange(22)
    if c == 0:
        return ["open_run"]
    if c == 1:
        return ["close_run", rng.choice([None, "success", "abort", "fail"]), rng.randint(0, 2)]
    if c == 2:
        return ["create", rng.choice([None, nm]), rng.choice([[], [nm], [nm, nm]])]
    if c in (3, 4):
        rd = good_reading(rng, dev)
        r = rng.random()
        if r < 0.2 and rd:
            rd = rd[1:]                                   # missing key
        elif r < 0.4:
            rd = rd + [[rng.randint(1, 9), 7]]            # extra / unknown / duplicate key
        return ["read", o, rd, bad_assets(rng, t) if rng.random() < 0.3 else []]
    if c == 5:
        return ["save"]
    if c == 6:
        return ["drop"]
    if c == 7:
        return ["monitor", o, nm, rng.random() < 0.2]
    if c == 8:
        return ["unmonitor", o]
    if c == 9:
        return ["mon_event", o, good_reading(rng, dev) if rng.random() < 0.6 else [[rng.randint(1, 9), 1]]]
    if c == 10:
        return ["kickoff", o]
    if c in (11, 12):
        k = rng.randint(0, 3)
        objs = rng.sample(ids, min(k, len(ids)))      # distinct: the driver programs one answer per device
        return ["collect", [[x, rng.randint(-2, 6), bad_assets(rng, t) if rng.random() < 0.6 else []] for x in objs],
                rng.choice([None, nm]), rng.random() < 0.1]
    if c == 13:
        k = rng.randint(0, 3)
        return ["declare", [rng.choice(ids) for _ in range(k)], rng.choice([None, nm, nm]), rng.random() < 0.5]
    if c == 14:
        return ["configure", o, rng.randint(1, 99)]
    if c == 15:
        return ["checkpoint"]
    if c == 16:
        return ["interrupt", rng.randint(1, 9)]
    if c == 17:
        return ["rewind"]
    if c == 18:
        return rng.choice([["reset_checkpoint"], ["clear_checkpoint"]])
    if c == 19:
        return rng.choice([["suspend_monitors"], ["restore_monitors"], ["clear_monitors"]])
    if c == 20:
        return ["backstop", [[o, bad_assets(rng, t)]]]
    return ["save"]


def bad_assets(rng, t):
    """Asset document lists that are mostly plausible but not guaranteed consistent."""
    out = []
    for _ in range(rng.randint(1, 3)):
        r = rng.random()
        if r < 0.3:
            u = t.uid()
            t.last_sres = u
            out.append(["sres", u if rng.random() < 0.9 else 1, rng.choice([5, 7, 8, 1])])
        elif r < 0.8:
            a = rng.randint(0, 4)
            out.append(["sdatum", t.uid(), getattr(t, "last_sres", 1), rng.random() < 0.08, rng.random() > 0.08,
                        a, a + rng.choice([0, 1, 1, 2, -1])])
        elif r < 0.88:
            out.append(["res", t.uid()])
        elif r < 0.96:
            out.append(["datum", t.uid(), 1])
        else:
            out.append(["bad", t.uid()])
    return out


def mk(devs, ops, strict=False, record=False, tag=""):
    return {"strict": strict, "record": record, "devs": devs, "ops": ops, "tag": tag}


def random_cases(rng, n, profile, lo=6, hi=28, wild=0.08, tag="rand"):
    out = []
    for _ in range(n):
        devs = DEVS if rng.random() < 0.7 else rand_devs(rng)
        ops = gen_ops(rng, devs, rng.randint(lo, hi), profile, wild=wild)
        out.append(mk(devs, ops, strict=rng.random() < 0.15, record=rng.random() < 0.4, tag="%s:%s" % (tag, profile)))
    return out


def enum_sequences(alphabet, maxlen, prefix=(("open_run",),)):
    """All op sequences over `alphabet` up to length maxlen (after `prefix`)."""
    for L in range(0, maxlen + 1):
        for seq in itertools.product(alphabet, repeat=L):
            yield [list(x) for x in prefix] + [_thaw(x) for x in seq]


def _thaw(x):
    if isinstance(x, tuple):
        return [_thaw(y) for y in x]
    return x
