(* C23 -- stub while the model is being tied; replaced below. *)
From BV Require Import Base.Prelude Gen.Coalg Gen.Paired.
From BV Require Gen.TiePaired.
Theorem C23_stub : True. Proof. exact I. Qed.
Print Assumptions C23_stub.
