(* Gen/During.v -- monitor_during_wrapper (preprocessors.py 813-869) and fly_during_wrapper (872-925):
       plan1 = plan_mutator(plan, insert_after_open);  plan2 = plan_mutator(plan1, insert_before_close);
       return (yield from plan2)
   built from the plan_mutator machine of Gen/Mutators.v (the repaired code: fixed = true; C21 proves that machine
   equal to its reference semantics), applied twice, inside the wrapper's own generator (Deleg, Gen/Paired.v).
   MODEL ONLY (no proofs).

   insert_after_open(msg)   = (single_gen(msg), tail)  for open_run, tail yielding [after] (monitor_msgs, or
                              kickoff_msgs + wait)       -- the same as (None, tail): plan_mutator substitutes single_gen
   insert_before_close(msg) = (head, None)             for close_run, head yielding [before] (unmonitor_msgs, or
                              complete_msgs + wait + collect_msgs) and then msg itself
   Inserted generators are list plans (Gen/Paired.v [lplan] without trailing wait).  The message lists are made once,
   so the same Msg objects are yielded at every run of the wrapped plan: content-determined ids ([mk]) are exact here.

   [exp_resume]: the REFERENCE (all inputs; for sends:) a message m of the wrapped plan
   that has not been seen before, with [ins m = (pre, post)], is expanded to  pre ++ [m] ++ post ; the answer to m
   itself is what the wrapped plan receives, the answers to the inserted messages are dropped.
   Proofs/During.v: on such scripts the plan_mutator machine with a list-inserting processor is this expansion. *)
From BV Require Import Base.Prelude Gen.Coalg Gen.Mutators Gen.Paired.

Section During.
  Context {Q : Type}.
  Variable qres : Q -> input -> outcome Q.       (* the host of one plan_mutator layer *)
  Variable is_status : val -> bool.
  (* what msg_proc inserts before / after a message: None = no head / no tail generator at all; Some l = a generator
     yielding l (and, for the head, the message itself afterwards) -- possibly the empty list *)
  Variable ins : msg -> option (list msg) * option (list msg).

  (* plans on the plan_stack of this layer: the host, or an inserted list plan *)
  Inductive dplan := DHostP (q : Q) | DList (l : lplan).

  Definition dp_resume (x : dplan) (i : input) : outcome dplan :=
    match x with
    | DHostP q => map_outcome DHostP (qres q i)
    | DList l => map_outcome DList (lp_resume is_status l i)
    end.

  Definition list_proc : @pm_proc dplan unit :=
    fun s m =>
      let '(pre, post) := ins m in
      (s,
       option_map (fun l => DList (LPStart (l ++ [m]) None)) pre,
       option_map (fun l => DList (LPStart l None)) post).

  Definition olist (o : option (list msg)) : list msg := match o with Some l => l | None => [] end.

  Definition layer_state := @pm_state dplan unit.
  Definition layer_init (q : Q) : layer_state := pm_init (DHostP q) tt.
  Definition layer_resume (fuel : nat) : layer_state -> input -> outcome layer_state :=
    pm_resume dp_resume list_proc true fuel.

  (* ---- finding class C23-c: the host yields again a message object this layer has seen before, of the kind [bad]
     the layer acts on (plan_mutator does not consult msg_proc a second time: nothing is inserted around it) *)
  Definition layer_host (s : layer_state) : option Q :=
    match s with
    | PMStart (DHostP q) _ => Some q
    | PMStart _ _ => None
    | PMRun st _ => match last (plan_stack st) (0, ESingle1) with (_, EPlan (DHostP q)) => Some q | _ => None end
    end.
  Definition layer_seen (s : layer_state) : list msg :=
    match s with PMStart _ _ => [] | PMRun st _ => msgs_seen st end.
  Fixpoint host_call (cs : list call) : option input :=
    match cs with
    | [] => None
    | Call 0 i :: _ => Some i
    | _ :: r => host_call r
    end.
  (* the input this step hands to the host, if it resumes it *)
  Definition layer_host_input (fuel : nat) (s : layer_state) (i : input) : option input :=
    host_call (snd (pm_lresume dp_resume list_proc true fuel s i)).
  Definition c23c_layer (bad : msg -> bool) (fuel : nat) (s : layer_state) (i : input) : bool :=
    match layer_host s, layer_host_input fuel s i with
    | Some q, Some Close => false
    | Some q, Some i' =>
        match qres q i' with
        | Yielded m _ => mem_nat m (layer_seen s) && bad m
        | _ => false
        end
    | _, _ => false
    end.

  (* ---- the reference for send-only scripts *)
  Inductive estate :=
    | EStart (q : Q)
    | EPre (q : Q) (seen : list msg) (todo : list msg) (m : msg) (post : option (list msg))
        (* a message inserted BEFORE m is out; then the rest of them [todo], then m itself, then [post] *)
    | EOwn (q : Q) (seen : list msg) (post : option (list msg))
        (* the wrapped plan's own message m is out; its answer is what the plan will receive; [post] follows first *)
    | EPost (q : Q) (seen : list msg) (todo : list msg) (saved : val).
        (* a message inserted AFTER m is out; [saved] = the answer m got *)

  Definition e_mark (a : msg) (seen : list msg) : list msg := if mem_nat a seen then seen else a :: seen.

  Definition e_pre (q : Q) (seen : list msg) (pre : list msg) (m : msg) (post : option (list msg)) : outcome estate :=
    match pre with
    | [] => Yielded m (EOwn q seen post)
    | a :: r => Yielded a (EPre q (e_mark a seen) r m post)
    end.

  (* the wrapped plan produced o *)
  Definition e_host (seen : list msg) (o : outcome Q) : outcome estate :=
    match o with
    | Yielded m q' =>
        if mem_nat m seen then Yielded m (EOwn q' seen None)           (* seen before: msg_proc is not asked again *)
        else
          match ins m with
          | (None, post) => Yielded m (EOwn q' (m :: seen) post)
          | (Some pre, post) => e_pre q' (m :: seen) pre m post
          end
    | Returned v => Returned v
    | Raised e => Raised e
    | OutOfFuel => OutOfFuel
    end.

  Definition e_post (q : Q) (seen : list msg) (post : list msg) (saved : val) : outcome estate :=
    match post with
    | [] => e_host seen (qres q (Send saved))
    | a :: r => Yielded a (EPost q (e_mark a seen) r saved)
    end.

  (* close() / a thrown GeneratorExit kind: every generator is closed, the host first; its verdict decides *)
  Definition e_close (q : Q) (e : exn) : outcome estate :=
    match close_result (qres q Close) with
    | CloseOk => Raised e
    | CloseRaised e' => Raised e'
    | CloseFuel => OutOfFuel
    end.

  Definition e_host_of (x : estate) : option (Q * list msg) :=
    match x with
    | EStart _ => None
    | EPre q seen _ _ _ => Some (q, seen)
    | EOwn q seen _ => Some (q, seen)
    | EPost q seen _ _ => Some (q, seen)
    end.

  (* ALL inputs.  Sends: the expansion.  A thrown Exception kind, wherever the layer is (at an inserted message or at
     the wrapped plan's own): the inserted generator on top, if any, dies with it and the exception is thrown into the
     wrapped plan at its original yield -- what is left of the inserted messages is dropped.  Other BaseException
     kinds leave at once.  close() / GeneratorExit kinds: [e_close]. *)
  Definition exp_resume (x : estate) (i : input) : outcome estate :=
    match x, i with
    | EStart q, Send VNone => e_host [] (qres q (Send VNone))
    | EStart _, Send _ => Raised ETypeError
    | EStart _, Throw e => Raised e
    | EStart _, Close => Raised EGeneratorExit
    | EPre q seen todo m post, Send _ => e_pre q seen todo m post          (* the answers to inserted messages are dropped *)
    | EOwn q seen None, Send v => e_host seen (qres q (Send v))
    | EOwn q seen (Some post), Send v => e_post q seen post v
    | EPost q seen todo saved, Send _ => e_post q seen todo saved
    | _, Throw e =>
        match e_host_of x with
        | Some (q, seen) =>
            if is_GeneratorExit e then e_close q e
            else if is_Exception e then e_host seen (qres q (Throw e))
            else Raised e
        | None => Raised e
        end
    | _, Close =>
        match e_host_of x with
        | Some (q, _) => e_close q EGeneratorExit
        | None => Raised EGeneratorExit
        end
    end.
End During.

Arguments DHostP {Q} q.
Arguments DList {Q} l.
Arguments EStart {Q} q.
Arguments EPre {Q} q seen todo m post.
Arguments EOwn {Q} q seen post.
Arguments EPost {Q} q seen todo saved.

(* ------------------------------------------------------------------ the two wrappers *)
Section DuringWrappers.
  Context {P : Type}.
  Variable resume : P -> input -> outcome P.
  Variable mk : mview -> msg.
  Variable view : msg -> mview.
  Variable is_status : val -> bool.
  Variable fuel : nat.

  Definition is_open (m : msg) : bool := match view m with VOpen => true | _ => false end.
  Definition is_close (m : msg) : bool := match view m with VClose _ _ => true | _ => false end.

  (* the two processors, for the message lists [after] (following each open_run) and [before] (preceding each close_run) *)
  Definition ins_after (after : list msg) (m : msg) : option (list msg) * option (list msg) :=
    if is_open m then (None, Some after) else (None, None).
  Definition ins_before (before : list msg) (m : msg) : option (list msg) * option (list msg) :=
    if is_close m then (Some before, None) else (None, None).

  Definition during1 := @layer_state P.
  Definition during2 := @layer_state during1.
  Definition during_state := @dstate during2.

  Definition during1_resume (after : list msg) : during1 -> input -> outcome during1 :=
    layer_resume resume is_status (ins_after after) fuel.
  Definition during2_resume (after before : list msg) : during2 -> input -> outcome during2 :=
    layer_resume (during1_resume after) is_status (ins_before before) fuel.
  Definition during_init (p : P) : during_state := DStart (layer_init (layer_init p)).
  Definition during_resume (after before : list msg) : during_state -> input -> outcome during_state :=
    d_resume (during2_resume after before).

  Definition c23c_step (after before : list msg) (s : during_state) (i : input) : bool :=
    let x := match s with DStart x => x | DRun x => x end in
    let i2 := match i with Throw e => if is_GeneratorExit e then Close else i | _ => i end in
    c23c_layer (during1_resume after) is_status (ins_before before) is_close fuel x i2
    || match layer_host x, layer_host_input (during1_resume after) is_status (ins_before before) fuel x i2 with
       | Some x1, Some i1 => c23c_layer resume is_status (ins_after after) is_open fuel x1 i1
       | _, _ => false
       end.

  (* monitor_during_wrapper(plan, signals) *)
  Definition monitor_after (sigs : list dev) : list msg := map (fun d => mk (VMonitor d)) sigs.
  Definition monitor_before (sigs : list dev) : list msg := map (fun d => mk (VUnmonitor d)) sigs.

  (* fly_during_wrapper(plan, flyers): `if flyers:` adds one wait per group *)
  Definition fly_after (fl : list dev) : list msg :=
    map (fun d => mk (VKickoff d G_KICKOFF)) fl ++ match fl with [] => [] | _ => [mk (VWait G_KICKOFF)] end.
  Definition fly_before (fl : list dev) : list msg :=
    map (fun d => mk (VComplete d G_COMPLETE)) fl ++ match fl with [] => [] | _ => [mk (VWait G_COMPLETE)] end
    ++ map (fun d => mk (VCollect d)) fl.
End DuringWrappers.
