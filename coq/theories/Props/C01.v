(* C01 - every opened run is a well-formed document stream, whatever happens.

   Model: Engine/RE.v (all plans = coalgebras, all devices = oracles, all schedules = event lists).
   "Well formed" is the executable trace checker Engine/DocMon.v (docs_ok); its consequences are
   restated below without the checker.  Not in the model: JSON-schema validity and uuid4 uniqueness
   of the real documents (checked on the implementation side for every emitted document of a sample). *)
From Coq Require Import List ZArith Bool.
From BV Require Import Engine.RE Engine.REInst Engine.DocMon Proofs.RE_Docs Proofs.RE_DocsMon Proofs.RE_DocsCor Proofs.RE_DocsInv.
Import ListNotations.

(* the stepped trace of every run is accepted by the document monitor *)
Theorem C01_document_stream_well_formed :
  forall (P : Type) (presume : P -> input -> outcome P) (plan_of : nat -> P)
         (D : Type) (dev : D -> nat -> devmeth -> D * devres)
         (d : D) (paus stag : list nat) (rec : bool) (evs : list event),
    docs_ok rec (snd (run_steps P presume plan_of D dev (init P D d paus stag rec) evs)) = true.
Proof. exact run_docs_ok. Qed.
Print Assumptions C01_document_stream_well_formed.

(* ... and the monitor's view is the engine's: same lifecycle state, same next uid, the runs the
   monitor holds open are exactly the bundlers of the final state, in order *)
Theorem C01_monitor_tracks_engine :
  forall (P : Type) (presume : P -> input -> outcome P) (plan_of : nat -> P)
         (D : Type) (dev : D -> nat -> devmeth -> D * devres)
         (d : D) (paus stag : list nat) (rec : bool) (evs : list event),
    let r := run_steps P presume plan_of D dev (init P D d paus stag rec) evs in
    exists m', mon_steps rec mon0 (snd r) = Some m' /\
               m_st m' = state P D (fst r) /\ m_next m' = uid_supply P D (fst r) /\
               map r_uid (m_open m') = map (fun kb => buid (snd kb)) (bundlers P D (fst r)).
Proof. exact run_docs_accepted. Qed.
Print Assumptions C01_monitor_tracks_engine.

(* without the checker: (i) nothing of run u precedes its RunStart and no second RunStart of u
   follows (uids pairwise distinct); (ii) nothing of run u follows its RunStop (at most one stop);
   (iii) every descriptor / event / interruption record / stop belongs to a run started earlier;
   (iv) once no bundler is left every started run has its RunStop *)
Theorem C01_run_structure :
  forall (P : Type) (presume : P -> input -> outcome P) (plan_of : nat -> P)
         (D : Type) (dev : D -> nat -> devmeth -> D * devres)
         (d : D) (paus stag : list nat) (rec : bool) (evs : list event),
    let r := run P presume plan_of D dev (init P D d paus stag rec) evs in
    (forall l1 u l2, docs_of (snd r) = l1 ++ DStart u :: l2 ->
        (forall x, In x l1 -> run_of x <> u) /\ (forall x, In x l2 -> is_start x = true -> run_of x <> u)) /\
    (forall l1 u xs rs num l2, docs_of (snd r) = l1 ++ DStop u xs rs num :: l2 -> forall x, In x l2 -> run_of x <> u) /\
    (forall l1 x l2, docs_of (snd r) = l1 ++ x :: l2 -> is_start x = false -> In (DStart (run_of x)) l1) /\
    (bundlers P D (fst r) = [] ->
       forall u, In (DStart u) (docs_of (snd r)) -> exists xs rs num, In (DStop u xs rs num) (docs_of (snd r))).
Proof. exact docs_structure_all. Qed.
Print Assumptions C01_run_structure.

(* "once the RunEngine is idle again": exactly one RunStop per started run (at most one by (ii), at
   least one here).  Uses the state invariant of Proofs/RE_Inv.v: an idle engine has no bundler left.
   [~ In (OBad 1)] excludes traces on which the model's straight-line interpreter ran out of fuel (the
   model reports that instead of going on silently; it never happened on any replayed run). *)
Theorem C01_all_stopped_when_idle :
  forall (P : Type) (presume : P -> input -> outcome P) (plan_of : nat -> P)
         (D : Type) (dev : D -> nat -> devmeth -> D * devres)
         (d : D) (paus stag : list nat) (rec : bool) (evs : list event),
    let r := run P presume plan_of D dev (init P D d paus stag rec) evs in
    ~ In (OBad 1) (snd r) -> state P D (fst r) = Idle ->
    forall u, In (DStart u) (docs_of (snd r)) -> exists xs rs num, In (DStop u xs rs num) (docs_of (snd r)).
Proof. exact docs_all_stopped_when_idle_closed. Qed.
Print Assumptions C01_all_stopped_when_idle.

(* non-vacuity: a real schedule (two nested keyed runs, interruption recording, a pause and a resume;
   recorded from the implementation) whose trace is non-trivial, accepted, and ends with everything closed *)
(* exk: {"plan": ["seq", ["m", "open_run", null, [], {}, "a"], ["m", "checkpoint", null, [], {}, null], ["m", "create", null, [], {"name": "primary"}, "a"], ["m", "read", 1, [], {}, "a"], ["m", "save", null, [], {}, "a"], ["m", "open_run", null, [], {}, "b"], ["m", "create", null, [], {"name": "primary"}, "b"], ["m", "read", 1, [], {}, "b"], ["m", "save", null, [], {}, "b"], ["m", "close_run", null, [], {}, "b"], ["m", "create", null, [], {"name": "primary"}, "a"], ["m", "read", 1, [], {}, "a"], ["m", "save", null, [], {}, "a"], ["m", "close_run", null, [], {}, "a"]], "devs": [["stage"], [], ["pause"], ["stage"]], "inject": [{"at": 9, "req": "pause"}], "script": ["resume"], "record_interruptions": true, "tag": "ex keys"} *)
Definition exk_tapes := [(0, [TY {| mid := (Some 0); mcmd := COpenRun; mobj := None; mrun := 1 |}; TY {| mid := (Some 1); mcmd := CCheckpoint; mobj := None; mrun := 0 |}; TY {| mid := (Some 2); mcmd := (CCreate 0); mobj := None; mrun := 1 |}; TY {| mid := (Some 3); mcmd := CRead; mobj := (Some 1); mrun := 1 |}; TY {| mid := (Some 4); mcmd := CSave; mobj := None; mrun := 1 |}; TY {| mid := (Some 5); mcmd := COpenRun; mobj := None; mrun := 2 |}; TY {| mid := (Some 6); mcmd := (CCreate 0); mobj := None; mrun := 2 |}; TY {| mid := (Some 7); mcmd := CRead; mobj := (Some 1); mrun := 2 |}; TY {| mid := (Some 8); mcmd := CSave; mobj := None; mrun := 2 |}; TY {| mid := (Some 9); mcmd := (CCloseRun None RsEmpty); mobj := None; mrun := 2 |}; TY {| mid := (Some 10); mcmd := (CCreate 0); mobj := None; mrun := 1 |}; TY {| mid := (Some 11); mcmd := CRead; mobj := (Some 1); mrun := 1 |}; TY {| mid := (Some 12); mcmd := CSave; mobj := None; mrun := 1 |}; TY {| mid := (Some 13); mcmd := (CCloseRun None RsEmpty); mobj := None; mrun := 1 |}; TR (VUid 0)])].
Definition exk_ledger := [DVal (0)%Z; DVal (1)%Z; DVal (2)%Z; DVal (3)%Z].
Definition exk_paus := [2].
Definition exk_stag := [0; 3].
Definition exk_rec := true.
Definition exk_evs := [EvMain (ACall 0); EvPermit; EvTask; EvTask; EvTask; EvTask; EvTask; EvCacheDone; EvTask; EvTask; EvTask; EvTask; EvReqPause false; EvTask; EvMainDone (ACall 0); EvMain AResume; EvPermit; EvTask; EvTask; EvTask; EvTask; EvTask; EvTask; EvTask; EvCacheDone; EvTask; EvTask; EvTask; EvTask; EvTask; EvTask; EvTask; EvTask; EvTask; EvMainDone AResume].
Definition exk_obs : list obs := [(OState Idle Running); (OTask WSleep0); (OPlanIn 0 (Send VNone)); (OMsg {| mid := (Some 0); mcmd := COpenRun; mobj := None; mrun := 1 |}); (ODoc (DStart 0)); (ODoc (DDescr 0 1 [])); (OResp (RVal (VUid 0))); (OTask WSleep0); (OPlanIn 0 (Send (VUid 0))); (OMsg {| mid := (Some 1); mcmd := CCheckpoint; mobj := None; mrun := 0 |}); (OResp (RVal VNone)); (OTask WSleep0); (OPlanIn 0 (Send VNone)); (OMsg {| mid := (Some 2); mcmd := (CCreate 0); mobj := None; mrun := 1 |}); (OResp (RVal VNone)); (OTask WSleep0); (OPlanIn 0 (Send VNone)); (OMsg {| mid := (Some 3); mcmd := CRead; mobj := (Some 1); mrun := 1 |}); (ODev 1 MRead); (OTask WFuture); (OResp (RVal (VReading 1 (0)%Z))); (OTask WSleep0); (OPlanIn 0 (Send (VReading 1 (0)%Z))); (OMsg {| mid := (Some 4); mcmd := CSave; mobj := None; mrun := 1 |}); (ODoc (DDescr 0 0 [1])); (ODoc (DEvent 0 0 1 [(1, (0)%Z)])); (OResp (RVal VNone)); (OTask WSleep0); (OPlanIn 0 (Send VNone)); (OMsg {| mid := (Some 5); mcmd := COpenRun; mobj := None; mrun := 2 |}); (ODoc (DStart 1)); (ODoc (DDescr 1 1 [])); (OResp (RVal (VUid 1))); (OTask WSleep0); (OPlanIn 0 (Send (VUid 1))); (OMsg {| mid := (Some 6); mcmd := (CCreate 0); mobj := None; mrun := 2 |}); (OResp (RVal VNone)); (OTask WSleep0); (OState Running Pausing); (ODoc (DIntr 0 1)); (ODoc (DIntr 1 1)); (OReq true); (OState Pausing Paused); (OTask WFuture); (OOut OutInterrupted Paused false true); (ODoc (DIntr 0 2)); (ODoc (DIntr 1 2)); (OState Paused Running); (OTask WSleep0); (OMsg {| mid := (Some 2); mcmd := (CCreate 0); mobj := None; mrun := 1 |}); (OResp (RVal VNone)); (OTask WSleep0); (OMsg {| mid := (Some 3); mcmd := CRead; mobj := (Some 1); mrun := 1 |}); (ODev 1 MRead); (OResp (RVal (VReading 1 (1)%Z))); (OTask WSleep0); (OMsg {| mid := (Some 4); mcmd := CSave; mobj := None; mrun := 1 |}); (ODoc (DEvent 0 0 1 [(1, (1)%Z)])); (OResp (RVal VNone)); (OTask WSleep0); (OMsg {| mid := (Some 6); mcmd := (CCreate 0); mobj := None; mrun := 2 |}); (OResp (RVal VNone)); (OTask WSleep0); (OTask WSleep0); (OPlanIn 0 (Send VNone)); (OMsg {| mid := (Some 7); mcmd := CRead; mobj := (Some 1); mrun := 2 |}); (ODev 1 MRead); (OTask WFuture); (OResp (RVal (VReading 1 (2)%Z))); (OTask WSleep0); (OPlanIn 0 (Send (VReading 1 (2)%Z))); (OMsg {| mid := (Some 8); mcmd := CSave; mobj := None; mrun := 2 |}); (ODoc (DDescr 1 0 [1])); (ODoc (DEvent 1 0 1 [(1, (2)%Z)])); (OResp (RVal VNone)); (OTask WSleep0); (OPlanIn 0 (Send VNone)); (OMsg {| mid := (Some 9); mcmd := (CCloseRun None RsEmpty); mobj := None; mrun := 2 |}); (ODoc (DStop 1 XSuccess RsEmpty [(1, 2); (0, 1)])); (OResp (RVal (VUid 1))); (OTask WSleep0); (OPlanIn 0 (Send (VUid 1))); (OMsg {| mid := (Some 10); mcmd := (CCreate 0); mobj := None; mrun := 1 |}); (OResp (RVal VNone)); (OTask WSleep0); (OPlanIn 0 (Send VNone)); (OMsg {| mid := (Some 11); mcmd := CRead; mobj := (Some 1); mrun := 1 |}); (ODev 1 MRead); (OResp (RVal (VReading 1 (3)%Z))); (OTask WSleep0); (OPlanIn 0 (Send (VReading 1 (3)%Z))); (OMsg {| mid := (Some 12); mcmd := CSave; mobj := None; mrun := 1 |}); (ODoc (DEvent 0 0 2 [(1, (3)%Z)])); (OResp (RVal VNone)); (OTask WSleep0); (OPlanIn 0 (Send VNone)); (OMsg {| mid := (Some 13); mcmd := (CCloseRun None RsEmpty); mobj := None; mrun := 1 |}); (ODoc (DStop 0 XSuccess RsEmpty [(1, 2); (0, 2)])); (OResp (RVal (VUid 0))); (OTask WSleep0); (OPlanIn 0 (Send (VUid 0))); (OTask WSleep0); (OState Running Idle); (OTask WReturn); (OOut (OutReturn [0; 1]) Idle false true)].
Example C01_nonvacuous :
  let l := model_steps exk_tapes exk_ledger exk_paus exk_stag exk_rec exk_evs in
  check exk_tapes exk_ledger exk_paus exk_stag exk_rec exk_evs exk_obs = true /\
  docs_ok exk_rec l = true /\ all_closed exk_rec l = true /\
  List.length (docs_of (flat_map snd l)) = 16 /\ List.length (filter is_start (docs_of (flat_map snd l))) = 2.
Proof. vm_compute. repeat split. Qed.

(* the checker is not trivially true: a second stop, an event of a closed run, a re-used uid are rejected *)
Example C01_monitor_rejects :
  docs_ok false [(EvTask, [ODoc (DStart 0); ODoc (DStop 0 XSuccess RsEmpty []); ODoc (DStop 0 XSuccess RsEmpty [])])] = false /\
  docs_ok false [(EvTask, [ODoc (DStart 0); ODoc (DStop 0 XSuccess RsEmpty []); ODoc (DEvent 0 0 1 [])])] = false /\
  docs_ok false [(EvTask, [ODoc (DStart 0); ODoc (DStart 0)])] = false /\
  docs_ok false [(EvTask, [ODoc (DStart 0); ODoc (DEvent 0 0 1 [])])] = false /\
  docs_ok false [(EvTask, [ODoc (DStart 0); OState Idle Running; OState Running Idle])] = false.
Proof. vm_compute. repeat split. Qed.
