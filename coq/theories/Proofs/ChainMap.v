(* Lemmas about Base/ChainMap.v (association-list dictionaries and ChainMap). *)
From Coq Require Import ZArith List Bool Lia ZifyBool NArith.
From BV Require Import Base.Prelude Base.ChainMap.

Section Assoc.
  Context {V : Type}.
  Implicit Types (d : dict V) (k : N).

  Lemma lookup_set_same k (v : V) d : lookup k (set k v d) = Some v.
  Proof.
    induction d as [|[k' v'] d IH]; cbn.
    - now rewrite N.eqb_refl.
    - destruct (N.eqb k k') eqn:E; cbn; [now rewrite N.eqb_refl | now rewrite E].
  Qed.

  Lemma lookup_set_other k k' (v : V) d : k' <> k -> lookup k' (set k v d) = lookup k' d.
  Proof.
    intros Hne. induction d as [|[k2 v2] d IH]; cbn.
    - destruct (N.eqb k' k) eqn:E; [apply N.eqb_eq in E; contradiction | reflexivity].
    - destruct (N.eqb k k2) eqn:E; cbn.
      + apply N.eqb_eq in E; subst k2.
        destruct (N.eqb k' k) eqn:E2; [apply N.eqb_eq in E2; contradiction | reflexivity].
      + destruct (N.eqb k' k2); [reflexivity | exact IH].
  Qed.

  Lemma lookup_In k d (v : V) : lookup k d = Some v -> In (k, v) d.
  Proof.
    induction d as [|[k' v'] d IH]; cbn; [discriminate|].
    destruct (N.eqb k k') eqn:E.
    - apply N.eqb_eq in E; subst. intros [= ->]. now left.
    - intros H; right; auto.
  Qed.

  Lemma lookup_None_notin k d : lookup k d = None <-> ~ In k (keys d).
  Proof.
    induction d as [|[k' v'] d IH]; cbn.
    - tauto.
    - destruct (N.eqb k k') eqn:E.
      + apply N.eqb_eq in E; subst. split; [discriminate | intros H; exfalso; apply H; now left].
      + apply N.eqb_neq in E. rewrite IH. split.
        * intros H [H1 | H1]; [congruence | auto].
        * intros H H1. apply H. now right.
  Qed.

  Lemma keys_set_in k (v : V) d : In k (keys d) -> keys (set k v d) = keys d.
  Proof.
    unfold keys. induction d as [|[k' v'] d IH]; cbn; [tauto|].
    destruct (N.eqb k k') eqn:E; cbn.
    - apply N.eqb_eq in E; now subst.
    - apply N.eqb_neq in E. intros [H | H]; [congruence | now rewrite IH].
  Qed.

  Lemma keys_set_notin k (v : V) d : ~ In k (keys d) -> keys (set k v d) = keys d ++ [k].
  Proof.
    unfold keys. induction d as [|[k' v'] d IH]; cbn; [reflexivity|].
    destruct (N.eqb k k') eqn:E; cbn.
    - apply N.eqb_eq in E; subst. intros H; exfalso; apply H; now left.
    - intros H. rewrite IH; [reflexivity | intros H1; apply H; now right].
  Qed.

  Lemma NoDup_keys_set k (v : V) d : NoDup (keys d) -> NoDup (keys (set k v d)).
  Proof.
    intros H. destruct (in_dec N.eq_dec k (keys d)) as [Hin | Hnin].
    - now rewrite keys_set_in.
    - rewrite keys_set_notin by assumption.
      apply NoDup_rev in H. rewrite <- (rev_involutive (keys d ++ [k])).
      apply NoDup_rev. rewrite rev_app_distr; cbn. constructor; [now rewrite <- in_rev | exact H].
  Qed.

  (* ---- ChainMap ---- *)

  Lemma mem_In k (l : list N) : mem k l = true <-> In k l.
  Proof.
    induction l as [|x l IH]; cbn; [split; [discriminate | tauto]|].
    rewrite orb_true_iff, IH, N.eqb_eq. split; intros [H | H]; auto.
  Qed.

  Lemma dedup_In k (l : list N) : In k (dedup l) <-> In k l.
  Proof.
    induction l as [|x l IH]; cbn; [tauto|].
    destruct (mem x l) eqn:E.
    - rewrite IH. apply mem_In in E. split; [auto | intros [H | H]; [now subst | auto]].
    - cbn. rewrite IH. tauto.
  Qed.

  Lemma dedup_NoDup (l : list N) : NoDup (dedup l).
  Proof.
    induction l as [|x l IH]; cbn; [constructor|].
    destruct (mem x l) eqn:E; [exact IH|].
    constructor; [|exact IH]. rewrite dedup_In. intros H. apply mem_In in H. congruence.
  Qed.

  Lemma chain_lookup_Some_key k (maps : list (dict V)) (v : V) :
    chain_lookup k maps = Some v -> In k (flat_map keys maps).
  Proof.
    induction maps as [|m ms IH]; cbn; [discriminate|].
    destruct (lookup k m) eqn:E.
    - intros _. apply in_or_app; left. apply lookup_In in E.
      unfold keys. apply in_map_iff. now exists (k, v0).
    - intros H. apply in_or_app; right. auto.
  Qed.

  (* looking a key up in the flat list built for the keys [ks] *)
  Lemma lookup_flat k (maps : list (dict V)) (ks : list N) :
    NoDup ks ->
    lookup k (flat_map (fun k0 => match chain_lookup k0 maps with Some v => [(k0, v)] | None => [] end) ks)
    = if mem k ks then chain_lookup k maps else None.
  Proof.
    induction ks as [|x ks IH]; intros Hnd; cbn; [reflexivity|].
    inversion Hnd as [|? ? Hx Hnd']; subst.
    destruct (N.eqb k x) eqn:E; cbn.
    - apply N.eqb_eq in E; subst x.
      destruct (chain_lookup k maps) eqn:C; cbn.
      + now rewrite N.eqb_refl.
      + rewrite IH by assumption.
        destruct (mem k ks) eqn:M; [apply mem_In in M; contradiction | reflexivity].
    - destruct (chain_lookup x maps) eqn:C; cbn.
      + rewrite E. now apply IH.
      + now apply IH.
  Qed.

  (* dict(ChainMap(maps))[k] = ChainMap(maps)[k]: the first map that has the key wins *)
  Lemma lookup_chain_merge k (maps : list (dict V)) :
    lookup k (chain_merge maps) = chain_lookup k maps.
  Proof.
    unfold chain_merge. rewrite lookup_flat by apply dedup_NoDup.
    destruct (mem k (dedup (flat_map keys maps))) eqn:M; [reflexivity|].
    destruct (chain_lookup k maps) eqn:C; [|reflexivity].
    apply chain_lookup_Some_key in C. apply dedup_In in C. apply mem_In in C. congruence.
  Qed.

  Lemma keys_flat (maps : list (dict V)) (ks : list N) :
    incl (keys (flat_map (fun k0 => match chain_lookup k0 maps with Some v => [(k0, v)] | None => [] end) ks)) ks.
  Proof.
    induction ks as [|x ks IH]; cbn; [apply incl_refl|].
    unfold keys in *. rewrite map_app.
    intros y Hy. apply in_app_or in Hy as [Hy | Hy].
    - destruct (chain_lookup x maps); cbn in Hy; [destruct Hy as [<- | []]; now left | destruct Hy].
    - right. now apply IH.
  Qed.

  Lemma NoDup_keys_flat (maps : list (dict V)) (ks : list N) :
    NoDup ks ->
    NoDup (keys (flat_map (fun k0 => match chain_lookup k0 maps with Some v => [(k0, v)] | None => [] end) ks)).
  Proof.
    induction ks as [|x ks IH]; intros Hnd; cbn; [constructor|].
    inversion Hnd as [|? ? Hx Hnd']; subst.
    destruct (chain_lookup x maps); cbn; [|now apply IH].
    constructor; [|now apply IH].
    intros H. apply Hx. now apply (keys_flat maps ks).
  Qed.

  (* a merged ChainMap is a proper dict: no key twice *)
  Lemma NoDup_keys_chain_merge (maps : list (dict V)) : NoDup (keys (chain_merge maps)).
  Proof. apply NoDup_keys_flat, dedup_NoDup. Qed.

  Lemma chain_lookup_cons k (m : dict V) ms :
    chain_lookup k (m :: ms) = match lookup k m with Some v => Some v | None => chain_lookup k ms end.
  Proof. reflexivity. Qed.
End Assoc.
