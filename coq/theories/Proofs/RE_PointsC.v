(* C03, layer C: one step of the `_run` task in the situations that occur while an open-loop checkpointed plan is
   executed, paused and resumed -- each as a closed-form equation for [task_step] (no fuel, no search):
   a message is yielded and processed / suspends, a finished replay list is popped, the plan returns,
   a cancelled task parks in "paused", the parked task continues, the task starts, the task finishes. *)
From Coq Require Import List String ZArith Bool Arith Lia.
From BV Require Import Engine.RE Engine.PointSpec Proofs.RE_Inv Proofs.RE_PointsA Proofs.RE_PointsB.
Import ListNotations.
Local Open Scope nat_scope.

Lemma allowed_pausing_paused : allowed Pausing Paused = true. Proof. vm_compute. reflexivity. Qed.
Lemma allowed_running_pausing : allowed Running Pausing = true. Proof. vm_compute. reflexivity. Qed.
Lemma allowed_running_idle : allowed Running Idle = true. Proof. vm_compute. reflexivity. Qed.
Lemma allowed_pausing_idle : allowed Pausing Idle = true. Proof. vm_compute. reflexivity. Qed.
Lemma allowed_idle_pausing : allowed Idle Pausing = false. Proof. vm_compute. reflexivity. Qed.
Lemma allowed_pausing_pausing : allowed Pausing Pausing = false. Proof. vm_compute. reflexivity. Qed.
Lemma allowed_paused_pausing : allowed Paused Pausing = false. Proof. vm_compute. reflexivity. Qed.

Lemma allowed_running_suspending : allowed Running Suspending = true. Proof. vm_compute. reflexivity. Qed.
Lemma allowed_suspending_running : allowed Suspending Running = true. Proof. vm_compute. reflexivity. Qed.
Lemma allowed_suspending_idle : allowed Suspending Idle = true. Proof. vm_compute. reflexivity. Qed.
Lemma allowed_suspending_pausing : allowed Suspending Pausing = false. Proof. vm_compute. reflexivity. Qed.
Lemma allowed_to_suspending a : a <> Running -> allowed a Suspending = false.
Proof. destruct a; intros H; try reflexivity; contradiction. Qed.
Lemma start_suspender_cacheable sid a b : cacheable (CStartSuspender sid a b) = false. Proof. vm_compute. reflexivity. Qed.

Lemma body_cacheable c : is_body c = true -> cacheable c = true.
Proof. destruct c; cbn; intros H; try discriminate H; vm_compute; reflexivity. Qed.
Lemma checkpoint_cacheable : cacheable CCheckpoint = true. Proof. vm_compute. reflexivity. Qed.
Lemma open_run_cacheable : cacheable COpenRun = false. Proof. vm_compute. reflexivity. Qed.
Lemma close_run_cacheable es rs : cacheable (CCloseRun es rs) = false. Proof. vm_compute. reflexivity. Qed.

Definition devonly (x : obs) : bool := match x with ODev _ _ => true | _ => false end.
Lemma devonly_devdoc o : forallb devonly o = true -> forallb devdoc o = true.
Proof. induction o as [|x o IH]; cbn; [reflexivity|]. intros H. apply andb_true_iff in H. destruct H as [H1 H2]. destruct x; try discriminate H1. cbn. apply IH. exact H2. Qed.
Lemma devonly_final_events o : forallb devonly o = true -> final_events o = [] /\ rundocs o = [].
Proof.
  induction o as [|x o IH]; cbn; [split; reflexivity|]. intros H. apply andb_true_iff in H. destruct H as [H1 H2].
  destruct x; try discriminate H1. cbn. apply IH. exact H2.
Qed.

Ltac ev_st := cbn [rstate_eqb sname String.eqb Ascii.eqb Bool.eqb orb andb negb].

Section C.
Variable P : Type.
Variable presume : P -> input -> outcome P.
Variable plan_of : nat -> P.
Variable D : Type.
Variable dev : D -> nat -> devmeth -> D * devres.

Local Notation st := (RE.st P D).
Local Notation state := (RE.state P D).
Local Notation pc := (RE.pc P D).
Local Notation must_cancel := (RE.must_cancel P D).
Local Notation permit := (RE.permit P D).
Local Notation plans := (RE.plans P D).
Local Notation resps := (RE.resps P D).
Local Notation cache := (RE.cache P D).
Local Notation rewindable := (RE.rewindable P D).
Local Notation exc_slot := (RE.exc_slot P D).
Local Notation stashed := (RE.stashed P D).
Local Notation interrupted := (RE.interrupted P D).
Local Notation deferred := (RE.deferred P D).
Local Notation bundlers := (RE.bundlers P D).
Local Notation uid_supply := (RE.uid_supply P D).
Local Notation record_intr := (RE.record_intr P D).
Local Notation main_err := (RE.main_err P D).
Local Notation exec_cmd := (RE.exec_cmd P D dev).
Local Notation dcall := (RE.dcall P D dev).
Local Notation stop_movables := (RE.stop_movables P D dev).
Local Notation call_pausables := (RE.call_pausables P D dev).
Local Notation frame_resume := (RE.frame_resume P presume).
Local Notation finalize := (RE.finalize P presume D dev).
Local Notation drive := (RE.drive P presume plan_of D dev).
Local Notation task_step := (RE.task_step P presume plan_of D dev).
Local Notation dstep := (RE_Inv.dstep P presume plan_of D dev).
Local Notation tentry := (RE_Inv.tentry P presume D dev).
Local Notation keeps := (keeps P D).
Local Notation set_pc := (RE.set_pc P D).
Local Notation set_resps := (RE.set_resps P D).
Local Notation set_must_cancel := (RE.set_must_cancel P D).
Local Notation set_permit := (RE.set_permit P D).
Local Notation set_blocking := (RE.set_blocking P D).
Local Notation set_state_raw := (RE.set_state_raw P D).
Local Notation set_exit := (RE.set_exit P D).
Local Notation replace_top := (RE.replace_top P D).
Local Notation pop_plan := (RE.pop_plan P D).

Ltac keeps_tac := unfold RE_PointsB.keeps, RE.put_bundler; simp_st; repeat split; reflexivity.

(* ------------------------------------------------------------------ terminating runs of the interpreter *)
Inductive dterm : st * ctl * list obs -> st * list obs -> nat -> Prop :=
  | dterm_stop s c os r : dstep s c os = inr r -> dterm (s, c, os) r 1
  | dterm_step s c os cfg r n : dstep s c os = inl cfg -> dterm cfg r n -> dterm (s, c, os) r (S n).

Lemma drive_dterm cfg r n : dterm cfg r n -> forall fuel, n <= fuel ->
  drive fuel (fst (fst cfg)) (snd (fst cfg)) (snd cfg) = r.
Proof.
  induction 1 as [s c os r H | s c os [[s1 c1] os1] r n H _ IH]; intros fuel Hf; cbn [fst snd].
  - destruct fuel as [|fuel]; [lia|]. rewrite drive_dstep, H. reflexivity.
  - destruct fuel as [|fuel]; [lia|]. rewrite drive_dstep, H. apply (IH fuel). lia.
Qed.

Lemma task_step_dterm s s1 c1 os1 r n :
  tentry s = inl (s1, c1, os1) -> dterm (s1, c1, os1) r n -> n <= 16 -> task_step s = r.
Proof.
  intros Ht Hd Hn. rewrite task_step_tentry, Ht.
  apply (drive_dterm _ _ _ Hd). unfold RE.FUEL. lia.
Qed.

(* ------------------------------------------------------------------ device calls leave everything but the devices alone *)
Definition dsame (s s' : st) : Prop :=
  keeps s s' /\ cache s' = cache s /\ bundlers s' = bundlers s /\ uid_supply s' = uid_supply s.
Lemma dsame_refl s : dsame s s.
Proof. split; [apply keeps_refl | repeat split]. Qed.
Lemma dsame_trans a b c : dsame a b -> dsame b c -> dsame a c.
Proof.
  intros (A1 & A2 & A3 & A4) (B1 & B2 & B3 & B4). split; [eapply keeps_trans; eassumption|]. repeat split; congruence.
Qed.
Ltac dsame_tac := unfold dsame; split; [keeps_tac | simp_st; repeat split; reflexivity].

Lemma dcall_dsame (s : st) d m s' r o : dcall s d m = (s', r, o) -> dsame s s' /\ o = [ODev d m].
Proof. unfold RE.dcall. destruct (dev _ _ _). intros H; inv H. split; [dsame_tac | reflexivity]. Qed.

Lemma stop_movables_ok (s : st) : exists s' o, stop_movables s = (s', o) /\ dsame s s' /\ forallb devonly o = true.
Proof.
  unfold RE.stop_movables.
  assert (G : forall l (s0 : st) o0, forallb devonly o0 = true ->
             exists s1 o1,
               fold_left (fun acc d => let '(s0, os) := acc in
                                       let '(s1, _, o) := dcall s0 d MStop in (s1, os ++ o)) l (s0, o0) = (s1, o1) /\
               dsame s0 s1 /\ forallb devonly o1 = true).
  { induction l as [|d l IH]; intros s0 o0 H0; cbn [fold_left].
    - exists s0, o0. split; [reflexivity | split; [apply dsame_refl | exact H0]].
    - destruct (dcall s0 d MStop) as [[sa ra] oa] eqn:E. apply dcall_dsame in E. destruct E as [E1 ->].
      destruct (IH sa (o0 ++ [ODev d MStop])) as (s1 & o1 & F1 & F2 & F3).
      { rewrite forallb_app, H0. reflexivity. }
      exists s1, o1. split; [exact F1 | split; [eapply dsame_trans; eassumption | exact F3]]. }
  apply G. reflexivity.
Qed.

Hypothesis Hdev : dev_typed D dev.

Lemma call_pausables_ok (s : st) m : m = MPause \/ m = MResume ->
  exists s' o, call_pausables s m = (s', None, o) /\ dsame s s' /\ forallb devonly o = true.
Proof.
  intros Hm. unfold RE.call_pausables.
  assert (G : forall l (s0 : st) o0, forallb devonly o0 = true ->
             exists s1 o1,
               fold_left (fun acc d =>
                 let '(s0, e, os) := acc in
                 match e with
                 | Some _ => acc
                 | None => if mem_nat d (RE.seen P D s0)
                           then let '(s1, r, o) := dcall s0 d m in
                                (s1, match r with DRaise x => Some x | _ => None end, os ++ o)
                           else acc
                 end) l (s0, None, o0) = (s1, None, o1) /\
               dsame s0 s1 /\ forallb devonly o1 = true).
  { induction l as [|d l IH]; intros s0 o0 H0; cbn [fold_left].
    - exists s0, o0. split; [reflexivity | split; [apply dsame_refl | exact H0]].
    - destruct (mem_nat d (RE.seen P D s0)).
      + destruct (dcall s0 d m) as [[sa ra] oa] eqn:E. pose proof E as E'. apply dcall_dsame in E. destruct E as [E1 ->].
        assert (Hr : match ra with DRaise x => Some x | _ => None end = None).
        { unfold RE.dcall in E'. destruct (dev (RE.dst P D s0) d m) as [d' r'] eqn:Ed. inv E'.
          destruct (Hdev (RE.dst P D s0) d) as (_ & _ & _ & Hp & Hr & _).
          destruct ra; try reflexivity. exfalso.
          destruct Hm as [-> | ->]; [apply (Hp e) | apply (Hr e)]; rewrite Ed; reflexivity. }
        rewrite Hr.
        destruct (IH sa (o0 ++ [ODev d m])) as (s1 & o1 & F1 & F2 & F3).
        { rewrite forallb_app, H0. reflexivity. }
        exists s1, o1. split; [exact F1 | split; [eapply dsame_trans; eassumption | exact F3]].
      + apply IH. exact H0. }
  apply G. reflexivity.
Qed.

(* ------------------------------------------------------------------ what `_run` does to a message before its command runs *)
Definition pre_exec (s : st) (m : msg) : st :=
  let s1 := match mobj m with Some d => RE.set_seen P D s (insert_sorted d (RE.seen P D s)) | None => s end in
  match cache s1 with
  | Some l => if rewindable s1 && cacheable (mcmd m) then RE.set_cache P D s1 (Some (l ++ [m])) else s1
  | None => s1
  end.

Lemma pre_exec_spec (s : st) m c :
  cache s = Some c -> rewindable s = true ->
  keeps s (pre_exec s m) /\ bundlers (pre_exec s m) = bundlers s /\ uid_supply (pre_exec s m) = uid_supply s /\
  cache (pre_exec s m) = Some (if cacheable (mcmd m) then c ++ [m] else c).
Proof.
  intros Hc Hr. unfold pre_exec. destruct (mobj m); simp_st; rewrite Hc, Hr; cbn [andb];
    destruct (cacheable (mcmd m)); simp_st; (split; [keeps_tac|]); repeat split; assumption.
Qed.

Definition in_class (m : msg) : bool := is_head (mcmd m) || bodym m.
(* messages whose command is run by [exec_cmd] and answered *)
Definition plain (m : msg) : bool := match mcmd m with CStartSuspender _ _ _ | CUnknown => false | _ => true end.
Lemma in_class_plain m : in_class m = true -> plain m = true.
Proof. unfold in_class, plain, bodym. destruct (mcmd m); cbn; intros H; try reflexivity; discriminate H. Qed.
(* what the end of a task step needs from the command *)
Definition keeps5 (s s' : st) : Prop :=
  state s' = state s /\ permit s' = permit s /\ plans s' = plans s /\ resps s' = resps s /\ stashed s' = stashed s.
Lemma keeps_keeps5 s s' : keeps s s' -> keeps5 s s'.
Proof. intros (K1 & K2 & K3 & K4 & K5 & K6 & K7 & _). unfold keeps5. auto. Qed.

(* ------------------------------------------------------------------ single interpreter steps *)
Lemma d_after_yield (s : st) os v rest top tl m f' po :
  stashed s = None -> exc_slot s = None -> resps s = RVal v :: rest -> plans s = top :: tl ->
  frame_resume top (Send v) = (Yielded m f', po) ->
  dstep s CAfterSleep os = inl (replace_top (set_resps s rest) f', CProcess m, os ++ po).
Proof.
  intros H1 H2 H3 H4 H5. unfold RE_Inv.dstep. cbv beta iota zeta. rewrite H3, H4. simp_st. rewrite H2. simp_st. rewrite H1, H5.
  reflexivity.
Qed.

Lemma d_after_return_more (s : st) os v rest top f2 tl v' po :
  stashed s = None -> exc_slot s = None -> resps s = RVal v :: rest -> plans s = top :: f2 :: tl ->
  frame_resume top (Send v) = (Returned v', po) ->
  dstep s CAfterSleep os = inl (pop_plan (set_resps s rest), CContinue false (RVal VNone), os ++ po).
Proof.
  intros H1 H2 H3 H4 H5. unfold RE_Inv.dstep. cbv beta iota zeta. rewrite H3, H4. simp_st. rewrite H2. simp_st. rewrite H1, H5.
  simp_st. rewrite H4. cbn [List.tl]. reflexivity.
Qed.

Lemma d_after_return_last (s : st) os v rest top v' po :
  stashed s = None -> exc_slot s = None -> resps s = RVal v :: rest -> plans s = [top] ->
  frame_resume top (Send v) = (Returned v', po) ->
  dstep s CAfterSleep os = inl (pop_plan (set_resps s rest), CExit (XRet v'), os ++ po).
Proof.
  intros H1 H2 H3 H4 H5. unfold RE_Inv.dstep. cbv beta iota zeta. rewrite H3, H4. simp_st. rewrite H2. simp_st. rewrite H1, H5.
  simp_st. rewrite H4. cbn [List.tl]. reflexivity.
Qed.

Lemma d_process (s : st) os m s3 cr o3 :
  plain m = true -> exec_cmd (pre_exec s m) m = (s3, cr, o3) ->
  dstep s (CProcess m) os =
  match cr with
  | Done r => inl (s3, CContinue true r, os ++ [OMsg m] ++ o3 ++ [OResp r])
  | Susp k => inr (set_pc s3 (PcCmd k), os ++ [OMsg m] ++ o3 ++ [OTask WFuture])
  end.
Proof.
  intros Hc He. unfold RE_Inv.dstep. cbv beta iota zeta. fold (pre_exec s m).
  unfold plain in Hc.
  destruct (mcmd m) eqn:Ecmd; cbn in Hc; try discriminate Hc; rewrite He; destruct cr; reflexivity.
Qed.

Lemma d_continue (s : st) os popped r :
  dstep s (CContinue popped r) os = inl (if popped then set_resps s (r :: resps s) else s, CTop, os).
Proof. reflexivity. Qed.

Lemma d_top_running (s : st) os : state s = Running -> permit s = true -> dstep s CTop os = inl (s, CBody, os ++ []).
Proof.
  intros H1 H2. unfold RE_Inv.dstep. cbv beta iota zeta. rewrite H1. ev_st. rewrite H2. cbn [negb]. reflexivity.
Qed.

Lemma d_body (s : st) os : List.length (resps s) = List.length (plans s) -> stashed s = None ->
  dstep s CBody os = inr (set_pc s PcSleep0, os ++ [OTask WSleep0]).
Proof.
  intros H1 H2. unfold RE_Inv.dstep. cbv beta iota zeta. rewrite H1, Nat.eqb_refl, H2. reflexivity.
Qed.

Lemma d_cancelled_pausing (s : st) os popped : state s = Pausing ->
  dstep s (CCancelled popped) os = inl (set_permit s false, CContinue popped (RVal VNone), os).
Proof. intros H. unfold RE_Inv.dstep. cbv beta iota zeta. rewrite H. reflexivity. Qed.

Lemma d_top_pause (s : st) os l :
  state s = Pausing -> cache s = Some l -> permit s = false ->
  exists s3 o23,
    dstep s CTop os = inr (set_pc (set_blocking (set_state_raw s3 Paused) true) PcPaused,
                           os ++ [] ++ o23 ++ [OState Pausing Paused] ++ [OTask WFuture]) /\
    dsame s s3 /\ forallb devonly o23 = true.
Proof.
  intros H1 H2 H3.
  destruct (stop_movables_ok s) as (s2 & o2 & E2 & S2 & Q2).
  destruct (call_pausables_ok s2 MPause (or_introl eq_refl)) as (s3 & o3 & E3 & S3 & Q3).
  exists s3, (o2 ++ o3). split; [|split; [eapply dsame_trans; eassumption | rewrite forallb_app, Q2, Q3; reflexivity]].
  unfold RE_Inv.dstep. cbv beta iota zeta. unfold RE.resumable. rewrite H1, H2. ev_st. rewrite H3. cbn [negb]. rewrite H1. ev_st.
  rewrite E2, E3. unfold RE.set_state.
  assert (Hs : state s3 = Pausing).
  { destruct (dsame_trans _ _ _ S2 S3) as ((K & _) & _). rewrite K. exact H1. }
  rewrite Hs, allowed_pausing_paused. rewrite <- !app_assoc. reflexivity.
Qed.

Lemma d_top_pausing_permit (s : st) os l :
  state s = Pausing -> cache s = Some l -> permit s = true -> dstep s CTop os = inl (s, CBody, os ++ []).
Proof.
  intros H1 H2 H3. unfold RE_Inv.dstep. cbv beta iota zeta. unfold RE.resumable. rewrite H1, H2. ev_st. rewrite H3. cbn [negb]. reflexivity.
Qed.

Lemma d_exit_ret (s : st) os v :
  dstep s (CExit (XRet v)) os = inr (set_pc (set_exit s XSuccess (RE.reason P D s)) (PcFinalSleep (TReturn v)), os ++ [OTask WSleep0]).
Proof. reflexivity. Qed.

(* ------------------------------------------------------------------ steps of the task *)
(* the frame on top yields a message of the class and its command completes *)
Lemma task_msg_done (s : st) v rest top tl m f' po s3 r o3 :
  pc s = PcSleep0 -> must_cancel s = false -> state s = Running -> permit s = true ->
  stashed s = None -> exc_slot s = None -> resps s = RVal v :: rest -> plans s = top :: tl ->
  List.length rest = List.length tl ->
  frame_resume top (Send v) = (Yielded m f', po) -> plain m = true ->
  exec_cmd (pre_exec (replace_top (set_resps (set_must_cancel s false) rest) f') m) m = (s3, Done r, o3) ->
  keeps5 (replace_top (set_resps (set_must_cancel s false) rest) f') s3 ->
  task_step s = (set_pc (set_resps s3 (r :: resps s3)) PcSleep0,
                 ((([] ++ po) ++ [OMsg m] ++ o3 ++ [OResp r]) ++ []) ++ [OTask WSleep0]).
Proof.
  intros Hpc Hmc Hst Hpm Hsh Hex Hrs Hpl Hlen Hfr Hcl Hexe Hk.
  destruct Hk as (K1 & K4 & K5 & K6 & K7). simp_st.
  rewrite Hpl in K5. cbn [List.tl] in K5.
  eapply task_step_dterm with (n := 5); [unfold RE_Inv.tentry; cbv zeta; rewrite Hpc, Hmc; reflexivity | | lia].
  eapply dterm_step; [eapply d_after_yield; simp_st; eassumption|].
  eapply dterm_step; [rewrite (d_process _ _ _ _ _ _ Hcl Hexe); reflexivity|].
  eapply dterm_step; [apply d_continue|]. cbv iota.
  eapply dterm_step; [apply d_top_running; simp_st; congruence|].
  eapply dterm_stop. apply d_body; simp_st; [rewrite K5, K6; cbn [List.length]; rewrite Hlen; reflexivity | congruence].
Qed.

(* ... or suspends on a future *)
Lemma task_msg_susp (s : st) v rest top tl m f' po s3 k o3 :
  pc s = PcSleep0 -> must_cancel s = false -> stashed s = None -> exc_slot s = None ->
  resps s = RVal v :: rest -> plans s = top :: tl ->
  frame_resume top (Send v) = (Yielded m f', po) -> plain m = true ->
  exec_cmd (pre_exec (replace_top (set_resps (set_must_cancel s false) rest) f') m) m = (s3, Susp k, o3) ->
  task_step s = (set_pc s3 (PcCmd k), ([] ++ po) ++ [OMsg m] ++ o3 ++ [OTask WFuture]).
Proof.
  intros Hpc Hmc Hsh Hex Hrs Hpl Hfr Hcl Hexe.
  eapply task_step_dterm with (n := 2); [unfold RE_Inv.tentry; cbv zeta; rewrite Hpc, Hmc; reflexivity | | lia].
  eapply dterm_step; [eapply d_after_yield; simp_st; eassumption|].
  eapply dterm_stop. rewrite (d_process _ _ _ _ _ _ Hcl Hexe). reflexivity.
Qed.

(* a replay list that is exhausted returns and is popped *)
Lemma task_pop (s : st) v rest top f2 tl v' :
  pc s = PcSleep0 -> must_cancel s = false -> state s = Running -> permit s = true ->
  stashed s = None -> exc_slot s = None -> resps s = RVal v :: rest -> plans s = top :: f2 :: tl ->
  frame_resume top (Send v) = (Returned v', []) ->
  List.length rest = S (List.length tl) ->
  task_step s = (set_pc (pop_plan (set_resps (set_must_cancel s false) rest)) PcSleep0, ((([] ++ []) ++ []) ++ [OTask WSleep0])).
Proof.
  intros Hpc Hmc Hst Hpm Hsh Hex Hrs Hpl Hfr Hlen.
  eapply task_step_dterm with (n := 4); [unfold RE_Inv.tentry; cbv zeta; rewrite Hpc, Hmc; reflexivity | | lia].
  eapply dterm_step; [eapply d_after_return_more with (v' := v') (po := []); simp_st; eassumption|].
  eapply dterm_step; [apply d_continue|]. cbv iota.
  eapply dterm_step; [apply d_top_running; simp_st; assumption|].
  eapply dterm_stop. apply d_body; simp_st; [rewrite Hpl; cbn [List.tl List.length]; exact Hlen | assumption].
Qed.

(* the plan returns: `_run` leaves its loop and takes its final sleep *)
Lemma task_return (s : st) v pid p started rv :
  pc s = PcSleep0 -> must_cancel s = false -> stashed s = None -> exc_slot s = None ->
  resps s = [RVal v] -> plans s = [FUser pid p started] -> presume p (Send v) = Returned rv ->
  task_step s =
  (set_pc (set_exit (pop_plan (set_resps (set_must_cancel s false) [])) XSuccess (RE.reason P D s)) (PcFinalSleep (TReturn rv)),
   ([] ++ [OPlanIn pid (Send v)]) ++ [OTask WSleep0]).
Proof.
  intros Hpc Hmc Hsh Hex Hrs Hpl Hret.
  eapply task_step_dterm with (n := 2); [unfold RE_Inv.tentry; cbv zeta; rewrite Hpc, Hmc; reflexivity | | lia].
  eapply dterm_step; [eapply d_after_return_last with (v' := rv) (po := [OPlanIn pid (Send v)]); simp_st; try eassumption|].
  { cbn [RE.frame_resume]. rewrite Hret. destruct started; reflexivity. }
  eapply dterm_stop. rewrite d_exit_ret. reflexivity.
Qed.

(* a cancelled task (hard pause request accepted) parks *)
Lemma task_pause (s : st) l :
  (pc s = PcSleep0 \/ exists k, pc s = PcCmd k) -> must_cancel s = true -> state s = Pausing -> cache s = Some l ->
  exists s3 o23,
    task_step s = (set_pc (set_blocking (set_state_raw s3 Paused) true) PcPaused,
                   [] ++ [] ++ o23 ++ [OState Pausing Paused] ++ [OTask WFuture]) /\
    dsame (let s0 := set_permit (set_must_cancel s false) false in
           match pc s with PcCmd _ => set_resps s0 (RVal VNone :: resps s0) | _ => s0 end) s3 /\
    forallb devonly o23 = true.
Proof.
  intros Hpc Hmc Hst Hc.
  set (s0 := set_permit (set_must_cancel s false) false).
  set (s1 := match pc s with PcCmd _ => set_resps s0 (RVal VNone :: resps s0) | _ => s0 end).
  destruct (d_top_pause s1 [] l) as (s3 & o23 & E & S & Q).
  { subst s1 s0. destruct (pc s); simp_st; exact Hst. }
  { subst s1 s0. destruct (pc s); simp_st; exact Hc. }
  { subst s1 s0. destruct (pc s); simp_st; reflexivity. }
  exists s3, o23. split; [|split; [exact S | exact Q]].
  destruct Hpc as [Hpc | [k Hpc]].
  - eapply task_step_dterm with (n := 3); [unfold RE_Inv.tentry; cbv zeta; rewrite Hpc, Hmc; reflexivity | | lia].
    eapply dterm_step; [apply d_cancelled_pausing; simp_st; exact Hst|].
    eapply dterm_step; [apply d_continue|]. cbv iota.
    eapply dterm_stop. subst s1 s0. rewrite Hpc in E. exact E.
  - eapply task_step_dterm with (n := 3); [unfold RE_Inv.tentry; cbv zeta; rewrite Hpc, Hmc; reflexivity | | lia].
    eapply dterm_step; [apply d_cancelled_pausing; simp_st; exact Hst|].
    eapply dterm_step; [apply d_continue|]. cbv iota.
    eapply dterm_stop. subst s1 s0. rewrite Hpc in E. exact E.
Qed.

(* the parked task gets the run permit back *)
Lemma task_unpark (s : st) :
  pc s = PcPaused -> must_cancel s = false -> permit s = true -> state s = Paused -> stashed s = None ->
  List.length (resps s) = List.length (plans s) ->
  task_step s = (set_pc (set_state_raw (set_must_cancel s false) Running) PcSleep0, [OState Paused Running] ++ [OTask WSleep0]).
Proof.
  intros Hpc Hmc Hpm Hst Hsh Hlen.
  eapply task_step_dterm with (n := 1);
    [unfold RE_Inv.tentry; cbv zeta; rewrite Hpc, Hmc; simp_st; rewrite Hpm, Hst; ev_st; unfold RE.set_state; simp_st;
     rewrite Hst, allowed_paused_running; reflexivity | | lia].
  eapply dterm_stop. apply d_body; simp_st; assumption.
Qed.

(* a command that was waiting on a future completes *)
Lemma task_cmd_done (s : st) s1 r o1 :
  state s1 = Running -> permit s1 = true -> stashed s1 = None ->
  S (List.length (resps s1)) = List.length (plans s1) ->
  tentry s = inl (s1, CContinue true r, o1) ->
  task_step s = (set_pc (set_resps s1 (r :: resps s1)) PcSleep0, (o1 ++ []) ++ [OTask WSleep0]).
Proof.
  intros Hst Hpm Hsh Hlen Ht.
  eapply task_step_dterm with (n := 3); [exact Ht | | lia].
  eapply dterm_step; [apply d_continue|]. cbv iota.
  eapply dterm_step; [apply d_top_running; simp_st; assumption|].
  eapply dterm_stop. apply d_body; simp_st; [cbn [List.length]; exact Hlen | assumption].
Qed.

(* the task starts *)
Lemma task_start (s : st) :
  (pc s = PcNotStarted \/ pc s = PcPermit0) -> must_cancel s = false -> permit s = true -> state s = Idle ->
  List.length (resps s) = List.length (plans s) ->
  task_step s =
  (set_pc (set_state_raw (set_exit (RE.set_stashed P D (set_must_cancel s false) None) (RE.exit_status P D s) RsEmpty) Running) PcSleep0,
   ([OState Idle Running] ++ []) ++ [OTask WSleep0]).
Proof.
  intros Hpc Hmc Hpm Hst Hlen.
  eapply task_step_dterm with (n := 2);
    [unfold RE_Inv.tentry; cbv zeta; destruct Hpc as [Hpc|Hpc]; rewrite Hpc, Hmc; simp_st; rewrite ?Hpm; unfold RE.set_state; simp_st;
     rewrite Hst, allowed_idle_running; reflexivity | | lia].
  eapply dterm_step; [apply d_top_running; simp_st; [reflexivity | assumption]|].
  eapply dterm_stop. apply d_body; simp_st; [assumption | reflexivity].
Qed.


(* ------------------------------------------------------------------ the end of `_run` *)
Lemma unstage_fold_ok : forall l (s0 : st) o0, forallb devonly o0 = true ->
  exists s1 o1,
    fold_left (fun acc d => let '(s0, os) := acc in
                            let '(sa, _, o) := dcall s0 d MUnstage in (sa, os ++ o)) l (s0, o0) = (s1, o1) /\
    dsame s0 s1 /\ forallb devonly o1 = true.
Proof.
  induction l as [|d l IH]; intros s0 o0 H0; cbn [fold_left].
  - exists s0, o0. split; [reflexivity | split; [apply dsame_refl | exact H0]].
  - destruct (dcall s0 d MUnstage) as [[sa ra] oa] eqn:E. apply dcall_dsame in E. destruct E as [E1 ->].
    destruct (IH sa (o0 ++ [ODev d MUnstage])) as (s1 & o1 & F1 & F2 & F3).
    { rewrite forallb_app, H0. reflexivity. }
    exists s1, o1. split; [exact F1 | split; [eapply dsame_trans; eassumption | exact F3]].
Qed.

Definition res_ok (r : tres) : bool := match r with TReturn _ | TRaise ECancelled => true | _ => false end.


Definition is_single (f : frame P) : bool := match f with FSingle _ _ => true | _ => false end.
Lemma close_singles l : forallb is_single l = true -> flat_map (fun f => snd (frame_resume f Close)) l = [].
Proof.
  induction l as [|f l IH]; cbn [flat_map forallb]; [reflexivity|]. intros H. apply andb_true_iff in H. destruct H as [H1 H2].
  destruct f; try discriminate H1. cbn. apply IH. exact H2.
Qed.
Lemma forallb_rev {A} (f : A -> bool) l : forallb f (rev l) = forallb f l.
Proof. induction l as [|x l IH]; cbn; [reflexivity|]. rewrite forallb_app, IH. cbn. rewrite andb_true_r. apply andb_comm. Qed.

Lemma finalize_done (s : st) r pend :
  forallb is_single (plans s) = true -> bundlers s = [] -> stashed s = None -> allowed (state s) Idle = true ->
  exists s' o,
    finalize s r pend = (s', o) /\
    pc s' = PcDone (match pend with Some e => TRaise e | None => r end) /\ state s' = Idle /\
    (main_err s' = main_err s /\ cache s' = cache s) /\
    final_events o = [] /\ rundocs o = [] /\
    no_raise o = res_ok (match pend with Some e => TRaise e | None => r end).
Proof.
  intros Hpl Hbs Hsh Hal. unfold RE.finalize.
  destruct (stop_movables_ok (RE.set_pardon P D s true)) as (s2 & o2 & E2 & S2 & Q2). rewrite E2.
  destruct (unstage_fold_ok (RE.staged P D s2) s2 [] eq_refl) as (s3 & o3 & E3 & S3 & Q3). rewrite E3.
  pose proof (dsame_trans _ _ _ S2 S3) as ((K1 & K2 & K3 & K4 & K5 & K6 & K7 & K8 & K9 & K10 & K11 & K12 & K13) & C1 & C2 & C3).
  simp_st. unfold RE.close_runs, RE.close_frames, RE.set_state. simp_st.
  rewrite C2, Hbs, K5, K7, Hsh, K1, Hal. rewrite (close_singles (rev (plans s))) by (rewrite forallb_rev; exact Hpl).
  cbn [flat_map app].
  do 2 eexists. split; [reflexivity|]. simp_st. split; [reflexivity|]. split; [reflexivity|]. split; [split; [exact K13 | exact C1]|].
  destruct (devonly_final_events _ Q2) as [F2 G2]. destruct (devonly_final_events _ Q3) as [F3 G3].
  rewrite !final_events_app, !rundocs_app, F2, F3, G2, G3. split; [reflexivity|]. split; [reflexivity|].
  rewrite !no_raise_app, (devdoc_no_raise _ (devonly_devdoc _ Q2)), (devdoc_no_raise _ (devonly_devdoc _ Q3)).
  destruct pend as [e|]; [destruct e | destruct r as [v|e]; [|destruct e]]; reflexivity.
Qed.

(* ------------------------------------------------------------------ requests and main-thread calls *)
Definition nobintr (l : list (nat * bundler)) : bool := forallb (fun kb => negb (bintr (snd kb))) l.

Lemma record_intr_list_nobintr l : nobintr l = true -> record_intr_list l = (l, [], true).
Proof.
  induction l as [|[k b] l IH]; cbn; intros H; [reflexivity|]. apply andb_true_iff in H. destruct H as [H1 H2].
  unfold b_record_intr. destruct (bintr b); [discriminate H1|]. rewrite IH by exact H2. reflexivity.
Qed.

(* an accepted hard pause request *)
Lemma request_pause_hard (s : st) :
  state s = Running -> nobintr (bundlers s) = true ->
  let s1 := RE.interrupt P D (RE.set_deferred P D s false) CzPause in
  let s1' := match pc s with PcFinalSleep _ => RE.set_ghost P D s1 (RE.icause P D s1) true (RE.intr_err P D s1) | _ => s1 end in
  RE.request_pause P D s false =
  (RE.cancel_task P D (RE.set_bundlers P D (set_state_raw s1' Pausing) (bundlers s)), None, [OState Running Pausing] ++ []).
Proof.
  intros Hst Hnb. cbv zeta. unfold RE.request_pause. rewrite Hst, allowed_running_pausing. cbn [negb].
  unfold RE.set_state, RE.record_interruptions. simp_st.
  destruct (pc s); simp_st; rewrite Hst, allowed_running_pausing; simp_st; rewrite (record_intr_list_nobintr _ Hnb); reflexivity.
Qed.

(* a refused one *)
Lemma request_pause_refused (s : st) : allowed (state s) Pausing = false ->
  RE.request_pause P D s false = (s, Some ETransition, []).
Proof. intros H. unfold RE.request_pause. rewrite H. reflexivity. Qed.

(* the grace sleep of a checkpoint reached with a deferred pause pending is over: the engine pauses now *)
Lemma task_ckpt_sleep (s : st) l :
  pc s = PcCmd KCkptSleep -> must_cancel s = false -> state s = Running -> permit s = true -> stashed s = None ->
  cache s = Some l -> nobintr (bundlers s) = true -> S (List.length (resps s)) = List.length (plans s) ->
  let s0 := set_must_cancel s false in
  let s1 := RE.cancel_task P D (RE.set_bundlers P D (set_state_raw (RE.interrupt P D (RE.set_deferred P D s0 false) CzPause) Pausing) (bundlers s0)) in
  task_step s = (set_pc (set_resps s1 (RVal VNone :: resps s1)) PcSleep0,
                 (((([OState Running Pausing] ++ []) ++ [OResp (RVal VNone)]) ++ []) ++ [OTask WSleep0])).
Proof.
  intros Hpc Hmc Hst Hpm Hsh Hc Hnb Hlen. cbv zeta.
  pose proof (request_pause_hard (set_must_cancel s false)) as Hrp. cbv zeta in Hrp. simp_st. rewrite Hpc in Hrp.
  specialize (Hrp Hst Hnb).
  eapply task_step_dterm with (n := 3);
    [unfold RE_Inv.tentry; cbv zeta; rewrite Hpc, Hmc; rewrite Hrp; reflexivity | | lia].
  eapply dterm_step; [apply d_continue|]. cbv iota.
  eapply dterm_step; [eapply d_top_pausing_permit with (l := l); unfold RE.cancel_task; simp_st; rewrite Hpc; simp_st; first [assumption | reflexivity]|].
  eapply dterm_stop. apply d_body; unfold RE.cancel_task; simp_st; rewrite Hpc; simp_st; [cbn [List.length]; rewrite Hlen; reflexivity | assumption].
Qed.

(* resume() on a paused engine *)
Lemma resume_step (s : st) l :
  state s = Paused -> nobintr (bundlers s) = true -> cache s = Some l ->
  let s1 := RE.set_main P D (RE.set_interrupted P D s false) None false None (RE.exit_reason_set P D s) in
  let s3 := if Nat.eqb (List.length l) 0 then RE.set_cache P D s1 (Some [])
            else RE.map_bundlers P D b_rewind (RE.set_cache P D s1 (Some [])) in
  exists s5 o5,
    RE.step P presume plan_of D dev s (EvMain AResume) = (set_blocking s5 false, [] ++ o5) /\
    dsame (RE.push_frame P D s3 (FList l)) s5 /\ forallb devonly o5 = true.
Proof.
  intros Hst Hnb Hc. cbv zeta. cbn [RE.step]. rewrite Hst. ev_st.
  unfold RE.record_interruptions. simp_st. rewrite (record_intr_list_nobintr _ Hnb). cbn [negb]. simp_st. rewrite Hc.
  unfold RE.rewind. simp_st. rewrite Hc.
  match goal with |- context [call_pausables ?x MResume] =>
    destruct (call_pausables_ok x MResume (or_intror eq_refl)) as (s5 & o5 & E5 & S5 & Q5) end.
  rewrite E5. exists s5, o5. split; [reflexivity|]. split; [|exact Q5].
  destruct (Nat.eqb (List.length l) 0); exact S5.
Qed.


(* ------------------------------------------------------------------ suspension *)
Definition smsg (sid : nat) : msg := RE.mk (CStartSuspender sid false false).
Definition mkhelper (ph : hphase P) (sid : nat) (was : bool) (rw : list msg) : helper P :=
  {| hph := ph; hsid := sid; hpre := None; hpost := None; hwas := was; hrw := rw |}.

(* the state after `_start_suspender`: interruptions recorded, devices stopped and paused, rewound *)
Lemma exec_start_suspender_ok (s : st) sid l :
  nobintr (bundlers s) = true -> cache s = Some l ->
  exists s3 o,
    RE.exec_start_suspender P plan_of D dev s sid false false =
    (RE.push_frame P D (if Nat.eqb (List.length l) 0 then RE.set_cache P D s3 (Some [])
                        else RE.map_bundlers P D b_rewind (RE.set_cache P D s3 (Some [])))
                   (FHelper (mkhelper H0 sid (rewindable s) l)), Done (RVal VNone), [] ++ o) /\
    dsame s s3 /\ forallb devonly o = true.
Proof.
  intros Hnb Hc. unfold RE.exec_start_suspender, RE.record_interruptions. rewrite (record_intr_list_nobintr _ Hnb). cbn [negb].
  destruct (stop_movables_ok (RE.set_bundlers P D s (bundlers s))) as (s2 & o2 & E2 & S2 & Q2). rewrite E2.
  destruct (call_pausables_ok s2 MPause (or_introl eq_refl)) as (s3 & o3 & E3 & S3 & Q3). rewrite E3.
  assert (S : dsame s s3).
  { eapply dsame_trans; [|exact S3]. eapply dsame_trans; [|exact S2]. dsame_tac. }
  pose proof S as ((K1 & K2 & K3 & K4 & K5 & K6 & K7 & K8 & K9 & K10 & K11 & K12 & K13) & C1 & C2 & C3).
  rewrite C1, Hc. unfold RE.rewind. rewrite C1, Hc.
  exists s3, (o2 ++ o3). split; [|split; [exact S | rewrite forallb_app, Q2, Q3; reflexivity]].
  unfold mkhelper. destruct (Nat.eqb (List.length l) 0); simp_st; rewrite K11; reflexivity.
Qed.

Lemma d_process_start (s : st) os sid s3 r o3 :
  RE.exec_start_suspender P plan_of D dev (pre_exec s (smsg sid)) sid false false = (s3, Done r, o3) ->
  dstep s (CProcess (smsg sid)) os = inl (s3, CContinue true r, os ++ [OMsg (smsg sid)] ++ o3 ++ [OResp r]).
Proof.
  intros He. unfold RE_Inv.dstep. cbv beta iota zeta. fold (pre_exec s (smsg sid)). cbn [mcmd smsg RE.mk]. cbn [mcmd smsg RE.mk] in He.
  rewrite He. reflexivity.
Qed.

Lemma pre_exec_smsg (s : st) sid : pre_exec s (smsg sid) = s.
Proof.
  unfold pre_exec. cbn [mobj smsg RE.mk mcmd]. rewrite start_suspender_cacheable, andb_false_r. destruct (cache s); reflexivity.
Qed.

(* the `_start_suspender` message is yielded by its single-message plan and processed *)
Lemma task_start_suspender (s : st) rest tl sid l :
  pc s = PcSleep0 -> must_cancel s = false -> state s = Running -> permit s = true ->
  stashed s = None -> exc_slot s = None -> resps s = RVal VNone :: rest -> plans s = FSingle (smsg sid) false :: tl ->
  List.length rest = List.length tl -> nobintr (bundlers s) = true -> cache s = Some l ->
  exists s3 o,
    let sA := replace_top (set_resps (set_must_cancel s false) rest) (FSingle (smsg sid) true) in
    let s4 := RE.push_frame P D (if Nat.eqb (List.length l) 0 then RE.set_cache P D s3 (Some [])
                                 else RE.map_bundlers P D b_rewind (RE.set_cache P D s3 (Some [])))
                            (FHelper (mkhelper H0 sid (rewindable s) l)) in
    task_step s = (set_pc (set_resps s4 (RVal VNone :: resps s4)) PcSleep0,
                   ((([] ++ []) ++ [OMsg (smsg sid)] ++ ([] ++ o) ++ [OResp (RVal VNone)]) ++ []) ++ [OTask WSleep0]) /\
    dsame sA s3 /\ forallb devonly o = true.
Proof.
  intros Hpc Hmc Hst Hpm Hsh Hex Hrs Hpl Hlen Hnb Hc.
  set (sA := replace_top (set_resps (set_must_cancel s false) rest) (FSingle (smsg sid) true)).
  destruct (exec_start_suspender_ok sA sid l) as (s3 & o & E & S & Q); [subst sA; simp_st; exact Hnb | subst sA; simp_st; exact Hc |].
  exists s3, o. cbv zeta. split; [|split; [exact S | exact Q]].
  pose proof S as ((K1 & K2 & K3 & K4 & K5 & K6 & K7 & K8 & K9 & K10 & K11 & K12 & K13) & C1 & C2 & C3).
  subst sA. simp_st. rewrite Hpl in K5. cbn [List.tl] in K5.
  eapply task_step_dterm with (n := 5); [unfold RE_Inv.tentry; cbv zeta; rewrite Hpc, Hmc; reflexivity | | lia].
  eapply dterm_step; [eapply d_after_yield with (m := smsg sid) (f' := FSingle (smsg sid) true) (po := []); simp_st; try eassumption; reflexivity|].
  eapply dterm_step; [apply d_process_start; rewrite pre_exec_smsg; exact E|].
  eapply dterm_step; [apply d_continue|]. cbv iota.
  eapply dterm_step; [apply d_top_running; destruct (Nat.eqb (List.length l) 0); simp_st; congruence|].
  eapply dterm_stop. apply d_body; destruct (Nat.eqb (List.length l) 0); simp_st; try congruence;
    rewrite K5, K6; cbn [List.length]; rewrite Hlen; reflexivity.
Qed.

(* a cancelled task whose engine is "suspending" goes back to running: the suspender plan is on top of the stack *)
Lemma d_cancelled_suspending (s : st) os popped : state s = Suspending ->
  dstep s (CCancelled popped) os = inl (s, CContinue popped (RVal VNone), os).
Proof. intros H. unfold RE_Inv.dstep. cbv beta iota zeta. rewrite H. reflexivity. Qed.

Lemma d_top_suspending (s : st) os l :
  state s = Suspending -> cache s = Some l -> permit s = true ->
  dstep s CTop os = inl (set_state_raw s Running, CBody, os ++ [OState Suspending Running]).
Proof.
  intros H1 H2 H3. unfold RE_Inv.dstep. cbv beta iota zeta. unfold RE.resumable, RE.set_state. rewrite H1, H2. ev_st.
  rewrite allowed_suspending_running. simp_st. rewrite H3. cbn [negb]. reflexivity.
Qed.

Lemma task_susp_cancel (s : st) l :
  must_cancel s = true -> state s = Suspending -> cache s = Some l -> permit s = true -> stashed s = None ->
  (pc s = PcSleep0 /\ List.length (resps s) = List.length (plans s) \/
   exists k, pc s = PcCmd k /\ S (List.length (resps s)) = List.length (plans s)) ->
  let s0 := set_must_cancel s false in
  let s1 := match pc s with PcCmd _ => set_resps s0 (RVal VNone :: resps s0) | _ => s0 end in
  task_step s = (set_pc (set_state_raw s1 Running) PcSleep0, ([] ++ [OState Suspending Running]) ++ [OTask WSleep0]).
Proof.
  intros Hmc Hst Hc Hpm Hsh Hcase. cbv zeta.
  destruct Hcase as [(Hpc & Hlen) | (k & Hpc & Hlen)]; rewrite Hpc.
  - eapply task_step_dterm with (n := 4); [unfold RE_Inv.tentry; cbv zeta; rewrite Hpc, Hmc; reflexivity | | lia].
    eapply dterm_step; [apply d_cancelled_suspending; simp_st; exact Hst|].
    eapply dterm_step; [apply d_continue|]. cbv iota.
    eapply dterm_step; [eapply d_top_suspending with (l := l); simp_st; assumption|].
    eapply dterm_stop. apply d_body; simp_st; assumption.
  - eapply task_step_dterm with (n := 4); [unfold RE_Inv.tentry; cbv zeta; rewrite Hpc, Hmc; reflexivity | | lia].
    eapply dterm_step; [apply d_cancelled_suspending; simp_st; exact Hst|].
    eapply dterm_step; [apply d_continue|]. cbv iota.
    eapply dterm_step; [eapply d_top_suspending with (l := l); simp_st; assumption|].
    eapply dterm_stop. apply d_body; simp_st; [cbn [List.length]; rewrite Hlen; reflexivity | assumption].
Qed.

End C.
