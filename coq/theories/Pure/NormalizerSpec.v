(* C35 (b) - executable restatement, over a whole run, of "nothing is lost":
   used as the boolean form of the full run-level statement (Props/C35.v: C35_b_full), evaluated on
   every correspondence case next to the implementation-side oracle, and by the model search.
   No proofs in this file. *)
From Coq Require Import String List ZArith Bool Arith.
From BV Require Import Pure.Normalizer.
Import ListNotations.
Open Scope string_scope.
Open Scope list_scope.

Definition dict_of (v : val) : dict := match v with VDict kv => kv | _ => [] end.
Definition get_or (k : string) (d : dict) (dflt : val) : val := match dget k d with Some x => x | None => dflt end.

(* the Events received, pages unpacked, in arrival order *)
Definition rows_of (v : val) : list dict := match transpose_dict v with inl r => r | inr _ => [] end.

Definition expand_events (docs : list (string * val)) : list dict :=
  flat_map (fun nd =>
    let '(name, d) := nd in
    let kv := dict_of d in
    if String.eqb name "event" then [kv]
    else if String.eqb name "event_page" then
      let uids := match dget "uid" kv with Some (VList l) => l | _ => [] end in
      let seqs := match dget "seq_num" kv with Some (VList l) => l | _ => [] end in
      let datas := rows_of (get_or "data" kv (VDict [])) in
      let fls := rows_of (get_or "filled" kv (VDict [])) in
      map (fun i => [("uid", nth i uids VNone); ("descriptor", get_or "descriptor" kv VNone);
                     ("seq_num", nth i seqs VNone); ("data", VDict (nth i datas []));
                     ("filled", VDict (nth i fls []))]) (seq 0 (List.length uids))
    else []) docs.

(* descriptor uid -> data_keys *)
Definition descriptors (docs : list (string * val)) : list (val * val) :=
  flat_map (fun nd =>
    let '(name, d) := nd in
    if String.eqb name "descriptor" then [(get_or "uid" (dict_of d) VNone, get_or "data_keys" (dict_of d) (VDict []))]
    else []) docs.

Definition is_external (spec : val) : bool := dhas "external" (dict_of spec).

(* the (event, external key, datum id) triples that must each become one StreamDatum *)
Definition expected_refs (docs : list (string * val)) : list (dict * string * val) :=
  let ds := descriptors docs in
  flat_map (fun e =>
    match vget (get_or "descriptor" e VNone) ds with
    | None => []
    | Some dksv =>
        let dks := dict_of dksv in
        let fl := dict_of (get_or "filled" e (VDict [])) in
        flat_map (fun kv =>
          match dget (fst kv) dks with
          | Some spec => if is_external spec && negb (truthy (get_or (fst kv) fl (VBool false)))
                         then [(e, fst kv, snd kv)] else []
          | None => []
          end) (dict_of (get_or "data" e (VDict [])))
    end) (expand_events docs).

Definition passthrough_uids (docs : list (string * val)) : list val :=
  flat_map (fun nd => if String.eqb (fst nd) "stream_datum" then [get_or "uid" (dict_of (snd nd)) VNone] else []) docs.

Definition out_uids (name : string) (o : list (string * val)) : list val :=
  flat_map (fun nd => if String.eqb (fst nd) name then [get_or "uid" (dict_of (snd nd)) VNone] else []) o.

Definition converted_uids (docs : list (string * val)) (o : list (string * val)) : list val :=
  filter (fun u => negb (existsb (atom_eqb u) (passthrough_uids docs))) (out_uids "stream_datum" o).

Fixpoint count_val (u : val) (l : list val) : nat :=
  match l with [] => O | x :: l' => (if atom_eqb u x then 1 else 0) + count_val u l' end.

Definition same_multiset (a b : list val) : bool :=
  Nat.eqb (List.length a) (List.length b) && forallb (fun u => Nat.eqb (count_val u a) (count_val u b)) a.

(* datum id -> frame entry, from the datum / datum_page documents of the stream *)
Definition datum_frames (docs : list (string * val)) : list (val * val) :=
  flat_map (fun nd =>
    let '(name, d) := nd in
    let kv := dict_of d in
    if String.eqb name "datum" then
      [(get_or "datum_id" kv VNone, get_or "frame" (dict_of (get_or "datum_kwargs" kv (VDict []))) VNone)]
    else if String.eqb name "datum_page" then
      let ids := match dget "datum_id" kv with Some (VList l) => l | _ => [] end in
      let fs := match dget "frame" (dict_of (get_or "datum_kwargs" kv (VDict []))) with Some (VList l) => l | _ => [] end in
      map (fun i => (nth i ids VNone, nth i fs VNone)) (seq 0 (List.length ids))
    else []) docs.

(* the same stream with every datum / datum_page moved in front of the first event:
   the arrival order in which no Event ever waits for its Datum *)
Definition is_datum_doc (nd : string * val) : bool := String.eqb (fst nd) "datum" || String.eqb (fst nd) "datum_page".
Definition is_event_doc (nd : string * val) : bool := String.eqb (fst nd) "event" || String.eqb (fst nd) "event_page".

Fixpoint split_at_first_event (docs : list (string * val)) : list (string * val) * list (string * val) :=
  match docs with
  | [] => ([], [])
  | nd :: r => if is_event_doc nd then ([], docs)
               else let '(a, b) := split_at_first_event r in (nd :: a, b)
  end.

Definition datums_first (docs : list (string * val)) : list (string * val) :=
  let '(pre, post) := split_at_first_event docs in
  filter (fun nd => negb (is_datum_doc nd)) pre ++ filter is_datum_doc docs ++ filter (fun nd => negb (is_datum_doc nd)) post.

Definition ranges_eqb (a b : option ((Z * Z) * (Z * Z))) : bool :=
  match a, b with
  | Some ((a1, a2), (a3, a4)), Some ((b1, b2), (b3, b4)) => Z.eqb a1 b1 && Z.eqb a2 b2 && Z.eqb a3 b3 && Z.eqb a4 b4
  | None, None => true
  | _, _ => false
  end.

Definition keys_overlap (docs : list (string * val)) : bool :=
  let ds := descriptors docs in
  let exts := flat_map (fun p => map fst (filter (fun kv => is_external (snd kv)) (dict_of (snd p)))) ds in
  let ints := flat_map (fun p => map fst (filter (fun kv => negb (is_external (snd kv))) (dict_of (snd p)))) ds in
  existsb (fun k => mem_str k ints) exts.

(* the run-level statement (for runs in which no handler raised):
   1. one Event out per Event in, in order (same uids);
   2. the StreamDatums made from Datums are, as a multiset of uids, exactly the datum ids referred to by
      (Event, unfilled external key) pairs - each exactly once;
   3. each has seq_nums = indices + 1, and indices = [seq_num - 1, seq_num) when its Datum has no frame;
   4. its ranges do not depend on whether the Datum or the Event arrived first (same ranges as in the
      datums-first arrival order). *)
Definition b_holds_b (docs : list (string * val)) : bool :=
  let r := run Deep [] docs in
  let rc := run Deep [] (datums_first docs) in
  let evs := expand_events docs in
  atoms_eqb (out_uids "event" (r_out r)) (map (fun e => get_or "uid" e VNone) evs)
  && (keys_overlap docs
      || (let exp := expected_refs docs in
          let frames := datum_frames docs in
          same_multiset (map (fun t => snd t) exp) (converted_uids docs (r_out r))
          && forallb (fun t =>
               let '(e, k, id) := t in
               match sdat_ranges id (r_out r) with
               | Some ((i0, i1), (q0, q1)) =>
                   Z.eqb q0 (i0 + 1) && Z.eqb q1 (i1 + 1)
                   && (match vget id frames with
                       | Some VNone | None =>
                           match get_or "seq_num" e VNone with
                           | VInt q => Z.eqb i0 (q - 1) && Z.eqb i1 q
                           | _ => false
                           end
                       | Some _ => true
                       end)
                   && ranges_eqb (sdat_ranges id (r_out r)) (sdat_ranges id (r_out rc))
               | None => false
               end) exp)).
