"""Cases of the C06 cleanup-ledger family (format: harness/drivers/cleanup_driver.py).

Small-scope exhaustive part: 14 plan bodies (flyers kicked off and collected / not collected / in a run the plan closes,
monitors left on / removed / in two runs, in-plan subscribe / unsubscribe, several run keys) x 9 endings (completion, plan
exception, failed pause, pause ended by resume / abort / stop / halt, abort and halt with a cleanup block in the plan) x
{no fault, one raising device call at every position the session reaches}; multi-call sessions on one engine with per-call
subscriptions, permanent subscriptions and unsubscribes between calls and while paused.  Then seeded random sessions."""

A, B, D = "A", "B", None


def call(steps, nsubs=0, pre=None, mode="flat", cleanup=None):
    return {"pre": pre or [], "nsubs": nsubs, "mode": mode, "steps": steps, "cleanup": cleanup or []}


BODIES = [
    ("kick-open", [["open", D], ["kickoff", D, 0]]),
    ("kick-close", [["open", D], ["kickoff", D, 0], ["close", D]]),                      # C06-a
    ("kick-collect", [["open", D], ["kickoff", D, 0], ["complete", 0], ["collect", D, 0], ["close", D]]),
    ("kick2", [["open", A], ["kickoff", A, 1], ["kickoff", A, 0], ["complete", 1], ["collect", A, 1]]),
    ("kick-rekick", [["open", D], ["kickoff", D, 0], ["collect", D, 0], ["kickoff", D, 0]]),
    ("kick-otherrun", [["open", A], ["open", B], ["kickoff", A, 0], ["collect", B, 0], ["close", B]]),
    ("mon-open", [["open", D], ["monitor", D, 0], ["monitor", D, 1]]),
    ("mon-unmon", [["open", D], ["monitor", D, 0], ["unmonitor", D, 0], ["close", D]]),
    ("mon-close", [["open", D], ["monitor", D, 0], ["monitor", D, 1], ["close", D]]),
    ("mon-tworuns", [["open", A], ["open", B], ["monitor", A, 0], ["monitor", B, 0], ["close", A], ["monitor", B, 1]]),
    ("mon-dup", [["open", D], ["monitor", D, 0], ["monitor", D, 0], ["unmonitor", D, 1]]),
    ("subs", [["subscribe", True], ["subscribe", True], ["unsubscribe", 1], ["subscribe", False], ["unsubscribe", 7]]),
    ("mixed", [["open", A], ["monitor", A, 0], ["kickoff", A, 0], ["subscribe", True], ["open", B], ["kickoff", B, 1], ["close", A]]),
    ("norun", [["kickoff", D, 0], ["collect", D, 0], ["monitor", D, 0], ["unmonitor", D, 0], ["close", D], ["complete", 0]]),
]

TAIL = [["complete", 0]]      # a message after the pause, processed only when the plan lives on


def endings(body):
    return [
        ("done", body, []),
        ("raise", body + [["raise"]], []),
        ("failedpause", body + [["failed_pause"]] + TAIL, []),
        ("resume", body + [["pause", [], "resume"]] + TAIL, []),
        ("abort", body + [["pause", [], "abort"]] + TAIL, []),
        ("stop", body + [["pause", [["msub"]], "stop"]] + TAIL, []),
        ("halt", body + [["pause", [], "halt"]] + TAIL, []),
        ("abort+cleanup", body + [["pause", [], "abort"]] + TAIL, [["unmonitor", D, 0], ["collect", D, 0], ["close", D]]),
        ("halt+cleanup", body + [["pause", [], "halt"]] + TAIL, [["collect", A, 0], ["close", A]]),
    ]


def max_calls(steps, cleanup):
    """an upper bound on the device calls of a session, for placing faults"""
    n = 0
    for st in steps + cleanup:
        n += {"kickoff": 3, "collect": 2, "monitor": 5, "unmonitor": 1, "complete": 1, "close": 2, "pause": 2}.get(st[0], 0)
    return n + 2


def exhaustive(tier):
    out = []
    for bname, body in BODIES:
        for ename, steps, cleanup in endings(body):
            for mode in ("flat", "swallow"):
                if mode == "swallow" and ename not in ("done", "abort", "halt+cleanup"):
                    continue
                tag = "cl %s %s %s" % (bname, ename, mode)
                out.append({"kind": "cleanup", "faults": [], "calls": [call(steps, mode=mode, cleanup=cleanup)], "tag": tag})
                npos = max_calls(steps, cleanup)
                stride = 1 if tier == "thorough" else 3
                first = 0 if tier == "thorough" else (len(bname) + len(ename)) % 3
                for pos in range(first, npos, stride):
                    out.append({"kind": "cleanup", "faults": [pos], "calls": [call(steps, mode=mode, cleanup=cleanup)],
                                "tag": tag + " fault@%d" % pos})
                if tier == "thorough":
                    for pos in range(0, npos - 1, 2):
                        out.append({"kind": "cleanup", "faults": [pos, pos + 1], "calls": [call(steps, mode=mode, cleanup=cleanup)],
                                    "tag": tag + " faults@%d,%d" % (pos, pos + 1)})
    return out


def sessions():
    out = []
    mon = [["open", D], ["monitor", D, 0]]
    fly = [["open", D], ["kickoff", D, 0]]
    # per-call subscriptions over consecutive calls, permanent ones in between
    out.append({"kind": "cleanup", "faults": [], "tag": "cl calls subs",
                "calls": [call(mon, nsubs=2, pre=[["msub"]]), call(fly, nsubs=1, pre=[["msub"]]), call([], nsubs=0), call(mon, nsubs=3)]})
    # in-plan subscription surviving its call, removed when the next one starts; a plan unsubscribing a per-call token
    out.append({"kind": "cleanup", "faults": [], "tag": "cl calls inplan",
                "calls": [call([["subscribe", True], ["unsubscribe", 0]], nsubs=1), call([["subscribe", True]], nsubs=1),
                          call([["unsubscribe", 2], ["unsubscribe", 3]], nsubs=0, mode="swallow")]})
    # the main thread removes a temporary token between calls / a plan removes a permanent one
    out.append({"kind": "cleanup", "faults": [], "tag": "cl calls munsub",
                "calls": [call([["subscribe", True]], nsubs=1, pre=[["msub"]]), call([], pre=[["munsub", 1], ["munsub", 9]], nsubs=1),
                          call([["unsubscribe", 0]], mode="swallow"), call([], pre=[["msub"], ["munsub", 4]])]})
    # subscriptions made and removed while paused
    for dec in ("resume", "abort", "stop", "halt"):
        out.append({"kind": "cleanup", "faults": [], "tag": "cl calls paused-" + dec,
                    "calls": [call(mon + [["subscribe", True], ["pause", [["msub"], ["munsub", 0], ["munsub", 1]], dec], ["subscribe", True]], nsubs=1),
                              call(fly, nsubs=1)]})
    # an interrupted call followed by a clean one; faults in the cleanup of the first
    for faults in ([], [2], [3], [2, 3], [4], [5], [6]):
        out.append({"kind": "cleanup", "faults": faults, "tag": "cl calls interrupted %s" % faults,
                    "calls": [call(mon + [["kickoff", D, 1], ["pause", [], "abort"]], nsubs=1),
                              call(mon + [["kickoff", D, 1], ["collect", D, 1], ["close", D]], nsubs=1)]})
    # C06-a in one call, the same flyer kicked off and collected in the next
    out.append({"kind": "cleanup", "faults": [], "tag": "cl calls lost-then-collected",
                "calls": [call(fly + [["close", D]]), call(fly + [["collect", D, 0], ["close", D]])]})
    # two pauses in one call
    out.append({"kind": "cleanup", "faults": [], "tag": "cl two pauses",
                "calls": [call(mon + [["pause", [], "resume"], ["monitor", D, 1], ["pause", [], "resume"], ["unmonitor", D, 0], ["pause", [], "stop"]])]})
    return out


def rand_steps(rng, n, toks):
    steps = []
    for _ in range(n):
        x = rng.random()
        k = rng.choice([D, D, A, A, B])
        if x < 0.17:
            steps.append(["open", k])
        elif x < 0.27:
            steps.append(["close", k])
        elif x < 0.42:
            steps.append(["kickoff", k, rng.choice([0, 0, 1, 2])])
        elif x < 0.47:
            steps.append(["complete", rng.choice([0, 1, 2])])
        elif x < 0.57:
            steps.append(["collect", k, rng.choice([0, 0, 1, 2])])
        elif x < 0.74:
            steps.append(["monitor", k, rng.choice([0, 0, 1, 2])])
        elif x < 0.82:
            steps.append(["unmonitor", k, rng.choice([0, 0, 1, 2])])
        elif x < 0.91:
            steps.append(["subscribe", rng.random() < 0.9])
        else:
            steps.append(["unsubscribe", rng.randint(0, toks + 3)])
    return steps


def rand_mainops(rng, toks, lo=0, hi=2):
    out = []
    for _ in range(rng.randint(lo, hi)):
        out.append(["msub"] if rng.random() < 0.6 else ["munsub", rng.randint(0, toks + 3)])
    return out


def rand_case(rng):
    calls = []
    toks = 0
    for _ in range(rng.choice([1, 1, 2, 2, 3])):
        pre = rand_mainops(rng, toks) if rng.random() < 0.5 else []
        nsubs = rng.choice([0, 0, 1, 2])
        steps = []
        if rng.random() < 0.75:
            k = rng.choice([D, A])
            steps += [["open", k], rng.choice([["kickoff", k, 0], ["monitor", k, 0], ["monitor", k, 1]])]
        steps += rand_steps(rng, rng.randint(1, 7), toks)
        x = rng.random()
        if x < 0.45:
            dec = rng.choice(["resume", "resume", "abort", "stop", "halt"])
            steps.append(["pause", rand_mainops(rng, toks, 0, 1), dec])
            steps += rand_steps(rng, rng.randint(0, 3), toks)
            if dec == "resume" and rng.random() < 0.4:
                steps.append(["pause", [], rng.choice(["abort", "stop", "halt", "resume"])])
                steps += rand_steps(rng, rng.randint(0, 2), toks)
        elif x < 0.55:
            steps.append(["raise"])
        elif x < 0.63:
            steps.append(["failed_pause"])
            steps += rand_steps(rng, 1, toks)
        cleanup = rand_steps(rng, rng.randint(1, 3), toks) if rng.random() < 0.3 else []
        calls.append(call(steps, nsubs=nsubs, pre=pre, mode=rng.choice(["flat", "swallow", "swallow"]), cleanup=cleanup))
        toks += nsubs + len(pre) + 2
    nf = rng.choice([0, 0, 1, 1, 2, 3])
    faults = sorted({rng.randint(0, 16) for _ in range(nf)})
    return {"kind": "cleanup", "faults": faults, "calls": calls, "tag": "cl random"}


def gen(rng, tier):
    out = exhaustive(tier) + sessions()
    for _ in range(150 if tier == "quick" else 4000):
        out.append(rand_case(rng))
    return out
