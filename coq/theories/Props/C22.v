(* C22 -- cleanup wrappers run their cleanup exactly once on every exit path.
   finalize_wrapper, finalize_decorator, contingency_wrapper (preprocessors.py 508-714) are the PyGen
   programs of Gen/Wrappers.v (transcribed statement for statement; run by the PyGen machine).
   The specification [cw_lresume skip o ...] is the phase machine of Gen/Wrappers.v: Python's
   try / except Exception / else / finally around a delegated plan (skip = false), resp. the same
   with the one documented deviation (skip = true): a GeneratorExit-kind exception leaving the
   wrapped plan -- the wrapper was closed or halted while the wrapped plan ran -- skips the except
   plan, the else plan AND the final plan.
   All theorems: for EVERY plan coalgebra (P, hres), all wrapped / except / else / final plans (states and
   functions into P), every script (any length, any mix of Send / Throw of any kind / Close), any fuel.
   ltrace = per step (yielded message | return value | raised class, calls made on each inner plan).
   Only `exact lemma` proofs here (Proofs/Wrappers.v, Proofs/WrappersThm.v).
   pause_for_debug: the handler first yields Msg('pause') (phase PhPause); finalize_wrapper does so for
   every exception that is not a GeneratorExit kind (base_handler = true), contingency_wrapper for
   Exception kinds. *)
From BV Require Import Base.Prelude Gen.Coalg Gen.PyGen Gen.Wrappers Proofs.Coalg Proofs.Wrappers Proofs.WrappersThm
  Proofs.WrappersSeq.
From BV Require Gen.Tie.

Definition exc_hole {P} (exc_plan : exn -> P) (dflt : P) : option exn -> P :=
  fun oe => match oe with Some e => exc_plan e | None => dflt end.

(* whole trace (and every inner plan's inputs) = the specification's *)
Theorem C22_contingency_wrapper_refines_spec :
  forall (P : Type) (hres : P -> input -> outcome P) (exc_plan : exn -> P) (else_plan fin_plan : P)
         (has_except has_else has_final auto_raise pause_for_debug : bool) (p : P) (s : list input) (fuel : nat),
    let o := mkOpts has_except has_else has_final auto_raise pause_for_debug in
    ltrace (pg_lresume hres (60 + fuel))
           (pg_init (contingency_prog o)
                    [HLive p; HFun (exc_hole exc_plan fin_plan); HFun (fun _ => else_plan); HFun (fun _ => fin_plan)]) s
    = ltrace (cw_lresume hres true o false 1 2 3 exc_plan else_plan fin_plan) (PhStart p) s.
Proof. exact @contingency_refines. Qed.
Print Assumptions C22_contingency_wrapper_refines_spec.

Theorem C22_finalize_wrapper_refines_spec :
  forall (P : Type) (hres : P -> input -> outcome P) (fin_plan : P) (pause_for_debug final_is_callable : bool)
         (p : P) (s : list input) (fuel : nat),
    ltrace (pg_lresume hres (60 + fuel))
           (pg_init (finalize_wrapper_prog pause_for_debug) [HLive p; fin_hole fin_plan final_is_callable]) s
    = ltrace (cw_lresume hres true (finalize_opts pause_for_debug) true 1 2 1 (fun _ => fin_plan) fin_plan fin_plan)
             (PhStart p) s.
Proof. exact @finalize_wrapper_refines. Qed.
Print Assumptions C22_finalize_wrapper_refines_spec.

Theorem C22_finalize_decorator_refines_spec :
  forall (P : Type) (hres : P -> input -> outcome P) (fin_plan : P) (p : P) (s : list input) (fuel : nat),
    ltrace (pg_lresume hres (60 + fuel))
           (pg_init (finalize_decorator_prog true) [HLive p; HFun (fun _ => fin_plan)]) s
    = ltrace (cw_lresume hres true (finalize_opts false) true 1 2 1 (fun _ => fin_plan) fin_plan fin_plan) (PhStart p) s.
Proof. exact @finalize_decorator_refines. Qed.
Print Assumptions C22_finalize_decorator_refines_spec.

(* the decorated function invoked twice in a row by one caller: the single-call specification run twice,
   the second call from ITS OWN start with ITS OWN fresh final-plan instance (two_lresume, Gen/Wrappers.v;
   plans of the second call are numbered 2, 3 in the call log) *)
Theorem C22_finalize_decorator_fresh_cleanup_per_call :
  forall (P : Type) (hres : P -> input -> outcome P) (fin_plan : P) (p1 p2 : P) (s : list input) (fuel : nat),
    ltrace (pg_lresume hres (80 + fuel))
           (pg_init (decorated_calls 2)
                    [HLive p1; HFun (fun _ => fin_plan); HLive p2; HFun (fun _ => fin_plan)]) s
    = ltrace (two_lresume hres fin_plan) (QStart p1 p2) s.
Proof. exact @two_calls_refine. Qed.
Print Assumptions C22_finalize_decorator_fresh_cleanup_per_call.

(* the specification with skip = false IS Python's own statement (no cleanup flag) *)
Theorem C22_python_try_is_spec :
  forall (P : Type) (hres : P -> input -> outcome P) (exc_plan : exn -> P) (else_plan fin_plan : P)
         (has_except has_else has_final auto_raise pause_for_debug : bool) (p : P) (s : list input) (fuel : nat),
    let o := mkOpts has_except has_else has_final auto_raise pause_for_debug in
    ltrace (pg_lresume hres (60 + fuel))
           (pg_init (python_try_prog o)
                    [HLive p; HFun (exc_hole exc_plan fin_plan); HFun (fun _ => else_plan); HFun (fun _ => fin_plan)]) s
    = ltrace (cw_lresume hres false o false 1 2 3 exc_plan else_plan fin_plan) (PhStart p) s.
Proof. exact @python_try_refines. Qed.
Print Assumptions C22_python_try_is_spec.

(* never twice: also when the cleanup is interrupted by a second exception, on any script *)
Theorem C22_final_plan_at_most_once :
  forall (P : Type) (hres : P -> input -> outcome P) (o : cw_opts) (base_handler : bool) (exc_id else_id fin_id : nat)
         (exc_plan : exn -> P) (else_plan fin_plan : P),
    Nat.eqb fin_id 0 = false ->
    (o_exc o = true -> Nat.eqb fin_id exc_id = false) ->
    (o_else o = true -> Nat.eqb fin_id else_id = false) ->
    forall (s : list input) (ph : phase),
      count_enter fin_id (ltrace (cw_lresume hres true o base_handler exc_id else_id fin_id exc_plan else_plan fin_plan) ph s) <= 1.
Proof. exact @final_at_most_once. Qed.
Print Assumptions C22_final_plan_at_most_once.

(* exactly once whenever the started wrapper ends by returning or raising a non-GeneratorExit kind
   (return, exception, RequestAbort / RequestStop), however it got there *)
Theorem C22_final_plan_once_unless_generator_exit :
  forall (P : Type) (hres : P -> input -> outcome P) (o : cw_opts) (base_handler : bool) (exc_id else_id fin_id : nat)
         (exc_plan : exn -> P) (else_plan fin_plan : P),
    (o_exc o = true -> Nat.eqb fin_id exc_id = false) ->
    (o_else o = true -> Nat.eqb fin_id else_id = false) ->
    forall (s : list input) (ph : phase),
      started ph = true -> no_close s = true ->
      let t := ltrace (cw_lresume hres true o base_handler exc_id else_id fin_id exc_plan else_plan fin_plan) ph s in
      ends_plainly t = true -> count_enter fin_id t = need o ph.
Proof. exact @final_exactly_once. Qed.
Print Assumptions C22_final_plan_once_unless_generator_exit.

(* not when closed: close / PlanHalt while the wrapped plan runs touches only that plan *)
Theorem C22_no_cleanup_when_closed_in_plan :
  forall (P : Type) (hres : P -> input -> outcome P) (o : cw_opts) (base_handler : bool) (exc_id else_id fin_id : nat)
         (exc_plan : exn -> P) (else_plan fin_plan : P) (p : P),
    close_result (hres p Close) = CloseOk ->
    cw_lresume hres true o base_handler exc_id else_id fin_id exc_plan else_plan fin_plan (PhBody p) Close
      = (Raised EGeneratorExit, [Call 0 Close]) /\
    forall e, is_GeneratorExit e = true ->
      cw_lresume hres true o base_handler exc_id else_id fin_id exc_plan else_plan fin_plan (PhBody p) (Throw e)
      = (Raised e, [Call 0 Close]).
Proof. exact @closed_in_plan_no_cleanup. Qed.
Print Assumptions C22_no_cleanup_when_closed_in_plan.

(* the return value / exception of the wrapped plan (or of except_plan when auto_raise = False: the
   pending completion c) is what the wrapper ends with when the final plan returns *)
Theorem C22_outcome_preserved :
  forall (P : Type) (hres : P -> input -> outcome P) (o : cw_opts) (base_handler : bool) (exc_id else_id fin_id : nat)
         (exc_plan : exn -> P) (else_plan fin_plan : P) (q : P) (c : completion) (i : input) (w : val),
    input_no_ge_b i = true -> hres q i = Returned w ->
    fst (cw_lresume hres true o base_handler exc_id else_id fin_id exc_plan else_plan fin_plan (PhFinal q c) i)
    = match c with CRet v => Returned v | CExc e => Raised e | CNormal => Returned VNone end.
Proof. exact @outcome_preserved. Qed.
Print Assumptions C22_outcome_preserved.

(* non-vacuity: a failing plan with a cleanup that yields, aborted by the RunEngine in mid-cleanup *)
Definition nv_plan : stmt := SSeq (SYield None 0) (SRaise (EUser 1)).
Definition nv_final : stmt := SSeq (SYield None 2) (SYield None 3).
Definition nv_script : list input := [Send VNone; Send VNone; Throw ERequestAbort].

Example C22_nonvacuous :
  let t := ltrace (w_lresume 60) (pg_init (finalize_wrapper_prog false) [HLive (cl_init nv_plan); HLive (cl_init nv_final)]) nv_script in
  map fst t = [OYield 0; OYield 2; ORaise ERequestAbort] /\ count_enter 1 t = 1 /\
  no_close nv_script = true /\ ends_plainly t = true.
Proof. vm_compute. repeat split; reflexivity. Qed.

(* two calls, each runs its own cleanup once: messages 2,3 of the final plan appear after each call *)
Example C22_two_calls_nonvacuous :
  let t := ltrace (w_lresume 80)
                  (pg_init (decorated_calls 2)
                           [HLive (cl_init (SYield None 0)); HFun (fun _ => cl_init nv_final);
                            HLive (cl_init (SYield None 0)); HFun (fun _ => cl_init nv_final)])
                  [Send VNone; Send VNone; Send VNone; Send VNone; Send VNone; Send VNone; Send VNone] in
  map fst t = [OYield 0; OYield 2; OYield 3; OYield 0; OYield 2; OYield 3; OReturn VNone] /\
  count_enter 1 t = 1 /\ count_enter 3 t = 1.
Proof. vm_compute. repeat split; reflexivity. Qed.
