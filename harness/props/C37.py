"""C37 - file-name templates expand exactly like printf.

Four case kinds (one stream, `kind` field):
  c     C99 %d spec model  vs  libc snprintf (ctypes)             -- validates Printf.c_printf_d
  py    format mini-language model  vs  CPython format(int, spec)  -- validates Printf.py_format_d
  segs  a template of the property's grammar (literal text, %s, ONE integer conversion) through the real
        TIFFConsolidator: cons.template and get_datum_uri(n) for several n  -- validates the model of
        MultipartRelatedConsolidator.__init__/int_replacer/get_datum_uri, and is what the oracle
        (libc printf of the same template) looks at
  raw   arbitrary template strings (new-style fields, several conversions, braces, bare '.', ...)
"""
import ctypes
import itertools

ID = "C37"
PROP_FILE = "Props/C37.v"
THEOREMS = ["C37_conversion_like_printf", "C37_template_like_printf", "C37_e_refuted"]
COQ_IMPORTS = "From Coq Require Import NArith String.\nFrom BV Require Import Pure.Printf."
MODELLED = ("C99 %d semantics (flags -+#0 space, width, precision, non-negative argument) is a Gallina spec validated "
            "against libc snprintf ('#' has no effect on d: undefined in C99, ignored by glibc); CPython's format "
            "mini-language for int (type d/none, fill/align/sign/0/width; z, grouping and other types are outside the "
            "model and flagged) and str.format with one positional argument (auto-numbered fields, brace escapes) are "
            "models validated against CPython 3.12; str.replace and re.sub with the fixed pattern are modelled as "
            "left-to-right scanners (for this pattern greedy choices never need to be given back); the re module, "
            "libc and CPython themselves are trusted.  Templates: ASCII only; '%%', a bare '.' precision, length "
            "modifiers and '*' are outside the grammar.")
RULE = ("exhaustive: all 32 flag subsets x width in {none,1..12} x precision in {none,0..12} (quick: a 6x7 sub-grid; every "
        "pair incl. precision < width for the correspondence, oracle only on the property's domain) x indices "
        "{0,1,7,10,99,12345,10^9} through TIFFConsolidator; flag strings with repeats/other orders, precision with leading "
        "zeros, %s placement (0..3 occurrences), file names; the same grid against libc; all format specs "
        "[fill][align][sign][#][0][width] against CPython; random larger widths/precisions/indices; raw malformed templates. "
        "non-trivial = a conversion with a flag, width or precision that produced a name")

NS = [0, 1, 7, 10, 99, 12345, 10 ** 9]
FLAGCH = "-+#0 "
URI = "file://localhost/d/"

_libc = None


def c_printf(flags, width, prec, n, lz=0):
    """libc's answer for %<flags><width>.<prec>ld applied to n (the property's reference)."""
    global _libc
    if _libc is None:
        _libc = ctypes.CDLL(None)
        _libc.snprintf.restype = ctypes.c_int
    spec = "%" + flags + ("" if width is None else str(width)) + ("" if prec is None else "." + "0" * lz + str(prec)) + "ld"
    size = 64 + (width or 0) + (prec or 0) + len(str(n))
    buf = ctypes.create_string_buffer(size)
    r = _libc.snprintf(buf, ctypes.c_size_t(size), spec.encode("ascii"), ctypes.c_long(n))
    assert 0 <= r < size
    return buf.value.decode("ascii")


# ------------------------------------------------------------------------------------------ cases

def _conv(flags, width, prec, lz=0):
    return {"flags": flags, "width": width, "prec": prec, "lz": lz}


def _segs(conv, pre=None, post=None, filename="img", ns=None):
    pre = [["s"], ["s"], ["lit", "_"]] if pre is None else pre
    post = [["lit", ".tiff"]] if post is None else post
    return {"kind": "segs", "segs": pre + [["conv", conv]] + post, "filename": filename, "ns": ns or NS}


def cases(rng, tier):
    out = []
    subsets = ["".join(c for c, b in zip(FLAGCH, bits) if b) for bits in itertools.product([0, 1], repeat=5)]
    if tier == "quick":
        widths = [None, 1, 2, 6, 10, 12]
        precs = [None, 0, 1, 2, 6, 10, 12]
    else:
        widths = [None] + list(range(1, 13))
        precs = [None] + list(range(0, 13))
    # 1. the grid of the property through the consolidator, and the same grid against libc
    for fl in subsets:
        for w in widths:
            for p in precs:
                out.append(_segs(_conv(fl, w, p)))
                out.append({"kind": "c", "flags": fl, "width": w, "prec": p, "ns": NS})
    # 2. flag strings as written: repeats and other orders; precision with leading zeros; width 2 digits
    odd_flags = ["0-", "-0", "00", "+ ", " +", "--", "#0", "0#-", " 0 ", "+-0 #", "000", "- -"]
    for fl in odd_flags:
        for w, p, lz in [(None, None, 0), (6, None, 0), (None, 4, 0), (4, 4, 0), (3, 12, 0), (10, 10, 1), (None, 0, 2), (9, 10, 0)]:
            out.append(_segs(_conv(fl, w, p, lz)))
    for lz in (1, 2, 5):
        for p in (0, 3, 10):
            for w in (None, 1, 3):
                out.append(_segs(_conv("", w, p, lz)))
                out.append(_segs(_conv("+", w, p, lz)))
    # 3. where the %s and the literal text sit
    pres = [[], [["s"]], [["lit", "a"]], [["s"], ["s"]], [["lit", "x/"], ["s"], ["lit", "-"], ["s"], ["s"], ["lit", "_"]], [["lit", "s"], ["s"], ["lit", "s"]]]
    posts = [[["lit", ".tiff"]], [["s"], ["lit", ".tiff"]], [["lit", "d5.3"], ["s"], ["lit", "s.d.tif"], ["s"], ["lit", ".tiff"]], [["lit", "s.tiff"]]]
    for pre in pres:
        for post in posts:
            for fname in (None, "", "img", "a.b-c d"):
                for cv in (_conv("", None, None), _conv("0", 6, None), _conv("+", 6, 6), _conv("-", 4, None)):
                    out.append(_segs(cv, pre, post, fname, [0, 42]))
    for cv in (_conv("", None, None), _conv("0", 6, None), _conv("+", 6, 6), _conv("-0", 4, None), _conv(" ", None, 3, 1)):
        for ext in (".jpg", ".jpeg", ".tiff"):
            c = _segs(cv, None, [["lit", ext]], "img", [0, 42])
            c["fmt"] = "jpeg"
            out.append(c)
    # 4. format mini-language against CPython
    fills = [None, "x", "0", " "] if tier == "quick" else [None, "x", "0", " ", "<", "+", "d"]
    for fill in fills:
        for align in (None, "<", ">", "=", "^"):
            for sign in (None, "+", "-", " "):
                for alt in ("", "#"):
                    for zero in ("", "0"):
                        for w in (("", "0", "3", "10") if tier == "quick" else ("", "0", "1", "3", "6", "10")):
                            spec = (fill or "") + (align or "") + (sign or "") + alt + zero + w + "d"
                            out.append({"kind": "py", "spec": spec, "ns": [0, 7, 12345]})
    for spec in ["", "d", "5", "05", ".3d", "5.2d", "5.d", ".d", "zd", "_d", ",d", "05,d", "x", "s", "c", "n", "e", "%", "q", "dd", "5dd",
                 "<", "<<", "<<<5d", "+<5d", "++d", "+ d", "#0d", "0#d", "00d", "000d", "+01d", "<05d", "d5", " ", "  ", "}", ":d", "=", "=5", "^^7"]:
        out.append({"kind": "py", "spec": spec, "ns": [0, 7, 12345]})
    # 5. raw templates: new-style fields, several conversions, braces, bare '.', unmatched things
    raws = [
        ("img_{:06d}.tiff", None, True), ("{:s}_{:06d}.tiff", "img", True), ("{:s}_{:06d}.tiff", None, True),
        ("%s_%d_%d.tiff", "img", True), ("%s_%5.d.tiff", "img", True), ("%s_%.d.tiff", "img", True),
        ("%s_%d{{x}}.tiff", "img", True), ("%s_%d}.tiff", "img", True), ("%s_%d{.tiff", "img", True), ("{.tiff", None, True),
        ("%s_{}.tiff", "img", True), ("%s_{}{}.tiff", "img", True), ("%s_%5x.tiff", "img", True), ("%s_%ld.tiff", "img", True),
        ("%s_%%d.tiff", "img", True), ("%s_%5.3f.tiff", "img", True), ("%s_%-+ #0d.tiff", "img", True), ("%d%s.tiff", "%d", True),
        ("%s.tiff", "%5d", True), ("%s_%d.tiff", "{}", True), ("%s%d.tiff", "{:s}", True), ("{:s}%s%d.tiff", "A", True),
        ("%s_{0}.tiff", "img", False), ("%s_{:{}}.tiff", "img", False), ("%s_{!r}.tiff", "img", False), ("%s_{a}.tiff", "img", False),
        ("%s_{:x}.tiff", "img", False), ("%s_{:,d}.tiff", "img", False), ("%s_{:zd}.tiff", "img", False), ("%", None, True),
        ("%s_%0.tiff", "img", True), ("%s_%12", "img", True), ("%s_%1.2", "img", True), ("%.tiff", None, True), ("%s%", "%sd", True),
        ("%%sd.tiff", "x", True), ("%s_%5.5.5d.tiff", "img", True), ("%s_%5-d.tiff", "img", True), ("%s_%1 d.tiff", "img", True),
    ]
    for t, f, modelled in raws:
        out.append({"kind": "raw", "template": t, "filename": f, "ns": [0, 42], "modelled": modelled})
    # 5b. the assert on the extension (os.path.splitext of the expanded template)
    for fmt in ("tiff", "jpeg"):
        for t in ["%s_%d.tiff", "%s_%d.tif", "%s_%d.jpg", "%s_%d.jpeg", "%s_%d.TIFF", "%s_%d", "%s_%d.", "%s_%d..tiff", "%s_%d.tar.tiff",
                  "%s/.tiff", ".tiff", "..tiff", "a/...tif", "%s.%d", "%s_%d.tiff/x", "%s_%d.tiff/x.tif", "%d.tiff", "%s%3.3d.jpg"]:
            for f in (None, "img", "a.b/", "."):
                out.append({"kind": "raw", "template": t, "filename": f, "ns": [0, 42], "modelled": True, "fmt": fmt})
    # 6. random: larger numbers, random flag strings, random literal text
    nrand = 300 if tier == "quick" else 6000
    alpha = "abcXYZ019_-. /+#sd:"
    for _ in range(nrand):
        fl = "".join(rng.choice(FLAGCH) for _ in range(rng.choice([0, 0, 1, 1, 2, 3, 5])))
        w = rng.choice([None, None, rng.randint(1, 20), rng.randint(1, 300)])
        p = rng.choice([None, None, rng.randint(0, 20), rng.randint(0, 300)])
        if w is not None and p is not None and p < w and rng.random() < 0.7:
            p = w + rng.randint(0, 5)
        lz = rng.choice([0, 0, 0, 1, 3]) if p is not None else 0
        ns = sorted({rng.choice([0, 1, 9, 10]), rng.randint(0, 10 ** rng.randint(1, 18)), rng.randint(0, 300)})
        r = rng.random()
        if r < 0.5:
            pre = []
            for _ in range(rng.randint(0, 3)):
                pre.append(["s"] if rng.random() < 0.5 else ["lit", "".join(rng.choice(alpha) for _ in range(rng.randint(0, 5)))])
            post = [["lit", "".join(rng.choice(alpha) for _ in range(rng.randint(0, 4)))]]
            if rng.random() < 0.3:
                post.append(["s"])
            post.append(["lit", ".tiff"])
            fname = rng.choice([None, "", "img", "".join(rng.choice(alpha) for _ in range(rng.randint(1, 6)))])
            out.append(_segs(_conv(fl, w, p, lz), pre, post, fname, ns))
        elif r < 0.75:
            out.append({"kind": "c", "flags": fl, "width": w, "prec": p, "ns": ns})
        elif r < 0.9:
            spec = rng.choice(["", "", "x", "0", "*"]) + rng.choice(["", "<", ">", "=", "^"]) + rng.choice(["", "+", "-", " "]) \
                + rng.choice(["", "#"]) + rng.choice(["", "0"]) + rng.choice(["", str(rng.randint(0, 40))]) + rng.choice(["d", "d", "d", ""])
            out.append({"kind": "py", "spec": spec, "ns": ns})
        else:
            chars = "%%%sd{}:.0156-+ ax"
            t = "".join(rng.choice(chars) for _ in range(rng.randint(1, 12))) + ".tiff"
            out.append({"kind": "raw", "template": t, "filename": rng.choice([None, "f", "{}", "%d"]), "ns": [0, 42], "modelled": False})
    return out


# ------------------------------------------------------------------------------------------ implementation

def render_conv(cv):
    return "%" + cv["flags"] + ("" if cv["width"] is None else str(cv["width"])) + \
        ("" if cv["prec"] is None else "." + "0" * cv["lz"] + str(cv["prec"])) + "d"


def render_segs(segs):
    return "".join(x[1] if x[0] == "lit" else "%s" if x[0] == "s" else render_conv(x[1]) for x in segs)


def _err(e):
    return {"err": type(e).__name__}


EXTS = {"tiff": {".tif", ".tiff"}, "jpeg": {".jpeg", ".jpg"}}
MIME = {"tiff": "multipart/related;type=image/tiff", "jpeg": "multipart/related;type=image/jpeg"}


def _exts(case):
    return case.get("fmt", "tiff") + "_exts"


def _consolidate(template, filename, ns, fmt="tiff"):
    from bluesky.consolidators import consolidator_factory
    desc = {"data_keys": {"k": {"shape": [1, 2, 2], "dtype": "array", "dtype_numpy": "<f8"}}, "uid": "d"}
    params = {"chunk_shape": (1,), "template": template}
    if filename is not None:
        params["filename"] = filename
    sres = {"data_key": "k", "mimetype": MIME[fmt], "uri": URI, "parameters": params, "uid": "s"}
    try:
        cons = consolidator_factory(sres, desc)
    except Exception as e:
        return {"init": _err(e)}
    names = []
    for n in ns:
        try:
            u = cons.get_datum_uri(n)
            names.append({"ok": u[len(URI):]} if u.startswith(URI) else {"err": "BadPrefix"})
        except Exception as e:
            names.append(_err(e))
    return {"template": cons.template, "names": names}


def impl(case):
    k = case["kind"]
    if k == "c":
        return {"outs": [c_printf(case["flags"], case["width"], case["prec"], n) for n in case["ns"]]}
    if k == "py":
        outs = []
        for n in case["ns"]:
            try:
                outs.append({"ok": format(n, case["spec"])})
            except Exception as e:
                outs.append(_err(e))
        return {"outs": outs}
    if k == "segs":
        return _consolidate(render_segs(case["segs"]), case["filename"], case["ns"], case.get("fmt", "tiff"))
    return _consolidate(case["template"], case["filename"], case["ns"], case.get("fmt", "tiff"))


# ------------------------------------------------------------------------------------------ Coq terms

def cs(s):
    assert all(32 <= ord(ch) < 127 for ch in s), s
    return '(L "%s")' % s.replace('"', '""')


def cl(xs):
    return "[" + "; ".join(xs) + "]"


def cn(n):
    return "%d%%N" % n


def copt(x, f=cn):
    return "None" if x is None else "(Some %s)" % f(x)


FLAGC = {"-": "Fminus", "+": "Fplus", "#": "Fhash", "0": "Fzero", " ": "Fspace"}


def cflags(fl):
    return cl([FLAGC[c] for c in fl])


def cconv(cv):
    return "{| cv_flags := %s; cv_width := %s; cv_lz := %d; cv_prec := %s |}" % (
        cflags(cv["flags"]), copt(cv["width"], lambda w: "%d%%positive" % w), cv["lz"], copt(cv["prec"]))


def cseg(x):
    if x[0] == "lit":
        return "Lit " + cs(x[1])
    if x[0] == "s":
        return "PctS"
    return "Conv " + cconv(x[1])


PYERR = {"ValueError": "PValueError", "IndexError": "PIndexError", "AssertionError": "PAssertionError"}


def cres(o):
    if "ok" in o:
        if not all(32 <= ord(ch) < 127 for ch in o["ok"]):
            return "PUnmodelled"                  # e.g. type c: only acceptable where the model also declines
        return "POk " + cs(o["ok"])
    return PYERR.get(o["err"], "PUnmodelled")     # any other exception class must be outside the modelled fragment


def coq_term(case, obs):
    k = case["kind"]
    if k == "c":
        return "let g := c_printf_d %s %s %s in forallb (fun b => b) %s" % (
            cflags(case["flags"]), copt(case["width"]), copt(case["prec"]),
            cl(["str_beq (g %d%%N) %s" % (n, cs(o)) for n, o in zip(case["ns"], obs["outs"])]))
    if k == "py":
        # CPython always answers (string or ValueError); the model may say PUnmodelled only for specs using z, grouping
        # or a presentation type other than d -- recomputed here from the text so the escape hatch cannot widen
        sp = case["spec"]
        body = sp[2:] if len(sp) >= 2 and sp[1] in "<>=^" else sp
        allowed_unmodelled = any(c in body for c in "z,_") or (sp[-1:] in tuple("bcoxXneEfFgG%") and sp[-1:] != "")
        parts = []
        for n, o in zip(case["ns"], obs["outs"]):
            r = "g %d%%N" % n
            if allowed_unmodelled:
                parts.append("(is_unmodelled (%s) || pyres_beq (%s) (%s))" % (r, r, cres(o)))
            else:
                parts.append("pyres_beq (%s) (%s)" % (r, cres(o)))
        return "let g := py_format_d %s in forallb (fun b => b) %s" % (cs(sp), cl(parts))
    if "init" in obs:
        return "false"      # the constructor never fails on these inputs in the unchanged code
    if k == "segs":
        cv = [x[1] for x in case["segs"] if x[0] == "conv"][0]
        parts = ["str_beq t %s" % cs(render_segs(case["segs"])),
                 "str_beq (expand_template t f) %s" % cs(obs["template"]),
                 "Bool.eqb (in_domainb c) %s" % ("true" if _in_domain(cv) else "false")]
        for n, o in zip(case["ns"], obs["names"]):
            parts.append("pyres_beq (get_datum_name %s t f %d%%N) (%s)" % (_exts(case), n, cres(o)))
            parts.append("Bool.eqb (finding_C37_e c %d%%N) %s" % (n, "true" if _in_class_e(cv, n) else "false"))
        segs = cl(["Conv c" if x[0] == "conv" else cseg(x) for x in case["segs"]])
        return "let c := %s in let t := render %s in let f := %s in forallb (fun b => b) %s" % (
            cconv(cv), segs, cs(case["filename"] or ""), cl(parts))
    parts = ["str_beq (expand_template t f) %s" % cs(obs["template"])]
    for n, o in zip(case["ns"], obs["names"]):
        r = "get_datum_name %s t f %d%%N" % (_exts(case), n)
        if case.get("modelled"):
            parts.append("pyres_beq (%s) (%s)" % (r, cres(o)))
        else:
            parts.append("(is_unmodelled (%s) || pyres_beq (%s) (%s))" % (r, r, cres(o)))
    return "let t := %s in let f := %s in forallb (fun b => b) %s" % (cs(case["template"]), cs(case["filename"] or ""), cl(parts))


# ------------------------------------------------------------------------------------------ property (impl side)

def _in_domain(cv):
    return cv["width"] is None or cv["prec"] is None or cv["prec"] >= cv["width"]


def _in_class_e(cv, n):
    return cv["prec"] == 0 and n == 0


def _plain(s):
    return not any(c in s for c in "%{}")


def _expected(case, n):
    out, first = [], True
    for x in case["segs"]:
        if x[0] == "lit":
            out.append(x[1])
        elif x[0] == "s":
            out.append((case["filename"] or "") if first else "")
            first = False
        else:
            cv = x[1]
            out.append(c_printf(cv["flags"], cv["width"], cv["prec"], n, cv["lz"]))
    return "".join(out)


def _first_failure(case, obs):
    if case["kind"] != "segs" or "init" in obs:
        return None
    cv = [x[1] for x in case["segs"] if x[0] == "conv"][0]
    if not _in_domain(cv) or not _plain(case["filename"] or "") or not all(_plain(x[1]) for x in case["segs"] if x[0] == "lit"):
        return None
    import os.path
    if os.path.splitext(obs["template"])[1] not in EXTS[case.get("fmt", "tiff")]:
        return None         # get_datum_uri's assert on the extension: a hypothesis of the theorem (ext_ok)
    for n, o in zip(case["ns"], obs["names"]):
        exp = _expected(case, n)
        got = o.get("ok")
        if got != exp:
            return n, "template %r, index %d: C printf gives %r, the consolidator gives %s" % (
                render_segs(case["segs"]), n, exp, repr(got) if got is not None else o["err"])
    return None


def oracle(case, obs):
    f = _first_failure(case, obs)
    return f[1] if f else None


def finding(case, obs):
    if case["kind"] != "segs" or "init" in obs:
        return None
    cv = [x[1] for x in case["segs"] if x[0] == "conv"][0]
    # every failing index of the case must lie in the class, otherwise it is a different violation
    if _first_failure(case, obs) is None:
        return None
    bad = [n for n, o in zip(case["ns"], obs["names"]) if o.get("ok") != _expected(case, n)]
    if bad and all(_in_class_e(cv, n) for n in bad):
        return "e"
    return None


def nontrivial(case, obs):
    if case["kind"] != "segs" or "names" not in obs:
        return False
    cv = [x[1] for x in case["segs"] if x[0] == "conv"][0]
    return bool(cv["flags"] or cv["width"] is not None or cv["prec"] is not None) and any("ok" in o for o in obs["names"])


def describe(case):
    k = case["kind"]
    if k == "segs":
        cv = [x[1] for x in case["segs"] if x[0] == "conv"][0]
        return "segs flags=%d width=%s prec=%s%s" % (len(set(cv["flags"])), "y" if cv["width"] is not None else "n",
                                                      "y" if cv["prec"] is not None else "n", "" if _in_domain(cv) else " (p<w)")
    if k == "c":
        return "libc flags=%d" % len(set(case["flags"]))
    return k


def model_search(rng, tier):
    """Search the model's boolean restatement of the theorem for a counterexample (used when a proof breaks)."""
    from harness import core
    cands = []
    for bits in itertools.product([0, 1], repeat=5):
        fl = "".join(c for c, b in zip(FLAGCH, bits) if b)
        for w in (None, 1, 3, 6, 10):
            for p in (None, 0, 1, 3, 6, 10, 12):
                for n in (0, 7, 12345):
                    cands.append((_conv(fl, w, p), n))
    terms = ["C37_holds_b %s %d%%N" % (cconv(cv), n) for cv, n in cands]
    ok, bad, _ = core.eval_cases_in_coq(ID + "_search", COQ_IMPORTS, terms)
    if ok and bad:
        cv, n = cands[bad[0]]
        return {"conversion": render_conv(cv), "index": n, "model_says": "get_datum_name differs from c_printf_d"}
    return None
