From BV Require Import Base.Prelude Pure.Snake.

Lemma length_repeat_each {A} r (l : list A) : length (repeat_each r l) = length l * r.
Proof.
  unfold repeat_each. induction l as [|x l IH]; cbn [flat_map length]; [reflexivity|].
  rewrite app_length, repeat_length, IH. lia.
Qed.

Lemma length_tile {A} n (l : list A) : length (tile n l) = n * length l.
Proof.
  unfold tile. induction n as [|n IH]; cbn [repeat concat length]; [reflexivity|].
  rewrite app_length, IH. lia.
Qed.
