"""Engine driver variant for C01: besides the shared observation it keeps, for every emitted document,
its uid, the uids it refers to and the verdict of event_model's JSON schema for that document.

The shared driver (engine_driver.py, not edited) canonicalises uids away; C01 also speaks about document
uids ("no document uid is emitted twice") and schema validity, so the raw documents are inspected here,
inside the worker, and only a small summary is returned:
   docinfo = [{"name", "uid", "run_start"?, "descriptor"?, "schema": None | "error text"}]
"""
import threading

from harness.drivers import engine_driver as ed

_VALIDATORS = None


def _validators():
    global _VALIDATORS
    if _VALIDATORS is None:
        from event_model import DocumentNames, schema_validators
        _VALIDATORS = {k.name: v for k, v in schema_validators.items() if isinstance(k, DocumentNames)}
    return _VALIDATORS


class DocsDriver(ed.Driver):
    def __init__(self, case):
        super().__init__(case)
        self.docinfo = []

    def on_doc(self, name, doc):
        super().on_doc(name, doc)
        info = {"name": name, "uid": doc.get("uid")}
        for k in ("run_start", "descriptor"):
            if k in doc:
                info[k] = doc[k]
        try:
            _validators()[name].validate(dict(doc))
            info["schema"] = None
        except Exception as e:  # jsonschema.ValidationError or a missing validator
            info["schema"] = ("%s: %s" % (type(e).__name__, e))[:300]
        with self.lock:
            self.docinfo.append(info)

    def run(self):
        out = super().run()
        out["docinfo"] = list(self.docinfo)
        return out


def run_case(case, timeout=20.0):
    import bluesky.run_engine  # noqa: F401
    import bluesky.plans  # noqa: F401
    _validators()
    d = DocsDriver(case)
    box = {}

    def target():
        try:
            box["out"] = d.run()
        except BaseException as e:  # pragma: no cover
            box["out"] = {"errors": ["driver crashed: %r" % (e,)], "sched": d.sched, "obs": d.obs, "tapes": d.tapes,
                          "msgs": d.msg_list, "devcalls": d.devcalls, "docinfo": d.docinfo}
    th = threading.Thread(target=target, daemon=True)
    th.start()
    th.join(timeout)
    if th.is_alive():
        return {"errors": ["timeout: case did not finish in %.0fs" % timeout], "sched": list(d.sched), "obs": list(d.obs),
                "tapes": d.tapes, "msgs": d.msg_list, "devcalls": d.devcalls, "docinfo": list(d.docinfo)}
    return box["out"]


def check_docinfo(docinfo):
    """uid uniqueness, references to earlier documents of the same run, schema verdicts -> None | message"""
    seen = set()
    starts = set()
    descs = {}
    for i in docinfo:
        name, uid = i["name"], i.get("uid")
        if i.get("schema"):
            return "%s document fails the event-model schema: %s" % (name, i["schema"])
        if uid is None:
            return "%s document without uid" % name
        if uid in seen:
            return "document uid %s emitted twice (%s)" % (uid, name)
        seen.add(uid)
        if name == "start":
            starts.add(uid)
        elif name == "descriptor":
            if i.get("run_start") not in starts:
                return "descriptor refers to a run start that was not emitted earlier"
            descs[uid] = i["run_start"]
        elif name == "event":
            if i.get("descriptor") not in descs:
                return "event refers to a descriptor that was not emitted earlier"
        elif name == "stop":
            if i.get("run_start") not in starts:
                return "stop refers to a run start that was not emitted earlier"
    return None
