"""Shared layer of the document properties of the engine family (C01, C02, C05, C14, C40)."""
import hashlib
import json
import multiprocessing as mp
import os

from harness import core
from harness.drivers import engine_cases_docs, engine_encode
from harness.props import docs_monitor
from harness.props import engine_common as ec

COQ_IMPORTS = "From BV Require Import Engine.RE Engine.REInst Engine.DocMon.\nFrom Coq Require Import ZArith."

RULE = (ec.RULE + " || document families (harness/drivers/engine_cases_docs.py): several run keys at once (interleaved, nested, "
        "re-used, refused duplicate, unknown key, left open), two streams with checkpoints and long roll-backs, pause inside a bundle, "
        "pause -> resume -> abort/stop/halt a few steps later, repeated pauses/suspensions with interruption recording on and off, "
        "runs left open when the plan returns / raises / swallows or converts the thrown exception / a device or status fails, "
        "x every step x every request kind x post-pause decisions; plus seeded random mixes")


def cases(rng, tier):
    cs = ec.gen_cases(rng, tier) + engine_cases_docs.gen(rng, tier)
    k = int(os.environ.get("VERIF_DOCS_SUB", "1"))      # development aid: every k-th case only (break-edit trials)
    return cs[::k] if k > 1 else cs


_MEMO = {}


def mon(case, obs):
    """monitor verdict of the logged observation (memoised per observation object)"""
    k = id(obs)
    if k not in _MEMO or _MEMO[k][0] is not obs:
        _MEMO[k] = (obs, docs_monitor.run(obs["obs"], bool(case.get("record_interruptions", False))))
    return _MEMO[k][1]


def coq_term(case, obs):
    """model == implementation on the whole observation, the Coq monitor accepts the model's trace, and the
    Coq finding-class verdict (a run stopped behind a rewind) equals the Python mirror's"""
    if obs.get("errors"):
        return None
    try:
        e = engine_encode.Enc(case, obs).encode()
    except engine_encode.Unsupported:
        return None
    behind = "true" if mon(case, obs)["behind"] else "false"
    return "check_docs %s %s %s %s %s %s %s %s" % (e["tapes"], e["ledger"], e["paus"], e["stag"], e["rec"], e["evs"], e["obs"], behind)


def driver_error(obs):
    if obs.get("errors"):
        return "driver: " + str(obs["errors"][0])[:200]
    return None


def transient(obs):
    """the last blocking call returned with the engine in a transient state (class C07-c: an abort/stop/halt
    coroutine ran while paused and nobody resumed the task): outside "once the RunEngine is idle again" """
    outs = ec.outs_of(obs)
    return bool(outs) and outs[-1]["state"] not in ("idle", "paused")


# ----------------------------------------------------------------------------- raw-document side run (C01)

def _work(chunk):
    from harness.drivers.engine_docs_driver import check_docinfo, run_case
    res = []
    for c in chunk:
        try:
            o = run_case(c)
            res.append({"errors": o.get("errors", []), "ndocs": len(o.get("docinfo", [])), "verdict": check_docinfo(o.get("docinfo", []))})
        except Exception as e:  # pragma: no cover
            res.append({"errors": ["worker: %r" % (e,)], "ndocs": 0, "verdict": None})
    return res


def docinfo_batch(cases_):
    """{case-key: {"verdict": None|text, "ndocs": n}} for the given cases (cached per source hash)"""
    d = os.path.join(core.VERIF, ".cache", "engine_docs")
    os.makedirs(d, exist_ok=True)
    h = hashlib.sha256((ec.src_hash() + open(os.path.join(core.VERIF, "harness", "drivers", "engine_docs_driver.py")).read()).encode()).hexdigest()[:20]
    p = os.path.join(d, h + ".jsonl")
    known = {}
    if os.path.exists(p):
        for line in open(p):
            try:
                k, v = json.loads(line)
                known[k] = v
            except Exception:
                pass
    keys = [hashlib.sha256(json.dumps(c, sort_keys=True).encode()).hexdigest()[:24] for c in cases_]
    todo = [i for i, k in enumerate(keys) if k not in known]
    if todo:
        ctx = mp.get_context("spawn")
        pool = ctx.Pool(min(core.NCPU, 8), maxtasksperchild=40)
        try:
            chunk = 8
            jobs = [(j, pool.apply_async(_work, ([cases_[i] for i in todo[j:j + chunk]],))) for j in range(0, len(todo), chunk)]
            with open(p, "a") as f:
                for j, job in jobs:
                    idx = todo[j:j + chunk]
                    try:
                        res = job.get(timeout=60 * chunk)
                    except Exception as e:
                        res = [{"errors": ["pool: %r" % (e,)], "ndocs": 0, "verdict": None}] * len(idx)
                    for i, r in zip(idx, res):
                        known[keys[i]] = r
                        if not r.get("errors"):
                            f.write(json.dumps([keys[i], r]) + "\n")
        finally:
            pool.terminate()
        files = sorted((os.path.getmtime(os.path.join(d, f)), f) for f in os.listdir(d))
        for _, f in files[:-4]:
            os.unlink(os.path.join(d, f))
    return {k: known[k] for k in keys}


def case_key(c):
    return hashlib.sha256(json.dumps(c, sort_keys=True).encode()).hexdigest()[:24]
