(* Proofs about Gen/Repeat.v: every trace of `repeat`, under every inner plan, clock, delay source,
   num and every list of consumer inputs, is a sequence of complete repetition blocks
   (checkpoint, call of plan(), the inner plan's messages, the sleep for the positive remainder
   of the delay) followed by at most one unfinished block; and how it can end. *)
From Coq Require Import ZArith QArith List Bool Lia.
From BV Require Import Gen.Repeat.
Import ListNotations.
Local Close Scope Q_scope.

Section RepeatProofs.
  Variables M V E P : Type.
  Variable vnone : V.
  Variable resume : P -> input V E -> outcome M V E P.
  Variable mk : nat -> P.
  Variable now : nat -> Q.
  Variable num : option Z.
  Variable ds : delays.

  Notation ev := (ev M).
  Notation rstate := (rstate P).
  Notation delay_at := (delay_at ds).
  Notation in_range := (in_range num).
  Notation sleep_of := (sleep_of now ds).
  Notation block_len := (block_len now ds).
  Notation spec_blocks := (spec_blocks M now ds).
  Notation spec_count := (spec_count M now ds).
  Notation start_iter := (start_iter M E P now num).
  Notation after_inner := (after_inner M E P now num ds).
  Notation step_inner := (step_inner M V E P resume now num ds).
  Notation rresume := (rresume M V E P vnone resume mk now num ds).
  Notation run := (run M V E P vnone resume mk now num ds).
  Notation block := (block M).

  (* ---------------------------------------------------------------- spec_blocks algebra *)
  Lemma spec_blocks_app : forall a b i n,
    spec_blocks i n (a ++ b) = spec_blocks i n a ++ spec_blocks (i + length a) (spec_count i n a) b.
  Proof.
    induction a as [|m a IH]; intros b i n; cbn [app spec_blocks spec_count length].
    - rewrite Nat.add_0_r. reflexivity.
    - rewrite IH, <- app_assoc. replace (S i + length a) with (i + S (length a)) by lia. reflexivity.
  Qed.

  Lemma spec_count_app : forall a b i n,
    spec_count i n (a ++ b) = spec_count (i + length a) (spec_count i n a) b.
  Proof.
    induction a as [|m a IH]; intros b i n; cbn [app spec_count length].
    - rewrite Nat.add_0_r. reflexivity.
    - rewrite IH. replace (S i + length a) with (i + S (length a)) by lia. reflexivity.
  Qed.

  Lemma spec_blocks_snoc msgss msgs :
    spec_blocks 0 0 (msgss ++ [msgs]) =
    spec_blocks 0 0 msgss ++
      block (length msgss) msgs (sleep_of (length msgss) (spec_count 0 0 msgss) (length msgs)).
  Proof. rewrite spec_blocks_app. cbn [spec_blocks Nat.add]. rewrite app_nil_r. reflexivity. Qed.

  Lemma spec_count_snoc msgss msgs :
    spec_count 0 0 (msgss ++ [msgs]) = block_len (length msgss) (spec_count 0 0 msgss) (length msgs).
  Proof. rewrite spec_count_app. reflexivity. Qed.

  Notation supplied := (supplied num ds).
  Notation partial_block := (partial_block M).
  Notation returned_ok := (returned_ok M num ds).
  Notation valerr_ok := (valerr_ok M num ds).
  Notation shape := (shape M E P now num ds).

  (* ---------------------------------------------------------------- invariant *)
  Definition Complete (msgss : list (list M)) (tr : list ev) (n : nat) : Prop :=
    tr = spec_blocks 0 0 msgss /\ n = spec_count 0 0 msgss /\ supplied (length msgss).

  Definition Inv (s : rstate) (tr : list ev) : Prop :=
    match ph s with
    | PStart => tr = [] /\ nmsg s = 0
    | PCheck i t0 =>
        exists msgss tr' n0, Complete msgss tr' n0 /\ tr = tr' ++ [ECheckpoint i] /\ i = length msgss /\
                             t0 = now n0 /\ nmsg s = S n0 /\ in_range i = true
    | PInner i t0 _ =>
        exists msgss tr' n0 msgs, Complete msgss tr' n0 /\
                             tr = tr' ++ ECheckpoint i :: EInst i :: map (EMsg i) msgs /\ i = length msgss /\
                             t0 = now n0 /\ nmsg s = n0 + 1 + length msgs /\ in_range i = true
    | PSleep i => exists msgss, Complete msgss tr (nmsg s) /\ length msgss = S i
    end.

  Definition post (tr : list ev) (r : list ev * rout M E P) : Prop :=
    match snd r with
    | RYield _ s' => Inv s' (tr ++ fst r)
    | RReturn => shape (tr ++ fst r) FReturned
    | RValueError => shape (tr ++ fst r) FValueError
    | RRaise e => shape (tr ++ fst r) (FRaised e)
    end.

  Lemma start_iter_post msgss tr n :
    Complete msgss tr n -> post tr (start_iter (length msgss) n).
  Proof.
    intros (T & N & S). unfold start_iter, post.
    destruct (in_range (length msgss)) eqn:R; cbn [fst snd].
    - unfold Inv. cbn [ph nmsg]. exists msgss, tr, n. split; [exact (conj T (conj N S))|]. repeat split; auto.
    - rewrite app_nil_r. exists msgss. split; [exact T|]. left. split; assumption.
  Qed.

  Lemma supplied_S k : supplied k -> delay_at k <> None -> in_range k = true -> supplied (S k).
  Proof.
    intros S D R j Hj. destruct (Nat.eq_dec j k) as [->|Hn]; [split; assumption|]. apply S. lia.
  Qed.

  Lemma snoc_length (msgss : list (list M)) msgs : length (msgss ++ [msgs]) = S (length msgss).
  Proof. rewrite app_length. cbn. lia. Qed.

  Lemma complete_snoc msgss tr' n0 msgs :
    Complete msgss tr' n0 -> in_range (length msgss) = true -> delay_at (length msgss) <> None ->
    Complete (msgss ++ [msgs])
             (tr' ++ block (length msgss) msgs (sleep_of (length msgss) n0 (length msgs)))
             (block_len (length msgss) n0 (length msgs)).
  Proof.
    intros (T & N & S) R D. subst tr' n0. split; [|split].
    - rewrite spec_blocks_snoc. reflexivity.
    - rewrite spec_count_snoc. reflexivity.
    - rewrite snoc_length. apply supplied_S; assumption.
  Qed.

  Lemma sleep_of_none i n len : delay_at i = None -> sleep_of i n len = None.
  Proof. intros D. unfold Repeat.sleep_of. rewrite D. reflexivity. Qed.

  Lemma block_nosleep i msgs :
    block i msgs None = ECheckpoint i :: EInst i :: map (EMsg i) msgs.
  Proof. unfold Repeat.block. rewrite app_nil_r. reflexivity. Qed.

  Lemma block_sleep i msgs d :
    block i msgs (Some d) = (ECheckpoint i :: EInst i :: map (EMsg i) msgs) ++ [ESleep i d].
  Proof. reflexivity. Qed.

  Lemma stop_cases (i : nat) :
    let X := match num with
             | None => (@nil ev, @RReturn M E P)
             | Some z => if (Z.of_nat i + 1 =? z)%Z then ([], RReturn) else ([], RValueError)
             end in
    (num = None /\ X = ([], RReturn)) \/
    (exists z, num = Some z /\ (Z.of_nat i + 1)%Z = z /\ X = ([], RReturn)) \/
    (exists z, num = Some z /\ (Z.of_nat i + 1)%Z <> z /\ X = ([], RValueError)).
  Proof.
    cbv zeta. destruct num as [z|].
    - destruct (Z.of_nat i + 1 =? z)%Z eqn:EQ.
      + apply Z.eqb_eq in EQ. right. left. exists z. auto.
      + apply Z.eqb_neq in EQ. right. right. exists z. auto.
    - left. auto.
  Qed.

  Lemma after_inner_post msgss tr' n0 msgs :
    Complete msgss tr' n0 -> in_range (length msgss) = true ->
    post (tr' ++ ECheckpoint (length msgss) :: EInst (length msgss) :: map (EMsg (length msgss)) msgs)
         (after_inner (length msgss) (now n0) (n0 + 1 + length msgs)).
  Proof.
    intros C R. set (i := length msgss) in *. unfold Repeat.after_inner.
    destruct (delay_at i) as [[d|]|] eqn:D.
    - (* a delay d *)
      assert (D' : delay_at i <> None) by congruence.
      pose proof (complete_snoc msgss tr' n0 msgs C R D') as C'. fold i in C'.
      assert (SO : sleep_of i n0 (length msgs) =
                   if Qlt_le_dec 0 (remaining d (now n0) (now (n0 + 1 + length msgs)))
                   then Some (remaining d (now n0) (now (n0 + 1 + length msgs))) else None).
      { unfold Repeat.sleep_of. rewrite D. reflexivity. }
      unfold Repeat.block_len in C'. rewrite SO in C'.
      destruct (Qlt_le_dec 0 (remaining d (now n0) (now (n0 + 1 + length msgs)))) as [L|L].
      + unfold post. cbn [fst snd]. unfold Inv. cbn [ph nmsg].
        exists (msgss ++ [msgs]). split; [|apply snoc_length].
        rewrite block_sleep in C'. rewrite app_assoc in C'.
        replace (S (n0 + 1 + length msgs)) with (n0 + 1 + length msgs + 1) by lia.
        exact C'.
      + rewrite block_nosleep in C'. rewrite Nat.add_0_r in C'.
        pose proof (start_iter_post _ _ _ C') as H. rewrite snoc_length in H. exact H.
    - (* the entry None: no sleep *)
      assert (D' : delay_at i <> None) by congruence.
      pose proof (complete_snoc msgss tr' n0 msgs C R D') as C'. fold i in C'.
      assert (SO : sleep_of i n0 (length msgs) = None).
      { unfold Repeat.sleep_of. rewrite D. reflexivity. }
      unfold Repeat.block_len in C'. rewrite SO in C'.
      rewrite block_nosleep in C'. rewrite Nat.add_0_r in C'.
      pose proof (start_iter_post _ _ _ C') as H. rewrite snoc_length in H. exact H.
    - (* StopIteration *)
      destruct C as (T & N & Sup).
      assert (TR : tr' ++ ECheckpoint i :: EInst i :: map (EMsg i) msgs = spec_blocks 0 0 (msgss ++ [msgs])).
      { rewrite spec_blocks_snoc. fold i. rewrite sleep_of_none by exact D. rewrite block_nosleep. subst tr'. reflexivity. }
      assert (LEN : length (msgss ++ [msgs]) = S i) by apply snoc_length.
      destruct (stop_cases i) as [[NUM ->]|[(z & NUM & EQ & ->)|(z & NUM & EQ & ->)]];
        unfold post; cbn [fst snd]; rewrite app_nil_r.
      + exists (msgss ++ [msgs]). split; [exact TR|]. right.
        exists i. split; [exact LEN|]. split; [exact Sup|]. split; [exact R|].
        split; [exact D|]. left. exact NUM.
      + exists (msgss ++ [msgs]). split; [exact TR|]. right.
        exists i. split; [exact LEN|]. split; [exact Sup|]. split; [exact R|].
        split; [exact D|]. right. rewrite NUM. f_equal. lia.
      + right. exists (msgss ++ [msgs]). split; [exact TR|].
        exists i, z. split; [exact LEN|]. split; [exact Sup|]. split; [exact R|].
        split; [exact D|]. split; [exact NUM|].
        unfold Repeat.in_range in R. rewrite NUM in R. apply Z.ltb_lt in R. lia.
  Qed.

  Definition open_shape (tr : list ev) : Prop :=
    exists msgss tl, tr = spec_blocks 0 0 msgss ++ tl /\ partial_block (length msgss) tl /\
                     supplied (length msgss) /\ (tl <> [] -> in_range (length msgss) = true).

  Lemma inv_open s tr : Inv s tr -> open_shape tr.
  Proof.
    unfold Inv, open_shape. destruct (ph s) as [|i t0|i t0 p|i].
    - intros [-> _]. exists [], []. split; [reflexivity|]. split; [left; reflexivity|].
      split; [intros j Hj; cbn in Hj; lia|]. intros H; exfalso; apply H; reflexivity.
    - intros (msgss & tr' & n0 & (T & N & Sup) & -> & -> & _ & _ & R).
      exists msgss, [ECheckpoint (length msgss)]. subst tr'. split; [reflexivity|].
      split; [right; left; reflexivity|]. split; [exact Sup|]. intros _. exact R.
    - intros (msgss & tr' & n0 & msgs & (T & N & Sup) & -> & -> & _ & _ & R).
      exists msgss, (ECheckpoint (length msgss) :: EInst (length msgss) :: map (EMsg (length msgss)) msgs).
      subst tr'. split; [reflexivity|].
      split; [right; right; exists msgs; reflexivity|]. split; [exact Sup|]. intros _. exact R.
    - intros (msgss & (T & N & Sup) & L). exists msgss, []. rewrite app_nil_r.
      split; [exact T|]. split; [left; reflexivity|]. split; [exact Sup|]. intros H; exfalso; apply H; reflexivity.
  Qed.

  Lemma step_inner_post msgss tr' n0 msgs p x :
    Complete msgss tr' n0 -> in_range (length msgss) = true ->
    post (tr' ++ ECheckpoint (length msgss) :: EInst (length msgss) :: map (EMsg (length msgss)) msgs)
         (step_inner (length msgss) (now n0) (n0 + 1 + length msgs) p x).
  Proof.
    intros C R. unfold Repeat.step_inner. destruct (resume p x) as [m p'|v|e].
    - unfold post. cbn [fst snd]. unfold Inv. cbn [ph nmsg].
      exists msgss, tr', n0, (msgs ++ [m]). split; [exact C|].
      split; [rewrite map_app; cbn [map]; rewrite <- app_assoc; reflexivity|].
      split; [reflexivity|]. split; [reflexivity|]. split; [rewrite app_length; cbn; lia|exact R].
    - apply after_inner_post; assumption.
    - unfold post. cbn [fst snd]. rewrite app_nil_r. destruct C as (T & N & Sup).
      exists msgss, (ECheckpoint (length msgss) :: EInst (length msgss) :: map (EMsg (length msgss)) msgs).
      subst tr'. split; [reflexivity|].
      split; [right; right; exists msgs; reflexivity|]. split; [exact Sup|]. intros _. exact R.
  Qed.

  Lemma post_cons tr e r : post (tr ++ [e]) r -> post tr (e :: fst r, snd r).
  Proof.
    unfold post. cbn [fst snd]. destruct (snd r); rewrite <- app_assoc; cbn [app]; auto.
  Qed.

  Lemma rresume_post s tr x : Inv s tr -> post tr (rresume s x).
  Proof.
    intros I. pose proof (inv_open s tr I) as OP.
    unfold Inv in I. unfold Repeat.rresume. destruct (ph s) as [|i t0|i t0 p|i].
    - destruct I as [-> N0]. destruct x as [v|e].
      + destruct (sized_too_short num ds) eqn:Z.
        * unfold post. cbn [fst snd]. left. split; [reflexivity|exact Z].
        * rewrite N0. apply (start_iter_post [] [] 0). split; [reflexivity|]. split; [reflexivity|]. intros j Hj; cbn in Hj; lia.
      + unfold post. cbn [fst snd]. exact OP.
    - destruct x as [v|e].
      + destruct I as (msgss & tr' & n0 & C & -> & -> & -> & N1 & R).
        apply post_cons. rewrite <- app_assoc. cbn [app]. rewrite N1.
        replace (S n0) with (n0 + 1 + length (@nil M)) by (cbn; lia).
        apply (step_inner_post msgss tr' n0 []); assumption.
      + unfold post. cbn [fst snd]. rewrite app_nil_r. exact OP.
    - destruct I as (msgss & tr' & n0 & msgs & C & -> & -> & -> & N1 & R). rewrite N1.
      apply step_inner_post; assumption.
    - destruct x as [v|e].
      + destruct I as (msgss & C & L). rewrite <- L. apply start_iter_post. exact C.
      + unfold post. cbn [fst snd]. rewrite app_nil_r. exact OP.
  Qed.

  Theorem run_shape : forall xs s tr,
    Inv s tr -> shape (tr ++ fst (run s xs)) (snd (run s xs)).
  Proof.
    induction xs as [|x xs IH]; intros s tr I; cbn [Repeat.run].
    - cbn [fst snd]. rewrite app_nil_r. exact (inv_open s tr I).
    - pose proof (rresume_post s tr x I) as PO. unfold post in PO.
      destruct (snd (rresume s x)) as [m s'| | |e]; cbn [fst snd].
      + rewrite app_assoc. apply IH. exact PO.
      + exact PO.
      + exact PO.
      + exact PO.
  Qed.

  Theorem trace_shape xs :
    shape (fst (run (init P) xs)) (snd (run (init P) xs)).
  Proof. apply (run_shape xs (init P) []). split; reflexivity. Qed.

  (* ---------------------------------------------------------------- corollaries *)
  Notation inst_count := (inst_count M).
  Notation paired := (paired M).

  Lemma inst_count_app a b : inst_count (a ++ b) = inst_count a + inst_count b.
  Proof. unfold Repeat.inst_count. rewrite filter_app, app_length. reflexivity. Qed.

  Lemma inst_count_msgs i msgs : inst_count (map (EMsg i) msgs) = 0.
  Proof. induction msgs as [|m l IH]; [reflexivity|exact IH]. Qed.

  Lemma inst_count_block i msgs sl : inst_count (block i msgs sl) = 1.
  Proof.
    unfold Repeat.block. change (inst_count (ECheckpoint i :: EInst i :: ?l)) with (S (inst_count l)).
    cbn [Repeat.inst_count filter length]. fold (inst_count (map (EMsg i) msgs ++ match sl with Some d => [ESleep i d] | None => [] end)).
    rewrite inst_count_app, inst_count_msgs. destruct sl; reflexivity.
  Qed.

  Lemma inst_count_blocks : forall msgss i n, inst_count (spec_blocks i n msgss) = length msgss.
  Proof.
    induction msgss as [|m l IH]; intros i n; cbn [Repeat.spec_blocks length]; [reflexivity|].
    rewrite inst_count_app, inst_count_block, IH. reflexivity.
  Qed.

  Lemma inst_count_partial i tl : partial_block i tl ->
    inst_count tl = 0 /\ (tl = [] \/ tl = [ECheckpoint i]) \/ inst_count tl = 1 /\ tl <> [].
  Proof.
    intros [->|[->|[msgs ->]]].
    - left. split; [reflexivity|left; reflexivity].
    - left. split; [reflexivity|right; reflexivity].
    - right. split; [|discriminate].
      change (inst_count (ECheckpoint i :: EInst i :: ?l)) with (S (inst_count l)). rewrite inst_count_msgs. reflexivity.
  Qed.

  Lemma supplied_le_num k z : num = Some z -> supplied k -> (Z.of_nat k <= Z.max z 0)%Z.
  Proof.
    intros NUM S. destruct k as [|k]; [lia|].
    destruct (S k) as [_ R]; [lia|]. unfold Repeat.in_range in R. rewrite NUM in R. apply Z.ltb_lt in R. lia.
  Qed.

  Theorem exactly_num xs z :
    num = Some z -> snd (run (init P) xs) = FReturned ->
    inst_count (fst (run (init P) xs)) = Z.to_nat z.
  Proof.
    intros NUM F. pose proof (trace_shape xs) as SH. rewrite F in SH. cbn [shape] in SH.
    destruct SH as (msgss & -> & RO). rewrite inst_count_blocks.
    destruct RO as [[Sup R]|(k & L & Sup & R & D & [N|N])].
    - pose proof (supplied_le_num _ _ NUM Sup). unfold Repeat.in_range in R. rewrite NUM in R.
      apply Z.ltb_ge in R. lia.
    - congruence.
    - rewrite NUM in N. injection N as ->. rewrite L. lia.
  Qed.

  Theorem at_most_num xs z :
    num = Some z -> inst_count (fst (run (init P) xs)) <= Z.to_nat z.
  Proof.
    intros NUM. pose proof (trace_shape xs) as SH.
    assert (OPEN : open_shape (fst (run (init P) xs)) -> inst_count (fst (run (init P) xs)) <= Z.to_nat z).
    { intros (msgss & tl & -> & PB & Sup & R). rewrite inst_count_app, inst_count_blocks.
      pose proof (supplied_le_num _ _ NUM Sup) as LE.
      destruct (inst_count_partial _ _ PB) as [[-> _]|[-> NE]]; [lia|].
      specialize (R NE). unfold Repeat.in_range in R. rewrite NUM in R. apply Z.ltb_lt in R. lia. }
    destruct (snd (run (init P) xs)) as [s| | |e] eqn:F; cbn [shape] in SH.
    - apply OPEN. exact SH.
    - rewrite (exactly_num xs z NUM F). lia.
    - destruct SH as [[-> _]|(msgss & -> & k & z' & L & Sup & R & D & N & LT)]; [cbn; lia|].
      rewrite inst_count_blocks, L. rewrite NUM in N. injection N as <-. lia.
    - apply OPEN. exact SH.
  Qed.

  Lemma paired_msgs i msgs rest : paired (map (EMsg i) msgs ++ rest) <-> paired rest.
  Proof. induction msgs as [|m l IH]; [reflexivity|exact IH]. Qed.

  Lemma paired_block i msgs sl rest : paired (block i msgs sl ++ rest) <-> paired rest.
  Proof.
    unfold Repeat.block. cbn [app Repeat.paired]. rewrite <- app_assoc, paired_msgs.
    destruct sl; cbn [app Repeat.paired]; tauto.
  Qed.

  Lemma paired_blocks : forall msgss i n rest, paired (spec_blocks i n msgss ++ rest) <-> paired rest.
  Proof.
    induction msgss as [|m l IH]; intros i n rest; cbn [Repeat.spec_blocks app]; [reflexivity|].
    rewrite <- app_assoc, paired_block. apply IH.
  Qed.

  Lemma paired_partial i tl : partial_block i tl -> paired tl.
  Proof.
    intros [->|[->|[msgs ->]]]; cbn [Repeat.paired]; auto.
    split; [reflexivity|]. rewrite <- (app_nil_r (map (EMsg i) msgs)). apply paired_msgs. exact I.
  Qed.

  Theorem checkpoint_before_each_run xs : paired (fst (run (init P) xs)).
  Proof.
    pose proof (trace_shape xs) as SH.
    assert (OPEN : open_shape (fst (run (init P) xs)) -> paired (fst (run (init P) xs))).
    { intros (msgss & tl & -> & PB & _). apply paired_blocks. apply (paired_partial _ _ PB). }
    destruct (snd (run (init P) xs)) as [s| | |e]; cbn [shape] in SH.
    - apply OPEN, SH.
    - destruct SH as (msgss & -> & _). rewrite <- (app_nil_r (spec_blocks 0 0 msgss)). apply paired_blocks. exact I.
    - destruct SH as [[-> _]|(msgss & -> & _)]; [exact I|].
      rewrite <- (app_nil_r (spec_blocks 0 0 msgss)). apply paired_blocks. exact I.
    - apply OPEN, SH.
  Qed.

  Theorem sized_delays_too_short v xs :
    sized_too_short num ds = true -> run (init P) (Send v :: xs) = ([], FValueError).
  Proof.
    intros Z. cbn [Repeat.run]. unfold Repeat.rresume. cbn [ph Repeat.init]. rewrite Z. reflexivity.
  Qed.

  Theorem enough_delays_no_error xs :
    sized_too_short num ds = false -> enough_delays num ds ->
    snd (run (init P) xs) <> FValueError.
  Proof.
    intros Z EN F. pose proof (trace_shape xs) as SH. rewrite F in SH. cbn [shape] in SH.
    destruct SH as [[_ Z']|(msgss & _ & k & z & L & Sup & R & D & N & LT)]; [congruence|].
    apply (EN z N k); [lia|exact D].
  Qed.

  (* ---------------------------------------------------------------- progress *)
  Section Progress.
    Variable z : Z.
    Variable L : nat.
    Hypothesis NUM : num = Some z.
    Hypothesis Hinner : forall k, returns_within M V E P resume L (mk k).
    Hypothesis Hshort : sized_too_short num ds = false.
    Hypothesis Henough : enough_delays num ds.

    Notation zn := (Z.to_nat z).
    Definition T (i : nat) : nat := (zn - i) * (L + 2).

    Lemma T_step i : i < zn -> T i = L + 2 + T (S i).
    Proof. intros H. unfold T. replace (zn - i) with (S (zn - S i)) by lia. cbn [Nat.mul]. lia. Qed.

    Lemma in_range_lt i : in_range i = true <-> i < zn.
    Proof. unfold Repeat.in_range. rewrite NUM. rewrite Z.ltb_lt. lia. Qed.

    (* k further inputs are enough to finish from this state *)
    Definition Need (s : rstate) (k : nat) : Prop :=
      match ph s with
      | PStart => k >= 1 + T 0
      | PCheck i _ => i < zn /\ k >= T i
      | PInner i _ p => i < zn /\ exists l, returns_within M V E P resume l p /\ k >= l + 2 + T (S i)
      | PSleep i => i < zn /\ k >= 1 + T (S i)
      end.

    Definition good (k : nat) (r : list ev * rout M E P) : Prop :=
      match snd r with
      | RYield _ s' => Need s' k
      | RReturn => True
      | _ => False
      end.

    Lemma start_iter_good i n k : i <= zn -> k >= T i -> good k (start_iter i n).
    Proof.
      intros Hi Hk. unfold Repeat.start_iter, good. destruct (in_range i) eqn:R; cbn [snd]; [|exact I].
      apply in_range_lt in R. unfold Need. cbn [ph]. split; assumption.
    Qed.

    Lemma after_inner_good i t0 n k : i < zn -> k >= 1 + T (S i) -> good k (after_inner i t0 n).
    Proof.
      intros Hi Hk. unfold Repeat.after_inner.
      destruct (delay_at i) as [[d|]|] eqn:D.
      - destruct (Qlt_le_dec 0 (remaining d t0 (now n))).
        + unfold good, Need. cbn [snd ph]. split; assumption.
        + apply start_iter_good; lia.
      - apply start_iter_good; lia.
      - rewrite NUM. destruct (Z.of_nat i + 1 =? z)%Z eqn:EQ; unfold good; cbn [snd]; [exact I|].
        apply Z.eqb_neq in EQ. apply (Henough z NUM i); [lia|exact D].
    Qed.

    Lemma step_inner_good i t0 n p v l k :
      i < zn -> returns_within M V E P resume l p -> k >= l + 1 + T (S i) ->
      good k (step_inner i t0 n p (Send v)).
    Proof.
      intros Hi RW Hk. unfold Repeat.step_inner.
      destruct l as [|l]; specialize (RW v); cbn in RW; destruct (resume p (Send v)) as [m p'|v'|e]; try contradiction.
      - apply after_inner_good; lia.
      - unfold good, Need. cbn [snd ph]. split; [exact Hi|]. exists l. split; [exact RW|lia].
      - apply after_inner_good; lia.
    Qed.

    Lemma rresume_good s v k : Need s (S k) -> good k (rresume s (Send v)).
    Proof.
      unfold Need, Repeat.rresume. destruct (ph s) as [|i t0|i t0 p|i].
      - intros H. rewrite Hshort. apply start_iter_good; lia.
      - intros [Hi H]. rewrite (T_step i Hi) in H.
        pose proof (step_inner_good i t0 (nmsg s) (mk i) vnone L k Hi (Hinner i)) as G.
        unfold good in *. cbn [snd]. apply G. lia.
      - intros [Hi (l & RW & H)]. apply (step_inner_good i t0 (nmsg s) p v l k Hi RW). lia.
      - intros [Hi H]. apply start_iter_good; lia.
    Qed.

    Lemma need_pos s : ~ Need s 0.
    Proof.
      unfold Need. destruct (ph s) as [|i t0|i t0 p|i].
      - lia.
      - intros [Hi H]. rewrite (T_step i Hi) in H. lia.
      - intros [Hi (l & _ & H)]. lia.
      - intros [Hi H]. lia.
    Qed.

    Lemma run_completes : forall vs s k,
      Need s k -> k <= length vs -> snd (run s (map Send vs)) = FReturned.
    Proof.
      induction vs as [|v vs IH]; intros s k N Hk.
      - cbn in Hk. replace k with 0 in N by lia. destruct (need_pos s N).
      - destruct k as [|k]; [destruct (need_pos s N)|].
        pose proof (rresume_good s v k N) as G. unfold good in G.
        cbn [map Repeat.run]. destruct (snd (rresume s (Send v))) as [m s'| | |e]; cbn [snd]; try contradiction.
        + apply (IH s' k G). cbn in Hk. lia.
        + reflexivity.
    Qed.

    Theorem completes vs :
      1 + zn * (L + 2) <= length vs ->
      snd (run (init P) (map Send vs)) = FReturned /\
      inst_count (fst (run (init P) (map Send vs))) = zn.
    Proof.
      intros H.
      assert (F : snd (run (init P) (map Send vs)) = FReturned).
      { apply (run_completes vs (init P) (1 + T 0)); [unfold Need; cbn [ph Repeat.init]; lia|].
        unfold T. rewrite Nat.sub_0_r. exact H. }
      split; [exact F|]. apply exactly_num; assumption.
    Qed.
  End Progress.
End RepeatProofs.

(* the two ways the documentation promises enough delays *)
Lemma scalar_enough num d : sized_too_short num (DScalar d) = false /\ enough_delays num (DScalar d).
Proof. split; [reflexivity|]. intros z _ i _. discriminate. Qed.

Lemma sized_enough z l : (z - 1 <= Z.of_nat (length l))%Z ->
  sized_too_short (Some z) (DSized l) = false /\ enough_delays (Some z) (DSized l).
Proof.
  intros H. split.
  - unfold sized_too_short. apply andb_false_iff. right. apply Z.ltb_ge. exact H.
  - intros z' E i Hi. injection E as <-. cbn [delay_at]. apply nth_error_Some. lia.
Qed.
