(* C20 -- message mutators are transparent when they change nothing.
   plan_mutator(p, lambda m: (None, None)) and msg_mutator(p, lambda m: m) against the bare plan p,
   for EVERY plan coalgebra (P, resume), every p and every driver script (any length).
   Only `exact lemma` proofs here; the lemmas are in Proofs/Mutators.v. *)
From BV Require Import Base.Prelude Gen.Coalg Gen.PyGen Gen.Mutators Proofs.Mutators Proofs.PyGen.
From BV Require Gen.Tie.   (* the correspondence functions: kept in this file's build cone *)

(* finding class C20-a (Proofs/Mutators.v): the script throws a BaseException-only kind
   (GeneratorExit, PlanHalt, CancelledError, KeyboardInterrupt):
     finding_C20_a s := negb (script_exc_only s) = true *)

(* same messages, same return value / exception, same behaviour on close -- plan_mutator *)
Theorem C20_plan_mutator_transparent :
  forall (P : Type) (resume : P -> input -> outcome P) (fixed : bool) (p : P) (s : list input) (fuel : nat),
    unstarted resume p -> ~ finding_C20_a s ->
    trace (pm_resume resume id_proc fixed (S fuel)) (pm_init p tt) s = trace resume p s.
Proof. exact @pm_transparent_nf. Qed.
Print Assumptions C20_plan_mutator_transparent.

(* ... and the wrapped plan receives exactly the driver's inputs, one per step (ltrace pairs every
   observation with the calls made on the wrapped plan; [ideal] is the bare plan logging its own input) *)
Theorem C20_plan_mutator_inputs :
  forall (P : Type) (resume : P -> input -> outcome P) (fixed : bool) (p : P) (s : list input) (fuel : nat),
    ~ finding_C20_a s ->
    ltrace (pm_lresume resume id_proc fixed (S fuel)) (pm_init p tt) (Send VNone :: s)
    = ltrace (ideal resume) p (Send VNone :: s).
Proof. exact @pm_transparent_started_nf. Qed.
Print Assumptions C20_plan_mutator_inputs.

(* msg_mutator: transparent on the larger script class "no GeneratorExit-kind throw"
   (it forwards KeyboardInterrupt / CancelledError) *)
Theorem C20_msg_mutator_transparent :
  forall (P : Type) (resume : P -> input -> outcome P) (p : P) (s : list input) (fuel : nat),
    unstarted resume p -> script_no_ge s = true ->
    trace (mm_resume resume id_mproc fuel) (mm_init p) s = trace resume p s.
Proof. exact @mm_transparent. Qed.
Print Assumptions C20_msg_mutator_transparent.

Theorem C20_msg_mutator_inputs :
  forall (P : Type) (resume : P -> input -> outcome P) (p : P) (s : list input) (fuel : nat),
    script_no_ge s = true ->
    ltrace (mm_lresume resume id_mproc fuel) (mm_init p) (Send VNone :: s)
    = ltrace (ideal resume) p (Send VNone :: s).
Proof. exact @mm_transparent_started. Qed.
Print Assumptions C20_msg_mutator_inputs.

Theorem C20_outside_finding_covers_msg_mutator :
  forall s, ~ finding_C20_a s -> script_no_ge s = true.
Proof. exact nf_no_ge. Qed.

(* BaseException-only throws, stated separately (what the code does there):
   plan_mutator raises KeyboardInterrupt / CancelledError at once without informing any plan;
   both mutators turn a thrown GeneratorExit / PlanHalt into close() of the wrapped plan and re-raise. *)
Theorem C20_plan_mutator_base_only_not_forwarded :
  forall (P : Type) (resume : P -> input -> outcome P) fixed st m e fuel,
    is_Exception e = false -> is_GeneratorExit e = false ->
    pm_lresume resume (@id_proc P) fixed fuel (PMRun st m) (Throw e) = (Raised e, []).
Proof. exact @pm_throw_base_only. Qed.

Theorem C20_plan_mutator_generator_exit_closes :
  forall (P : Type) (resume : P -> input -> outcome P) fixed p st m e fuel,
    pm_inv p st -> is_GeneratorExit e = true ->
    pm_lresume resume (@id_proc P) fixed fuel (PMRun st m) (Throw e) =
    (match close_result (resume p Close) with
     | CloseOk => Raised e | CloseRaised e' => Raised e' | CloseFuel => OutOfFuel end, [Call 0 Close]).
Proof. exact @pm_throw_ge. Qed.

Theorem C20_msg_mutator_generator_exit_closes :
  forall (P : Type) (resume : P -> input -> outcome P) p e fuel,
    is_GeneratorExit e = true ->
    mm_lresume resume id_mproc fuel (MMRun p) (Throw e) =
    (match close_result (resume p Close) with
     | CloseOk => Raised e | CloseRaised e' => Raised e' | CloseFuel => OutOfFuel end, [Call 0 Close]).
Proof. exact @mm_throw_ge. Qed.

(* the property as stated ("the same exceptions seen and raised", every exception script) fails
   inside the class: witnesses on the PyGen plan   try: yield m0  finally: yield m1 *)
Definition w_prog : stmt := STry (SYield None 0) [] SPass (SYield None 1).

Theorem C20_a_refuted_plan_mutator :
  exists s, finding_C20_a s /\
    trace (pm_resume (cl_resume 50) id_proc true 5) (pm_init (cl_init w_prog) tt) s
    <> trace (cl_resume 50) (cl_init w_prog) s.
Proof. exists [Send VNone; Throw EKeyboardInterrupt]. split; [reflexivity|]. vm_compute. discriminate. Qed.

Theorem C20_a_refuted_msg_mutator :
  exists s, finding_C20_a s /\
    trace (mm_resume (cl_resume 50) id_mproc 5) (mm_init (cl_init w_prog)) s
    <> trace (cl_resume 50) (cl_init w_prog) s.
Proof. exists [Send VNone; Throw EPlanHalt]. split; [reflexivity|]. vm_compute. discriminate. Qed.

(* non-vacuity: a concrete plan meets the hypotheses and the script exercises yields, a handled
   throw, and close inside a finally *)
Definition nv_prog : stmt :=
  STry (SSeq (SYield (Some 0) 0) (SYieldFrom None (SYield None 1))) [(PException, SYield None 2)] SPass (SYield None 3).
Definition nv_script : list input := [Send VNone; Send (VInt 1); Throw (EUser 0); Close].

Example C20_nonvacuous :
  unstarted (cl_resume 50) (cl_init nv_prog) /\ ~ finding_C20_a nv_script /\
  trace (cl_resume 50) (cl_init nv_prog) nv_script = [OYield 0; OYield 1; OYield 2; ORaise ERuntimeError] /\
  trace (pm_resume (cl_resume 50) id_proc true 5) (pm_init (cl_init nv_prog) tt) nv_script
  = [OYield 0; OYield 1; OYield 2; ORaise ERuntimeError].
Proof.
  split; [apply cl_init_unstarted|]. split; [intro H; discriminate H|]. split; vm_compute; reflexivity.
Qed.
