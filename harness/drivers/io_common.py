"""Helpers shared by the I/O property checks (C33, C34, C43): JSON-able value specs that can
describe numpy arrays / bytes / tuples, a canonical form for deep comparison, random values."""
import json

TAGS = ("__nd__", "__b__", "__t__")


def build(spec):
    """value spec (JSON-able) -> Python value"""
    if isinstance(spec, dict):
        if "__nd__" in spec:
            import numpy as np
            d = spec["__nd__"]
            return np.array(d["data"], dtype=d["dtype"]).reshape(d["shape"])
        if "__b__" in spec:
            return bytes.fromhex(spec["__b__"])
        if "__t__" in spec:
            return tuple(build(x) for x in spec["__t__"])
        return {k: build(v) for k, v in spec.items()}
    if isinstance(spec, list):
        return [build(x) for x in spec]
    return spec


def canon_obj(v):
    """Python value -> JSON-able canonical form that keeps types apart (bool/int/float, list/tuple,
    ndarray dtype+shape+bytes); floats by hex; dict entries sorted by key (insertion order is
    not part of document equality)."""
    try:
        import numpy as np
    except ImportError:  # pragma: no cover
        np = None
    if v is None:
        return ["none"]
    if isinstance(v, bool):
        return ["bool", v]
    if isinstance(v, int):
        return ["int", str(v)]
    if isinstance(v, float):
        return ["float", v.hex()]
    if isinstance(v, str):
        return ["str", v]
    if isinstance(v, (bytes, bytearray)):
        return ["bytes", bytes(v).hex()]
    if isinstance(v, tuple):
        return ["tuple", [canon_obj(x) for x in v]]
    if isinstance(v, list):
        return ["list", [canon_obj(x) for x in v]]
    if isinstance(v, dict):
        items = [(canon_obj(k), canon_obj(x)) for k, x in v.items()]
        items.sort(key=lambda kv: json.dumps(kv[0], sort_keys=True))
        return ["dict", [[k, x] for k, x in items]]
    if np is not None and isinstance(v, np.ndarray):
        return ["nd", v.dtype.str, list(v.shape), v.tobytes().hex()]
    if np is not None and isinstance(v, np.generic):
        return ["npscalar", v.dtype.str, v.tobytes().hex()]
    return ["other", type(v).__name__, repr(v)]


def canon(v):
    return json.dumps(canon_obj(v), sort_keys=True)


WORDS = ["uid", "time", "data", "x", "motor pos", "det", "scan_id", "né €", "a\nb", "", "k k", "timestamps",
         "seq_num", "日本", "q\"uote", "back\\slash", "tab\t", "sp ace"]


def rand_scalar(rng, flavour):
    r = rng.random()
    if r < 0.12:
        return None
    if r < 0.22:
        return rng.random() < 0.5
    if r < 0.45:
        return rng.choice([0, 1, -1, 32, 255, 256, 2 ** 31, -2 ** 31 - 1, 2 ** 53 + 1, rng.randint(-10 ** 6, 10 ** 6),
                           (2 ** 63 - 1) if flavour != "json" else 10 ** 30])
    if r < 0.65:
        return rng.choice([0.0, -0.0, 1.5, 1e300, -1e-300, 5e-324, 0.1, 32.0, rng.uniform(-1e6, 1e6)])
    return rng.choice(WORDS) + rng.choice(["", " ", "\n", "z", " 32 "])


def rand_value(rng, flavour, depth=0):
    """flavour: 'pickle' (anything picklable incl. numpy, bytes, tuples, nan), 'json' (what json.dump
    accepts and json.loads returns unchanged: str-keyed dicts, lists, finite floats), 'msgpack'
    (what PersistentDict's msgpack+msgpack_numpy round-trips exactly)."""
    r = rng.random()
    if depth >= 3 or r < 0.45:
        if flavour in ("pickle", "msgpack") and rng.random() < 0.2:
            dt = rng.choice(["<f8", "<i4", "|u1", "<i8", "|b1"])
            shape = rng.choice([[0], [1], [3], [2, 2], [2, 1, 2]])
            n = 1
            for s in shape:
                n *= s
            if dt == "<f8":
                data = [rng.choice([0.0, 1.5, -2.25, 1e10]) for _ in range(n)]
            elif dt == "|b1":
                data = [rng.random() < 0.5 for _ in range(n)]
            else:
                data = [rng.randint(0, 100) for _ in range(n)]
            return {"__nd__": {"dtype": dt, "shape": shape, "data": data}}
        if flavour in ("pickle", "msgpack") and rng.random() < 0.1:
            return {"__b__": bytes(rng.choice([0, 32, 10, 255, 65]) for _ in range(rng.randint(0, 5))).hex()}
        if flavour == "pickle" and rng.random() < 0.08:
            return {"__t__": [rand_value(rng, flavour, depth + 2) for _ in range(rng.randint(0, 2))]}
        if flavour == "pickle" and rng.random() < 0.05:
            return rng.choice([float("inf"), float("-inf")])
        return rand_scalar(rng, flavour)
    if r < 0.7:
        return [rand_value(rng, flavour, depth + 1) for _ in range(rng.randint(0, 3))]
    out = {}
    for _ in range(rng.randint(0, 3)):
        k = rng.choice(WORDS)
        if k in TAGS:
            continue
        out[k] = rand_value(rng, flavour, depth + 1)
    return out


def rand_doc(rng, flavour, uid=None):
    d = {}
    if uid is not None:
        d["uid"] = uid
    for _ in range(rng.randint(0, 3)):
        k = rng.choice(WORDS)
        if k != "uid":                      # a top-level uid is only ever the string asked for
            d[k] = rand_value(rng, flavour, 1)
    return d


def coq_bytes(b):
    return "[" + ";".join(str(x) for x in bytes(b)) + "]"


def coq_list(xs, f=str):
    return "[" + "; ".join(f(x) for x in xs) + "]"


def coq_bool(b):
    return "true" if b else "false"
