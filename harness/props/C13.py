"""C13 - each yield receives the response to its own message."""
from harness.props.engine_common import *  # noqa: F401,F403  (impl_batch/nontrivial/describe/... shared by the engine family)
from harness.props import engine_common as ec
from harness.props import resp_trace as rt
from harness.drivers import engine_encode, engine_cases_resp

ID = "C13"
PROP_FILE = "Props/C13.v"
THEOREMS = ["C13_inputs_explained", "C13_responses_delivered", "C13_returns_run_uids", "C13_full_refuted"]
COQ_IMPORTS = "From BV Require Import Engine.RE Engine.REInst Engine.RespMon.\nFrom Coq Require Import ZArith."


def cases(rng, tier):
    return ec.gen_cases(rng, tier) + engine_cases_resp.gen(rng, tier)


def impl_batch(cases):
    """the shared (cached, pooled) engine runs, except the cases under real preprocessors / call_returns_result, which
    need the extended driver (harness/drivers/engine_driver_resp.py) and are cheap: run here, one after the other"""
    from harness.drivers import engine_driver_resp
    import json
    plain = [c for c in cases if not c.get("resp_driver")]
    outs = iter(ec.impl_batch(plain))
    res = []
    for c in cases:
        if c.get("resp_driver"):
            try:
                o = engine_driver_resp.run_case(c)
            except Exception as e:  # pragma: no cover
                o = {"errors": ["resp driver: %r" % (e,)], "sched": [], "obs": [], "tapes": {}, "msgs": [], "devcalls": []}
            res.append(json.loads(json.dumps(o, default=str)))
        else:
            res.append(next(outs))
    return res


def problems(case, obs):
    if case.get("preproc"):
        # the plan of each call sits under engine-level preprocessors: it does not talk to the engine directly
        user = lambda pid: pid < 1000 or pid >= 2000      # noqa: E731
        return (rt.check_responses(obs, skip=lambda pid: pid < 1000) + rt.check_uids(obs)
                + rt.check_wrapped(obs, inner=user) + rt.check_results(obs))
    return rt.check_responses(obs) + rt.check_uids(obs) + rt.check_wrapped(obs) + rt.check_results(obs)


def oracle(case, obs):
    if obs.get("errors"):
        return "driver: " + str(obs["errors"][0])[:200]
    bad = problems(case, obs)
    if bad:
        return "; ".join(m for _, m in bad[:3])[:600]
    return None


def finding(case, obs):
    """Recorded class (mirror of the flag of Engine/RespMon.v): a = a command cancelled by a pause/suspension leaves
    None as the response its plan receives.  Anything else is outside the class."""
    if obs.get("errors"):
        return None
    kinds = {k for k, _ in problems(case, obs)}
    if kinds != {"a"}:
        return None
    return "a"


def coq_term(case, obs):
    """the model reproduces the observation AND the Coq monitor run on the model's trace classifies the plan of every
    call (up to three) exactly like the implementation-side monitor run on the real trace"""
    if obs.get("errors") or case.get("no_model"):
        return None
    try:
        e = engine_encode.Enc(case, obs).encode()
    except engine_encode.Unsupported:
        return None
    cb = engine_encode.cb
    ncalls = sum(1 for x in obs["obs"] if x[0] == "main" and x[1] == "call")
    agree = []
    for pid in range(min(ncalls, 3)):
        acc, a = rt.coq_agree_args(obs, pid)
        agree.append("(resp_agree (chk %d mon0 tr) %s %s)" % (pid, cb(acc), cb(a)))
    return ("let tp := %s in let ld := %s in let ev := %s in let tr := model_tr tp ld %s %s %s ev in "
            "andb (check tp ld %s %s %s ev %s) (%s)"
            % (e["tapes"], e["ledger"], e["evs"], e["paus"], e["stag"], e["rec"],
               e["paus"], e["stag"], e["rec"], e["obs"], rt.coq_and(agree)))
