"""Shared layer of the control-flow engine properties C03, C04, C09, C10, C11.

* impl_batch: cases marked {"ctl": true} run under harness/drivers/engine_driver_ctl.py (own cache file),
  all others go through the shared engine cache of engine_common;
* timeline(obs): the observation list of a real run merged with the injections of its schedule
  (releases, forced releases) so that oracles can speak about "between request and release";
* Spec: the PROPERTY-side reading of "which messages are to be replayed" (C04) and "is a deferred pause
  pending" (C09), computed from the observation trace alone (msg_hook, responses, lifecycle changes,
  main-thread calls).  It mirrors the Coq monitor of Proofs/RE_Ctl.v (`mon`), extended with the
  monitor/unmonitor/subscribe/unsubscribe commands that the engine model does not contain.
"""
import hashlib
import json
import multiprocessing as mp
import os

from harness import core
from harness.props import engine_common as ec

# the non-replayable commands (property text of C04: "excluding non-replayable commands"); this is the
# reading of RunEngine._UNCACHEABLE_COMMANDS at the time the property was written -- kept literal on
# purpose: dropping an entry from the table in the source is a change of behaviour the oracle must see.
NON_REPLAYABLE = {"pause", "subscribe", "unsubscribe", "stage", "unstage", "monitor", "unmonitor", "open_run",
                  "close_run", "install_suspender", "remove_suspender", "_start_suspender"}
# commands that act as an implicit checkpoint when they complete successfully
IMPLICIT_CKPT = {"stage", "unstage", "monitor", "unmonitor", "subscribe", "unsubscribe", "close_run"}


# ----------------------------------------------------------------------------- running cases

def _ctl_hash():
    h = hashlib.sha256()
    h.update(ec.src_hash().encode())
    h.update(open(os.path.join(core.VERIF, "harness", "drivers", "engine_driver_ctl.py"), "rb").read())
    return h.hexdigest()[:20]


def _work_chunk(chunk):
    from harness.drivers.engine_driver_ctl import run_case
    out = []
    for c in chunk:
        try:
            out.append(run_case(c))
        except Exception as e:  # pragma: no cover
            out.append({"errors": ["worker: %r" % (e,)], "sched": [], "obs": [], "tapes": {}, "msgs": [], "devcalls": []})
    return out


def _run_all(cases, procs=None, chunk=8):
    procs = procs or min(core.NCPU, 6)
    ctx = mp.get_context("spawn")
    outs = [None] * len(cases)
    pool = ctx.Pool(procs, maxtasksperchild=40)
    try:
        jobs = [(k, pool.apply_async(_work_chunk, (cases[k:k + chunk],))) for k in range(0, len(cases), chunk)]
        for k, j in jobs:
            n = len(cases[k:k + chunk])
            try:
                res = j.get(timeout=40 * chunk)
            except Exception as e:
                res = [{"errors": ["pool: %r" % (e,)], "sched": [], "obs": [], "tapes": {}, "msgs": [], "devcalls": []}] * n
            outs[k:k + n] = res
    finally:
        pool.terminate()
    return outs


def _key(c):
    return hashlib.sha256(json.dumps(c, sort_keys=True).encode()).hexdigest()[:24]


def _ctl_batch(cases):
    d = os.path.join(core.VERIF, ".cache", "engine_ctl")
    os.makedirs(d, exist_ok=True)
    p = os.path.join(d, _ctl_hash() + ".jsonl")
    known = {}
    if os.path.exists(p):
        for line in open(p):
            try:
                k, v = json.loads(line)
                known[k] = v
            except Exception:
                pass
    keys = [_key(c) for c in cases]
    todo, seen = [], set()
    for i, k in enumerate(keys):
        if k not in known and k not in seen:
            todo.append(i)
            seen.add(k)
    if todo:
        outs = _run_all([cases[i] for i in todo])
        for attempt in range(2):
            redo = [j for j, o in enumerate(outs) if o.get("errors")]
            if not redo:
                break
            again = _run_all([cases[todo[j]] for j in redo], procs=3, chunk=2)
            for j, o in zip(redo, again):
                outs[j] = o
        outs = json.loads(json.dumps(outs, default=str))
        with open(p, "a") as f:
            for i, o in zip(todo, outs):
                known[keys[i]] = o
                if not o.get("errors"):
                    f.write(json.dumps([keys[i], o]) + "\n")
        files = sorted((os.path.getmtime(os.path.join(d, f)), f) for f in os.listdir(d))
        for _, f in files[:-4]:
            os.unlink(os.path.join(d, f))
    return [known[k] for k in keys]


def baseline_of(case):
    """the same call(s) without any injection and without a main-thread script"""
    b = dict(case)
    b["inject"] = []
    b["script"] = []
    b["tag"] = "baseline"
    b.pop("baseline", None)
    return b


def impl_batch(cases):
    """Observation of every case; a case with {"baseline": true} additionally gets obs["baseline"] =
    the observation of the same plan run uninterrupted (used by the C03 differential oracle)."""
    ctl_idx = [i for i, c in enumerate(cases) if c.get("ctl")]
    std_idx = [i for i, c in enumerate(cases) if not c.get("ctl")]
    outs = [None] * len(cases)
    if std_idx:
        for i, o in zip(std_idx, ec.impl_batch([cases[i] for i in std_idx])):
            outs[i] = o
    if ctl_idx:
        run = [cases[i] for i in ctl_idx]
        base_idx = [i for i in ctl_idx if cases[i].get("baseline")]
        run += [baseline_of(cases[i]) for i in base_idx]
        res = _ctl_batch(run)
        for i, o in zip(ctl_idx, res[:len(ctl_idx)]):
            outs[i] = dict(o)
        for i, o in zip(base_idx, res[len(ctl_idx):]):
            outs[i]["baseline"] = {"obs": [x for x in o.get("obs", []) if x[0] in ("doc", "out")], "errors": o.get("errors", [])}
    return outs


def coq_term(case, obs):
    """cases whose message kinds / device methods are outside the frozen model are not sent to Coq"""
    if obs.get("errors"):
        return None
    return ec.coq_term(case, obs)


# ----------------------------------------------------------------------------- timeline

_ANCHOR = {"task": "task", "req": "req_done", "main": "main", "out": "main_done"}


def timeline(o):
    """obs entries in order, `req` entries extended to ["req", ok, kind, param], with the schedule's
    ["inject", ...] entries inserted where they happened (an injection fired after `_run` step k
    precedes every observation of step k+1)."""
    obs, sched = o["obs"], o["sched"]
    out, si = [], 0

    def flush():
        nonlocal si
        while si < len(sched) and sched[si][0] not in ("task", "req_done", "main", "main_done"):
            if sched[si][0] == "inject":
                out.append(list(sched[si]))
            si += 1
    flush()
    for e in obs:
        k = e[0]
        if k in _ANCHOR:
            want = _ANCHOR[k]
            # the schedule and the observation list are appended in the same order
            if si < len(sched) and sched[si][0] == want:
                s = sched[si]
                si += 1
                if k == "req":
                    out.append(["req", e[1], s[1], s[2]])
                else:
                    out.append(e)
                flush()
                continue
            raise ValueError("schedule/observation lists out of step at %r vs %r" % (e, sched[si] if si < len(sched) else None))
        out.append(e)
    return out


# ----------------------------------------------------------------------------- the trace specification

class Spec:
    """State of the trace specification after a prefix of the timeline.

    cache    : None (no checkpoint in effect) or the list of message ids to replay on resume/release
    rw       : the rewindable flag as set by `rewindable` messages
    deferred : a deferred pause has been accepted and not yet taken effect / been superseded
    state    : lifecycle state as reported by state_hook
    """

    def __init__(self):
        self.cache = []
        self.rw = True
        self.deferred = False
        self.state = "idle"
        self.pend = None          # (mid, canon msg) being processed

    def can_pause(self):
        return self.state == "running"      # the only state with a pausing transition besides itself

    # returns a tag describing what the entry did to the replay obligations:
    #   ("resume", [mids])   a resume was accepted: these messages must now be replayed
    #   ("suspend", [mids])  _start_suspender ran: these messages are replayed when the helper finishes
    #   None
    def feed(self, e):
        k = e[0]
        if k == "state":
            self.state = e[2]
            if e[2] == "pausing":
                self.deferred = False
            return None
        if k == "main":
            if e[1] == "call" and self.state == "idle":
                self.cache, self.deferred, self.pend = [], False, None
            elif e[1] == "resume" and self.state == "paused" and self.cache is not None:
                r, self.cache = self.cache, []
                return ("resume", r)
            return None
        if k == "req":
            if e[2] == "pause" and e[3] is True and e[1]:
                self.deferred = True
            return None
        if k == "msg":
            mid, m = e[1], e[2]
            if self.cache is not None and self.rw and m["cmd"] not in NON_REPLAYABLE:
                self.cache.append(mid)
            self.pend = (mid, m)
            return None
        if k == "task" and e[1] == "future":
            if self.pend is not None and self.pend[1]["cmd"] == "checkpoint":
                # the checkpoint was taken; the engine now sleeps out the grace period of a deferred pause
                self.cache = []
                self.pend = None
            return None
        if k == "resp":
            if self.pend is None:
                return None
            mid, m = self.pend
            self.pend = None
            ok = not (isinstance(e[1], list) and e[1] and e[1][0] == "exn")
            c = m["cmd"]
            if c == "checkpoint":
                # the non-resumable window opened by clear_checkpoint ends at the next EXPLICIT checkpoint
                # (implicit checkpoints below do not end it); the engine does the same since fixes/C09-a.diff
                if not (isinstance(e[1], list) and e[1][:2] == ["exn", "IllegalMessageSequence"]):
                    self.cache = []
            elif c == "clear_checkpoint":
                self.cache = None
            elif c == "rewindable":
                v = m["args"][0]
                if v is not None and ok:
                    old, self.rw = self.rw, bool(v)
                    if self.cache is not None and old != self.rw:
                        self.cache = []
            elif c in ("stage", "unstage"):
                # staging an object that has no stage()/unstage() does nothing (response []): no checkpoint
                if ok and not (isinstance(e[1], list) and e[1][0] in ("devs", "list") and e[1][1] == []) and self.cache is not None:
                    self.cache = []
            elif c in IMPLICIT_CKPT:
                if ok and self.cache is not None:
                    self.cache = []
            elif c == "pause":
                if ok and m["args"][0]:
                    self.deferred = True
            elif c == "_start_suspender":
                if ok and self.cache is not None:
                    r, self.cache = self.cache, []
                    return ("suspend", r)
            return None
        return None


def is_exn(v):
    return isinstance(v, list) and len(v) > 0 and v[0] == "exn"


# ----------------------------------------------------------------------------- replay obligations (C04)

def fresh_flags(tl, tapes):
    """For every `msg` entry of the timeline: (pid, input kind) when the message was yielded by a (taped)
    plan generator at that moment -- the k-th plan_in of plan pid is the k-th tape entry, whose outcome says
    whether it yielded that message --, or None when the message was produced by an engine-made plan: the
    rewind plan, single_gen, the suspender helper."""
    res = {}
    prev = None
    nin = {}
    for i, e in enumerate(tl):
        if e[0] == "plan_in":
            k = nin.get(e[1], 0)
            nin[e[1]] = k + 1
            tape = tapes.get(str(e[1]), [])
            out = tape[k][1] if k < len(tape) else None
            prev = ("plan_in", e[1], e[2][0], out)
        elif e[0] == "msg":
            res[i] = None
            if prev is not None and prev[0] == "plan_in" and prev[3] is not None and prev[3][0] == "yield" and prev[3][1] == e[1]:
                res[i] = (prev[1], prev[2])
            prev = e
        elif e[0] != "task":
            prev = e
    return res


def check_replay(tl, tapes):
    """C04 on one real run.  Walks the timeline with the trace specification; whenever a resume is
    accepted or a suspension starts, the messages the specification says are to be replayed become an
    obligation; every message the engine re-issues (same Msg object, not produced by the plan at that
    moment) must be the next obligation, and the plan itself may only be advanced (send) once all
    obligations are met.  Returns None or a description of the first deviation."""
    sp = Spec()
    fresh = fresh_flags(tl, tapes)
    pending = []          # stack of lists of message ids still to be replayed
    last_replayed = False
    for i, e in enumerate(tl):
        k = e[0]
        if k == "plan_in" and e[2][0] == "throw":
            # an exception travels down the plan stack: engine-made plans above die without finishing
            pending = []
        if k == "msg":
            mid = e[1]
            fr = fresh[i]
            last_replayed = False
            if mid is not None and fr is None:
                while pending and not pending[-1]:
                    pending.pop()
                if not pending:
                    return "message #%s (%s) was re-issued by the engine although nothing (more) was to be replayed" % (mid, e[2]["cmd"])
                if pending[-1][0] != mid:
                    return "replay out of order: engine re-issued message #%s (%s), expected #%s" % (mid, e[2]["cmd"], pending[-1][0])
                pending[-1].pop(0)
                last_replayed = True
            elif mid is not None and fr is not None and fr[0] < 1000 and fr[1] == "send":
                rest = [x for l in pending for x in l]
                if rest:
                    return "the plan was advanced to message #%s (%s) before the replay finished (still to replay: %s)" % (mid, e[2]["cmd"], rest)
        if k == "resp" and last_replayed and is_exn(e[1]):
            pending = []      # a replayed message failed: the exception kills the rewind plan
        if k == "out":
            rest = [x for l in pending for x in l]
            if e[1] in ("call", "resume") and e[2] == "return" and rest:
                return "the call returned normally but messages %s were never replayed" % rest
            if e[-3] == "idle":
                pending = []
        r = sp.feed(e)
        if r is not None:
            pending.append(list(r[1]))
    return None
