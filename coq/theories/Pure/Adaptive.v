(* Model of bluesky.plans.adaptive_scan (adaptive_core loop) and bluesky.plans.tune_centroid
   (_tune_core loop), src/bluesky/plans.py, written once over the generic operations of
   Base/NumOps.v.  The detector is an arbitrary function of the reading index (every response
   sequence); loops run on explicit fuel and report running out of it explicitly.
   adaptive_scan is modelled WITH the argument check proposed in fixes/C29-a.diff
   (`backstep and not threshold < 1` raises ValueError); [a_loop] itself is the loop as it
   always was.  No proofs in this file. *)
From Coq Require Import ZArith List Bool.
From BV Require Import Base.NumOps.
Import ListNotations.

Section Adaptive.
  Context {F : Type} (O : Ops F).
  Notation "a + b" := (o_add O a b).
  Notation "a - b" := (o_sub O a b).
  Notation "a * b" := (o_mul O a b).
  Notation "a / b" := (o_div O a b).
  Notation "a <? b" := (o_ltb O a b).
  Notation "a <=? b" := (o_leb O a b).
  Notation "a =? b" := (o_eqb O a b).

  (* ------------------------------------------------------------------ adaptive_scan *)
  Record aparams := mkA {
    a_start : F; a_stop : F; a_min : F; a_max : F; a_target : F; a_thr : F; a_backstep : bool }.

  Record astate := mkAS {
    as_next : F;              (* next_pos *)
    as_step : F;              (* step *)
    as_past : option F;       (* past_I (None before the first reading) *)
    as_k : nat }.             (* number of detector readings taken so far *)

  (* `if not 0 < min_step < max_step: raise ValueError`  and (fixes/C29-a.diff)
     `if backstep and not threshold < 1: raise ValueError` *)
  Definition a_valid (p : aparams) : bool :=
    (o_zero O <? a_min p) && (a_min p <? a_max p)
    && (negb (a_backstep p) || (a_thr p <? o_one O)).

  (* direction_sign = 1 if stop >= start else -1 *)
  Definition a_dir (p : aparams) : F :=
    if a_start p <=? a_stop p then o_of_Z O 1 else o_of_Z O (-1).

  Definition a_init (p : aparams) : astate :=
    mkAS (a_start p) ((a_max p - a_min p) / o_of_Z O 2) None 0.

  (* while next_pos * direction_sign < stop * direction_sign *)
  Definition a_cond (p : aparams) (s : astate) : bool :=
    (as_next s * a_dir p) <? (a_stop p * a_dir p).

  (* one pass through the loop body after the reading cur_I = det k was taken at next_pos *)
  Definition a_body (p : aparams) (det : nat -> F) (s : astate) : astate :=
    let ds := a_dir p in
    let cur := det (as_k s) in
    let step := as_step s in
    match as_past s with
    | None =>                                   (* special case first loop *)
        mkAS (as_next s + step * ds) step (Some cur) (S (as_k s))
    | Some past =>
        let dI := o_abs O (cur - past) in
        let slope := dI / step in
        let new_step :=
          if negb (slope =? o_zero O)           (* `if slope:`  (NaN is truthy) *)
          then clip O (a_target p / slope) (a_min p) (a_max p)
          else npmin2 O (step * tenths O 11) (a_max p) in
        if a_backstep p && (new_step <? step * a_thr p) then
          (* next_pos -= step ; step = new_step ; next_pos += step * direction_sign *)
          mkAS ((as_next s - step) + new_step * ds) new_step (Some past) (S (as_k s))
        else
          let step' := tenths O 2 * new_step + tenths O 8 * step in
          mkAS (as_next s + step' * ds) step' (Some cur) (S (as_k s))
    end.

  (* visited positions, and whether the loop ended (false = out of fuel) *)
  Fixpoint a_loop (p : aparams) (det : nat -> F) (fuel : nat) (s : astate) : list F * bool :=
    if a_cond p s then
      match fuel with
      | 0 => ([], false)
      | S f => let r := a_loop p det f (a_body p det s) in (as_next s :: fst r, snd r)
      end
    else ([], true).

  Inductive ares := AValueError | ARan (visited : list F) (finished : bool).

  Definition adaptive_scan (p : aparams) (det : nat -> F) (fuel : nat) : ares :=
    if a_valid p then let r := a_loop p det fuel (a_init p) in ARan (fst r) (snd r)
    else AValueError.

  (* ------------------------------------------------------------------ tune_centroid *)
  Record tparams := mkT {
    t_start : F; t_stop : F; t_min : F; t_num : Z; t_factor : F; t_snake : bool }.

  Record tstate := mkTS {
    ts_start : F; ts_stop : F;       (* start, stop of the current pass *)
    ts_step : F; ts_next : F;
    ts_sumI : F; ts_sumxI : F;
    ts_peak : option F;
    ts_k : nat }.                    (* number of trigger_and_read rounds so far *)

  Definition t_low (p : tparams) : F := pymin O (t_start p) (t_stop p).
  Definition t_high (p : tparams) : F := pymax O (t_start p) (t_stop p).

  Definition t_init (p : tparams) : tstate :=
    mkTS (t_start p) (t_stop p) ((t_stop p - t_start p) / o_of_Z O (t_num p - 1)) (t_start p)
         (o_zero O) (o_zero O) None 0.

  (* while abs(step) >= min_step and low_limit <= next_pos <= high_limit *)
  Definition t_cond (p : tparams) (s : tstate) : bool :=
    (t_min p <=? o_abs O (ts_step s)) && (t_low p <=? ts_next s) && (ts_next s <=? t_high p).

  (* None = the `return` inside the loop (sum_I == 0 at the end of a pass): no final move *)
  Definition t_body (p : tparams) (det : nat -> F) (rb : nat -> F -> F) (s : tstate) : option tstate :=
    let cur := det (ts_k s) in
    let position := rb (ts_k s) (ts_next s) in
    let sumI := ts_sumI s + cur in
    let sumxI := ts_sumxI s + position * cur in
    let next := ts_next s + ts_step s in
    let in_range := (pymin O (ts_start s) (ts_stop s) <=? next) && (next <=? pymax O (ts_start s) (ts_stop s)) in
    if in_range then
      Some (mkTS (ts_start s) (ts_stop s) (ts_step s) next sumI sumxI (ts_peak s) (S (ts_k s)))
    else if sumI =? o_zero O then None
    else
      let peak := sumxI / sumI in
      let range := (ts_stop s - ts_start s) / t_factor p in
      let half := range / o_of_Z O 2 in
      let st := clip O (peak - half) (t_low p) (t_high p) in
      let sp := clip O (peak + half) (t_low p) (t_high p) in
      let st' := if t_snake p then sp else st in
      let sp' := if t_snake p then st else sp in
      Some (mkTS st' sp' ((sp' - st') / o_of_Z O (t_num p - 1)) st'
                 (o_zero O) (o_zero O) (Some peak) (S (ts_k s))).

  Inductive tend := TOutOfFuel | TReturnedEarly | TParked (final : option F).

  Fixpoint t_loop (p : tparams) (det : nat -> F) (rb : nat -> F -> F) (fuel : nat) (s : tstate)
    : list F * tend :=
    if t_cond p s then
      match fuel with
      | 0 => ([], TOutOfFuel)
      | S f =>
          match t_body p det rb s with
          | None => ([ts_next s], TReturnedEarly)
          | Some s' => let r := t_loop p det rb f s' in (ts_next s :: fst r, snd r)
          end
      end
    else ([], TParked (ts_peak s)).

  Inductive tres := TValueError | TZeroDivisionError | TRan (visited : list F) (e : tend).

  (* `if min_step <= 0: raise ValueError` ; `if step_factor <= 1.0: raise ValueError` ;
     (stop - start) / (num - 1) on Python floats raises ZeroDivisionError for num = 1 *)
  Definition tune_centroid (p : tparams) (det : nat -> F) (rb : nat -> F -> F) (fuel : nat) : tres :=
    if t_min p <=? o_zero O then TValueError
    else if t_factor p <=? o_one O then TValueError
    else if Z.eqb (t_num p) 1 then TZeroDivisionError
    else let r := t_loop p det rb fuel (t_init p) in TRan (fst r) (snd r).

  (* every `set` the plan issues, in order: the visited points, then the final move *)
  Definition t_sets (visited : list F) (e : tend) : list F :=
    match e with TParked (Some x) => visited ++ [x] | _ => visited end.
End Adaptive.

Arguments mkA {F}. Arguments mkT {F}.
Arguments AValueError {F}. Arguments ARan {F}.
Arguments TValueError {F}. Arguments TZeroDivisionError {F}. Arguments TRan {F}.
Arguments TOutOfFuel {F}. Arguments TReturnedEarly {F}. Arguments TParked {F}.

(* ---------------------------------------------------------------------------------------
   Q instance: the explicit iteration bounds of the theorems (Proofs/Adaptive.v).          *)
From Coq Require Import QArith Qminmax Qround Qabs.

Definition Qceil_nat (q : Q) : nat := Z.to_nat (Qceiling q).

(* smallest step adaptive_core can ever use: min(step0, min_step), step0 = (max-min)/2 *)
Definition a_step0 (p : aparams (F:=Q)) : Q := (a_max p - a_min p) / 2.
Definition a_m (p : aparams (F:=Q)) : Q := Qmin (a_step0 p) (a_min p).
(* every backstep shrinks the step by at least delta = (1 - max(threshold,0)) * m *)
Definition a_t (p : aparams (F:=Q)) : Q := if a_backstep p then Qmax (a_thr p) 0 else 0.
Definition a_delta (p : aparams (F:=Q)) : Q := (1 - a_t p) * a_m p.

Definition a_bound (p : aparams (F:=Q)) : nat :=
  if Qle_bool (a_start p) (a_stop p) then
    let w := 1 + (a_max p - a_m p) / a_delta p in
    (Qceil_nat ((a_stop p - a_start p) / a_m p * w + (a_step0 p - a_m p) / a_delta p) + 2)%nat
  else (Qceil_nat ((a_start p - a_stop p) / a_m p) + 2)%nat.

Definition a_in_range (p : aparams (F:=Q)) (x : Q) : Prop :=
  if Qle_bool (a_start p) (a_stop p)
  then a_start p <= x /\ x < a_stop p
  else a_stop p < x /\ x <= a_start p.

(* tune_centroid: every new pass shrinks |stop - start| by at least
   t_delta = (num-1) * min_step * (1 - 1/step_factor); a pass has at most num points *)
Definition t_delta (p : tparams (F:=Q)) : Q :=
  inject_Z (t_num p - 1) * t_min p * (1 - 1 / t_factor p).
Definition t_bound (p : tparams (F:=Q)) : nat :=
  (Qceil_nat (inject_Z (t_num p) * (Qabs (t_stop p - t_start p) / t_delta p) + inject_Z (t_num p)) + 1)%nat.

Definition t_in_limits (p : tparams (F:=Q)) (x : Q) : Prop :=
  Qmin (t_start p) (t_stop p) <= x /\ x <= Qmax (t_start p) (t_stop p).

(* ---------------------------------------------------------------------------------------
   binary64 instance: comparison of a model run with an observation of the real plan.      *)
From Coq Require Import PrimFloat.
From BV Require Import Base.Prelude.

Definition fl_beq : list float -> list float -> bool := list_beq fbits_eqb.

Definition ares_beq (a b : ares (F:=float)) : bool :=
  match a, b with
  | AValueError, AValueError => true
  | ARan v f, ARan v' f' => fl_beq v v' && Bool.eqb f f'
  | _, _ => false
  end.

(* observation of tune_centroid: all `set` positions + how it ended
   (0 = returned, 1 = stopped by the driver's cap, 2 = ValueError, 3 = ZeroDivisionError) *)
Definition tune_obs (r : tres (F:=float)) : list float * nat :=
  match r with
  | TValueError => ([], 2%nat)
  | TZeroDivisionError => ([], 3%nat)
  | TRan v TOutOfFuel => (v, 1%nat)
  | TRan v e => (t_sets v e, 0%nat)
  end.
Definition tobs_beq (a b : list float * nat) : bool := fl_beq (fst a) (fst b) && Nat.eqb (snd a) (snd b).

(* ---------------------------------------------------------------------------------------
   Finding classes (binary64 only; mirrored in harness/props/C29.py).
   C29-b: the positions are so large that the quantities the Q proof gains per iteration are
   below 16 ulp of the position (|x| >= 2^48 * q, q > 0), and the run is still going at the cap.
   C29-c: tune_centroid parks just outside the limits (by at most 2^-40 relative): the rounded
   centroid  fl(sum_xI / sum_I)  is not clipped.                                            *)
Section Classes.
  Context {F : Type} (O : Ops F).
  Definition two48 : F := o_of_Z O 281474976710656.

  Definition maxabs (a b : F) : F := pymax O (o_abs O a) (o_abs O b).

  (* q = m * delta / max_step  with m = min(step0, min_step), delta = (1 - max(thr,0)) * m *)
  Definition a_huge (p : aparams (F:=F)) : bool :=
    let step0 := o_div O (o_sub O (a_max p) (a_min p)) (o_of_Z O 2) in
    let m := pymin O step0 (a_min p) in
    let t := if a_backstep p then pymax O (a_thr p) (o_zero O) else o_zero O in
    let delta := o_mul O (o_sub O (o_one O) t) m in
    let q := o_div O (o_mul O m delta) (a_max p) in
    o_ltb O (o_zero O) q && o_leb O (o_mul O two48 q) (maxabs (a_start p) (a_stop p)).

  (* q = min(min_step, (num-1) * min_step * (1 - 1/step_factor)) *)
  Definition t_huge (p : tparams (F:=F)) : bool :=
    let delta := o_mul O (o_mul O (o_of_Z O (Z.abs (t_num p - 1))) (t_min p))
                       (o_sub O (o_one O) (o_div O (o_one O) (t_factor p))) in
    let q := pymin O (t_min p) delta in
    o_ltb O (o_zero O) q && o_leb O (o_mul O two48 q) (maxabs (t_start p) (t_stop p)).

  Definition finding_C29_b_adaptive (p : aparams (F:=F)) (r : ares (F:=F)) : bool :=
    match r with ARan _ false => a_huge p | _ => false end.
  Definition finding_C29_b_tune (p : tparams (F:=F)) (r : tres (F:=F)) : bool :=
    match r with TRan _ TOutOfFuel => t_huge p | _ => false end.

  Definition park_of (r : tres (F:=F)) : option F :=
    match r with TRan _ (TParked (Some x)) => Some x | _ => None end.

  Definition finding_C29_c (p : tparams (F:=F)) (r : tres (F:=F)) : bool :=
    match park_of r with
    | Some x =>
        let lo := t_low O p in
        let hi := t_high O p in
        let tol := o_div O (maxabs lo hi) (o_of_Z O 1099511627776) in
        (o_ltb O x lo && o_leb O (o_sub O lo x) tol) || (o_ltb O hi x && o_leb O (o_sub O x hi) tol)
    | None => false
    end.
End Classes.
