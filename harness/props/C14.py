"""C14 - concurrent runs with different run keys stay independent."""
from harness.props.engine_common import *  # noqa: F401,F403
from harness.props import docs_common as dc
from harness.props import engine_common as ec

ID = "C14"
PROP_FILE = "Props/C14.v"
THEOREMS = ["C14_message_touches_only_its_run", "C14_close_run_frame", "C14_open_run_frame", "C14_duplicate_open_refused",
            "C14_runs_well_formed_separately", "C14_set_run_key_wrapper", "C14_set_run_key_nested"]
COQ_IMPORTS = dc.COQ_IMPORTS + "\nFrom BV Require Import Pure.RunKey."
RULE = dc.RULE + (" || set_run_key_wrapper / set_run_key_decorator: the REAL functions over all message lists of length <= 3 and random "
                  "longer ones with run keys from {None, 0, '', 'a', 1}, one wrapper and two nested, every key pair || ORACLE ONLY: baseline readings "
                  "(SupplementalData / baseline_wrapper) around 2-3 keyed runs open at once, nested and interleaved, every ordered key pair")

KEYS = [None, 0, "", "a", 1]          # 0 and '' are falsy but perfectly valid run keys


def key_code(k):
    if k is None:
        return None
    if isinstance(k, bool):
        return 9
    return {(int, 0): 0, (str, ""): 1, (str, "a"): 2, (int, 1): 3}.get((type(k), k), 8)


def runkey_cases(rng, tier):
    out = []
    wk = KEYS[1:]
    lists = [[]] + [[a] for a in KEYS] + [[a, b] for a in KEYS for b in KEYS]
    if tier == "thorough":
        lists += [[a, b, c] for a in KEYS for b in KEYS for c in KEYS]
    lists += [[rng.choice(KEYS) for _ in range(rng.randint(3, 9))] for _ in range(40 if tier == "quick" else 400)]
    for i, msgs in enumerate(lists):
        for via in ("wrapper", "decorator"):
            for ko in wk:
                if i % 3 == 0 or tier == "thorough" or len(msgs) > 2:
                    out.append({"kind": "runkey", "keys": [ko], "via": via, "msgs": msgs, "tag": "runkey 1 %s" % via})
                for ki in wk:
                    if tier == "thorough" or (i + len(str(ko)) + len(str(ki))) % 2 == 0 or len(msgs) > 2:
                        out.append({"kind": "runkey", "keys": [ko, ki], "via": via, "msgs": msgs, "tag": "runkey 2 %s" % via})
    return out


def baseline_cases(rng, tier):
    """ORACLE ONLY (the preprocessors are not in the engine model): the REAL RunEngine with baseline readings inserted by
    SupplementalData / baseline_wrapper around open_run and close_run of several keyed runs open at once"""
    import itertools
    out = []
    pairs = [list(p) for p in itertools.permutations(KEYS, 2)]
    triples = [[None, 0, "a"], [0, "", 1], ["a", 0, None], ["", 1, "a"]]
    for keys in pairs + triples:
        for nested in (False, True):
            for via in ("sd", "wrapper"):
                if tier == "quick" and via == "wrapper" and (len(str(keys)) + nested) % 2:
                    continue
                out.append({"kind": "baseline", "keys": [key_code(k) for k in keys], "nested": nested, "via": via,
                            "tag": "baseline %s" % via})
    return out


def cases(rng, tier):
    return dc.cases(rng, tier) + runkey_cases(rng, tier) + baseline_cases(rng, tier)


_KEY_OF_CODE = {None: None, 0: 0, 1: "", 2: "a", 3: 1}


class _Det:
    parent = None

    def __init__(self, name):
        self.name = name

    def read(self):
        return {self.name: {"value": 1.0, "timestamp": 0.0}}

    def describe(self):
        return {self.name: {"source": "sim", "dtype": "number", "shape": []}}

    def read_configuration(self):
        return {}

    def describe_configuration(self):
        return {}


def run_baseline(case):
    from bluesky import RunEngine
    from bluesky import plan_stubs as bps
    from bluesky import preprocessors as bpp
    det, base = _Det("det"), _Det("base")
    keys = [_KEY_OF_CODE[c] for c in case["keys"]]

    def keyed(plan, key):
        return plan if key is None else bpp.set_run_key_wrapper(plan, key)

    def plan():
        for i, k in enumerate(keys):
            yield from keyed(bps.open_run(md={"idx": i}), k)
        for k in keys:
            yield from keyed(bps.trigger_and_read([det]), k)
        for k in (reversed(keys) if case["nested"] else keys):
            yield from keyed(bps.close_run(), k)
    docs = []
    RE = RunEngine({}, context_managers=[])
    p = plan()
    if case["via"] == "sd":
        RE.preprocessors.append(bpp.SupplementalData(baseline=[base]))
    else:
        p = bpp.baseline_wrapper(p, [base])
    err = None
    try:
        RE(p, lambda name, doc: docs.append((name, doc)))
    except Exception as e:  # noqa: BLE001
        err = "%s: %s" % (type(e).__name__, e)
    start_idx = {d["uid"]: d.get("idx") for n, d in docs if n == "start"}
    desc = {d["uid"]: (start_idx.get(d["run_start"]), d["name"]) for n, d in docs if n == "descriptor"}
    events = [list(desc.get(d["descriptor"], (None, "?"))) + [d["seq_num"]] for n, d in docs if n == "event"]
    stops = [[start_idx.get(d["run_start"]), d["exit_status"], dict(d.get("num_events", {}))] for n, d in docs if n == "stop"]
    return {"err": err, "starts": sorted(x for x in start_idx.values() if x is not None), "events": events, "stops": stops,
            "state": RE.state}


def oracle_baseline(case, obs):
    n = len(case["keys"])
    if obs["err"] is not None:
        return "a valid plan with %d keyed runs open at once was rejected: %s" % (n, obs["err"])
    if obs["starts"] != list(range(n)):
        return "runs started: %r, expected one per key" % (obs["starts"],)
    for i in range(n):
        ev = [e for e in obs["events"] if e[0] == i]
        nb = sorted(e[2] for e in ev if e[1] == "baseline")
        npri = sorted(e[2] for e in ev if e[1] == "primary")
        if nb != [1, 2] or npri != [1]:
            return ("run %d (key code %r) holds baseline events %r and primary events %r; expected seq_nums [1, 2] (the readings "
                    "around ITS open_run and close_run) and [1]" % (i, case["keys"][i], nb, npri))
        st = [s for s in obs["stops"] if s[0] == i]
        if len(st) != 1 or st[0][1] != "success" or st[0][2] != {"baseline": 2, "primary": 1}:
            return "run %d (key code %r): stop documents %r" % (i, case["keys"][i], st)
    if any(e[0] is None for e in obs["events"]):
        return "an event references a descriptor of no known run"
    if obs["state"] != "idle":
        return "engine left in state %r" % obs["state"]
    return None


def run_runkey(case):
    from bluesky.preprocessors import set_run_key_decorator, set_run_key_wrapper
    from bluesky.utils import Msg

    def plan():
        for i, k in enumerate(case["msgs"]):
            yield Msg("null", None, i, run=k)
    if case["via"] == "wrapper":
        g = plan()
        for k in reversed(case["keys"]):        # keys are listed outermost first
            g = set_run_key_wrapper(g, k)
    else:
        f = plan
        for k in reversed(case["keys"]):
            f = set_run_key_decorator(k)(f)
        g = f()
    got = []
    try:
        m = g.send(None)
        while True:
            got.append([m.command, list(m.args), key_code(m.run), repr(m.run)])
            m = g.send(None)
    except StopIteration:
        pass
    return {"msgs": got}


def impl_batch(cases_):
    plain = [c for c in cases_ if c.get("kind") not in ("runkey", "baseline")]
    obs = dict(zip((dc.case_key(c) for c in plain), ec.impl_batch(plain)))
    special = {"runkey": run_runkey, "baseline": run_baseline}
    return [special[c["kind"]](c) if c.get("kind") in special else obs[dc.case_key(c)] for c in cases_]


def coq_term(case, obs):
    if case.get("kind") == "baseline":
        return None
    if case.get("kind") != "runkey":
        return dc.coq_term(case, obs)

    def ok(c):
        return "None" if c is None else "(Some %d)" % c
    plan = "[" + "; ".join("(%d, %s)" % (i, ok(key_code(k))) for i, k in enumerate(case["msgs"])) + "]"
    exp = "[" + "; ".join(ok(m[2]) for m in obs["msgs"]) + "]"
    ks = "[" + "; ".join(str(key_code(k)) for k in case["keys"]) + "]"
    return "check_runkeys %s %s %s" % (ks, plan, exp)


def oracle(case, obs):
    if case.get("kind") == "baseline":
        return oracle_baseline(case, obs)
    if case.get("kind") == "runkey":
        # every message arrives, in order, unchanged but for the run key: a key that was set (0 and '' included)
        # is kept, an unset one becomes the key of the innermost wrapper
        got = obs["msgs"]
        if [m[1] for m in got] != [[i] for i in range(len(case["msgs"]))] or any(m[0] != "null" for m in got):
            return "messages lost, added, reordered or altered: %r" % ([m[:2] for m in got],)
        inner = case["keys"][-1]
        for i, (k, m) in enumerate(zip(case["msgs"], got)):
            want = k if k is not None else inner
            if m[2] != key_code(want) or m[3] != repr(want):
                return "message %d had run key %r, wrappers %r: arrives with run key %s, expected %r" % (i, k, case["keys"], m[3], want)
        return None
    e = dc.driver_error(obs)
    if e:
        return e
    res = dc.mon(case, obs)
    # every message applied to the run with its key; duplicate open refused without effect;
    # each run's documents satisfy the lifecycle and numbering guarantees on their own
    return dc.docs_monitor.first(res, ("keys", "grammar", "number", "retake", "intr"))


def finding(case, obs):
    return None


def describe(case):
    return case["kind"] if case.get("kind") in ("runkey", "baseline") else ec.describe(case)


def nontrivial(case, obs):
    if case.get("kind") == "baseline":
        return True
    if case.get("kind") == "runkey":
        return any(k is not None for k in case["msgs"]) and len(case["keys"]) == 2
    keys = {o[2]["run"] for o in obs.get("obs", []) if o[0] == "msg" and o[2]["cmd"] == "open_run"}
    return len(keys) > 1
